(* C09 - proofs about the STDP-family trainer model of C08 (C08/Stdp.v, reused unchanged) over the reals:
   A. INVARIANT: every recorded trace stays >= 0 along every run (amplitudes are |lr|, 1 or |beta/alpha|; decays are
      exponentials), hence both parts of every trainer call - and of the accumulator - are >= 0, for every history,
      batch, signal, reduction and all four sign modes;
   B. the parts are exactly the split of the signed rule by the sign of the rate (times the reward): Hebbian signs send
      the post-triggered (causal) term to potentiation; a negated reward swaps the parts; a per-sample reward is the sum
      of the single-sample splits;
   C. over whole runs: the accumulated potentiating / depressing parts of pair STDP are the pair sums of the terms with
      non-negative / negative rate. *)
From Coq Require Import List ZArith Bool Reals Lra Lia Arith.
From Inferno Require Import Base.Num Base.NumR Gen.Trace Gen.Infra Gen.Interpolation C08.Stdp C08.StdpSpec C08.StdpProofs.
Import ListNotations.
Open Scope R_scope.
Local Notation exp := Rtrigo_def.exp.

Definition nn (x : R) : Prop := 0 <= x.
Definition all_nn (l : list R) : Prop := Forall nn l.

(* ================================================================== A. the invariant *)
Record state_nn (s : sstate RN) : Prop := mkNN {
  nn_tr_pre : all_nn (s_tr_pre RN s); nn_tr_post : all_nn (s_tr_post RN s);
  nn_tr_pre_slow : all_nn (s_tr_pre_slow RN s); nn_tr_post_slow : all_nn (s_tr_post_slow RN s);
  nn_elig_post : all_nn (s_elig_post RN s); nn_elig_pre : all_nn (s_elig_pre RN s)
}.

Lemma b2r_nn b : 0 <= b2r b.
Proof. destruct b; cbn; lra. Qed.
Lemma hd_nn l : all_nn l -> 0 <= hd 0 l.
Proof. intros H. destruct H; cbn; [lra|assumption]. Qed.
Lemma ov_hd_error_nn l : all_nn l -> 0 <= ov (hd_error l).
Proof. intros H. rewrite ov_hd_error. apply hd_nn. exact H. Qed.
Lemma nth_nn l i : all_nn l -> 0 <= nth i l 0.
Proof.
  intros H. revert i. induction H as [|x t Hx _ IH]; intros i; destruct i; cbn; try lra; [exact Hx | apply IH].
Qed.
Lemma rd_nn n l i : all_nn l -> 0 <= rd (zero RN) n l i.
Proof. intros H. unfold rd. apply (nth_nn l _ H). Qed.
Lemma decay_pos dt tc : 0 < decay_of RN dt tc.
Proof. unfold decay_of. rn_simpl. apply exp_pos. Qed.
Lemma view_nn off dt tc n l i : all_nn l -> 0 <= view RN off dt tc n l i.
Proof.
  intros H. unfold view. destruct off as [sa|]; [|apply rd_nn; exact H].
  unfold interp_expdecay. rn_simpl. apply Rmult_le_pos; [apply (rd_nn n l i H) | left; apply exp_pos].
Qed.

Lemma trace_fold_nn m d a o st : 0 <= d -> 0 <= a -> 0 <= ov st -> 0 <= trace_fold RN m d a o st.
Proof.
  intros Hd Ha Hs. destruct m.
  - rewrite trace_fold_cum. pose proof (b2r_nn o). nra.
  - rewrite trace_fold_near. destruct o; [exact Ha | nra].
Qed.
Lemma push_trace_nn m d a l o : 0 <= d -> 0 <= a -> all_nn l -> all_nn (push_trace RN m d a l o).
Proof.
  intros Hd Ha Hl. unfold push_trace. constructor; [|exact Hl]. apply trace_fold_nn; try assumption.
  apply ov_hd_error_nn. exact Hl.
Qed.
Lemma push_elig_nn d sc l x : 0 <= d -> 0 <= sc -> 0 <= x -> all_nn l -> all_nn (push_elig RN d sc l x).
Proof.
  intros Hd Hs Hx Hl. unfold push_elig. constructor; [|exact Hl]. rewrite elig_fold.
  pose proof (ov_hd_error_nn l Hl). unfold nn. apply Rplus_le_le_0_compat; apply Rmult_le_pos; assumption.
Qed.

(* amplitudes: |lr| of the opposite side, 1, or |beta / alpha| *)
Lemma amp_post_nn c : 0 <= amp_post RN c.
Proof. unfold amp_post. destruct (is_stable RN c); rn_simpl; [lra | apply Rabs_pos]. Qed.
Lemma amp_pre_nn c : 0 <= amp_pre RN c.
Proof. unfold amp_pre. destruct (is_stable RN c); rn_simpl; [lra | apply Rabs_pos]. Qed.
Lemma amp_post_slow_nn c : 0 <= amp_post_slow RN c.
Proof. unfold amp_post_slow. destruct (is_stable RN c); rn_simpl; [lra | apply Rabs_pos]. Qed.
Lemma amp_pre_slow_nn c : 0 <= amp_pre_slow RN c.
Proof. unfold amp_pre_slow. destruct (is_stable RN c); rn_simpl; [lra | apply Rabs_pos]. Qed.

(* the only hyperparameter the invariant needs: MSTDPET's eligibility scale 1/tc_eligibility must not be negative
   (the constructor demands tc_eligibility > 0) *)
Definition elig_ok (c : config RN) : Prop := c_trainer RN c = MSTDPET -> 0 <= c_tc_elig RN c.
Lemma hp_ok_elig_ok c : hp_ok RN c = true -> elig_ok c.
Proof.
  unfold hp_ok, elig_ok. intros H E. rewrite E in H. apply andb_prop in H. destruct H as [_ H].
  apply andb_prop in H. destruct H as [_ H]. unfold gtb in H. rn_simpl. destruct (Rltb'_spec 0 (c_tc_elig RN c)); [lra|discriminate].
Qed.

Lemma s_init_nn : state_nn (s_init RN).
Proof. constructor; constructor. Qed.

Lemma observe_nn c k s p q : elig_ok c -> state_nn s -> state_nn (observe RN c k s p q).
Proof.
  intros He [H1 H2 H3 H4 H5 H6].
  pose proof (fun dt tc => Rlt_le _ _ (decay_pos dt tc)) as Hd.
  assert (T1 : forall o, all_nn (push_trace RN (c_mode RN c) (decay_of RN (c_dt RN c) (c_tc_pre RN c)) (amp_pre RN c) (s_tr_pre RN s) o))
    by (intros; apply push_trace_nn; [apply Hd | apply amp_pre_nn | exact H1]).
  assert (T2 : all_nn (push_trace RN (c_mode RN c) (decay_of RN (c_dt RN c) (c_tc_post RN c)) (amp_post RN c) (s_tr_post RN s) q))
    by (apply push_trace_nn; [apply Hd | apply amp_post_nn | exact H2]).
  unfold observe. cbv zeta. constructor; cbn [s_tr_pre s_tr_post s_tr_pre_slow s_tr_post_slow s_elig_post s_elig_pre].
  - apply T1.
  - exact T2.
  - destruct (is_triplet RN c); [|exact H3]. apply push_trace_nn; [apply Hd | apply amp_pre_slow_nn | exact H3].
  - destruct (is_triplet RN c); [|exact H4]. apply push_trace_nn; [apply Hd | apply amp_post_slow_nn | exact H4].
  - destruct (c_trainer RN c) eqn:E; try exact H5.
    apply push_elig_nn; [apply Hd | | | exact H5].
    + rn_simpl. specialize (He E). unfold Rdiv. rewrite Rmult_1_l.
      destruct (Req_dec (c_tc_elig RN c) 0) as [Z|Z]; [rewrite Z, Rinv_0; lra|].
      left. apply Rinv_0_lt_compat. lra.
    + rn_simpl. rewrite b2t_RN. apply Rmult_le_pos; [apply hd_nn; apply T1 | apply b2r_nn].
  - destruct (c_trainer RN c) eqn:E; try exact H6.
    apply push_elig_nn; [apply Hd | | | exact H6].
    + rn_simpl. specialize (He E). unfold Rdiv. rewrite Rmult_1_l.
      destruct (Req_dec (c_tc_elig RN c) 0) as [Z|Z]; [rewrite Z, Rinv_0; lra|].
      left. apply Rinv_0_lt_compat. lra.
    + rn_simpl. rewrite b2t_RN. apply Rmult_le_pos; [apply hd_nn; exact T2 | apply b2r_nn].
Qed.

(* both partial updates of a sample are >= 0 *)
Lemma partials_nn c k s : state_nn s -> 0 <= fst (partials RN c k s) /\ 0 <= snd (partials RN c k s).
Proof.
  intros [H1 H2 H3 H4 H5 H6]. unfold partials. cbv zeta.
  set (x_pre := if del_fwd RN c then view RN (c_off RN c) (c_dt RN c) (c_tc_pre RN c) (sz_tr_pre RN c) (s_tr_pre RN s) k
                else hd (zero RN) (s_tr_pre RN s)).
  assert (Xp : 0 <= x_pre) by (unfold x_pre; destruct (del_fwd RN c); [apply view_nn | apply hd_nn]; exact H1).
  assert (Xq : 0 <= hd (zero RN) (s_tr_post RN s)) by (apply hd_nn; exact H2).
  set (x_b := if del_fwd RN c
              then view RN (c_off RN c) (c_dt RN c) (c_tc_pre_slow RN c) (sz_tr_pre_slow RN c) (s_tr_pre_slow RN s) (k + 1)
              else rd (zero RN) (sz_tr_pre_slow RN c) (s_tr_pre_slow RN s) 1).
  assert (Xb : 0 <= x_b) by (unfold x_b; destruct (del_fwd RN c); [apply view_nn | apply rd_nn]; exact H3).
  assert (Yb : 0 <= rd (zero RN) (sz_tr_post_slow RN c) (s_tr_post_slow RN s) 1) by (apply rd_nn; exact H4).
  set (y_b := rd (zero RN) (sz_tr_post_slow RN c) (s_tr_post_slow RN s) 1) in *.
  set (x_post := hd (zero RN) (s_tr_post RN s)) in *.
  pose proof (fun b => b2r_nn b) as Hb.
  destruct (c_trainer RN c); cbn [fst snd]; rn_simpl; rewrite ?b2t_RN.
  - split; apply Rmult_le_pos; auto.
  - split; (apply Rmult_le_pos; [auto | apply Rmult_le_pos; [assumption | apply Rabs_pos]]).
  - split; (apply Rmult_le_pos; [apply Rmult_le_pos; [lra | auto] | assumption]).
  - unfold lr_post3_abs, lr_pre3_abs. rn_simpl.
    pose proof (Rabs_pos (c_lr_post RN c)). pose proof (Rabs_pos (c_lr_pre RN c)).
    pose proof (Rabs_pos (c_lr_post3 RN c)). pose proof (Rabs_pos (c_lr_pre3 RN c)).
    split; (apply Rmult_le_pos; [apply Rmult_le_pos; [nra | auto] | assumption]).
  - split; apply Rmult_le_pos; auto.
  - split; apply hd_nn; assumption.
Qed.

(* the batch reductions keep signs *)
Lemma tmaxl_nn l : all_nn l -> 0 <= tmaxl RN l.
Proof.
  induction 1 as [|x t Hx Ht IH]; [cbn; rn_simpl; lra|]. cbn [tmaxl]. destruct t as [|y t']; [exact Hx|].
  unfold tmax. rn_simpl. destruct (Rltb' x (tmaxl RN (y :: t'))); [exact IH | exact Hx].
Qed.
Lemma reduce_nn r l : all_nn l -> 0 <= reduce RN r l.
Proof.
  intros H. destruct r; cbn [reduce].
  - rewrite tsum_RN. induction H as [|x t Hx _ IH]; cbn; [lra | unfold nn in Hx; lra].
  - rewrite tsum_RN. rn_simpl. rewrite <- INR_IZR_INZ.
    assert (S : 0 <= rsum l) by (induction H as [|x t Hx _ IH]; cbn; [lra | unfold nn in Hx; lra]).
    pose proof (pos_INR (length l)). unfold Rdiv.
    destruct (Req_dec (INR (length l)) 0) as [E|E]; [rewrite E, Rinv_0; lra|].
    apply Rmult_le_pos; [exact S | left; apply Rinv_0_lt_compat; lra].
  - apply tmaxl_nn. exact H.
Qed.
Lemma reduce_opt_nn r l : all_nn l -> 0 <= ov (reduce_opt RN r l).
Proof. intros H. destruct l; [cbn; lra|]. cbn [reduce_opt ov]. apply reduce_nn. exact H. Qed.
Lemma pick_nn f sig l : all_nn l -> all_nn (pick RN f sig l).
Proof.
  intros H. revert sig. induction H as [|x t Hx _ IH]; intros sig; destruct sig as [|s sg]; cbn [pick]; try constructor.
  destruct (f s); [constructor; [exact Hx | apply IH] | apply IH].
Qed.
Lemma route_nn bp bq x y : 0 <= x -> 0 <= y -> 0 <= ov (fst (route RN bp bq x y)) /\ 0 <= ov (snd (route RN bp bq x y)).
Proof. intros Hx Hy. destruct bp, bq; cbn; rn_simpl; split; lra. Qed.

Definition parts_nn (o : option R * option R) : Prop := 0 <= ov (fst o) /\ 0 <= ov (snd o).

Lemma scaled_nn (l sc : list R) : all_nn l -> all_nn sc ->
  all_nn (map (fun xs : T RN * T RN => mul RN (fst xs) (snd xs)) (combine l sc)).
Proof.
  intros Hl. revert sc. induction Hl as [|x t Hx _ IH]; intros sc Hs; [constructor|].
  destruct Hs as [|s st Hs Hst]; [constructor|]. cbn [combine map]. constructor; [|apply IH; exact Hst].
  cbn [fst snd]. rn_simpl. apply Rmult_le_pos; assumption.
Qed.

(* one trainer call: both parts handed to the updater are >= 0 *)
Theorem forward_parts_nonneg c k sg ss : Forall state_nn ss -> parts_nn (forward RN c k sg ss).
Proof.
  intros Hs.
  assert (Hp : all_nn (map fst (map (partials RN c k) ss)) /\ all_nn (map snd (map (partials RN c k) ss))).
  { induction Hs as [|s t Hs1 _ [IH1 IH2]]; [split; constructor|]. cbn [map].
    destruct (partials_nn c k s Hs1) as [A B]. split; constructor; assumption. }
  destruct Hp as [Hp1 Hp2]. unfold forward. cbv zeta. destruct sg as [|sv scale|sv scale].
  - apply route_nn; apply reduce_nn; assumption.
  - apply route_nn; rn_simpl; (apply Rmult_le_pos; [apply reduce_nn; assumption | apply Rabs_pos]).
  - assert (Hsc : all_nn (map (fun s : T RN => abs RN (mul RN s scale)) sv))
      by (apply Forall_map, Forall_forall; intros; rn_simpl; apply Rabs_pos).
    pose proof (scaled_nn _ _ Hp1 Hsc) as D1. pose proof (scaled_nn _ _ Hp2 Hsc) as D2.
    set (dposts' := map (fun xs : T RN * T RN => mul RN (fst xs) (snd xs)) (combine (map fst (map (partials RN c k) ss)) _)) in *.
    set (dpres' := map (fun xs : T RN * T RN => mul RN (fst xs) (snd xs)) (combine (map snd (map (partials RN c k) ss)) _)) in *.
    assert (P : forall f g l1 l2, all_nn l1 -> all_nn l2 -> all_nn (pick RN f sv l1 ++ pick RN g sv l2))
      by (intros; apply Forall_app; split; apply pick_nn; assumption).
    destruct (nonneg RN (c_lr_post RN c)), (nonneg RN (c_lr_pre RN c)); split; cbn [fst snd];
      apply reduce_opt_nn; apply P; assumption.
Qed.

(* FLAGSHIP A: along every run of a fresh cell - any batch size, any spike history, any signal sequence (none, scalar,
   per-sample), any reduction, any sign combination of the learning rates, delays on or off the step grid - every
   trainer call hands two non-negative parts to the updater *)
Lemma run_parts_nonneg_from c k inps : elig_ok c -> forall ss, Forall state_nn ss ->
  Forall parts_nn (run RN c k ss inps).
Proof.
  intros He. induction inps as [|i tl IH]; intros ss Hs; [constructor|].
  cbn [run]. unfold step. cbv zeta.
  set (ss' := map (fun sx => observe RN c k (fst sx) (fst (snd sx)) (snd (snd sx))) (combine ss (fst i))).
  assert (Hs' : Forall state_nn ss').
  { unfold ss'. apply Forall_map. apply Forall_forall. intros [s pq] Hin. cbn [fst snd].
    apply observe_nn; [exact He|]. apply in_combine_l in Hin. rewrite Forall_forall in Hs. apply Hs. exact Hin. }
  constructor; [apply forward_parts_nonneg; exact Hs' | apply IH; exact Hs'].
Qed.
Theorem stdp_run_parts_nonneg c k B inps : elig_ok c ->
  Forall parts_nn (run RN c k (init_batch RN B) inps).
Proof.
  intros He. apply run_parts_nonneg_from; [exact He|]. unfold init_batch. apply Forall_forall. intros s Hin.
  apply repeat_spec in Hin. subst. apply s_init_nn.
Qed.

(* ... and so are the accumulated parts after every call (Accumulator.pos / .neg) *)
Lemma accumulate_nn outs : forall a, parts_nn a -> Forall parts_nn outs -> Forall parts_nn (accumulate RN a outs).
Proof.
  induction outs as [|o tl IH]; intros a Ha Ho; [constructor|]. inversion Ho; subst. cbn [accumulate].
  assert (Ha' : parts_nn (acc_add RN (fst a) (fst o), acc_add RN (snd a) (snd o))).
  { destruct Ha as [A1 A2]. destruct H1 as [O1 O2]. split; cbn [fst snd]; rewrite ov_acc_add; lra. }
  constructor; [exact Ha' | apply IH; assumption].
Qed.
Lemma last_in_cons {A} (x d : A) l : In (last (x :: l) d) (x :: l).
Proof.
  revert x. induction l as [|y l IH]; intros x; [left; reflexivity|].
  change (last (x :: y :: l) d) with (last (y :: l) d). right. apply IH.
Qed.
Theorem stdp_acc_parts_nonneg c k B inps : elig_ok c ->
  Forall parts_nn (accumulate RN (None, None) (run RN c k (init_batch RN B) inps)) /\
  parts_nn (final_acc RN (run RN c k (init_batch RN B) inps)).
Proof.
  intros He.
  assert (H : Forall parts_nn (accumulate RN (None, None) (run RN c k (init_batch RN B) inps))).
  { apply accumulate_nn; [split; cbn; lra | apply stdp_run_parts_nonneg; exact He]. }
  split; [exact H|]. unfold final_acc.
  destruct (accumulate RN (None, None) (run RN c k (init_batch RN B) inps)) as [|x l]; [split; cbn; lra|].
  rewrite Forall_forall in H. apply H. apply last_in_cons.
Qed.

(* ================================================================== B. the parts are the split of the signed rule *)
Definition ind (b : bool) : R := if b then 1 else 0.

Lemma route_parts bp bq x y :
  ov (fst (route RN bp bq x y)) = ind bp * x + ind bq * y /\
  ov (snd (route RN bp bq x y)) = ind (negb bp) * x + ind (negb bq) * y.
Proof. destruct bp, bq; cbn; rn_simpl; split; lra. Qed.

Section Split.
Variable c : config RN.
Variable k : nat.
Local Notation dposts ss := (map fst (map (partials RN c k) ss)).
Local Notation dpres ss := (map snd (map (partials RN c k) ss)).
Local Notation Rd l := (reduce RN (c_red RN c) l).

(* two-factor call: the post-triggered term goes to potentiation iff lr_post >= 0, the pre-triggered one iff lr_pre >= 0 *)
Theorem stdp_parts_none ss :
  let o := forward RN c k (SigNone RN) ss in
  ov (fst o) = ind (nonneg RN (c_lr_post RN c)) * Rd (dposts ss) + ind (nonneg RN (c_lr_pre RN c)) * Rd (dpres ss) /\
  ov (snd o) = ind (negb (nonneg RN (c_lr_post RN c))) * Rd (dposts ss) + ind (negb (nonneg RN (c_lr_pre RN c))) * Rd (dpres ss).
Proof. cbv zeta. unfold forward. cbv zeta. apply route_parts. Qed.

(* three-factor call, one reward for the batch: routed by the sign of rate x reward, scaled by |reward x scale| *)
Theorem stdp_parts_scalar sv scale ss :
  let o := forward RN c k (SigScalar RN sv scale) ss in
  ov (fst o) = ind (nonneg RN (c_lr_post RN c * sv)) * (Rd (dposts ss) * Rabs (sv * scale))
             + ind (nonneg RN (c_lr_pre RN c * sv)) * (Rd (dpres ss) * Rabs (sv * scale)) /\
  ov (snd o) = ind (negb (nonneg RN (c_lr_post RN c * sv))) * (Rd (dposts ss) * Rabs (sv * scale))
             + ind (negb (nonneg RN (c_lr_pre RN c * sv))) * (Rd (dpres ss) * Rabs (sv * scale)).
Proof. cbv zeta. unfold forward. cbv zeta. apply route_parts. Qed.

(* net effect without bounding: potentiation minus depression is the signed rule (sgn(lr) |.| = lr is inside the traces) *)
Theorem stdp_net_none ss :
  net (forward RN c k (SigNone RN) ss) = sgn (c_lr_post RN c) * Rd (dposts ss) + sgn (c_lr_pre RN c) * Rd (dpres ss).
Proof.
  destruct (stdp_parts_none ss) as [E1 E2]. cbv zeta in *. unfold net.
  etransitivity; [exact (f_equal2 Rminus E1 E2)|]. unfold sgn, ind.
  destruct (nonneg RN (c_lr_post RN c)), (nonneg RN (c_lr_pre RN c)); cbn [negb]; lra.
Qed.
Theorem stdp_net_scalar sv scale ss :
  net (forward RN c k (SigScalar RN sv scale) ss)
  = sgn (c_lr_post RN c * sv) * (Rd (dposts ss) * Rabs (sv * scale)) + sgn (c_lr_pre RN c * sv) * (Rd (dpres ss) * Rabs (sv * scale)).
Proof.
  destruct (stdp_parts_scalar sv scale ss) as [E1 E2]. cbv zeta in *. unfold net.
  etransitivity; [exact (f_equal2 Rminus E1 E2)|]. unfold sgn, ind.
  destruct (nonneg RN (c_lr_post RN c * sv)), (nonneg RN (c_lr_pre RN c * sv)); cbn [negb]; lra.
Qed.

(* Hebbian signs (lr_post >= 0 > lr_pre): the potentiating part IS the post-triggered term (a postsynaptic spike paired
   with the presynaptic trace: pre-before-post, causal), the depressing part IS the pre-triggered (anti-causal) term *)
Theorem hebbian_causal_is_potentiation ss : 0 <= c_lr_post RN c -> c_lr_pre RN c < 0 ->
  forward RN c k (SigNone RN) ss = (Some (Rd (dposts ss)), Some (Rd (dpres ss))).
Proof.
  intros H1 H2. unfold forward. cbv zeta. unfold nonneg, geb. rn_simpl.
  destruct (Rleb'_spec 0 (c_lr_post RN c)); [|lra]. destruct (Rleb'_spec 0 (c_lr_pre RN c)); [lra|]. reflexivity.
Qed.
(* anti-Hebbian signs: the other way round *)
Theorem antihebbian_causal_is_depression ss : c_lr_post RN c < 0 -> 0 <= c_lr_pre RN c ->
  forward RN c k (SigNone RN) ss = (Some (Rd (dpres ss)), Some (Rd (dposts ss))).
Proof.
  intros H1 H2. unfold forward. cbv zeta. unfold nonneg, geb. rn_simpl.
  destruct (Rleb'_spec 0 (c_lr_post RN c)); [lra|]. destruct (Rleb'_spec 0 (c_lr_pre RN c)); [|lra]. reflexivity.
Qed.

(* a negated reward swaps potentiation and depression (rates and reward non-zero) *)
Definition swap (o : option R * option R) := (snd o, fst o).
Lemma nonneg_opp x : x <> 0 -> nonneg RN (- x) = negb (nonneg RN x).
Proof. intros H. unfold nonneg, geb. rn_simpl. destruct (Rleb'_spec 0 (- x)); destruct (Rleb'_spec 0 x); cbn; try reflexivity; lra. Qed.
Lemma route_negb bp bq x y : route RN (negb bp) (negb bq) x y = swap (route RN bp bq x y).
Proof. destruct bp, bq; cbn; unfold swap; cbn; try reflexivity; rn_simpl; f_equal; f_equal; lra. Qed.
Theorem reward_flip sv scale ss : c_lr_post RN c <> 0 -> c_lr_pre RN c <> 0 -> sv <> 0 ->
  ov (fst (forward RN c k (SigScalar RN (- sv) scale) ss)) = ov (snd (forward RN c k (SigScalar RN sv scale) ss)) /\
  ov (snd (forward RN c k (SigScalar RN (- sv) scale) ss)) = ov (fst (forward RN c k (SigScalar RN sv scale) ss)).
Proof.
  intros H1 H2 H3.
  destruct (stdp_parts_scalar (- sv) scale ss) as [A1 A2]. destruct (stdp_parts_scalar sv scale ss) as [B1 B2].
  cbv zeta in *. rewrite A1, A2, B1, B2.
  replace (c_lr_post RN c * - sv) with (- (c_lr_post RN c * sv)) by ring.
  replace (c_lr_pre RN c * - sv) with (- (c_lr_pre RN c * sv)) by ring.
  rewrite !nonneg_opp by (apply Rmult_integral_contrapositive_currified; assumption).
  replace (- sv * scale) with (- (sv * scale)) by ring. rewrite Rabs_Ropp, !negb_involutive. split; reflexivity.
Qed.
End Split.

(* per-sample reward, sum reduction: the parts are the sums over the samples of the parts each sample would get alone
   with its own reward as a scalar signal *)
Section PerSample.
Variable c : config RN.
Variable k : nat.
Hypothesis Hr : c_red RN c = RSum.
Hypothesis Hpost : c_lr_post RN c <> 0.
Hypothesis Hpre : c_lr_pre RN c <> 0.

Lemma nonneg_mul_cases lr s : lr <> 0 ->
  (s = 0) \/ (nonneg RN (lr * s) = if nonneg RN lr then nonneg RN s else ltb RN s (zero RN)).
Proof.
  intros Hl. destruct (Req_dec s 0) as [E|E]; [left; exact E|right].
  unfold nonneg, geb. rn_simpl.
  destruct (Rleb'_spec 0 (lr * s)); destruct (Rleb'_spec 0 lr); destruct (Rleb'_spec 0 s); destruct (Rltb'_spec s 0);
    try reflexivity; try lra; exfalso; nra.
Qed.

Lemma tensor_single s g st :
  let o := forward RN c k (SigTensor RN [s] g) [st] in
  let o' := forward RN c k (SigScalar RN s g) [st] in
  ov (fst o) = ov (fst o') /\ ov (snd o) = ov (snd o').
Proof.
  cbv zeta. destruct (stdp_parts_scalar c k s g [st]) as [B1 B2]. cbv zeta in B1, B2. rewrite B1, B2. clear B1 B2.
  unfold forward. cbv zeta. rewrite Hr. cbn [map combine pick].
  rewrite !reduce_single.
  set (dp := fst (partials RN c k st)). set (dq := snd (partials RN c k st)). rn_simpl.
  destruct (nonneg_mul_cases (c_lr_post RN c) s Hpost) as [Z|E1].
  { subst s. rewrite !Rmult_0_r, !Rmult_0_l, Rabs_R0, !Rmult_0_r.
    destruct (nonneg RN (c_lr_post RN c)), (nonneg RN (c_lr_pre RN c)), (nonneg RN 0), (Rltb' 0 0);
      cbn [app reduce_opt ov reduce tsum fst snd]; rn_simpl; split; lra. }
  destruct (nonneg_mul_cases (c_lr_pre RN c) s Hpre) as [Z|E2].
  { subst s. rewrite !Rmult_0_r, !Rmult_0_l, Rabs_R0, !Rmult_0_r.
    destruct (nonneg RN (c_lr_post RN c)), (nonneg RN (c_lr_pre RN c)), (nonneg RN 0), (Rltb' 0 0);
      cbn [app reduce_opt ov reduce tsum fst snd]; rn_simpl; split; lra. }
  rewrite E1, E2. rn_simpl. change (Rltb' s 0) with (ltb RN s (zero RN)). rewrite !isneg_nonneg.
  destruct (nonneg RN (c_lr_post RN c)), (nonneg RN (c_lr_pre RN c)), (nonneg RN s);
    cbn [negb app reduce_opt ov reduce tsum fst snd ind]; rn_simpl; split; lra.
Qed.

(* the parts of a per-sample call, written as sums over the samples *)
Lemma filter_rsum {A} (f : A -> bool) (phi : A -> R) Z :
  rsum (map phi (filter f Z)) = rsum (map (fun z => ind (f z) * phi z) Z).
Proof.
  induction Z as [|z Z IH]; [reflexivity|]. cbn [filter map rsum]. destruct (f z); cbn [map rsum ind]; rewrite IH; lra.
Qed.
Local Notation fp := (fun s => fst (partials RN c k s)).
Local Notation sp := (fun s => snd (partials RN c k s)).
Definition selp (lr s : R) : bool := if nonneg RN lr then nonneg RN s else ltb RN s (zero RN).
Definition seln (lr s : R) : bool := if nonneg RN lr then ltb RN s (zero RN) else nonneg RN s.
Definition tpos (g : R) (z : sstate RN * R) : R :=
  ind (selp (c_lr_post RN c) (snd z)) * (fp (fst z) * Rabs (snd z * g)) + ind (selp (c_lr_pre RN c) (snd z)) * (sp (fst z) * Rabs (snd z * g)).
Definition tneg (g : R) (z : sstate RN * R) : R :=
  ind (seln (c_lr_post RN c) (snd z)) * (fp (fst z) * Rabs (snd z * g)) + ind (seln (c_lr_pre RN c) (snd z)) * (sp (fst z) * Rabs (snd z * g)).

Lemma tensor_parts_formula sv g ss :
  ov (fst (forward RN c k (SigTensor RN sv g) ss)) = rsum (map (tpos g) (combine ss sv)) /\
  ov (snd (forward RN c k (SigTensor RN sv g) ss)) = rsum (map (tneg g) (combine ss sv)).
Proof.
  unfold forward. rewrite Hr.
  set (phi1 := fun z : sstate RN * T RN => fp (fst z) * Rabs (snd z * g)).
  set (phi2 := fun z : sstate RN * T RN => sp (fst z) * Rabs (snd z * g)).
  assert (E1 : map (fun xs : T RN * T RN => mul RN (fst xs) (snd xs))
                 (combine (map fst (map (partials RN c k) ss)) (map (fun s : T RN => abs RN (mul RN s g)) sv))
               = map phi1 (combine ss sv)).
  { rewrite map_map, combine_map2, map_map. reflexivity. }
  assert (E2 : map (fun xs : T RN * T RN => mul RN (fst xs) (snd xs))
                 (combine (map snd (map (partials RN c k) ss)) (map (fun s : T RN => abs RN (mul RN s g)) sv))
               = map phi2 (combine ss sv)).
  { rewrite map_map, combine_map2, map_map. reflexivity. }
  cbv zeta. rewrite E1, E2, !pick_combine. unfold tpos, tneg, selp, seln.
  set (Z := combine ss sv).
  pose proof (fun f (phi : sstate RN * T RN -> R) => filter_rsum f phi Z) as FR.
  assert (SP : forall (u v : sstate RN * T RN -> R), rsum (map u Z) + rsum (map v Z) = rsum (map (fun z => u z + v z) Z))
    by (intros; symmetry; apply rsum_map_plus).
  destruct (nonneg RN (c_lr_post RN c)), (nonneg RN (c_lr_pre RN c)); cbn [fst snd];
    rewrite !ov_reduce_opt_sum, !rsum_app, !FR, !SP; split; reflexivity.
Qed.

(* per-sample reward = every sample handled alone with its own reward as a scalar, then summed - part by part *)
Theorem persample_split sv g ss :
  ov (fst (forward RN c k (SigTensor RN sv g) ss))
  = rsum (map (fun z => ov (fst (forward RN c k (SigScalar RN (snd z) g) [fst z]))) (combine ss sv)) /\
  ov (snd (forward RN c k (SigTensor RN sv g) ss))
  = rsum (map (fun z => ov (snd (forward RN c k (SigScalar RN (snd z) g) [fst z]))) (combine ss sv)).
Proof.
  destruct (tensor_parts_formula sv g ss) as [F1 F2]. rewrite F1, F2.
  split; f_equal; apply map_ext; intros [st s]; cbn [fst snd].
  - destruct (tensor_single s g st) as [T1 _]. cbv zeta in T1. rewrite <- T1.
    destruct (tensor_parts_formula [s] g [st]) as [G1 _]. rewrite G1. cbn [combine map rsum fst snd]. lra.
  - destruct (tensor_single s g st) as [_ T2]. cbv zeta in T2. rewrite <- T2.
    destruct (tensor_parts_formula [s] g [st]) as [_ G2]. rewrite G2. cbn [combine map rsum fst snd]. lra.
Qed.
End PerSample.

(* batches (no reward or one reward for the batch): with the sum reduction each part is the sum over the samples of the
   part the sample would get alone, with the mean reduction their mean *)
Section BatchParts.
Variable c : config RN.
Variable k : nat.
Local Notation fp := (fun s => fst (partials RN c k s)).
Local Notation sp := (fun s => snd (partials RN c k s)).

Lemma single_parts sg : batch_signal sg ->
  exists a b a' b', (forall st, ov (fst (forward RN c k sg [st])) = a * fp st + b * sp st) /\
                    (forall st, ov (snd (forward RN c k sg [st])) = a' * fp st + b' * sp st) /\
                    (forall ss, ov (fst (forward RN c k sg ss)) = a * reduce RN (c_red RN c) (map fp ss) + b * reduce RN (c_red RN c) (map sp ss)) /\
                    (forall ss, ov (snd (forward RN c k sg ss)) = a' * reduce RN (c_red RN c) (map fp ss) + b' * reduce RN (c_red RN c) (map sp ss)).
Proof.
  intros Hs. destruct sg as [|sv g|sv g]; [| |destruct Hs].
  - exists (ind (nonneg RN (c_lr_post RN c))), (ind (nonneg RN (c_lr_pre RN c))),
           (ind (negb (nonneg RN (c_lr_post RN c)))), (ind (negb (nonneg RN (c_lr_pre RN c)))).
    repeat split; intros; [destruct (stdp_parts_none c k [st]) as [E _] | destruct (stdp_parts_none c k [st]) as [_ E]
                          | destruct (stdp_parts_none c k ss) as [E _] | destruct (stdp_parts_none c k ss) as [_ E]];
      cbv zeta in E; (etransitivity; [exact E|]); cbn [map]; rewrite ?reduce_single, ?map_map; reflexivity.
  - exists (ind (nonneg RN (c_lr_post RN c * sv)) * Rabs (sv * g)), (ind (nonneg RN (c_lr_pre RN c * sv)) * Rabs (sv * g)),
           (ind (negb (nonneg RN (c_lr_post RN c * sv))) * Rabs (sv * g)), (ind (negb (nonneg RN (c_lr_pre RN c * sv))) * Rabs (sv * g)).
    repeat split; intros; [destruct (stdp_parts_scalar c k sv g [st]) as [E _] | destruct (stdp_parts_scalar c k sv g [st]) as [_ E]
                          | destruct (stdp_parts_scalar c k sv g ss) as [E _] | destruct (stdp_parts_scalar c k sv g ss) as [_ E]];
      cbv zeta in E; (etransitivity; [exact E|]); cbn [map]; rewrite ?reduce_single, ?map_map; ring.
Qed.

Theorem batch_parts_sum sg ss : c_red RN c = RSum -> batch_signal sg ->
  ov (fst (forward RN c k sg ss)) = rsum (map (fun s => ov (fst (forward RN c k sg [s]))) ss) /\
  ov (snd (forward RN c k sg ss)) = rsum (map (fun s => ov (snd (forward RN c k sg [s]))) ss).
Proof.
  intros Hr Hs. destruct (single_parts sg Hs) as (a & b & a' & b' & S1 & S2 & B1 & B2).
  rewrite B1, B2, Hr, (map_ext _ _ S1), (map_ext _ _ S2), (reduce_sum (map fp ss)), (reduce_sum (map sp ss)).
  rewrite (rsum_lin a b fp sp), (rsum_lin a' b' fp sp). split; reflexivity.
Qed.
Theorem batch_parts_mean sg ss : c_red RN c = RMean -> batch_signal sg -> ss <> [] ->
  ov (fst (forward RN c k sg ss)) = rsum (map (fun s => ov (fst (forward RN c k sg [s]))) ss) / INR (length ss) /\
  ov (snd (forward RN c k sg ss)) = rsum (map (fun s => ov (snd (forward RN c k sg [s]))) ss) / INR (length ss).
Proof.
  intros Hr Hs Hne.
  assert (Hn : INR (length ss) <> 0) by (destruct ss; [congruence|apply not_0_INR; discriminate]).
  destruct (single_parts sg Hs) as (a & b & a' & b' & S1 & S2 & B1 & B2).
  rewrite B1, B2, Hr, (map_ext _ _ S1), (map_ext _ _ S2), (reduce_mean (map fp ss)), (reduce_mean (map sp ss)).
  rewrite (rsum_lin a b fp sp), (rsum_lin a' b' fp sp), !map_length. rn_simpl. split; field; exact Hn.
Qed.
End BatchParts.

(* ================================================================== C. whole runs: pair sums of the two parts *)
Definition pospart (x : R) : R := if Rle_dec 0 x then x else 0.
Definition negpart (x : R) : R := if Rle_dec 0 x then 0 else x.
Lemma pospart_ind x : ind (nonneg RN x) * Rabs x = pospart x.
Proof.
  unfold nonneg, geb, pospart, ind. rn_simpl. destruct (Rleb'_spec 0 x); destruct (Rle_dec 0 x); try lra.
  rewrite Rabs_right by lra. lra.
Qed.
Lemma negpart_ind x : ind (negb (nonneg RN x)) * Rabs x = - negpart x.
Proof.
  unfold nonneg, geb, negpart, ind. rn_simpl. destruct (Rleb'_spec 0 x); destruct (Rle_dec 0 x); cbn [negb]; try lra.
  rewrite Rabs_left by lra. lra.
Qed.

Fixpoint sum_fst (outs : list (option R * option R)) : R :=
  match outs with [] => 0 | o :: t => ov (fst o) + sum_fst t end.
Fixpoint sum_snd (outs : list (option R * option R)) : R :=
  match outs with [] => 0 | o :: t => ov (snd o) + sum_snd t end.
Lemma sum_fst_app a b : sum_fst (a ++ b) = sum_fst a + sum_fst b.
Proof. induction a as [|o a IH]; cbn; [lra|rewrite IH; lra]. Qed.
Lemma sum_snd_app a b : sum_snd (a ++ b) = sum_snd a + sum_snd b.
Proof. induction a as [|o a IH]; cbn; [lra|rewrite IH; lra]. Qed.
Lemma parts_accumulate outs : forall a,
  ov (fst (last (accumulate RN a outs) a)) = ov (fst a) + sum_fst outs /\
  ov (snd (last (accumulate RN a outs) a)) = ov (snd a) + sum_snd outs.
Proof.
  induction outs as [|o tl IH]; intros a; [cbn [accumulate last sum_fst sum_snd]; split; lra|].
  cbn [accumulate sum_fst sum_snd]. rewrite last_cons. destruct (IH (acc_add RN (fst a) (fst o), acc_add RN (snd a) (snd o))) as [E1 E2].
  split; [etransitivity; [exact E1|] | etransitivity; [exact E2|]]; cbn [fst snd]; rewrite ov_acc_add; rn_simpl; lra.
Qed.
(* Accumulator.pos / .neg at the end of a run are the sums of the parts of all calls *)
Lemma final_acc_sums outs :
  ov (fst (final_acc RN outs)) = sum_fst outs /\ ov (snd (final_acc RN outs)) = sum_snd outs.
Proof. unfold final_acc. destruct (parts_accumulate outs (None, None)) as [E1 E2]. cbn [fst snd ov] in *. split; lra. Qed.

Section Totals.
Variable c : config RN.
Variable k : nat.
Hypothesis G : grid_ok c k.
Hypothesis Ht : c_trainer RN c = STDP \/ c_trainer RN c = StableSTDP.
Local Notation dt := (c_dt RN c).
Local Notation m := (c_mode RN c).
Local Notation P h := (Ptr c k h).
Local Notation Q h := (Qtr h).

(* the two documented per-step terms with unit rates *)
Definition termA (h : list (bool * bool)) (t : nat) : R :=
  b2r (nth t (Q h) false) * partner_sum m dt (c_tc_pre RN c) (P h) t.      (* post spike x presynaptic partners: causal *)
Definition termD (h : list (bool * bool)) (t : nat) : R :=
  b2r (nth t (P h) false) * partner_sum m dt (c_tc_post RN c) (Q h) t.     (* pre arrival x postsynaptic partners *)

Lemma termA_prefix h pq t : (t < length h)%nat -> termA (h ++ [pq]) t = termA h t.
Proof.
  intros Hl. unfold termA. rewrite Ptr_snoc, Qtr_snoc.
  rewrite !app_nth1 by (rewrite ?Ptr_length, ?Qtr_length; exact Hl).
  rewrite !partner_sum_snoc by (rewrite ?Ptr_length, ?Qtr_length; exact Hl). reflexivity.
Qed.
Lemma termD_prefix h pq t : (t < length h)%nat -> termD (h ++ [pq]) t = termD h t.
Proof.
  intros Hl. unfold termD. rewrite Ptr_snoc, Qtr_snoc.
  rewrite !app_nth1 by (rewrite ?Ptr_length, ?Qtr_length; exact Hl).
  rewrite !partner_sum_snoc by (rewrite ?Ptr_length, ?Qtr_length; exact Hl). reflexivity.
Qed.

Lemma stdp_parts_steps h :
  sum_fst (outs_from c k [] (nosig h))
  = sum_steps (length h) (fun t => pospart (c_lr_post RN c) * termA h t + pospart (c_lr_pre RN c) * termD h t) /\
  sum_snd (outs_from c k [] (nosig h))
  = sum_steps (length h) (fun t => - negpart (c_lr_post RN c) * termA h t + - negpart (c_lr_pre RN c) * termD h t).
Proof.
  assert (Ht' : c_trainer RN c = STDP \/ c_trainer RN c = MSTDP \/ c_trainer RN c = StableSTDP) by (destruct Ht; auto).
  induction h as [|pq h IH] using rev_ind; [split; reflexivity|]. destruct IH as [IH1 IH2].
  unfold nosig in *. rewrite map_app. cbn [map].
  rewrite (outs_from_snoc0 c k), sum_fst_app, sum_snd_app, IH1, IH2. cbn [sum_fst sum_snd snd].
  rewrite app_length. cbn [length]. rewrite Nat.add_1_r. cbn [sum_steps].
  rewrite (sum_steps_ext (length h)
             (fun t => pospart (c_lr_post RN c) * termA (h ++ [pq]) t + pospart (c_lr_pre RN c) * termD (h ++ [pq]) t)
             (fun t => pospart (c_lr_post RN c) * termA h t + pospart (c_lr_pre RN c) * termD h t))
    by (intros; rewrite termA_prefix, termD_prefix by assumption; reflexivity).
  rewrite (sum_steps_ext (length h)
             (fun t => - negpart (c_lr_post RN c) * termA (h ++ [pq]) t + - negpart (c_lr_pre RN c) * termD (h ++ [pq]) t)
             (fun t => - negpart (c_lr_post RN c) * termA h t + - negpart (c_lr_pre RN c) * termD h t))
    by (intros; rewrite termA_prefix, termD_prefix by assumption; reflexivity).
  rewrite (map_app fst), map_map. cbn [map fst]. rewrite map_id.
  destruct (stdp_parts_none c k [state_of c k (rev (h ++ [pq]))]) as [E1 E2]. cbv zeta in E1, E2.
  pose proof (pospart_ind (c_lr_post RN c)) as P1. pose proof (pospart_ind (c_lr_pre RN c)) as P2.
  pose proof (negpart_ind (c_lr_post RN c)) as N1. pose proof (negpart_ind (c_lr_pre RN c)) as N2.
  split; (apply f_equal2; [reflexivity|]); rewrite Rplus_0_r; (etransitivity; [first [exact E1 | exact E2]|]);
    cbn [map]; rewrite !reduce_single;
    rewrite (partials_stdp c k (grid_syn c k G) (grid_pre c k G) (proj1 G) h pq Ht'); cbn [fst snd];
    unfold termA, termD; [rewrite <- P1, <- P2 | rewrite <- N1, <- N2]; ring.
Qed.

(* FLAGSHIP C: after any history, the accumulated potentiating part of pair-based STDP is the pair sum of the terms
   whose rate is >= 0 and the depressing part (a magnitude) is the pair sum of the terms whose rate is negative *)
Theorem stdp_parts_pairsum h :
  let a := final_acc RN (run RN c k (init_batch RN 1) (inps1 (nosig h))) in
  ov (fst a) = pospart (c_lr_post RN c) * pairsum m dt (c_tc_pre RN c) (fun _ => 1) (post_train h) (pre_train c k h)
             + pospart (c_lr_pre RN c) * pairsum m dt (c_tc_post RN c) (fun _ => 1) (pre_train c k h) (post_train h) /\
  ov (snd a) = - negpart (c_lr_post RN c) * pairsum m dt (c_tc_pre RN c) (fun _ => 1) (post_train h) (pre_train c k h)
             + - negpart (c_lr_pre RN c) * pairsum m dt (c_tc_post RN c) (fun _ => 1) (pre_train c k h) (post_train h).
Proof.
  cbv zeta. rewrite (run_single c k). destruct (final_acc_sums (outs_from c k [] (nosig h))) as [F1 F2].
  destruct (stdp_parts_steps h) as [S1 S2]. rewrite F1, F2, S1, S2.
  unfold pairsum. rewrite !sum_over_spike_times. unfold pre_train, post_train.
  rewrite shift_length, !map_length. rewrite <- (keff_grid c k G). fold (Ptr c k h). fold (Qtr h).
  unfold termA, termD. rewrite !sum_steps_plus, !sum_steps_scale.
  split; f_equal; f_equal; apply sum_steps_ext; intros; ring.
Qed.
End Totals.

(* Hebbian signs: LTP = eta_post x (sum over post spikes of their earlier-or-simultaneous presynaptic partners),
   LTD = |eta_pre| x (sum over arriving presynaptic spikes of their earlier-or-simultaneous postsynaptic partners) *)
Corollary hebbian_parts_pairsum c k h :
  grid_ok c k -> c_trainer RN c = STDP \/ c_trainer RN c = StableSTDP -> 0 <= c_lr_post RN c -> c_lr_pre RN c < 0 ->
  let a := final_acc RN (run RN c k (init_batch RN 1) (inps1 (nosig h))) in
  ov (fst a) = c_lr_post RN c * pairsum (c_mode RN c) (c_dt RN c) (c_tc_pre RN c) (fun _ => 1) (post_train h) (pre_train c k h) /\
  ov (snd a) = Rabs (c_lr_pre RN c) * pairsum (c_mode RN c) (c_dt RN c) (c_tc_post RN c) (fun _ => 1) (pre_train c k h) (post_train h).
Proof.
  intros G Ht H1 H2. destruct (stdp_parts_pairsum c k G Ht h) as [E1 E2]. cbv zeta in *. rewrite E1, E2.
  unfold pospart, negpart. destruct (Rle_dec 0 (c_lr_post RN c)); [|lra]. destruct (Rle_dec 0 (c_lr_pre RN c)); [lra|].
  rewrite Rabs_left by lra. split; ring.
Qed.
