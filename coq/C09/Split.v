(* C09 - what this property adds to the trainer models of C08 (coq/C08/Stdp.v: STDP, triplet, MSTDP, MSTDPET) and of
   C18 (coq/C18/DelayAdj.v: delay-adjusted and kernel trainers), which are reused unchanged:

   1. LinearHomeostasis (hand-transcribed: inferno/learn/trainers/homeostasis.py:175-196 monitor wiring,
      :199-267 forward; inferno/observe/reducers/stats.py:129-145 CAReducer.fold) for ONE parameter element: the
      element's "receptive" postsynaptic units (one unit for the linear connections' weights / delays / biases, the L
      output positions of filter f for a Conv2D kernel element or bias) for every sample of the batch.
   2. Accumulator.update (hand-transcribed: inferno/neural/modeling.py:196-231) with the three forms of `bind`:
      the default `p - n`, the two-slot list installed by upperbound / lowerbound, and the single function installed by
      fullbound; the bounding functions are the GENERATED kernels of Gen/Bounding.v.

   Definitions only (no proofs), so the model keeps running for the correspondence check when a proof breaks. *)
From Coq Require Import List ZArith Bool.
From Inferno Require Import Base.Num Gen.Bounding.
Import ListNotations.

Fixpoint zip2 {A B C : Type} (f : A -> B -> C) (la : list A) (lb : list B) : list C :=
  match la, lb with
  | a :: ta, b :: tb => f a b :: zip2 f ta tb
  | _, _ => []
  end.

Section Model.
Variable N : Num.
Local Notation R := (T N).

(* ================================================================== 1. LinearHomeostasis *)
Inductive hparam := PWeight | PBias | PDelay.
Inductive hred := HSum | HMean | HAmax.

(* state.batchreduce(., 0): torch.sum / torch.mean (the default) / torch.amax over the batch axis *)
Definition hreduce (k : hred) (l : list R) : R :=
  match k with
  | HSum => tsum N l
  | HMean => div N (tsum N l) (ofZ N (Z.of_nat (length l)))
  | HAmax => match l with [] => zero N | x :: t => fold_left (tmax N) t x end
  end.

(* CAReducer.fold (stats.py:129-145): self._count += 1 happens first, [count] is the incremented value.
   state = None: no prior observation. *)
Definition ca_fold (count : Z) (obs : bool) (state : option R) : R :=
  match state with
  | None => b2t N obs                                                  (* obs.to(dtype) *)
  | Some s => add N s (div N (sub N (b2t N obs) s) (ofZ N count))      (* state + (obs - state) / self._count *)
  end.

(* the spike_rate monitor of one cell restricted to the element's receptive units: [batch][receptive] *)
Record hstate := mkH { h_count : Z; h_rate : option (list (list R)) }.
Definition h_init : hstate := mkH 0 None.

(* one step of the layer in training mode: the monitor folds neuron.spike *)
Definition h_observe (st : hstate) (spikes : list (list bool)) : hstate :=
  let n := (h_count st + 1)%Z in
  mkH n (Some (match h_rate st with
               | None => map (map (fun o => ca_fold n o None)) spikes
               | Some r => zip2 (zip2 (fun o s => ca_fold n o (Some s))) spikes r
               end)).

(* (target - rate) / target, element-wise *)
Definition rate_term (target rate : R) : R := div N (sub N target rate) target.
(* postsyn_receptive(...).mean(dim=-1): mean over the element's receptive units of one sample *)
Definition h_kraw (targets rates : list R) : R :=
  div N (tsum N (zip2 rate_term targets rates)) (ofZ N (Z.of_nat (length rates))).
(* k = k * state.plasticity  (weight, bias);  k = k * -state.plasticity  (delay) *)
Definition h_scale (p : hparam) (lam k : R) : R :=
  match p with
  | PDelay => mul N k (opp N lam)
  | _ => mul N k lam
  end.
(* the per-sample scaled rate terms of the element *)
Definition h_ks (p : hparam) (lam : R) (targets rates : list (list R)) : list R :=
  zip2 (fun tg r => h_scale p lam (h_kraw tg r)) targets rates.

(* k.clamp_min(0.0), k.clamp_max(0.0) *)
Definition hclamp_min (x : R) : R := tmax N x (zero N).
Definition hclamp_max (x : R) : R := tmin N x (zero N).

Definition uparts := (option R * option R)%type.          (* (pos, neg) handed to the Updater; None = Python None *)

(* LinearHomeostasis.forward for the element: (batchreduce(k.clamp_min(0), 0), batchreduce(k.clamp_max(0), 0));
   like_bias only reshapes.  Both parts are always present. *)
Definition h_forward (rk : hred) (p : hparam) (lam : R) (targets rates : list (list R)) : uparts :=
  let ks := h_ks p lam targets rates in
  (Some (hreduce rk (map hclamp_min ks)), Some (hreduce rk (map hclamp_max ks))).

(* a run: every step the layer runs (the monitor folds the new spikes) and then trainer(target) is called.
   [targets]: the target rate seen by each (sample, receptive unit) - a float or a tensor broadcast by the harness. *)
Definition h_step (rk : hred) (p : hparam) (lam : R) (targets : list (list R)) (st : hstate)
           (spikes : list (list bool)) : hstate * uparts :=
  let st' := h_observe st spikes in
  (st', h_forward rk p lam targets (match h_rate st' with Some r => r | None => [] end)).
Fixpoint h_run (rk : hred) (p : hparam) (lam : R) (targets : list (list R)) (st : hstate)
         (steps : list (list (list bool))) : list (hstate * uparts) :=
  match steps with
  | [] => []
  | s :: tl => let r := h_step rk p lam targets st s in r :: h_run rk p lam targets (fst r) tl
  end.

(* the same with the target seen at every call given per step (forward(target) may pass a different explicit target at
   every call, or None to use the default): steps = [(targets_t, spikes_t)] *)
Fixpoint h_run_v (rk : hred) (p : hparam) (lam : R) (st : hstate)
         (steps : list (list (list R) * list (list bool))) : list (hstate * uparts) :=
  match steps with
  | [] => []
  | s :: tl => let r := h_step rk p lam (fst s) st (snd s) in r :: h_run_v rk p lam (fst r) tl
  end.

(* LinearHomeostasis.forward(target) over the cells of ONE trainer (hand-transcribed: homeostasis.py:223-240, after the
   repair 6f3edbb): per cell `cell_target = state.target if target is None else target`, RuntimeError when both are None
   (the None of the result).  [dflts]: the cells' state.target in registration order (None = no default). *)
Fixpoint targets_used (fwd : option R) (dflts : list (option R)) : list (option R) :=
  match dflts with
  | [] => []
  | d :: tl => (match fwd with None => d | Some _ => fwd end) :: targets_used fwd tl
  end.
(* the loop as it was BEFORE the repair: `if target is None: target = state.target` rebound the argument, so once a cell's
   default had been read it was what every later cell saw (kept as a refuted variant) *)
Fixpoint targets_used_old (cur : option R) (dflts : list (option R)) : list (option R) :=
  match dflts with
  | [] => []
  | d :: tl => let cur' := match cur with Some _ => cur | None => d end in cur' :: targets_used_old cur' tl
  end.
(* documented: the explicit target when given, else the cell's own default *)
Definition targets_doc (fwd : option R) (dflts : list (option R)) : list (option R) :=
  map (fun d => match fwd with Some _ => fwd | None => d end) dflts.

(* ================================================================== 1b. custom half kernels for the kernel trainers *)
(* The kernel trainers (KernelSTDP, DelayAdjustedKernelSTDP, DelayAdjustedKernelSTDPD; model C18/DelayAdj.kernel_fwd, which
   takes ARBITRARY half kernels) are exercised with user-supplied callables of the family
       K(t_delta) = c + (a_pos if t_delta >= 0 else a_neg) * exp(-|t_delta| / tc)
   (tools/impl/c09_impl.two_sided_kernel): constant kernels (a = 0), kernels non-zero on both sides of 0, kernels of
   mixed sign - so that kernel_post and kernel_pre overlap with opposite signs. *)
Definition two_sided (ap an c tc x : R) : R :=
  add N c (mul N (if geb N x (zero N) then ap else an) (exp N (div N (opp N (abs N x)) tc))).
(* batch reductions of the kernel stream: torch.sum / mean / amax / amin *)
Inductive kred := KSum | KMean | KAmax | KAmin.
Definition kreduce (k : kred) (l : list R) : R :=
  match k with
  | KSum => tsum N l
  | KMean => div N (tsum N l) (ofZ N (Z.of_nat (length l)))
  | KAmax => match l with [] => zero N | x :: t => fold_left (tmax N) t x end
  | KAmin => match l with [] => zero N | x :: t => fold_left (tmin N) t x end
  end.

(* ================================================================== 2. Accumulator *)
(* appending a part: `if value is not None: self._pos.append(value)`; pos = torch.sum(stack(parts), 0) or None *)
Definition part_add (a x : option R) : option R :=
  match x with
  | None => a
  | Some v => Some (match a with None => v | Some s => add N s v end)
  end.
Definition acc_push (a : uparts) (x : uparts) : uparts := (part_add (fst a) (fst x), part_add (snd a) (snd x)).
Definition acc_all (xs : list uparts) : uparts := fold_left acc_push xs (None, None).

(* the shipped half-bounding kernels the harness installs (any of them may sit in either slot) *)
Inductive halfk :=
| HMulU | HMulL                      (* bound_upper_multiplicative / bound_lower_multiplicative *)
| HSharpU | HSharpL                  (* bound_upper_sharp / bound_lower_sharp *)
| HSMulU (rg : R) | HSMulL (rg : R). (* bound_*_scaled_multiplicative(range=rg) *)
Definition half_apply (k : halfk) (lim x u : R) : R :=
  match k with
  | HMulU => bound_upper_multiplicative N x u lim
  | HMulL => bound_lower_multiplicative N x u lim
  | HSharpU => bound_upper_sharp N x u lim
  | HSharpL => bound_lower_sharp N x u lim
  | HSMulU rg => bound_upper_scaled_multiplicative N x u lim rg
  | HSMulL rg => bound_lower_scaled_multiplicative N x u lim rg
  end.
(* one slot of the list form: `lambda x, p: p` or `lambda x, p, ub=max, k=kwargs: bound(x, p, ub, **k)` *)
Inductive slot := SId | SBound (k : halfk) (lim : R).
Definition slot_apply (s : slot) (x u : R) : R :=
  match s with SId => u | SBound k lim => half_apply k lim x u end.

Inductive fullk := FMul | FSharp.
Definition full_apply (k : fullk) (mx mn : option R) (x p n : R) : R :=
  match k with
  | FMul => bound_multiplicative N x p n mx mn
  | FSharp => bound_sharp N x p n mx mn
  end.

Inductive bindT :=
| BDefault                                        (* lambda x, p, n: p - n *)
| BHalf (u l : slot)                              (* [bind[0], bind[1]] set by upperbound / lowerbound *)
| BFull (k : fullk) (mx mn : option R).           (* set by fullbound *)

(* the generic shape of Accumulator.update: [ub] is what the potentiating part goes through, [lb] the depressing one
   (list form), [fb] the single function (default / fullbound form) *)
Definition update_list (ub lb : R -> R -> R) (x : R) (a : uparts) : option R :=
  match a with
  | (Some p, Some n) => Some (sub N (ub x p) (lb x n))          (* bind[0](param, pos) - bind[1](param, neg) *)
  | (Some p, None) => Some (ub x p)                             (* bind[0](param, pos) *)
  | (None, Some n) => Some (opp N (lb x n))                     (* -bind[1](param, neg) *)
  | (None, None) => None
  end.
Definition update_fn (fb : R -> R -> R -> R) (x : R) (a : uparts) : option R :=
  match a with
  | (Some p, Some n) => Some (fb x p n)
  | (Some p, None) => Some (fb x p (zero N))                    (* bind(param, pos, zeros_like(pos)) *)
  | (None, Some n) => Some (fb x (zero N) n)                    (* bind(param, zeros_like(neg), neg) *)
  | (None, None) => None
  end.
Definition bind_update (b : bindT) (x : R) (a : uparts) : option R :=
  match b with
  | BDefault => update_fn (fun _ p n => sub N p n) x a
  | BHalf u l => update_list (slot_apply u) (slot_apply l) x a
  | BFull k mx mn => update_fn (full_apply k mx mn) x a
  end.
(* Accumulator.forward: param + update, or param *)
Definition bind_forward (b : bindT) (x : R) (a : uparts) : R :=
  match bind_update b x a with Some u => add N x u | None => x end.

End Model.

Arguments SId {N}.
Arguments BDefault {N}.
