(* C09 - proofs, part 3: compositions.
   A. MSTDP over whole runs: a term is potentiating exactly when (rate x reward) >= 0 - a negative reward flips it;
   B. trainer + updater: Hebbian STDP with soft bounds;
   C. the spike_rate monitor of LinearHomeostasis along a run holds spike count / steps for every unit, so
      "rate above target" is a statement about the spike history; the direction claim refuted in those terms. *)
From Coq Require Import List ZArith Bool Reals Lra Lia Arith.
From Inferno Require Import Base.Num Base.NumR Gen.Trace Gen.Infra Gen.Interpolation Gen.Bounding
     C08.Stdp C08.StdpSpec C08.StdpProofs C09.Split C09.HomeoProofs C09.StdpSplitProofs.
Import ListNotations.
Open Scope R_scope.

Lemma pv_ov o : pv o = ov o.
Proof. reflexivity. Qed.

(* ================================================================== A. MSTDP over whole runs *)
Lemma pos_mul_abs lr s g : ind (nonneg RN (lr * s)) * (Rabs lr * Rabs (s * g)) = pospart (lr * s) * Rabs g.
Proof. rewrite <- pospart_ind, !Rabs_mult. ring. Qed.
Lemma neg_mul_abs lr s g : ind (negb (nonneg RN (lr * s))) * (Rabs lr * Rabs (s * g)) = - negpart (lr * s) * Rabs g.
Proof. rewrite <- negpart_ind, !Rabs_mult. ring. Qed.

(* reward and |scale| given to the trainer at step t *)
Definition sigM (hx : list ((bool * bool) * (R * R))) (t : nat) : R := fst (nth t (map snd hx) (0, 0)).
Definition sigG (hx : list ((bool * bool) * (R * R))) (t : nat) : R := Rabs (snd (nth t (map snd hx) (0, 0))).

Section MstdpParts.
Variable c : config RN.
Variable k : nat.
Hypothesis G : grid_ok c k.
Hypothesis Ht : c_trainer RN c = MSTDP.
Local Notation lrp := (c_lr_post RN c).
Local Notation lrq := (c_lr_pre RN c).

Definition mpos (hx : list ((bool * bool) * (R * R))) (t : nat) : R :=
  pospart (lrp * sigM hx t) * sigG hx t * termA c k (map fst hx) t
  + pospart (lrq * sigM hx t) * sigG hx t * termD c k (map fst hx) t.
Definition mneg (hx : list ((bool * bool) * (R * R))) (t : nat) : R :=
  - negpart (lrp * sigM hx t) * sigG hx t * termA c k (map fst hx) t
  + - negpart (lrq * sigM hx t) * sigG hx t * termD c k (map fst hx) t.

Lemma sig_prefix hx x t : (t < length hx)%nat -> sigM (hx ++ [x]) t = sigM hx t /\ sigG (hx ++ [x]) t = sigG hx t.
Proof. intros Hl. unfold sigM, sigG. rewrite map_app, app_nth1 by (rewrite map_length; exact Hl). split; reflexivity. Qed.
Lemma sig_last hx x : sigM (hx ++ [x]) (length hx) = fst (snd x) /\ sigG (hx ++ [x]) (length hx) = Rabs (snd (snd x)).
Proof.
  unfold sigM, sigG. rewrite map_app. cbn [map]. replace (length hx) with (length (map snd hx)) by apply map_length.
  rewrite nth_middle. split; reflexivity.
Qed.
Lemma mpos_prefix hx x t : (t < length hx)%nat -> mpos (hx ++ [x]) t = mpos hx t /\ mneg (hx ++ [x]) t = mneg hx t.
Proof.
  intros Hl. unfold mpos, mneg. destruct (sig_prefix hx x t Hl) as [E1 E2]. rewrite E1, E2, map_app. cbn [map].
  rewrite termA_prefix, termD_prefix by (rewrite map_length; exact Hl). split; reflexivity.
Qed.

Lemma mstdp_parts_steps hx :
  sum_fst (outs_from c k [] (withsig hx)) = sum_steps (length hx) (mpos hx) /\
  sum_snd (outs_from c k [] (withsig hx)) = sum_steps (length hx) (mneg hx).
Proof.
  induction hx as [|x hx IH] using rev_ind; [split; reflexivity|]. destruct IH as [IH1 IH2].
  rewrite withsig_snoc, (outs_from_snoc0 c k), sum_fst_app, sum_snd_app, IH1, IH2. cbn [sum_fst sum_snd snd].
  rewrite app_length. cbn [length]. rewrite Nat.add_1_r. cbn [sum_steps].
  rewrite (sum_steps_ext _ (mpos (hx ++ [x])) (mpos hx)) by (intros; apply mpos_prefix; assumption).
  rewrite (sum_steps_ext _ (mneg (hx ++ [x])) (mneg hx)) by (intros; apply mpos_prefix; assumption).
  rewrite (map_app fst), withsig_fst. cbn [map fst].
  destruct (stdp_parts_scalar c k (fst (snd x)) (snd (snd x)) [state_of c k (rev (map fst hx ++ [fst x]))]) as [E1 E2].
  cbv zeta in E1, E2.
  pose proof (partials_stdp c k (grid_syn c k G) (grid_pre c k G) (proj1 G) (map fst hx) (fst x) (or_intror (or_introl Ht))) as Hp.
  cbv zeta in Hp.
  destruct (sig_last hx x) as [S1 S2].
  split; (apply f_equal2; [reflexivity|]); rewrite Rplus_0_r; (etransitivity; [first [exact E1 | exact E2]|]);
    cbn [map]; rewrite !reduce_single, Hp; cbn [fst snd]; unfold mpos, mneg; rewrite S1, S2, map_app; cbn [map];
    rewrite !map_length; unfold termA, termD;
    [rewrite <- !pos_mul_abs | rewrite <- !neg_mul_abs]; ring.
Qed.

(* every step's causal (post-triggered) term is potentiating iff lr_post x reward(t) >= 0, the pre-triggered one iff
   lr_pre x reward(t) >= 0; magnitudes carry |scale(t)|: a negative reward turns Hebbian potentiation into depression *)
Theorem mstdp_parts_run hx :
  let a := final_acc RN (run RN c k (init_batch RN 1) (inps1 (withsig hx))) in
  ov (fst a) = sum_steps (length hx) (mpos hx) /\ ov (snd a) = sum_steps (length hx) (mneg hx).
Proof.
  cbv zeta. rewrite (run_single c k). destruct (final_acc_sums (outs_from c k [] (withsig hx))) as [F1 F2].
  destruct (mstdp_parts_steps hx) as [S1 S2]. rewrite F1, F2. split; assumption.
Qed.
End MstdpParts.

(* ---- MSTDPET: the same with the eligibility-filtered streams z(t) = z(t - dt) exp(-dt/tau_z) + term(t)/tau_z *)
Section MstdpetParts.
Variable c : config RN.
Variable k : nat.
Hypothesis G : grid_ok c k.
Hypothesis Ht : c_trainer RN c = MSTDPET.
Local Notation lrp := (c_lr_post RN c).
Local Notation lrq := (c_lr_pre RN c).
Local Notation zA hx t := (elig (c_dt RN c) (c_tc_elig RN c) (termA c k (map fst hx)) t).
Local Notation zD hx t := (elig (c_dt RN c) (c_tc_elig RN c) (termD c k (map fst hx)) t).

Definition epos (hx : list ((bool * bool) * (R * R))) (t : nat) : R :=
  pospart (lrp * sigM hx t) * sigG hx t * zA hx t + pospart (lrq * sigM hx t) * sigG hx t * zD hx t.
Definition eneg (hx : list ((bool * bool) * (R * R))) (t : nat) : R :=
  - negpart (lrp * sigM hx t) * sigG hx t * zA hx t + - negpart (lrq * sigM hx t) * sigG hx t * zD hx t.

Lemma epos_prefix hx x t : (t < length hx)%nat -> epos (hx ++ [x]) t = epos hx t /\ eneg (hx ++ [x]) t = eneg hx t.
Proof.
  intros Hl. unfold epos, eneg. destruct (sig_prefix hx x t Hl) as [E1 E2]. rewrite E1, E2, map_app. cbn [map].
  rewrite (elig_ext _ _ (termA c k (map fst hx ++ [fst x])) (termA c k (map fst hx)) t)
    by (intros u Hu; apply termA_prefix; rewrite map_length; lia).
  rewrite (elig_ext _ _ (termD c k (map fst hx ++ [fst x])) (termD c k (map fst hx)) t)
    by (intros u Hu; apply termD_prefix; rewrite map_length; lia).
  split; reflexivity.
Qed.

Lemma mstdpet_parts_steps hx :
  sum_fst (outs_from c k [] (withsig hx)) = sum_steps (length hx) (epos hx) /\
  sum_snd (outs_from c k [] (withsig hx)) = sum_steps (length hx) (eneg hx).
Proof.
  induction hx as [|x hx IH] using rev_ind; [split; reflexivity|]. destruct IH as [IH1 IH2].
  rewrite withsig_snoc, (outs_from_snoc0 c k), sum_fst_app, sum_snd_app, IH1, IH2. cbn [sum_fst sum_snd snd].
  rewrite app_length. cbn [length]. rewrite Nat.add_1_r. cbn [sum_steps].
  rewrite (sum_steps_ext _ (epos (hx ++ [x])) (epos hx)) by (intros; apply epos_prefix; assumption).
  rewrite (sum_steps_ext _ (eneg (hx ++ [x])) (eneg hx)) by (intros; apply epos_prefix; assumption).
  rewrite (map_app fst), withsig_fst. cbn [map fst].
  destruct (stdp_parts_scalar c k (fst (snd x)) (snd (snd x)) [state_of c k (rev (map fst hx ++ [fst x]))]) as [E1 E2].
  cbv zeta in E1, E2.
  destruct (elig_state c k G Ht (map fst hx) (fst x)) as [Z1 Z2]. cbv zeta in Z1, Z2.
  destruct (sig_last hx x) as [S1 S2].
  split; (apply f_equal2; [reflexivity|]); rewrite Rplus_0_r; (etransitivity; [first [exact E1 | exact E2]|]);
    cbn [map]; rewrite !reduce_single; unfold partials; rewrite Ht; cbn [fst snd];
    rn_simpl; rewrite Z1, Z2; unfold epos, eneg; rewrite S1, S2, map_app; cbn [map];
    rewrite !map_length;
    change (cpost c k (map fst hx ++ [fst x])) with (termA c k (map fst hx ++ [fst x]));
    change (cpre c k (map fst hx ++ [fst x])) with (termD c k (map fst hx ++ [fst x]));
    [rewrite <- !pos_mul_abs | rewrite <- !neg_mul_abs]; ring.
Qed.

Theorem mstdpet_parts_run hx :
  let a := final_acc RN (run RN c k (init_batch RN 1) (inps1 (withsig hx))) in
  ov (fst a) = sum_steps (length hx) (epos hx) /\ ov (snd a) = sum_steps (length hx) (eneg hx).
Proof.
  cbv zeta. rewrite (run_single c k). destruct (final_acc_sums (outs_from c k [] (withsig hx))) as [F1 F2].
  destruct (mstdpet_parts_steps hx) as [S1 S2]. rewrite F1, F2. split; assumption.
Qed.
End MstdpetParts.

(* ---- triplet STDP over whole runs: the post-triggered term (pair + triplet contribution, magnitudes) is potentiating
   iff the PAIR rate lr_post is >= 0 (the triplet rate enters by absolute value), the pre-triggered one iff lr_pre >= 0 *)
Section TripletParts.
Variable c : config RN.
Variable k : nat.
Hypothesis G : grid_ok c k.
Hypothesis Ht : c_trainer RN c = TripletSTDP \/ c_trainer RN c = StableTripletSTDP.
Hypothesis Hpost : c_lr_post RN c <> 0.
Hypothesis Hpre0 : c_lr_pre RN c <> 0.
Local Notation dt := (c_dt RN c).
Local Notation m := (c_mode RN c).

Definition triA (h : list (bool * bool)) (t : nat) : R :=
  b2r (nth t (Qtr h) false) *
  ((Rabs (c_lr_post RN c) + Rabs (c_lr_post3 RN c) * prev_sum m dt (c_tc_post_slow RN c) (Qtr h) t)
   * partner_sum m dt (c_tc_pre RN c) (Ptr c k h) t).
Definition triD (h : list (bool * bool)) (t : nat) : R :=
  b2r (nth t (Ptr c k h) false) *
  ((Rabs (c_lr_pre RN c) + Rabs (c_lr_pre3 RN c) * prev_sum m dt (c_tc_pre_slow RN c) (Ptr c k h) t)
   * partner_sum m dt (c_tc_post RN c) (Qtr h) t).

Lemma triA_prefix h pq t : (t < length h)%nat -> triA (h ++ [pq]) t = triA h t /\ triD (h ++ [pq]) t = triD h t.
Proof.
  intros Hl. unfold triA, triD. rewrite Ptr_snoc, Qtr_snoc.
  rewrite !app_nth1 by (rewrite ?Ptr_length, ?Qtr_length; exact Hl).
  rewrite !partner_sum_snoc by (rewrite ?Ptr_length, ?Qtr_length; exact Hl).
  rewrite !prev_sum_snoc by (rewrite ?Ptr_length, ?Qtr_length; lia). split; reflexivity.
Qed.

Lemma partials_triplet h0 pq :
  let h := h0 ++ [pq] in
  partials RN c k (state_of c k (rev h)) = (triA h (length h0), triD h (length h0)).
Proof.
  intros h.
  pose proof (grid_syn c k G) as Hsyn. pose proof (grid_pre c k G) as Hp. pose proof (tri c Ht) as Htri.
  destruct (grid_pre_slow c k G) as (Hs1 & Hs2 & Hs3).
  unfold partials.
  destruct Ht as [E | E]; rewrite E; cbv zeta;
  rewrite st_tr_pre, st_tr_post, st_spike_pre, st_spike_post by exact Hsyn;
  rewrite (st_tr_pre_slow c k Hsyn _ Htri), (st_tr_post_slow c k _ Htri);
  rewrite (read_trace c k (proj1 G)) by (intros E'; apply Hp; exact E');
  rewrite (read_spike c k) by (intros E'; apply Hp; exact E');
  rewrite (read_slow c k (proj1 G)) by assumption;
  rewrite (rd_small _ _ _ 1) by assumption; rewrite nth_tvals;
  rewrite !map_rev;
  change (hd (zero RN) (tvals (mo c) (d_post c) (amp_post RN c) (rev (map snd h))))
    with (V (mo c) (d_post c) (amp_post RN c) (rev (map snd h)));
  unfold mo, d_pre, d_post, d_pre_slow, d_post_slow, h;
  rewrite pre_trace_now, post_trace_now, pre_spike_now, post_spike_now, pre_trace_prev, post_trace_prev;
  unfold amp_pre, amp_post, amp_pre_slow, amp_post_slow, lr_post3_abs, lr_pre3_abs, is_stable; rewrite E; cbn [fst snd]; rn_simpl;
  rewrite (b2t_RN (nth (length h0) (Ptr c k (h0 ++ [pq])) false));
  rewrite (b2t_RN (nth (length h0) (Qtr (h0 ++ [pq])) false));
  unfold triA, triD;
  set (PSa := partner_sum m dt (c_tc_pre RN c) _ _); set (PSb := partner_sum m dt (c_tc_post RN c) _ _);
  set (Ya := prev_sum m dt (c_tc_post_slow RN c) _ _); set (Xa := prev_sum m dt (c_tc_pre_slow RN c) _ _);
  set (qa := b2r _); set (pa := b2r _).
  - f_equal.
    + transitivity (qa * ((Rabs (c_lr_post RN c) + (Rabs (c_lr_post RN c) * Rabs (Rabs (c_lr_post3 RN c) / c_lr_post RN c)) * Ya) * PSa));
        [ring|]. rewrite abs_ratio by assumption. reflexivity.
    + transitivity (pa * ((Rabs (c_lr_pre RN c) + (Rabs (c_lr_pre RN c) * Rabs (Rabs (c_lr_pre3 RN c) / c_lr_pre RN c)) * Xa) * PSb));
        [ring|]. rewrite abs_ratio by assumption. reflexivity.
  - f_equal; ring.
Qed.

Definition tpos_t (h : list (bool * bool)) (t : nat) : R :=
  ind (nonneg RN (c_lr_post RN c)) * triA h t + ind (nonneg RN (c_lr_pre RN c)) * triD h t.
Definition tneg_t (h : list (bool * bool)) (t : nat) : R :=
  ind (negb (nonneg RN (c_lr_post RN c))) * triA h t + ind (negb (nonneg RN (c_lr_pre RN c))) * triD h t.

Lemma triplet_parts_steps h :
  sum_fst (outs_from c k [] (nosig h)) = sum_steps (length h) (tpos_t h) /\
  sum_snd (outs_from c k [] (nosig h)) = sum_steps (length h) (tneg_t h).
Proof.
  induction h as [|pq h IH] using rev_ind; [split; reflexivity|]. destruct IH as [IH1 IH2].
  unfold nosig in *. rewrite map_app. cbn [map].
  rewrite (outs_from_snoc0 c k), sum_fst_app, sum_snd_app, IH1, IH2. cbn [sum_fst sum_snd snd].
  rewrite app_length. cbn [length]. rewrite Nat.add_1_r. cbn [sum_steps].
  rewrite (sum_steps_ext (length h) (tpos_t (h ++ [pq])) (tpos_t h))
    by (intros t Hl; unfold tpos_t; destruct (triA_prefix h pq t Hl) as [A B]; rewrite A, B; reflexivity).
  rewrite (sum_steps_ext (length h) (tneg_t (h ++ [pq])) (tneg_t h))
    by (intros t Hl; unfold tneg_t; destruct (triA_prefix h pq t Hl) as [A B]; rewrite A, B; reflexivity).
  rewrite (map_app fst), map_map. cbn [map fst]. rewrite map_id.
  destruct (stdp_parts_none c k [state_of c k (rev (h ++ [pq]))]) as [E1 E2]. cbv zeta in E1, E2.
  pose proof (partials_triplet h pq) as Hp. cbv zeta in Hp.
  split; (apply f_equal2; [reflexivity|]); rewrite Rplus_0_r; (etransitivity; [first [exact E1 | exact E2]|]);
    cbn [map]; rewrite !reduce_single, Hp; cbn [fst snd]; reflexivity.
Qed.

Theorem triplet_parts_run h :
  let a := final_acc RN (run RN c k (init_batch RN 1) (inps1 (nosig h))) in
  ov (fst a) = sum_steps (length h) (tpos_t h) /\ ov (snd a) = sum_steps (length h) (tneg_t h).
Proof.
  cbv zeta. rewrite (run_single c k). destruct (final_acc_sums (outs_from c k [] (nosig h))) as [F1 F2].
  destruct (triplet_parts_steps h) as [S1 S2]. rewrite F1, F2. split; assumption.
Qed.
End TripletParts.

(* ================================================================== B. trainer + updater *)
(* Hebbian pair STDP with soft (multiplicative) bounds installed by upperbound / lowerbound: after any history the applied
   weight change is (w_max - w) x LTP - (w - w_min) x LTD with LTP the causal and LTD the anti-causal pair sum *)
Theorem hebbian_soft_bounded c k h w mx mn :
  grid_ok c k -> c_trainer RN c = STDP \/ c_trainer RN c = StableSTDP -> 0 <= c_lr_post RN c -> c_lr_pre RN c < 0 ->
  pv (bind_update RN (BHalf RN (SBound RN (HMulU RN) mx) (SBound RN (HMulL RN) mn)) w
        (final_acc RN (run RN c k (init_batch RN 1) (inps1 (nosig h)))))
  = (mx - w) * (c_lr_post RN c * pairsum (c_mode RN c) (c_dt RN c) (c_tc_pre RN c) (fun _ => 1) (post_train h) (pre_train c k h))
    - (w - mn) * (Rabs (c_lr_pre RN c) * pairsum (c_mode RN c) (c_dt RN c) (c_tc_post RN c) (fun _ => 1) (pre_train c k h) (post_train h)).
Proof.
  intros G Ht H1 H2. rewrite bind_update_soft_half, !pv_ov.
  destruct (hebbian_parts_pairsum c k h G Ht H1 H2) as [E1 E2]. cbv zeta in E1, E2.
  apply f_equal2; apply f_equal2; try reflexivity; assumption.
Qed.
(* with non-negative parts and the parameter inside its range, soft bounds keep it inside: w' in [mn, mx] when the
   accumulated LTP and LTD do not exceed 1 (C10 proves the general invariant; here the trainer's parts are shown to
   qualify: they are >= 0 by stdp_acc_parts_nonneg) *)
Theorem soft_bounded_stays_in_range c k B inps w mx mn :
  elig_ok c -> mn <= w <= mx ->
  let a := final_acc RN (run RN c k (init_batch RN B) inps) in
  ov (fst a) <= 1 -> ov (snd a) <= 1 ->
  mn <= bind_forward RN (BHalf RN (SBound RN (HMulU RN) mx) (SBound RN (HMulL RN) mn)) w a <= mx.
Proof.
  intros He Hw. cbv zeta. intros Hp Hn.
  destruct (stdp_acc_parts_nonneg c k B inps He) as [_ [P N]].
  set (a := final_acc RN (run RN c k (init_batch RN B) inps)) in *.
  pose proof (bind_update_soft_half mx mn w a) as E. rewrite !pv_ov in E.
  unfold bind_forward. destruct (bind_update RN _ w a) as [u|] eqn:U; [|exact Hw].
  cbn [pv ov] in E. subst u. rn_simpl. unfold parts_nn in *.
  set (pp := ov (fst a)) in *. set (nn' := ov (snd a)) in *.
  change (pv (fst a)) with pp. change (pv (snd a)) with nn'.
  assert (0 <= (mx - w) * pp <= mx - w) by nra. assert (0 <= (w - mn) * nn' <= w - mn) by nra. lra.
Qed.

(* ================================================================== C. the rate monitor along a run *)
Definition h_after (steps : list (list (list bool))) : hstate RN := fold_left (h_observe RN) steps (h_init RN).

Lemma h_run_last_state rk p lam tg steps : forall st d,
  fst (last (h_run RN rk p lam tg st steps) (st, d)) = fold_left (h_observe RN) steps st.
Proof.
  induction steps as [|s tl IH]; intros st d; [reflexivity|].
  cbn [h_run fold_left]. rewrite last_cons. cbn [h_step fst]. rewrite <- (IH (h_observe RN st s) (snd (h_step RN rk p lam tg st s))).
  reflexivity.
Qed.

Definition shaped (B U : nat) (s : list (list bool)) : Prop := length s = B /\ Forall (fun row => length row = U) s.
Definition column (b u : nat) (steps : list (list (list bool))) : list bool :=
  map (fun s => nth u (nth b s []) false) steps.

Lemma nth_zip2 {A B C} (f : A -> B -> C) (da : A) (db : B) (dc : C) : forall la lb i,
  (i < length la)%nat -> (i < length lb)%nat -> nth i (zip2 f la lb) dc = f (nth i la da) (nth i lb db).
Proof.
  induction la as [|a ta IH]; intros lb i Ha Hb; [cbn in Ha; lia|]. destruct lb as [|b tb]; [cbn in Hb; lia|].
  destruct i; [reflexivity|]. cbn [zip2 nth]. apply IH; cbn in *; lia.
Qed.
Lemma length_zip2 {A B C} (f : A -> B -> C) : forall la lb, length la = length lb -> length (zip2 f la lb) = length la.
Proof. induction la as [|a ta IH]; intros [|b tb] H; cbn in *; try lia. rewrite IH; lia. Qed.

(* the unit (b, u) of the monitor after a run, or 0 when nothing was observed *)
Definition rate_at (st : hstate RN) (b u : nat) : R :=
  match h_rate RN st with Some r => nth u (nth b r []) 0 | None => 0 end.

Lemma h_after_inv B U steps : Forall (shaped B U) steps ->
  h_count RN (h_after steps) = Z.of_nat (length steps) /\
  (steps <> [] ->
   exists r, h_rate RN (h_after steps) = Some r /\ length r = B /\ Forall (fun row => length row = U) r /\
     forall b u, (b < B)%nat -> (u < U)%nat -> Some (nth u (nth b r []) 0) = snd (ca_run (column b u steps))).
Proof.
  induction steps as [|s steps IH] using rev_ind; intros Hs; [split; [reflexivity|congruence]|].
  apply Forall_app in Hs. destruct Hs as [Hs Hl]. inversion Hl as [|? ? [HB HU] _]; subst.
  destruct (IH Hs) as [Hc Hr]. unfold h_after in *. rewrite fold_left_app. cbn [fold_left].
  set (st := fold_left (h_observe RN) steps (h_init RN)) in *.
  split; [unfold h_observe; cbn [h_count]; rewrite Hc, app_length; cbn [length]; lia|]. intros _.
  unfold h_observe. cbn [h_rate]. eexists. split; [reflexivity|].
  destruct steps as [|s0 steps'].
  - (* first observation *)
    cbn in st. subst st. cbn [h_rate h_init h_count].
    split; [rewrite map_length; reflexivity|]. split.
    + apply Forall_map. rewrite Forall_forall in HU |- *. intros row Hin. rewrite map_length. apply HU. exact Hin.
    + intros b u Hb Hu. unfold column. cbn [map app]. unfold ca_run. cbn [fold_left ca_step fst snd].
      f_equal.
      assert (Hrow : (u < length (nth b s []))%nat).
      { rewrite Forall_forall in HU. rewrite (HU (nth b s [])); [exact Hu | apply nth_In; lia]. }
      rewrite (nth_map_lt _ s b [] []) by lia. rewrite (nth_map_lt _ (nth b s []) u false 0) by exact Hrow. reflexivity.
  - destruct (Hr ltac:(discriminate)) as (r & Er & Lr & Ur & Hv). rewrite Er.
    set (stepsl := s0 :: steps') in *.
    assert (Lz : length (zip2 (zip2 (fun o s1 => ca_fold RN (h_count RN st + 1) o (Some s1))) s r) = length s)
      by (apply length_zip2; lia).
    split; [lia|]. split.
    + apply Forall_forall. intros row Hin. destruct (In_nth _ _ [] Hin) as (i & Hi & Ei). rewrite Lz in Hi.
      rewrite (nth_zip2 _ [] [] []) in Ei by lia. subst row. rewrite Forall_forall in HU, Ur.
      rewrite length_zip2; [apply HU, nth_In; lia|]. rewrite HU, Ur; [reflexivity | apply nth_In; lia | apply nth_In; lia].
    + intros b u Hb Hu. rewrite Forall_forall in HU, Ur.
      assert (R1 : length (nth b s []) = U) by (apply HU, nth_In; lia).
      assert (R2 : length (nth b r []) = U) by (apply Ur, nth_In; lia).
      rewrite (nth_zip2 _ [] [] []) by lia.
      rewrite (nth_zip2 _ false 0 0).
      2: (eapply Nat.lt_le_trans; [exact Hu|]; apply Nat.eq_le_incl; symmetry; exact R1).
      2: (eapply Nat.lt_le_trans; [exact Hu|]; apply Nat.eq_le_incl; symmetry; exact R2).
      unfold column. rewrite map_app. cbn [map]. unfold ca_run. rewrite fold_left_app. cbn [fold_left].
      fold (ca_run (map (fun s1 => nth u (nth b s1 []) false) stepsl)). fold (column b u stepsl).
      specialize (Hv b u Hb Hu). unfold ca_step. cbn [snd]. rewrite <- Hv. f_equal. f_equal.
      rewrite Hc. assert (Hcnt : fst (ca_run (column b u stepsl)) = Z.of_nat (length stepsl)).
      { rewrite ca_rate_is_mean by (unfold column, stepsl; cbn; discriminate). cbn [fst]. unfold column. rewrite map_length. reflexivity. }
      rewrite Hcnt. reflexivity.
Qed.

(* FLAGSHIP (homeostasis): after any run of T >= 1 steps on any batch, the monitored rate of unit (b, u) is the number
   of steps at which the unit spiked divided by T *)
Theorem h_run_rate_is_mean B U steps b u :
  Forall (shaped B U) steps -> steps <> [] -> (b < B)%nat -> (u < U)%nat ->
  rate_at (h_after steps) b u = INR (count_true (column b u steps)) / INR (length steps).
Proof.
  intros Hs Hn Hb Hu. destruct (h_after_inv B U steps Hs) as [_ Hr]. destruct (Hr Hn) as (r & Er & _ & _ & Hv).
  unfold rate_at. rewrite Er. specialize (Hv b u Hb Hu).
  rewrite ca_rate_is_mean in Hv by (unfold column; destruct steps; [congruence | discriminate]).
  cbn [snd] in Hv. injection Hv as E. etransitivity; [exact E|]. f_equal. f_equal. unfold column. apply map_length.
Qed.

(* the refutation in terms of the spike history: a single unit that spiked at EVERY one of T >= 1 steps has rate 1;
   with a target rt < 1 and plasticity lambda > 0 the documented weight change lambda (rt - 1)/rt is negative, but the
   parts are (0, lambda (rt - 1)/rt), for every reduction, and the updater raises the weight by lambda (1 - rt)/rt > 0 *)
Theorem homeostasis_always_spiking_raises_weight rk lam target w steps :
  steps <> [] -> Forall (fun s => s = [[true]]) steps -> 0 < lam -> 0 < target < 1 ->
  let r := last (h_run RN rk PWeight lam [[target]] (h_init RN) steps) (h_init RN, (None, None)) in
  rate_at (fst r) 0 0 = 1 /\
  doc_term PWeight lam [target] [1] = lam * (target - 1) / target /\ doc_term PWeight lam [target] [1] < 0 /\
  snd r = (Some 0, Some (lam * (target - 1) / target)) /\
  bind_forward RN BDefault w (snd r) = w + lam * (1 - target) / target /\ w < bind_forward RN BDefault w (snd r).
Proof.
  intros Hn Hall Hl Ht. cbv zeta.
  assert (Hs : Forall (shaped 1 1) steps).
  { eapply Forall_impl; [|exact Hall]. intros s E. cbv beta in E. rewrite E. split; [reflexivity | repeat constructor]. }
  assert (Hrate : rate_at (h_after steps) 0 0 = 1).
  { rewrite (h_run_rate_is_mean 1 1 steps 0 0 Hs Hn) by lia.
    assert (C : count_true (column 0 0 steps) = length steps).
    { clear -Hall. induction Hall as [|s tl E _ IH]; [reflexivity|]. cbv beta in E. rewrite E. unfold column in *. cbn [map nth count_true length]. rewrite IH. reflexivity. }
    rewrite C. assert (0 < INR (length steps)) by (apply lt_0_INR; destruct steps; [congruence | cbn; lia]). field. lra. }
  destruct (h_after_inv 1 1 steps Hs) as [_ Hr]. destruct (Hr Hn) as (r & Er & Lr & Ur & _).
  assert (Erate : r = [[1]]).
  { unfold rate_at in Hrate. rewrite Er in Hrate. destruct r as [|row [|? ?]]; cbn in Lr; try lia.
    inversion Ur as [|? ? Hrow _]; subst. destruct row as [|x [|? ?]]; cbn in Hrow; try lia. cbn in Hrate. subst x. reflexivity. }
  assert (Hd : doc_term PWeight lam [target] [1] = lam * (target - 1) / target).
  { unfold doc_term. cbn [rsum2 length INR]. field. lra. }
  assert (Hneg : lam * (target - 1) / target < 0).
  { assert (0 < / target) by (apply Rinv_0_lt_compat; lra). unfold Rdiv. assert (lam * (target - 1) < 0) by nra. nra. }
  (* the last element of the run *)
  destruct steps as [|s0 tl] using rev_ind; [congruence|]. clear IHtl.
  assert (Elast : forall st d, last (h_run RN rk PWeight lam [[target]] st (tl ++ [s0])) d
                  = h_step RN rk PWeight lam [[target]] (fold_left (h_observe RN) tl st) s0).
  { clear. induction tl as [|s tl IH]; intros st d; [reflexivity|]. cbn [app h_run fold_left]. rewrite last_cons.
    rewrite IH. reflexivity. }
  rewrite Elast. unfold h_step. cbv zeta. cbn [fst snd].
  assert (Est : h_observe RN (fold_left (h_observe RN) tl (h_init RN)) s0 = h_after (tl ++ [s0]))
    by (unfold h_after; rewrite fold_left_app; reflexivity).
  rewrite Est, Er, Erate.
  split; [exact Hrate|]. split; [exact Hd|]. split; [rewrite Hd; exact Hneg|].
  assert (Ek : h_ks RN PWeight lam [[target]] [[1]] = [lam * (target - 1) / target]).
  { rewrite h_ks_documented. cbn [zip2]. rewrite Hd. reflexivity. }
  assert (Eparts : h_forward RN rk PWeight lam [[target]] [[1]] = (Some 0, Some (lam * (target - 1) / target))).
  { unfold h_forward. rewrite Ek. cbn [map].
    destruct (hclamp_of_nonpos (lam * (target - 1) / target) (Rlt_le _ _ Hneg)) as [C1 C2]. rewrite C1, C2.
    assert (R1 : forall x, hreduce RN rk [x] = x).
    { intros x. destruct rk; cbn [hreduce tsum length fold_left]; rn_simpl; [lra | change (IZR (Z.of_nat 1)) with 1; field | reflexivity]. }
    rewrite !R1. reflexivity. }
  rewrite Eparts. split; [reflexivity|].
  unfold bind_forward, bind_update, update_fn. rn_simpl.
  assert (0 < lam * (1 - target) / target) by (unfold Rdiv; apply Rmult_lt_0_compat; [nra | apply Rinv_0_lt_compat; lra]).
  split; [field; lra|].
  replace (w + (0 - lam * (target - 1) / target)) with (w + lam * (1 - target) / target) by (field; lra). lra.
Qed.
