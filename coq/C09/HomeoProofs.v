(* C09 - proofs about the model C09/Split.v over the reals (RN):
   A. clamp split (generic);  B. LinearHomeostasis: sign of the parts, what they add up to, the REFUTED direction claim;
   C. the cumulative-average monitor holds spike count / steps;  D. Accumulator.update: which part goes through which
   bound function. *)
From Coq Require Import List ZArith Bool Reals Lra Lia Arith.
From Inferno Require Import Base.Num Base.NumR Gen.Bounding C18.DelayAdj C18.DelayAdjProofs C09.Split.
Import ListNotations.
Open Scope R_scope.

(* value of an optional update part (None: the trainer handed nothing) *)
Definition pv (o : option R) : R := match o with Some x => x | None => 0 end.

(* ================================================================== A. clamp split *)
Lemma hclamp_min_nonneg x : 0 <= hclamp_min RN x.
Proof. unfold hclamp_min, tmax. rn_simpl. destruct (Rltb'_spec x 0); lra. Qed.
Lemma hclamp_max_nonpos x : hclamp_max RN x <= 0.
Proof. unfold hclamp_max, tmin. rn_simpl. destruct (Rltb'_spec 0 x); lra. Qed.
Lemma hclamp_sum x : hclamp_min RN x + hclamp_max RN x = x.
Proof. unfold hclamp_min, hclamp_max, tmax, tmin. rn_simpl. destruct (Rltb'_spec x 0); destruct (Rltb'_spec 0 x); lra. Qed.
Lemma hclamp_diff x : hclamp_min RN x - hclamp_max RN x = Rabs x.
Proof.
  unfold hclamp_min, hclamp_max, tmax, tmin. rn_simpl. unfold Rabs.
  destruct (Rltb'_spec x 0); destruct (Rltb'_spec 0 x); destruct (Rcase_abs x); lra.
Qed.
Lemma hclamp_min_of_nonneg x : 0 <= x -> hclamp_min RN x = x /\ hclamp_max RN x = 0.
Proof. intros H. unfold hclamp_min, hclamp_max, tmax, tmin. rn_simpl. destruct (Rltb'_spec x 0); destruct (Rltb'_spec 0 x); lra. Qed.
Lemma hclamp_of_nonpos x : x <= 0 -> hclamp_min RN x = 0 /\ hclamp_max RN x = x.
Proof. intros H. unfold hclamp_min, hclamp_max, tmax, tmin. rn_simpl. destruct (Rltb'_spec x 0); destruct (Rltb'_spec 0 x); lra. Qed.

(* DESIGN's clamp_split: max(k, 0) and -min(k, 0) are both >= 0 and differ by k (the split the kernel trainers use:
   kernel_stdp.py:292-303 hands k.clamp_min(0) and -k.clamp_max(0)) *)
Theorem clamp_split k :
  0 <= hclamp_min RN k /\ 0 <= - hclamp_max RN k /\ hclamp_min RN k - (- hclamp_max RN k) = k.
Proof. pose proof (hclamp_min_nonneg k). pose proof (hclamp_max_nonpos k). pose proof (hclamp_sum k). lra. Qed.

(* ================================================================== B. LinearHomeostasis *)
(* the batch reductions are the ones of C18 (same terms), so its lemmas apply *)
Lemma hreduce_sign k : sign_red (hreduce RN k).
Proof. destruct k; [exact sum_sign_red | exact mean_sign_red | exact amax_sign_red]. Qed.
Definition linear_kind (k : hred) : Prop := k = HSum \/ k = HMean.
Lemma hreduce_linear k : linear_kind k -> linear_red (hreduce RN k).
Proof. intros [E|E]; subst; [exact sum_linear | exact mean_linear]. Qed.

(* the documented rule for one sample: (+/-) lambda times the mean over the element's receptive units of (r* - r)/r*
   ("w += lambda (r* - r)/r*", "b += lambda/L sum (r* - r)/r*", "d -= lambda (r* - r)/r*") *)
Fixpoint rsum2 (f : R -> R -> R) (la lb : list R) : R :=
  match la, lb with a :: ta, b :: tb => f a b + rsum2 f ta tb | _, _ => 0 end.
Definition doc_term (p : hparam) (lam : R) (targets rates : list R) : R :=
  (match p with PDelay => - lam | _ => lam end) *
  (rsum2 (fun tg r => (tg - r) / tg) targets rates / INR (length rates)).
Lemma tsum_zip2 (f : R -> R -> R) la lb : tsum RN (zip2 f la lb) = rsum2 f la lb.
Proof.
  revert lb; induction la as [|a ta IH]; intros lb; [reflexivity|]. destruct lb as [|b tb]; [reflexivity|].
  cbn [zip2 tsum rsum2]. rn_simpl. rewrite IH. reflexivity.
Qed.
(* the code's per-sample k is the documented term *)
Theorem h_ks_documented p lam targets rates :
  h_ks RN p lam targets rates = zip2 (doc_term p lam) targets rates.
Proof.
  unfold h_ks. revert rates; induction targets as [|tg tt IH]; intros rates; [reflexivity|].
  destruct rates as [|r rt]; [reflexivity|]. cbn [zip2]. rewrite IH. f_equal.
  unfold h_scale, h_kraw, doc_term, rate_term. rewrite tsum_zip2. rn_simpl. rewrite <- INR_IZR_INZ.
  destruct p; ring.
Qed.

Section Homeo.
Variable rk : hred.
Variable p : hparam.
Variable lam : R.
Variables targets rates : list (list R).
Local Notation ks := (h_ks RN p lam targets rates).
Local Notation out := (h_forward RN rk p lam targets rates).

(* the potentiating part is >= 0 ... *)
Theorem homeo_pos_nonneg : 0 <= pv (fst out).
Proof.
  cbn [h_forward fst pv]. apply (proj1 (hreduce_sign rk)). apply Forall_map. apply Forall_forall. intros x _.
  apply hclamp_min_nonneg.
Qed.
(* ... but the "depressing" part handed to the updater is <= 0: it is the clamped value, not its magnitude *)
Theorem homeo_neg_nonpos : pv (snd out) <= 0.
Proof.
  cbn [h_forward snd pv]. apply (proj2 (hreduce_sign rk)). apply Forall_map. apply Forall_forall. intros x _.
  apply hclamp_max_nonpos.
Qed.

(* what is true of the pair: the SUM of the two parts is the documented rule (reduced over the batch) ... *)
Theorem homeo_sum_is_rule : linear_kind rk -> pv (fst out) + pv (snd out) = hreduce RN rk ks.
Proof.
  intros Hl. destruct (hreduce_linear rk Hl) as [_ Ha]. cbn [h_forward fst snd pv].
  transitivity (hreduce RN rk (map (fun x => hclamp_min RN x + hclamp_max RN x) ks));
    [symmetry; exact (Ha R (hclamp_min RN) (hclamp_max RN) ks)|].
  f_equal. rewrite <- (map_id ks) at 2. apply map_ext. intros x. apply hclamp_sum.
Qed.
(* ... whereas the updater applies the DIFFERENCE, which is the reduction of |k| *)
Lemma map_opp_red (l : list R) : linear_kind rk -> hreduce RN rk (map Ropp l) = - hreduce RN rk l.
Proof.
  intros Hl. destruct (hreduce_linear rk Hl) as [Hh _].
  replace (- hreduce RN rk l) with ((-1) * hreduce RN rk l) by ring.
  transitivity (hreduce RN rk (map (Rmult (-1)) l)); [|exact (Hh (-1) l)].
  f_equal. apply map_ext. intros; ring.
Qed.
Theorem homeo_net_is_abs : linear_kind rk -> pv (fst out) - pv (snd out) = hreduce RN rk (map Rabs ks).
Proof.
  intros Hl. destruct (hreduce_linear rk Hl) as [_ Ha]. cbn [h_forward fst snd pv].
  unfold Rminus. rewrite <- (map_opp_red _ Hl), map_map.
  transitivity (hreduce RN rk (map (fun x => hclamp_min RN x + - hclamp_max RN x) ks));
    [symmetry; exact (Ha R (hclamp_min RN) (fun x => - hclamp_max RN x) ks)|].
  f_equal. apply map_ext. intros x. pose proof (hclamp_diff x). lra.
Qed.

(* when no sample's term is negative (weight / bias: every sample's mean rate is at or below target, lambda >= 0) the
   depressing part vanishes and the applied change IS the documented rule - for every reduction, amax included *)
Lemma map_clamp_nonneg (l : list R) : Forall (fun x => 0 <= x) l ->
  map (hclamp_min RN) l = l /\ map (hclamp_max RN) l = map (fun _ => 0) l.
Proof.
  induction 1 as [|x t Hx _ [IH1 IH2]]; [split; reflexivity|]. cbn [map]. rewrite IH1, IH2.
  destruct (hclamp_min_of_nonneg x Hx) as [E1 E2]. rewrite E1, E2. split; reflexivity.
Qed.
Lemma map_clamp_nonpos (l : list R) : Forall (fun x => x <= 0) l ->
  map (hclamp_min RN) l = map (fun _ => 0) l /\ map (hclamp_max RN) l = l.
Proof.
  induction 1 as [|x t Hx _ [IH1 IH2]]; [split; reflexivity|]. cbn [map]. rewrite IH1, IH2.
  destruct (hclamp_of_nonpos x Hx) as [E1 E2]. rewrite E1, E2. split; reflexivity.
Qed.
Lemma hreduce_zeros {A} (l : list A) : hreduce RN rk (map (fun _ => 0) l) = 0.
Proof.
  destruct (hreduce_sign rk) as [H1 H2].
  assert (F1 : Forall (fun x => 0 <= x) (map (fun _ : A => 0) l)) by (apply Forall_map, Forall_forall; intros; lra).
  assert (F2 : Forall (fun x => x <= 0) (map (fun _ : A => 0) l)) by (apply Forall_map, Forall_forall; intros; lra).
  pose proof (H1 _ F1). pose proof (H2 _ F2). lra.
Qed.
Theorem homeo_toward_target_when_no_term_negative :
  Forall (fun x => 0 <= x) ks ->
  pv (snd out) = 0 /\ pv (fst out) - pv (snd out) = hreduce RN rk ks.
Proof.
  intros Hk. destruct (map_clamp_nonneg ks Hk) as [E1 E2]. cbn [h_forward fst snd pv]. rewrite E1, E2, hreduce_zeros.
  split; lra.
Qed.
(* when every sample's term is negative or zero (weight / bias with lambda > 0: every sample's rate is at or above target)
   the potentiating part vanishes, the depressing part is the (negative) documented change itself, and the updater applies
   MINUS the documented change: the parameter moves away from the target *)
Theorem homeo_above_target_moves_away :
  linear_kind rk -> Forall (fun x => x <= 0) ks ->
  pv (fst out) = 0 /\ pv (snd out) = hreduce RN rk ks /\ pv (fst out) - pv (snd out) = - hreduce RN rk ks.
Proof.
  intros Hl Hk. destruct (map_clamp_nonpos ks Hk) as [E1 E2]. cbn [h_forward fst snd pv]. rewrite E1, E2, hreduce_zeros.
  repeat split; lra.
Qed.
End Homeo.

(* ================================================================== the refutation, on a concrete run *)
(* LinearHomeostasis(plasticity = 1, target = 1/2, param = "weight", mean reduction) on a 1x1 cell whose neuron spikes at
   the single step: the rate (1) is above the target (1/2), the documented change is 1 * (1/2 - 1)/(1/2) = -1, yet the
   parts are (0, -1) and Accumulator.update (no bounding) raises the weight by 1. *)
Definition witness_run := h_run RN HMean PWeight 1 [[1/2]] (h_init RN) [[[true]]].
Theorem homeostasis_refuted :
  exists (rk : hred) (lam target w : R) (steps : list (list (list bool))),
    0 < lam /\ 0 < target /\
    let r := last (h_run RN rk PWeight lam [[target]] (h_init RN) steps) (h_init RN, (None, None)) in
    (* the observed rate is above the target *)
    h_rate RN (fst r) = Some [[1]] /\ target < 1 /\
    (* the documented change is negative *)
    doc_term PWeight lam [target] [1] < 0 /\
    (* the depressing part is negative-valued and the applied change is positive *)
    snd r = (Some 0, Some (-1)) /\ bind_forward RN BDefault w (snd r) = w + 1.
Proof.
  exists HMean, 1, (1/2), 0, [[[true]]]. split; [lra|]. split; [lra|]. cbv zeta.
  cbn [h_run h_step h_observe h_init h_count h_rate last fst snd map ca_fold].
  unfold h_forward, h_ks, h_kraw, h_scale, rate_term, hclamp_min, hclamp_max, tmax, tmin, b2t.
  cbn [zip2 map tsum hreduce length]. rn_simpl. change (IZR (Z.of_nat 1)) with 1.
  assert (E : ((1 / 2 - 1) / (1 / 2) + 0) / 1 * 1 = -1) by field. rewrite !E.
  destruct (Rltb'_spec (-1) 0); [|lra]. destruct (Rltb'_spec 0 (-1)); [lra|].
  split; [reflexivity|]. split; [lra|]. split.
  - unfold doc_term. cbn [rsum2 length INR]. lra.
  - split.
    + f_equal; f_equal; lra.
    + unfold bind_forward, bind_update, update_fn. rn_simpl. lra.
Qed.

(* the mirror image for param = "delay" (documented: d -= lambda (rt - r)/rt, rt the target): a rate BELOW target must shorten the delay,
   the code lengthens it *)
Theorem homeostasis_delay_refuted :
  exists (lam target d : R) (steps : list (list (list bool))),
    0 < lam /\ 0 < target /\
    let r := last (h_run RN HMean PDelay lam [[target]] (h_init RN) steps) (h_init RN, (None, None)) in
    h_rate RN (fst r) = Some [[0]] /\ doc_term PDelay lam [target] [0] < 0 /\
    snd r = (Some 0, Some (-1)) /\ bind_forward RN BDefault d (snd r) = d + 1.
Proof.
  exists 1, (1/2), 0, [[[false]]]. split; [lra|]. split; [lra|]. cbv zeta.
  cbn [h_run h_step h_observe h_init h_count h_rate last fst snd map ca_fold].
  unfold h_forward, h_ks, h_kraw, h_scale, rate_term, hclamp_min, hclamp_max, tmax, tmin, b2t.
  cbn [zip2 map tsum hreduce length]. rn_simpl. change (IZR (Z.of_nat 1)) with 1.
  assert (E : ((1 / 2 - 0) / (1 / 2) + 0) / 1 * - (1) = -1) by field. rewrite !E.
  destruct (Rltb'_spec (-1) 0); [|lra]. destruct (Rltb'_spec 0 (-1)); [lra|].
  split; [reflexivity|]. split.
  - unfold doc_term. cbn [rsum2 length INR]. replace ((1 / 2 - 0) / (1 / 2)) with 1 by field. lra.
  - split.
    + f_equal; f_equal; lra.
    + unfold bind_forward, bind_update, update_fn. rn_simpl. lra.
Qed.

(* ================================================================== C. the rate monitor *)
(* one unit: folding the observations o_1 .. o_n (oldest first) with the running count *)
Fixpoint count_true (l : list bool) : nat := match l with [] => O | b :: t => ((if b then 1 else 0) + count_true t)%nat end.
Definition ca_step (st : Z * option R) (o : bool) : Z * option R :=
  let n := (fst st + 1)%Z in (n, Some (ca_fold RN n o (snd st))).
Definition ca_run (l : list bool) : Z * option R := fold_left ca_step l (0%Z, None).

Lemma count_true_app a b : count_true (a ++ b) = (count_true a + count_true b)%nat.
Proof. induction a as [|x a IH]; cbn; [reflexivity|rewrite IH; lia]. Qed.

(* CAReducer: after n >= 1 observations the state is (number of spikes) / n *)
Theorem ca_rate_is_mean l : l <> [] ->
  ca_run l = (Z.of_nat (length l), Some (INR (count_true l) / INR (length l))).
Proof.
  induction l as [|o l IH] using rev_ind; [congruence|]. intros _.
  unfold ca_run. rewrite fold_left_app. cbn [fold_left]. fold (ca_run l).
  destruct l as [|x l'].
  - unfold ca_run, ca_step, ca_fold, b2t. cbn [fold_left fst snd app length count_true]. rn_simpl.
    destruct o; cbn [Nat.add INR Z.of_nat]; f_equal; f_equal; field.
  - rewrite IH by discriminate. set (l := x :: l') in *. unfold ca_step. cbn [fst snd].
    rewrite app_length, count_true_app. cbn [length count_true]. f_equal; [lia|]. f_equal.
    unfold ca_fold, b2t. rn_simpl.
    replace (Z.of_nat (length l) + 1)%Z with (Z.of_nat (length l + 1)) by lia. rewrite <- INR_IZR_INZ.
    rewrite !plus_INR. cbn [INR].
    assert (0 < INR (length l)) by (apply lt_0_INR; unfold l; cbn; lia).
    destruct o; cbn [INR]; field; lra.
Qed.

(* ================================================================== D. Accumulator.update: routing *)
Section Routing.
Variables ub lb : R -> R -> R.
Variable x : R.

(* list form of bind: the potentiating part goes through bind[0] (set by upperbound), the depressing one through bind[1]
   (set by lowerbound), and only there *)
Theorem update_list_routing (a : uparts RN) :
  update_list RN ub lb x a =
  match a with
  | (Some p, Some n) => Some (ub x p - lb x n)
  | (Some p, None) => Some (ub x p)
  | (None, Some n) => Some (- lb x n)
  | (None, None) => None
  end.
Proof. destruct a as [[p|] [n|]]; reflexivity. Qed.
(* a missing part behaves like a zero part when the bound functions are homogeneous in the update (all shipped ones are) *)
Theorem update_list_value (a : uparts RN) : ub x 0 = 0 -> lb x 0 = 0 ->
  pv (update_list RN ub lb x a) = ub x (pv (fst a)) - lb x (pv (snd a)).
Proof. intros Hu Hl. destruct a as [[p|] [n|]]; cbn [update_list pv fst snd]; rn_simpl; rewrite ?Hu, ?Hl; lra. Qed.
(* the upper-bound function never sees the depressing part and vice versa *)
Theorem upper_bound_only_sees_potentiation (ub' : R -> R -> R) n :
  update_list RN ub lb x (None, n) = update_list RN ub' lb x (None, n).
Proof. destruct n; reflexivity. Qed.
Theorem lower_bound_only_sees_depression (lb' : R -> R -> R) p :
  update_list RN ub lb x (p, None) = update_list RN ub lb' x (p, None).
Proof. destruct p; reflexivity. Qed.
End Routing.

Lemma half_apply_zero k lim x : half_apply RN k lim x 0 = 0.
Proof.
  destruct k; cbn [half_apply]; unfold bound_upper_multiplicative, bound_lower_multiplicative, bound_upper_sharp,
    bound_lower_sharp, bound_upper_scaled_multiplicative, bound_lower_scaled_multiplicative; rn_simpl; ring.
Qed.
Lemma slot_apply_zero s x : slot_apply RN s x 0 = 0.
Proof. destruct s; cbn [slot_apply]; [reflexivity | apply half_apply_zero]. Qed.

(* the three forms of bind, on the parts a trainer handed (missing part = 0) *)
Theorem bind_update_default x a : pv (bind_update RN BDefault x a) = pv (fst a) - pv (snd a).
Proof. destruct a as [[p|] [n|]]; cbn; rn_simpl; lra. Qed.
Theorem bind_update_half u l x a :
  pv (bind_update RN (BHalf RN u l) x a) = slot_apply RN u x (pv (fst a)) - slot_apply RN l x (pv (snd a)).
Proof. cbn [bind_update]. apply update_list_value; apply slot_apply_zero. Qed.
(* soft (multiplicative) bounds installed with upperbound / lowerbound or with fullbound: potentiation is scaled by the
   distance to the upper limit, depression by the distance to the lower limit *)
Theorem bind_update_soft_half mx mn x a :
  pv (bind_update RN (BHalf RN (SBound RN (HMulU RN) mx) (SBound RN (HMulL RN) mn)) x a)
  = (mx - x) * pv (fst a) - (x - mn) * pv (snd a).
Proof. rewrite bind_update_half. reflexivity. Qed.
Theorem bind_update_soft_full mx mn x a :
  pv (bind_update RN (BFull RN FMul (Some mx) (Some mn)) x a) = (mx - x) * pv (fst a) - (x - mn) * pv (snd a).
Proof.
  destruct a as [[p|] [n|]]; cbn [bind_update update_fn full_apply pv fst snd];
    unfold bound_multiplicative, bound_upper_multiplicative, bound_lower_multiplicative; rn_simpl; ring.
Qed.
(* hard (sharp) bounds: potentiation is gated by "below the upper limit", depression by "above the lower limit" *)
Theorem bind_update_sharp_half mx mn x a : x < mx -> mn < x ->
  pv (bind_update RN (BHalf RN (SBound RN (HSharpU RN) mx) (SBound RN (HSharpL RN) mn)) x a) = pv (fst a) - pv (snd a).
Proof.
  intros H1 H2. rewrite bind_update_half. cbn [slot_apply half_apply]. unfold bound_upper_sharp, bound_lower_sharp, heaviside.
  rn_simpl. rcases; lra.
Qed.
Theorem bind_update_sharp_at_upper mn x a : mn < x ->
  pv (bind_update RN (BHalf RN (SBound RN (HSharpU RN) x) (SBound RN (HSharpL RN) mn)) x a) = - pv (snd a).
Proof.
  intros H2. rewrite bind_update_half. cbn [slot_apply half_apply]. unfold bound_upper_sharp, bound_lower_sharp, heaviside.
  rn_simpl. rcases; lra.
Qed.
(* consequence for non-negative parts: inside [mn, mx] soft bounds never let potentiation lower, or depression raise,
   the parameter *)
Theorem soft_bounds_respect_direction mx mn x p n : mn <= x <= mx -> 0 <= p -> 0 <= n ->
  0 <= pv (bind_update RN (BHalf RN (SBound RN (HMulU RN) mx) (SBound RN (HMulL RN) mn)) x (Some p, None)) /\
  pv (bind_update RN (BHalf RN (SBound RN (HMulU RN) mx) (SBound RN (HMulL RN) mn)) x (None, Some n)) <= 0.
Proof.
  intros Hx Hp Hn. rewrite !bind_update_soft_half. cbn [pv fst snd]. split; nra.
Qed.
(* with the NEGATIVE-valued depressing part of LinearHomeostasis the lower-bound scaling pushes the parameter UP *)
Theorem homeostasis_breaks_soft_bounds :
  exists mx mn x (a : uparts RN), mn <= x <= mx /\ a = (Some 0, Some (-3)) /\
    mx < x + pv (bind_update RN (BHalf RN (SBound RN (HMulU RN) mx) (SBound RN (HMulL RN) mn)) x a).
Proof.
  exists 1, 0, (1/2), (Some 0, Some (-3)). split; [lra|]. split; [reflexivity|].
  rewrite bind_update_soft_half. cbn [pv fst snd]. lra.
Qed.

(* ================================================================== E. the finding in general form *)
(* bias is handled exactly like weight (like_bias only reshapes); delay is weight with the plasticity negated *)
Theorem homeo_bias_is_weight rk lam targets rates :
  h_forward RN rk PBias lam targets rates = h_forward RN rk PWeight lam targets rates.
Proof. reflexivity. Qed.
Theorem homeo_delay_is_negated_weight rk lam targets rates :
  h_forward RN rk PDelay lam targets rates = h_forward RN rk PWeight (- lam) targets rates.
Proof. reflexivity. Qed.

Lemma Forall2_impl' {A B} (P Q : A -> B -> Prop) la lb : (forall a b, P a b -> Q a b) -> Forall2 P la lb -> Forall2 Q la lb.
Proof. intros H. induction 1; constructor; auto. Qed.
Lemma rsum2_nonpos (f : R -> R -> R) la lb : Forall2 (fun a b => f a b <= 0) la lb -> rsum2 f la lb <= 0.
Proof. induction 1 as [|a b ta tb H _ IH]; cbn [rsum2]; lra. Qed.
Lemma rsum2_nonneg (f : R -> R -> R) la lb : Forall2 (fun a b => 0 <= f a b) la lb -> 0 <= rsum2 f la lb.
Proof. induction 1 as [|a b ta tb H _ IH]; cbn [rsum2]; lra. Qed.
Lemma div_INR_sign x n : (x <= 0 -> x / INR n <= 0) /\ (0 <= x -> 0 <= x / INR n).
Proof.
  pose proof (pos_INR n). unfold Rdiv. destruct (Req_dec (INR n) 0) as [E|E]; [rewrite E, Rinv_0; split; intros; lra|].
  assert (0 < / INR n) by (apply Rinv_0_lt_compat; lra). split; intros; nra.
Qed.
(* a sample whose receptive units all fire at or above their (positive) targets has a non-positive documented term for
   weight / bias with plasticity >= 0 *)
Lemma doc_term_above lam tg r : 0 <= lam -> Forall2 (fun t x => 0 < t <= x) tg r -> doc_term PWeight lam tg r <= 0.
Proof.
  intros Hl H. unfold doc_term.
  assert (S : rsum2 (fun t x => (t - x) / t) tg r <= 0).
  { apply rsum2_nonpos. eapply Forall2_impl'; [|exact H]. intros t x [H1 H2]. cbv beta.
    assert (0 < / t) by (apply Rinv_0_lt_compat; lra). unfold Rdiv. nra. }
  pose proof (proj1 (div_INR_sign _ (length r)) S). nra.
Qed.
Lemma doc_term_below lam tg r : 0 <= lam -> Forall2 (fun t x => 0 <= x <= t /\ 0 < t) tg r -> 0 <= doc_term PWeight lam tg r.
Proof.
  intros Hl H. unfold doc_term.
  assert (S : 0 <= rsum2 (fun t x => (t - x) / t) tg r).
  { apply rsum2_nonneg. eapply Forall2_impl'; [|exact H]. intros t x [[H1 H2] H3]. cbv beta.
    assert (0 < / t) by (apply Rinv_0_lt_compat; lra). unfold Rdiv. nra. }
  pose proof (proj2 (div_INR_sign _ (length r)) S). nra.
Qed.
Lemma zip2_Forall {A B} (P : R -> Prop) (Q : A -> B -> Prop) (f : A -> B -> R) la lb :
  (forall a b, Q a b -> P (f a b)) -> Forall2 Q la lb -> Forall P (zip2 f la lb).
Proof. intros Hf. induction 1 as [|a b ta tb H _ IH]; cbn [zip2]; constructor; [apply Hf; exact H | exact IH]. Qed.

(* FINDING, general form (weight and bias): for EVERY batch of rates that are all at or above their targets, every
   plasticity >= 0 and the sum / mean reductions, the change the updater applies is MINUS the documented change: the
   parameter is raised (or left alone) exactly when the rule says it must be lowered *)
Theorem homeo_rates_above_target_moves_away rk lam targets rates :
  linear_kind rk -> 0 <= lam -> Forall2 (Forall2 (fun t x => 0 < t <= x)) targets rates ->
  let out := h_forward RN rk PWeight lam targets rates in
  let documented := hreduce RN rk (zip2 (doc_term PWeight lam) targets rates) in
  documented <= 0 /\ pv (fst out) = 0 /\ pv (snd out) = documented /\ pv (fst out) - pv (snd out) = - documented.
Proof.
  intros Hk Hl H. cbv zeta.
  assert (Hks : Forall (fun x => x <= 0) (h_ks RN PWeight lam targets rates)).
  { rewrite h_ks_documented. eapply zip2_Forall; [|exact H]. intros tg r Hr. apply doc_term_above; assumption. }
  destruct (homeo_above_target_moves_away rk PWeight lam targets rates Hk Hks) as (E1 & E2 & E3).
  rewrite <- h_ks_documented. split; [apply (proj2 (hreduce_sign rk)); exact Hks|]. repeat split; assumption.
Qed.
(* ... and correct when all rates are at or below target *)
Theorem homeo_rates_below_target_ok rk lam targets rates :
  0 <= lam -> Forall2 (Forall2 (fun t x => 0 <= x <= t /\ 0 < t)) targets rates ->
  let out := h_forward RN rk PWeight lam targets rates in
  pv (snd out) = 0 /\ pv (fst out) - pv (snd out) = hreduce RN rk (zip2 (doc_term PWeight lam) targets rates).
Proof.
  intros Hl H. cbv zeta. rewrite <- h_ks_documented. apply homeo_toward_target_when_no_term_negative.
  rewrite h_ks_documented. eapply zip2_Forall; [|exact H]. intros tg r Hr. apply doc_term_below; assumption.
Qed.

(* the per-step-target form of the run (what the harness executes) is the fixed-target run when the target never changes *)
Theorem h_run_v_const rk p lam targets steps : forall st,
  h_run_v RN rk p lam st (map (fun s => (targets, s)) steps) = h_run RN rk p lam targets st steps.
Proof.
  induction steps as [|s tl IH]; intros st; [reflexivity|]. cbn [map h_run_v h_run fst snd]. rewrite IH. reflexivity.
Qed.

(* ================================================================== F. which target each cell of a trainer sees *)
(* forward()'s loop over the cells gives every cell the documented target: the explicit one when given, else its own default *)
Theorem targets_used_is_doc fwd dflts : targets_used RN fwd dflts = targets_doc RN fwd dflts.
Proof.
  induction dflts as [|d tl IH]; [reflexivity|]. cbn [targets_used targets_doc map] in *. rewrite IH.
  destruct fwd; reflexivity.
Qed.
Theorem targets_used_explicit v dflts : targets_used RN (Some v) dflts = map (fun _ => Some v) dflts.
Proof. rewrite targets_used_is_doc. reflexivity. Qed.
Theorem targets_used_default dflts : targets_used RN None dflts = dflts.
Proof. rewrite targets_used_is_doc. unfold targets_doc. apply map_id. Qed.
(* the RuntimeError ("no target at all") is raised exactly for the cells without a default when none is passed *)
Theorem targets_used_none_iff fwd dflts j :
  nth j (targets_used RN fwd dflts) (Some 0) = None <-> fwd = None /\ nth j dflts (Some 0) = None.
Proof.
  rewrite targets_used_is_doc. unfold targets_doc. revert j. induction dflts as [|d tl IH]; intros j.
  - destruct j; cbn; split; [discriminate | intros [_ H]; discriminate | discriminate | intros [_ H]; discriminate].
  - destruct j; cbn [map nth]; [|apply IH]. destruct fwd; split; try discriminate; try (intros [H _]; discriminate); auto.
    intros [_ H]. exact H.
Qed.

(* the loop as it was before the repair (6f3edbb): an explicit target reached every cell, the first cell saw its own
   default, all cells did when their defaults coincided ... *)
Theorem old_targets_used_explicit v dflts : targets_used_old RN (Some v) dflts = targets_doc RN (Some v) dflts.
Proof. induction dflts as [|d tl IH]; [reflexivity|]. cbn [targets_used_old targets_doc map] in *. rewrite IH. reflexivity. Qed.
Theorem old_targets_used_same_default d n : targets_used_old RN None (repeat (Some d) n) = targets_doc RN None (repeat (Some d) n).
Proof.
  destruct n as [|n]; [reflexivity|]. cbn [repeat targets_used_old targets_doc map]. f_equal.
  rewrite old_targets_used_explicit. unfold targets_doc. induction n as [|n IH]; [reflexivity|]. cbn [repeat map]. rewrite IH. reflexivity.
Qed.
(* ... but REFUTED in general: with different per-cell defaults the later cells were regulated toward the FIRST cell's target
   (found by this check, repaired upstream; corpus/C09/04 is the regression case) *)
Theorem old_target_carryover_refuted :
  exists dflts : list (option R), targets_used_old RN None dflts <> targets_doc RN None dflts /\
    targets_used_old RN None dflts = [Some (1/4); Some (1/4)] /\ targets_doc RN None dflts = [Some (1/4); Some (3/4)] /\
    targets_used RN None dflts = targets_doc RN None dflts.
Proof.
  exists [Some (1/4); Some (3/4)]. split; [|repeat split; reflexivity]. cbn. intros E. inversion E. lra.
Qed.
