(* C09 - the sign split of the kernel trainers (KernelSTDP, DelayAdjustedKernelSTDP, DelayAdjustedKernelSTDPD; model
   C18/DelayAdj.kernel_fwd, arbitrary half kernels):
   A. the contract per part: per half kernel, the batch reduction of the sample sums of the non-negative contributions
      (potentiation) / of the negative contributions, negated (depression);
   B. joining the two half kernels BEFORE the split (a seeded regression) keeps the net but loses parts: refuted by witness;
   C. with a non-odd reduction (amax / amin) "minus the reduction of the negative sums" is not the reduction of the
      magnitudes: witness (finding candidate of the unchanged tree). *)
From Coq Require Import List ZArith Bool Reals Lra Lia.
From Inferno Require Import Base.Num Base.NumR C18.DelayAdj C18.EventProofs C18.DelayAdjProofs C09.Split.
Import ListNotations.
Open Scope R_scope.

Definition posc (x : R) : R := if Rle_dec 0 x then x else 0.       (* a non-negative contribution *)
Definition negc (x : R) : R := if Rle_dec 0 x then 0 else - x.     (* magnitude of a negative contribution *)
Lemma clamp_min0_posc (k : R -> R) (v : nvR) : nan0 RN (clamp_min0 RN (option_map k v)) = match v with Some x => posc (k x) | None => 0 end.
Proof.
  destruct v as [x|]; [|reflexivity]. cbn. unfold tmax, posc. rn_simpl.
  destruct (Rltb'_spec (k x) 0); destruct (Rle_dec 0 (k x)); lra.
Qed.
Lemma clamp_max0_negc (k : R -> R) (v : nvR) : nan0 RN (clamp_max0 RN (option_map k v)) = - match v with Some x => negc (k x) | None => 0 end.
Proof.
  destruct v as [x|]; [|cbn; rn_simpl; lra]. cbn. unfold tmin, negc. rn_simpl.
  destruct (Rltb'_spec 0 (k x)); destruct (Rle_dec 0 (k x)); lra.
Qed.
(* sum over the receptive field of one sample of f applied to the defined t_delta values *)
Definition fsum (f : R -> R) (row : list nvR) : R := tsum RN (map (fun v => match v with Some x => f x | None => 0 end) row).

(* A. for every reduction and all half kernels: potentiation = red(sums of the non-negative post contributions) + the same
   for pre; depression = -(red(-(sums of the negative post magnitudes)) + ...) *)
Theorem kernel_parts_contract (red : list R -> R) (kpost kpre : R -> R) tds :
  kernel_fwd RN red kpost kpre tds =
  (Some (red (map (fsum (fun x => posc (kpost x))) tds) + red (map (fsum (fun x => posc (kpre x))) tds)),
   Some (- (red (map (fun row => - fsum (fun x => negc (kpost x)) row) tds)
            + red (map (fun row => - fsum (fun x => negc (kpre x)) row) tds)))).
Proof.
  unfold kernel_fwd, rsum. rn_simpl.
  assert (P : forall k row, nansum RN (map (fun v => clamp_min0 RN (option_map k v)) row) = fsum (fun x => posc (k x)) row).
  { intros k row. unfold nansum, fsum. rewrite map_map. f_equal. apply map_ext. intros v. apply clamp_min0_posc. }
  assert (Q : forall k row, nansum RN (map (fun v => clamp_max0 RN (option_map k v)) row) = - fsum (fun x => negc (k x)) row).
  { intros k row. unfold nansum, fsum. rewrite map_map.
    induction row as [|v t IH]; cbn [map tsum]; rn_simpl; [lra|].
    rewrite IH, clamp_max0_negc.
    set (b := tsum RN _). clearbody b. destruct v; change (T RN) with R in *; lra. }
  rewrite (map_ext _ _ (P kpost)), (map_ext _ _ (P kpre)), (map_ext _ _ (Q kpost)), (map_ext _ _ (Q kpre)). reflexivity.
Qed.
(* for sum / mean the depressing part is the reduction of the magnitudes *)
Theorem kernel_depression_linear red (kpost kpre : R -> R) tds : homog red ->
  part_val RN (snd (kernel_fwd RN red kpost kpre tds))
  = red (map (fsum (fun x => negc (kpost x))) tds) + red (map (fsum (fun x => negc (kpre x))) tds).
Proof.
  intros Hh. rewrite kernel_parts_contract. cbn [snd part_val].
  assert (E : forall f, red (map (fun row => - fsum f row) tds) = - red (map (fsum f) tds)).
  { intros f. replace (- red (map (fsum f) tds)) with ((-1) * red (map (fsum f) tds)) by ring. rewrite <- Hh, map_map.
    f_equal. apply map_ext. intros; ring. }
  rewrite !E. rn_simpl. ring.
Qed.

(* B. the seeded variant: add the half kernels first, then split and reduce *)
Definition kernel_fwd_joined (red : list R -> R) (kpost kpre : R -> R) (tds : list (list nvR)) : parts RN :=
  (Some (rsum RN red (fun v => clamp_min0 RN (option_map (fun x => kpost x + kpre x) v)) tds),
   Some (- rsum RN red (fun v => clamp_max0 RN (option_map (fun x => kpost x + kpre x) v)) tds)).
Theorem kernel_joined_split_refuted :
  exists (kpost kpre : R -> R) (tds : list (list nvR)),
    let red := reduce RN RSum in
    kernel_fwd RN red kpost kpre tds = (Some 1, Some 1) /\ kernel_fwd_joined red kpost kpre tds = (Some 0, Some 0) /\
    net RN (kernel_fwd RN red kpost kpre tds) = net RN (kernel_fwd_joined red kpost kpre tds).
Proof.
  exists (fun _ => 1), (fun _ => -1), [[Some 0]]. cbv zeta.
  assert (A : kernel_fwd RN (reduce RN RSum) (fun _ => 1) (fun _ => -1) [[Some 0]] = (Some 1, Some 1)).
  { unfold kernel_fwd, rsum, nansum. cbn. unfold tmax, tmin. rn_simpl.
    destruct (Rltb'_spec 1 0); [lra|]. destruct (Rltb'_spec (-1) 0); [|lra].
    destruct (Rltb'_spec 0 1); [|lra]. destruct (Rltb'_spec 0 (-1)); [lra|]. f_equal; f_equal; lra. }
  assert (B : kernel_fwd_joined (reduce RN RSum) (fun _ => 1) (fun _ => -1) [[Some 0]] = (Some 0, Some 0)).
  { unfold kernel_fwd_joined, rsum, nansum. cbn. unfold tmax, tmin. rn_simpl. replace (1 + -1) with 0 by lra.
    destruct (Rltb'_spec 0 0); [lra|]. f_equal; f_equal; lra. }
  split; [exact A|]. split; [exact B|].
  transitivity (net RN (Some 1, Some 1)); [f_equal; exact A|]. transitivity (net RN (Some 0, Some 0)); [|f_equal; symmetry; exact B].
  unfold net. cbn. rn_simpl. lra.
Qed.

(* C. amax: two samples whose negative post contributions have magnitudes 1 and 3: the depressing part is 1, the
   potentiating part of the mirrored kernel is 3 *)
Theorem kernel_amax_depression_refuted :
  exists (k : R -> R) (tds : list (list nvR)),
    let red := kreduce RN KAmax in
    part_val RN (snd (kernel_fwd RN red k (fun _ => 0) tds)) = 1 /\
    red (map (fsum (fun x => negc (k x))) tds) = 3 /\
    part_val RN (fst (kernel_fwd RN red (fun x => - k x) (fun _ => 0) tds)) = 3.
Proof.
  exists (fun x => - x), [[Some 1]; [Some 3]]. cbv zeta. rewrite !kernel_parts_contract. cbn [fst snd part_val].
  unfold fsum, negc, posc. cbn [map tsum kreduce fold_left]. unfold tmax. rn_simpl.
  repeat match goal with |- context [Rle_dec ?a ?b] => destruct (Rle_dec a b); try lra end.
  repeat match goal with |- context [Rltb' ?a ?b] => destruct (Rltb'_spec a b); try lra end.
  all: repeat split; lra.
Qed.
