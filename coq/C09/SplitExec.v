(* C09 - executable (binary64) instances for the correspondence check and their serialisers.
   run_homeo : LinearHomeostasis on one parameter element, then Accumulator.update with the configured bind.
   run_stdp  : the C08 per-synapse model of STDP / triplet / MSTDP / MSTDPET (reused unchanged), its (pos, neg) parts of
               every trainer call accumulated and applied through the configured bind.
   (The delay-adjusted and kernel trainers are run through C18/DelayAdjExec.run_case.) *)
From Coq Require Import List ZArith Bool PrimFloat.
From Inferno Require Import Base.Num Base.NumF C08.Stdp C09.Split.
From Inferno Require C18.DelayAdj.
Import ListNotations.

Definition fl := PrimFloat.float.
Definition ser_part (o : option fl) : tree := ser_option ser_float o.
Definition ser_parts (a : option fl * option fl) : tree := Nd [ser_part (fst a); ser_part (snd a)].

Definition hredk (z : Z) : hred := if (z =? 0)%Z then HSum else if (z =? 1)%Z then HMean else HAmax.
Definition hpar (z : Z) : hparam := if (z =? 0)%Z then PWeight else if (z =? 1)%Z then PBias else PDelay.
Definition bits (l : list (list Z)) : list (list bool) := map (map (fun z => negb (z =? 0)%Z)) l.

(* accumulator contents after each trainer call *)
Fixpoint accs (a : uparts FN) (xs : list (uparts FN)) : list (uparts FN) :=
  match xs with
  | [] => []
  | x :: tl => let a' := acc_push FN a x in a' :: accs a' tl
  end.

(* per step: [rates (flat); parts of this call; accumulated parts]; then the update value and the new parameter *)
Definition run_homeo (rk p : Z) (lam : fl) (targets : list (list fl)) (steps : list (list (list Z)))
           (b : bindT FN) (x0 : fl) : tree :=
  let rs := h_run FN (hredk rk) (hpar p) lam targets (h_init FN) (map bits steps) in
  let ps := map snd rs in
  Nd [ser_list (fun r => ser_option (fun l => ser_list ser_float (concat l)) (h_rate FN (fst r))) rs;
      ser_list ser_parts ps;
      ser_list ser_parts (accs (None, None) ps);
      ser_part (bind_update FN b x0 (acc_all FN ps));
      ser_float (bind_forward FN b x0 (acc_all FN ps))].

(* the same with the target given per step: steps = [(targets_t, spikes_t)] *)
Definition run_homeo_v (rk p : Z) (lam : fl) (steps : list (list (list fl) * list (list Z)))
           (b : bindT FN) (x0 : fl) : tree :=
  let rs := h_run_v FN (hredk rk) (hpar p) lam (h_init FN) (map (fun s => (fst s, bits (snd s))) steps) in
  let ps := map snd rs in
  Nd [ser_list (fun r => ser_option (fun l => ser_list ser_float (concat l)) (h_rate FN (fst r))) rs;
      ser_list ser_parts ps;
      ser_list ser_parts (accs (None, None) ps);
      ser_part (bind_update FN b x0 (acc_all FN ps));
      ser_float (bind_forward FN b x0 (acc_all FN ps))].

(* cell number j of a group driven by ONE trainer object: the (scalar) target the cell sees at every call is computed by the
   model of forward()'s loop, [targets_used], from the explicit forward target of the step and the cells' defaults *)
Definition run_homeo_g (rk p : Z) (lam : fl) (j : nat) (dflts : list (option fl))
           (steps : list (option fl * list (list Z))) (b : bindT FN) (x0 : fl) : tree :=
  run_homeo_v rk p lam
    (map (fun s => let tg := match nth j (targets_used FN (fst s) dflts) None with Some v => v | None => nan end in
                   (map (map (fun _ => tg)) (snd s), snd s)) steps) b x0.

(* [0; parts of every call; accumulated parts; update value; new weight]  or  [1; error code] *)
Definition run_stdp (c : config FN) (k : nat) (B : nat) (inps : list (list (bool * bool) * signal FN))
           (b : bindT FN) (w0 : fl) : tree :=
  if hp_ok FN c && cfg_ok FN c k then
    let outs := run FN c k (init_batch FN B) inps in
    Nd [L 0; ser_list ser_parts outs; ser_list ser_parts (accs (None, None) outs);
        ser_part (bind_update FN b w0 (acc_all FN outs)); ser_float (bind_forward FN b w0 (acc_all FN outs))]
  else Nd [L 1; L 2].

(* ------------------------------------------------------------------ kernel trainers with custom half kernels
   The C18 model of a trained cell (event monitors, t_delta, kernel_fwd) run with two kernels of the two_sided family and
   one of the four batch reductions.  Per step: the two monitors' tensors and the (pos, neg) parts of every element. *)
Definition kredk (z : Z) : kred := if (z =? 0)%Z then KSum else if (z =? 1)%Z then KMean else if (z =? 2)%Z then KAmax else KAmin.
Definition kbits (l : list Z) : list bool := map (fun z => negb (z =? 0)%Z) l.
Definition kstep (pre post : list Z) (delays : list fl) : DelayAdj.stepin FN :=
  DelayAdj.mkIn FN (kbits pre) (kbits post) delays (@DelayAdj.SigNone FN).
Definition ser_nv (v : DelayAdj.nv FN) : tree := match v with None => Nd [L 3; L 0; L 0]%Z | Some x => ser_float x end.
Definition ser_kstep (r : DelayAdj.cellstate FN * list (DelayAdj.parts FN)) : tree :=
  Nd [ser_option (ser_list ser_nv) (DelayAdj.cs_pre FN (fst r)); ser_option (ser_list ser_nv) (DelayAdj.cs_post FN (fst r));
      ser_list ser_parts (snd r)].
Definition run_kernel_cell (B npre npost : nat) (syn : list (list (nat * nat))) (dt : fl) (rk : Z) (adjusted : bool)
           (p1 p2 p3 p4 q1 q2 q3 q4 : fl) (steps : list (DelayAdj.stepin FN)) : tree :=
  ser_list ser_kstep
    (DelayAdj.cell_run FN (kreduce FN (kredk rk))
       (DelayAdj.mkCfg FN B npre npost syn dt
          ((if adjusted then DelayAdj.TDaKernel FN else DelayAdj.TKernel FN) (two_sided FN p1 p2 p3 p4) (two_sided FN q1 q2 q3 q4)))
       (DelayAdj.mkCS FN None None) steps).
