(* C19 - theorems about the encoder model, real-number reading (RN).  Every statement is for ALL draws
   (random schedules), step counts, sizes.  Domain of the refractory theorems (what the setters of
   HomogeneousPoissonEncoder enforce, up to the boundary): step_time > 0, refrac >= 0, intensities >= 0,
   and when compensating  rate * refrac <= 1000;  draws of exponential_ are >= 0. *)
From Coq Require Import List ZArith Bool Arith Lia Reals Lra Sorted.
From Flocq Require Import Core.Raux.
From Inferno Require Import Base.Num Base.NumR C19.Encoders C19.EncodersLists.
Import ListNotations.
Open Scope R_scope.

(* the refractory period in ms that the functional encoder uses: the step time when None *)
Definition refrac_ms (refrac : option R) (dt : R) : R := match refrac with None => dt | Some r => r end.

(* ------------------------------------------------------------------ small real facts *)
Lemma Zfloor_add_ge a b : (Zfloor a + Zfloor b <= Zfloor (a + b))%Z.
Proof.
  apply Zfloor_lub. rewrite plus_IZR. pose proof (Zfloor_lb a). pose proof (Zfloor_lb b). lra.
Qed.

Lemma Zfloor_nonneg a : 0 <= a -> (0 <= Zfloor a)%Z.
Proof. intros H. apply Zfloor_lub. simpl. auto. Qed.

Lemma tmax_Rmax a b : tmax RN a b = Rmax a b.
Proof.
  unfold tmax; rn_simpl. unfold Rmax. destruct (Rltb'_spec a b); destruct (Rle_dec a b); auto; lra.
Qed.

Lemma refrac_steps_eq refrac dt : refrac_steps RN refrac dt = refrac_ms refrac dt / dt.
Proof. reflexivity. Qed.

Lemma refrac_steps_nonneg refrac dt : 0 < dt -> 0 <= refrac_ms refrac dt -> 0 <= refrac_steps RN refrac dt.
Proof.
  intros Hdt Hr. rewrite refrac_steps_eq. unfold Rdiv. apply Rle_mult_inv_pos; auto.
Qed.

Lemma scale_of_zero dt r comp : scale_of RN 0 dt r comp = None.
Proof.
  unfold scale_of, period_steps; rn_simpl. destruct (Reqb'_spec 0 0); [|lra]. destruct comp; auto.
Qed.

Lemma scale_of_nonneg inp dt rms comp v :
  0 < dt -> 0 <= inp -> (comp = true -> inp * rms <= 1000) ->
  scale_of RN inp dt (rms / dt) comp = Some v -> 0 <= v.
Proof.
  intros Hdt Hinp Hdom. unfold scale_of, period_steps; rn_simpl.
  destruct (Reqb'_spec inp 0) as [|Hne]; [destruct comp; discriminate|].
  assert (Hpos : 0 < inp) by lra.
  assert (Hid : 0 < inp * dt) by (apply Rmult_lt_0_compat; auto).
  destruct comp; simpl; intros H; inversion H; subst; clear H.
  - replace (1 / inp * (1000 / dt) - rms / dt) with ((1000 - inp * rms) * / (inp * dt)) by (field; lra).
    apply Rle_mult_inv_pos; auto. specialize (Hdom eq_refl). lra.
  - replace (1 / inp * (1000 / dt)) with (1000 * / (inp * dt)) by (field; lra).
    apply Rle_mult_inv_pos; auto. lra.
Qed.

(* ------------------------------------------------------------------ cumulative sums of finite intervals *)
Fixpoint csR_from (acc : R) (l : list R) : list R :=
  match l with [] => [] | x :: t => (acc + x) :: csR_from (acc + x) t end.
Definition csR (l : list R) : list R := match l with [] => [] | x :: t => x :: csR_from x t end.

Lemma cumsum_from_some acc l : cumsum_from RN (Some acc) (map Some l) = map Some (csR_from acc l).
Proof. revert acc; induction l as [|x t IH]; intros acc; simpl; auto. rewrite IH. auto. Qed.

Lemma cumsum_some l : cumsum RN (map Some l) = map Some (csR l).
Proof. destruct l as [|x t]; simpl; auto. rewrite cumsum_from_some. auto. Qed.

Lemma cumsum_from_none l acc : Forall (fun x => x = None) l ->
  Forall (fun x => x = None) (cumsum_from RN acc l).
Proof.
  revert acc; induction l as [|x t IH]; intros acc H; simpl; auto.
  inversion H; subst. constructor.
  - destruct acc; auto.
  - apply IH; auto.
Qed.

Lemma cumsum_none l : Forall (fun x => x = None) l -> Forall (fun x => x = None) (cumsum RN l).
Proof.
  destruct l as [|x t]; intros H; simpl; auto. inversion H; subst. constructor; auto.
  apply cumsum_from_none; auto.
Qed.

Lemma csR_from_length acc l : length (csR_from acc l) = length l.
Proof. revert acc; induction l; intros; simpl; auto. Qed.
Lemma csR_length l : length (csR l) = length l.
Proof. destruct l; simpl; auto. rewrite csR_from_length; auto. Qed.

Definition gapped (r : R) : list R -> Prop := StronglySorted (fun a b => a + r <= b).

Lemma csR_from_gapped r acc l : 0 <= r -> Forall (fun x => r <= x) l ->
  gapped r (csR_from acc l) /\ Forall (fun c => acc + r <= c) (csR_from acc l).
Proof.
  intros Hr. revert acc; induction l as [|x t IH]; intros acc H; simpl.
  - split; constructor.
  - inversion H; subst. destruct (IH (acc + x) H3) as [Hs Hf]. split.
    + constructor; auto.
    + constructor; [lra|]. eapply Forall_impl; [|exact Hf]. simpl; intros; lra.
Qed.

Lemma csR_gapped r l : 0 <= r -> Forall (fun x => r <= x) l ->
  gapped r (csR l) /\ Forall (fun c => r <= c) (csR l).
Proof.
  intros Hr H. destruct l as [|x t]; simpl; [split; constructor|].
  inversion H; subst. destruct (csR_from_gapped r x t Hr H3) as [Hs Hf]. split.
  - constructor; auto.
  - constructor; auto. eapply Forall_impl; [|exact Hf]. simpl; intros; lra.
Qed.

Lemma gapped_in r l x y : 0 <= r -> gapped r l -> In x l -> In y l -> x < y -> x + r <= y.
Proof.
  intros Hr Hs. induction Hs as [|a t Hs IH Hf]; intros Hx Hy Hlt; [destruct Hx|].
  rewrite Forall_forall in Hf. destruct Hx as [<-|Hx]; destruct Hy as [<-|Hy].
  - lra.
  - apply Hf; auto.
  - specialize (Hf _ Hx). lra.
  - auto.
Qed.

(* ------------------------------------------------------------------ clamp_max_(steps).long() *)
Lemma clamp_index_ge steps c : IZR (Z.of_nat steps) <= c -> clamp_index RN steps (Some c) = Z.of_nat steps.
Proof.
  intros H. unfold clamp_index, tmin; rn_simpl. unfold Ztrunc'.
  assert (H0 : 0 <= IZR (Z.of_nat steps)) by (apply IZR_le; lia).
  destruct (Rltb'_spec (IZR (Z.of_nat steps)) c).
  - destruct (Rlt_dec (IZR (Z.of_nat steps)) 0); [lra|]. apply Zfloor_IZR.
  - assert (c = IZR (Z.of_nat steps)) as -> by lra.
    destruct (Rlt_dec (IZR (Z.of_nat steps)) 0); [lra|]. apply Zfloor_IZR.
Qed.

Lemma clamp_index_lt steps c : 0 <= c -> c < IZR (Z.of_nat steps) ->
  clamp_index RN steps (Some c) = Zfloor c /\ (0 <= Zfloor c < Z.of_nat steps)%Z.
Proof.
  intros H0 H. unfold clamp_index, tmin; rn_simpl. unfold Ztrunc'.
  destruct (Rltb'_spec (IZR (Z.of_nat steps)) c); [lra|].
  destruct (Rlt_dec c 0); [lra|]. split; auto. split.
  - apply Zfloor_nonneg; auto.
  - apply lt_IZR. pose proof (Zfloor_lb c). lra.
Qed.

Lemma clamp_index_range steps c : 0 <= c -> (0 <= clamp_index RN steps (Some c) <= Z.of_nat steps)%Z.
Proof.
  intros H0. destruct (Rlt_dec c (IZR (Z.of_nat steps))) as [H|H].
  - destruct (clamp_index_lt steps c H0 H) as [-> ?]. lia.
  - rewrite clamp_index_ge by lra. lia.
Qed.

(* a spike strictly before the end comes from an unclamped time *)
Lemma clamp_index_inv steps c t : 0 <= c -> (t < steps)%nat ->
  clamp_index RN steps (Some c) = Z.of_nat t -> c < IZR (Z.of_nat steps) /\ Zfloor c = Z.of_nat t.
Proof.
  intros H0 Ht H. destruct (Rlt_dec c (IZR (Z.of_nat steps))) as [Hc|Hc].
  - destruct (clamp_index_lt steps c H0 Hc) as [E _]. split; auto. congruence.
  - rewrite clamp_index_ge in H by lra. lia.
Qed.

(* ------------------------------------------------------------------ spike indices of one element *)
Definition used (steps : nat) (r : R) (draws : list R) : list R :=
  firstn (Z.to_nat (nbins RN steps r)) draws.

Lemma exp_indices_some steps r v draws :
  exp_indices RN steps r (Some v) draws =
  map (fun c => clamp_index RN steps (Some c)) (csR (map (fun e => e * v + r) (used steps r draws))).
Proof.
  unfold exp_indices, used.
  replace (map (interval RN r (Some v)) (firstn (Z.to_nat (nbins RN steps r)) draws))
    with (map Some (map (fun e => e * v + r) (firstn (Z.to_nat (nbins RN steps r)) draws))).
  - rewrite cumsum_some, map_map. auto.
  - rewrite map_map. apply map_ext. intros e. reflexivity.
Qed.

Lemma exp_indices_none steps r draws :
  Forall (fun i => i = Z.of_nat steps) (exp_indices RN steps r None draws).
Proof.
  unfold exp_indices.
  assert (H : Forall (fun x : ext RN => x = None)
                (cumsum RN (map (interval RN r None) (firstn (Z.to_nat (nbins RN steps r)) draws)))).
  { apply cumsum_none. apply Forall_forall. intros x Hx. apply in_map_iff in Hx as [e [<- _]]. auto. }
  apply Forall_forall. intros i Hi. apply in_map_iff in Hi as [c [<- Hc]].
  rewrite Forall_forall in H. rewrite (H _ Hc). auto.
Qed.

Lemma intervals_ge r v ds : 0 <= v -> Forall (fun e => 0 <= e) ds ->
  Forall (fun x => r <= x) (map (fun e => e * v + r) ds).
Proof.
  intros Hv H. apply Forall_forall. intros x Hx. apply in_map_iff in Hx as [e [<- He]].
  rewrite Forall_forall in H. specialize (H _ He). pose proof (Rmult_le_pos _ _ H Hv). lra.
Qed.

Lemma firstn_Forall {A} (P : A -> Prop) n l : Forall P l -> Forall P (firstn n l).
Proof.
  revert n; induction l as [|x t IH]; intros [|n] H; simpl; auto. inversion H; subst. constructor; auto.
Qed.

Lemma exp_indices_range steps r s draws :
  0 <= r -> (forall v, s = Some v -> 0 <= v) -> Forall (fun e => 0 <= e) draws ->
  Forall (fun i => (0 <= i < Z.of_nat (steps + 1))%Z) (exp_indices RN steps r s draws).
Proof.
  intros Hr Hs Hd. destruct s as [v|].
  - rewrite exp_indices_some. apply Forall_forall. intros i Hi. apply in_map_iff in Hi as [c [<- Hc]].
    destruct (csR_gapped r (map (fun e => e * v + r) (used steps r draws)) Hr) as [_ Hge].
    { apply intervals_ge; auto. apply firstn_Forall; auto. }
    rewrite Forall_forall in Hge. specialize (Hge _ Hc).
    destruct (clamp_index_range steps c (Rle_trans _ _ _ Hr Hge)) as [A B].
    split; [exact A|]. eapply Z.le_lt_trans; [exact B|lia].
  - eapply Forall_impl; [|apply exp_indices_none]. simpl. intros; subst. lia.
Qed.

(* ------------------------------------------------------------------ offline exp-interval, one element *)
Lemma exp_offline_elem_spec steps dt refrac comp inp draws tr :
  exp_offline_elem RN steps dt refrac comp inp draws = Some tr ->
  length tr = steps /\
  (forall t, nth t tr false = true <->
     ((t < steps)%nat /\ In (Z.of_nat t)
        (exp_indices RN steps (refrac_steps RN refrac dt)
           (scale_of RN inp dt (refrac_steps RN refrac dt) comp) draws))) /\
  (count_true tr <= length (exp_indices RN steps (refrac_steps RN refrac dt)
           (scale_of RN inp dt (refrac_steps RN refrac dt) comp) draws))%nat.
Proof.
  unfold exp_offline_elem. set (idx := exp_indices _ _ _ _ _).
  destruct (scatter_true (steps + 1) idx) as [l|] eqn:E; [|discriminate].
  intros H; inversion H; subst; clear H.
  destruct (scatter_true_spec _ _ _ E) as [Hlen [_ [Hnth Hcnt]]].
  split; [rewrite removelast_length; lia|]. split.
  - intros t. destruct (Nat.lt_ge_cases t steps) as [Ht|Ht].
    + rewrite nth_removelast by lia. rewrite Hnth. split; intros [? ?]; split; auto; lia.
    + rewrite nth_overflow by (rewrite removelast_length; lia). split; [discriminate|intros [? _]; lia].
  - pose proof (count_true_removelast l). lia.
Qed.

Lemma exp_offline_elem_defined steps dt refrac comp inp draws :
  0 < dt -> 0 <= refrac_ms refrac dt -> 0 <= inp -> (comp = true -> inp * refrac_ms refrac dt <= 1000) ->
  Forall (fun e => 0 <= e) draws ->
  exists tr, exp_offline_elem RN steps dt refrac comp inp draws = Some tr.
Proof.
  intros Hdt Hr Hinp Hdom Hd. unfold exp_offline_elem.
  destruct (scatter_true_defined (steps + 1)
              (exp_indices RN steps (refrac_steps RN refrac dt)
                 (scale_of RN inp dt (refrac_steps RN refrac dt) comp) draws)) as [l ->].
  - apply exp_indices_range; auto.
    + apply refrac_steps_nonneg; auto.
    + intros v Hv. rewrite refrac_steps_eq in Hv. eapply scale_of_nonneg; eauto.
  - simpl. eauto.
Qed.

(* zero intensity: the period is +inf, every cumulative time is clamped to `steps`, the only index written
   is the one that is cut off *)
Theorem exp_offline_elem_zero_silent steps dt refrac comp draws tr :
  exp_offline_elem RN steps dt refrac comp 0 draws = Some tr ->
  forall t, nth t tr false = false.
Proof.
  intros H t. destruct (exp_offline_elem_spec _ _ _ _ _ _ _ H) as [_ [Hn _]].
  destruct (nth t tr false) eqn:E; auto. apply Hn in E. destruct E as [Ht Hin].
  rewrite scale_of_zero in Hin. pose proof (exp_indices_none steps (refrac_steps RN refrac dt) draws) as Hf.
  rewrite Forall_forall in Hf. apply Hf in Hin. lia.
Qed.

(* minimum gap: consecutive or not, two spikes of an element are at least floor(refrac/dt) steps apart *)
Theorem exp_offline_elem_min_gap steps dt refrac comp inp draws tr t1 t2 :
  0 < dt -> 0 <= refrac_ms refrac dt -> 0 <= inp -> (comp = true -> inp * refrac_ms refrac dt <= 1000) ->
  Forall (fun e => 0 <= e) draws ->
  exp_offline_elem RN steps dt refrac comp inp draws = Some tr ->
  (t1 < t2)%nat -> nth t1 tr false = true -> nth t2 tr false = true ->
  (Zfloor (refrac_ms refrac dt / dt) <= Z.of_nat t2 - Z.of_nat t1)%Z.
Proof.
  intros Hdt Hrms Hinp Hdom Hd H Hlt H1 H2.
  destruct (exp_offline_elem_spec _ _ _ _ _ _ _ H) as [_ [Hn _]].
  apply Hn in H1. apply Hn in H2. destruct H1 as [Ht1 Hi1]. destruct H2 as [Ht2 Hi2].
  rewrite refrac_steps_eq in *. set (r := refrac_ms refrac dt / dt) in *.
  assert (Hr : 0 <= r) by (apply (refrac_steps_nonneg refrac dt); auto).
  destruct (scale_of RN inp dt r comp) as [v|] eqn:Es.
  - assert (Hv : 0 <= v) by (eapply scale_of_nonneg; eauto).
    rewrite exp_indices_some in Hi1, Hi2.
    apply in_map_iff in Hi1 as [c1 [E1 Hc1]]. apply in_map_iff in Hi2 as [c2 [E2 Hc2]].
    destruct (csR_gapped r (map (fun e => e * v + r) (used steps r draws)) Hr) as [Hs Hge].
    { apply intervals_ge; auto. apply firstn_Forall; auto. }
    rewrite Forall_forall in Hge. pose proof (Hge _ Hc1). pose proof (Hge _ Hc2).
    destruct (clamp_index_inv steps c1 t1 ltac:(lra) Ht1 E1) as [_ F1].
    destruct (clamp_index_inv steps c2 t2 ltac:(lra) Ht2 E2) as [_ F2].
    assert (Hc : c1 < c2).
    { destruct (Rlt_dec c1 c2); auto. assert (c2 <= c1) by lra.
      pose proof (Zfloor_le _ _ H3). lia. }
    pose proof (gapped_in r _ c1 c2 Hr Hs Hc1 Hc2 Hc) as Hg.
    pose proof (Zfloor_le _ _ Hg). pose proof (Zfloor_add_ge c1 r). lia.
  - pose proof (exp_indices_none steps r draws) as Hf. rewrite Forall_forall in Hf. apply Hf in Hi1. lia.
Qed.

(* corollary for the configurations the property names: refrac = k * dt gives a gap of at least k steps *)
Corollary exp_offline_elem_min_gap_multiple steps dt refrac comp inp draws tr t1 t2 (k : Z) :
  0 < dt -> (0 <= k)%Z -> refrac_ms refrac dt = IZR k * dt ->
  0 <= inp -> (comp = true -> inp * refrac_ms refrac dt <= 1000) ->
  Forall (fun e => 0 <= e) draws ->
  exp_offline_elem RN steps dt refrac comp inp draws = Some tr ->
  (t1 < t2)%nat -> nth t1 tr false = true -> nth t2 tr false = true ->
  (k <= Z.of_nat t2 - Z.of_nat t1)%Z.
Proof.
  intros Hdt Hk Hr Hinp Hdom Hd H Hlt H1 H2.
  assert (Hrms : 0 <= refrac_ms refrac dt).
  { rewrite Hr. apply Rmult_le_pos; [apply IZR_le; auto|lra]. }
  pose proof (exp_offline_elem_min_gap _ _ _ _ _ _ _ _ _ Hdt Hrms Hinp Hdom Hd H Hlt H1 H2) as G.
  replace (refrac_ms refrac dt / dt) with (IZR k) in G by (rewrite Hr; field; lra).
  rewrite Zfloor_IZR in G. auto.
Qed.

(* at most one spike in any window of floor(refrac/dt) steps *)
Theorem exp_offline_elem_once_per_refrac steps dt refrac comp inp draws tr a :
  0 < dt -> 0 <= refrac_ms refrac dt -> 0 <= inp -> (comp = true -> inp * refrac_ms refrac dt <= 1000) ->
  Forall (fun e => 0 <= e) draws ->
  exp_offline_elem RN steps dt refrac comp inp draws = Some tr ->
  (count_true (firstn (Z.to_nat (Zfloor (refrac_ms refrac dt / dt))) (skipn a tr)) <= 1)%nat.
Proof.
  intros Hdt Hrms Hinp Hdom Hd H. apply gap_window. intros t1 t2 Hlt H1 H2.
  pose proof (exp_offline_elem_min_gap _ _ _ _ _ _ _ _ _ Hdt Hrms Hinp Hdom Hd H Hlt H1 H2). lia.
Qed.

(* rate limit: an element fires at most nbins times, i.e. count * max(refrac/dt, 1) <= steps *)
Theorem exp_offline_elem_rate_limit steps dt refrac comp inp draws tr :
  0 < dt -> 0 <= refrac_ms refrac dt ->
  exp_offline_elem RN steps dt refrac comp inp draws = Some tr ->
  INR (count_true tr) * Rmax (refrac_ms refrac dt / dt) 1 <= INR steps.
Proof.
  intros Hdt Hrms H. destruct (exp_offline_elem_spec _ _ _ _ _ _ _ H) as [_ [_ Hc]].
  rewrite refrac_steps_eq in Hc. set (r := refrac_ms refrac dt / dt) in *.
  unfold exp_indices in Hc. rewrite map_length in Hc.
  assert (Hl : forall l : list (ext RN), length (cumsum RN l) = length l).
  { intros l. destruct l as [|x t]; simpl; auto. f_equal.
    generalize x. induction t; intros; simpl; auto. }
  rewrite Hl, map_length, firstn_length in Hc.
  assert (Hm : 1 <= Rmax r 1) by apply Rmax_r.
  assert (Hnb : IZR (nbins RN steps r) * Rmax r 1 <= INR steps).
  { unfold nbins; rn_simpl. rewrite tmax_Rmax. rewrite <- INR_IZR_INZ.
    pose proof (Zfloor_lb (INR steps / Rmax r 1)) as Hf.
    apply Rmult_le_compat_r with (r := Rmax r 1) in Hf; [|lra].
    replace (INR steps / Rmax r 1 * Rmax r 1) with (INR steps) in Hf by (field; lra). auto. }
  assert (Hcount : INR (count_true tr) <= Rmax 0 (IZR (nbins RN steps r))).
  { destruct (Z_lt_le_dec (nbins RN steps r) 0) as [Hneg|Hpos].
    - rewrite Z2Nat.inj_neg in Hc by lia. assert (count_true tr = 0)%nat as -> by lia.
      simpl. apply Rmax_l.
    - eapply Rle_trans; [|apply Rmax_r]. rewrite <- (Z2Nat.id (nbins RN steps r)) at 1 by auto.
      rewrite <- INR_IZR_INZ. apply le_INR. lia. }
  destruct (Rle_dec 0 (IZR (nbins RN steps r))) as [Hp|Hn].
  - rewrite Rmax_right in Hcount by auto.
    eapply Rle_trans; [|exact Hnb]. apply Rmult_le_compat_r; lra.
  - rewrite Rmax_left in Hcount by lra. pose proof (pos_INR (count_true tr)).
    assert (INR (count_true tr) = 0) as -> by lra. rewrite Rmult_0_l. apply pos_INR.
Qed.
