(* C19 - theorems about the encoder model, real-number reading (RN).  Every statement is for ALL draws
   (random schedules), step counts, sizes.  Domain of the refractory theorems (what the setters of
   HomogeneousPoissonEncoder enforce, up to the boundary): step_time > 0, refrac >= 0, intensities >= 0,
   and when compensating  rate * refrac <= 1000;  draws of exponential_ are >= 0. *)
From Coq Require Import List ZArith Bool Arith Lia Reals Lra Sorted.
From Flocq Require Import Core.Raux.
From Inferno Require Import Base.Num Base.NumR C19.Encoders C19.EncodersLists C19.EncodersPoisson.
Import ListNotations.
Open Scope R_scope.

Arguments c_steps {N} c.
Arguments c_dt {N} c.
Arguments c_freq {N} c.
Arguments c_refrac {N} c.
Arguments c_comp {N} c.

(* the refractory period in ms that the functional encoder uses: the step time when None *)
Definition refrac_ms (refrac : option R) (dt : R) : R := match refrac with None => dt | Some r => r end.

(* ------------------------------------------------------------------ small real facts *)
Lemma Zfloor_add_ge a b : (Zfloor a + Zfloor b <= Zfloor (a + b))%Z.
Proof.
  apply Zfloor_lub. rewrite plus_IZR. pose proof (Zfloor_lb a). pose proof (Zfloor_lb b). lra.
Qed.

Lemma Zfloor_nonneg a : 0 <= a -> (0 <= Zfloor a)%Z.
Proof. intros H. apply Zfloor_lub. simpl. auto. Qed.

Lemma tmax_Rmax a b : tmax RN a b = Rmax a b.
Proof.
  unfold tmax; rn_simpl. unfold Rmax. destruct (Rltb'_spec a b); destruct (Rle_dec a b); auto; lra.
Qed.

Lemma refrac_steps_eq refrac dt : refrac_steps RN refrac dt = refrac_ms refrac dt / dt.
Proof. reflexivity. Qed.

Lemma refrac_steps_nonneg refrac dt : 0 < dt -> 0 <= refrac_ms refrac dt -> 0 <= refrac_steps RN refrac dt.
Proof.
  intros Hdt Hr. rewrite refrac_steps_eq. unfold Rdiv. apply Rle_mult_inv_pos; auto.
Qed.

Lemma scale_of_zero dt r comp : scale_of RN 0 dt r comp = None.
Proof.
  unfold scale_of, period_steps; rn_simpl. destruct (Reqb'_spec 0 0); [|lra]. destruct comp; auto.
Qed.

Lemma scale_of_nonneg inp dt rms comp v :
  0 < dt -> 0 <= inp -> (comp = true -> inp * rms <= 1000) ->
  scale_of RN inp dt (rms / dt) comp = Some v -> 0 <= v.
Proof.
  intros Hdt Hinp Hdom. unfold scale_of, period_steps; rn_simpl.
  destruct (Reqb'_spec inp 0) as [|Hne]; [destruct comp; discriminate|].
  assert (Hpos : 0 < inp) by lra.
  assert (Hid : 0 < inp * dt) by (apply Rmult_lt_0_compat; auto).
  destruct comp; simpl; intros H; inversion H; subst; clear H.
  - replace (1 / inp * (1000 / dt) - rms / dt) with ((1000 - inp * rms) * / (inp * dt)) by (field; lra).
    apply Rle_mult_inv_pos; auto. specialize (Hdom eq_refl). lra.
  - replace (1 / inp * (1000 / dt)) with (1000 * / (inp * dt)) by (field; lra).
    apply Rle_mult_inv_pos; auto. lra.
Qed.

(* ------------------------------------------------------------------ cumulative sums of finite intervals *)
Fixpoint csR_from (acc : R) (l : list R) : list R :=
  match l with [] => [] | x :: t => (acc + x) :: csR_from (acc + x) t end.
Definition csR (l : list R) : list R := match l with [] => [] | x :: t => x :: csR_from x t end.

Lemma cumsum_from_some acc l : cumsum_from RN (Some acc) (map Some l) = map Some (csR_from acc l).
Proof. revert acc; induction l as [|x t IH]; intros acc; simpl; auto. rewrite IH. auto. Qed.

Lemma cumsum_some l : cumsum RN (map Some l) = map Some (csR l).
Proof. destruct l as [|x t]; simpl; auto. rewrite cumsum_from_some. auto. Qed.

Lemma cumsum_from_none l acc : Forall (fun x => x = None) l ->
  Forall (fun x => x = None) (cumsum_from RN acc l).
Proof.
  revert acc; induction l as [|x t IH]; intros acc H; simpl; auto.
  inversion H; subst. constructor.
  - destruct acc; auto.
  - apply IH; auto.
Qed.

Lemma cumsum_none l : Forall (fun x => x = None) l -> Forall (fun x => x = None) (cumsum RN l).
Proof.
  destruct l as [|x t]; intros H; simpl; auto. inversion H; subst. constructor; auto.
  apply cumsum_from_none; auto.
Qed.

Lemma csR_from_length acc l : length (csR_from acc l) = length l.
Proof. revert acc; induction l; intros; simpl; auto. Qed.
Lemma csR_length l : length (csR l) = length l.
Proof. destruct l; simpl; auto. rewrite csR_from_length; auto. Qed.

Definition gapped (r : R) : list R -> Prop := StronglySorted (fun a b => a + r <= b).

Lemma csR_from_gapped r acc l : 0 <= r -> Forall (fun x => r <= x) l ->
  gapped r (csR_from acc l) /\ Forall (fun c => acc + r <= c) (csR_from acc l).
Proof.
  intros Hr. revert acc; induction l as [|x t IH]; intros acc H; simpl.
  - split; constructor.
  - inversion H; subst. destruct (IH (acc + x) H3) as [Hs Hf]. split.
    + constructor; auto.
    + constructor; [lra|]. eapply Forall_impl; [|exact Hf]. simpl; intros; lra.
Qed.

Lemma csR_gapped r l : 0 <= r -> Forall (fun x => r <= x) l ->
  gapped r (csR l) /\ Forall (fun c => r <= c) (csR l).
Proof.
  intros Hr H. destruct l as [|x t]; simpl; [split; constructor|].
  inversion H; subst. destruct (csR_from_gapped r x t Hr H3) as [Hs Hf]. split.
  - constructor; auto.
  - constructor; auto. eapply Forall_impl; [|exact Hf]. simpl; intros; lra.
Qed.

Lemma gapped_in r l x y : 0 <= r -> gapped r l -> In x l -> In y l -> x < y -> x + r <= y.
Proof.
  intros Hr Hs. induction Hs as [|a t Hs IH Hf]; intros Hx Hy Hlt; [destruct Hx|].
  rewrite Forall_forall in Hf. destruct Hx as [<-|Hx]; destruct Hy as [<-|Hy].
  - lra.
  - apply Hf; auto.
  - specialize (Hf _ Hx). lra.
  - auto.
Qed.

(* ------------------------------------------------------------------ clamp_max_(steps).long() *)
Lemma clamp_index_ge steps c : IZR (Z.of_nat steps) <= c -> clamp_index RN steps (Some c) = Z.of_nat steps.
Proof.
  intros H. unfold clamp_index, tmin; rn_simpl. unfold Ztrunc'.
  assert (H0 : 0 <= IZR (Z.of_nat steps)) by (apply IZR_le; lia).
  destruct (Rltb'_spec (IZR (Z.of_nat steps)) c).
  - destruct (Rlt_dec (IZR (Z.of_nat steps)) 0); [lra|]. apply Zfloor_IZR.
  - assert (c = IZR (Z.of_nat steps)) as -> by lra.
    destruct (Rlt_dec (IZR (Z.of_nat steps)) 0); [lra|]. apply Zfloor_IZR.
Qed.

Lemma clamp_index_lt steps c : 0 <= c -> c < IZR (Z.of_nat steps) ->
  clamp_index RN steps (Some c) = Zfloor c /\ (0 <= Zfloor c < Z.of_nat steps)%Z.
Proof.
  intros H0 H. unfold clamp_index, tmin; rn_simpl. unfold Ztrunc'.
  destruct (Rltb'_spec (IZR (Z.of_nat steps)) c); [lra|].
  destruct (Rlt_dec c 0); [lra|]. split; auto. split.
  - apply Zfloor_nonneg; auto.
  - apply lt_IZR. pose proof (Zfloor_lb c). lra.
Qed.

Lemma clamp_index_range steps c : 0 <= c -> (0 <= clamp_index RN steps (Some c) <= Z.of_nat steps)%Z.
Proof.
  intros H0. destruct (Rlt_dec c (IZR (Z.of_nat steps))) as [H|H].
  - destruct (clamp_index_lt steps c H0 H) as [-> ?]. lia.
  - rewrite clamp_index_ge by lra. lia.
Qed.

(* a spike strictly before the end comes from an unclamped time *)
Lemma clamp_index_inv steps c t : 0 <= c -> (t < steps)%nat ->
  clamp_index RN steps (Some c) = Z.of_nat t -> c < IZR (Z.of_nat steps) /\ Zfloor c = Z.of_nat t.
Proof.
  intros H0 Ht H. destruct (Rlt_dec c (IZR (Z.of_nat steps))) as [Hc|Hc].
  - destruct (clamp_index_lt steps c H0 Hc) as [E _]. split; auto. congruence.
  - rewrite clamp_index_ge in H by lra. lia.
Qed.

(* ------------------------------------------------------------------ spike indices of one element *)
Definition used (steps : nat) (r : R) (draws : list R) : list R :=
  firstn (Z.to_nat (nbins RN steps r)) draws.

Lemma exp_indices_some steps r v draws :
  exp_indices RN steps r (Some v) draws =
  map (fun c => clamp_index RN steps (Some c)) (csR (map (fun e => e * v + r) (used steps r draws))).
Proof.
  unfold exp_indices, used.
  replace (map (interval RN r (Some v)) (firstn (Z.to_nat (nbins RN steps r)) draws))
    with (map Some (map (fun e => e * v + r) (firstn (Z.to_nat (nbins RN steps r)) draws))).
  - rewrite cumsum_some, map_map. auto.
  - rewrite map_map. apply map_ext. intros e. reflexivity.
Qed.

Lemma exp_indices_none steps r draws :
  Forall (fun i => i = Z.of_nat steps) (exp_indices RN steps r None draws).
Proof.
  unfold exp_indices.
  assert (H : Forall (fun x : ext RN => x = None)
                (cumsum RN (map (interval RN r None) (firstn (Z.to_nat (nbins RN steps r)) draws)))).
  { apply cumsum_none. apply Forall_forall. intros x Hx. apply in_map_iff in Hx as [e [<- _]]. auto. }
  apply Forall_forall. intros i Hi. apply in_map_iff in Hi as [c [<- Hc]].
  rewrite Forall_forall in H. rewrite (H _ Hc). auto.
Qed.

Lemma intervals_ge r v ds : 0 <= v -> Forall (fun e => 0 <= e) ds ->
  Forall (fun x => r <= x) (map (fun e => e * v + r) ds).
Proof.
  intros Hv H. apply Forall_forall. intros x Hx. apply in_map_iff in Hx as [e [<- He]].
  rewrite Forall_forall in H. specialize (H _ He). pose proof (Rmult_le_pos _ _ H Hv). lra.
Qed.

Lemma firstn_Forall {A} (P : A -> Prop) n l : Forall P l -> Forall P (firstn n l).
Proof.
  revert n; induction l as [|x t IH]; intros [|n] H; simpl; auto. inversion H; subst. constructor; auto.
Qed.

Lemma exp_indices_range steps r s draws :
  0 <= r -> (forall v, s = Some v -> 0 <= v) -> Forall (fun e => 0 <= e) draws ->
  Forall (fun i => (0 <= i < Z.of_nat (steps + 1))%Z) (exp_indices RN steps r s draws).
Proof.
  intros Hr Hs Hd. destruct s as [v|].
  - rewrite exp_indices_some. apply Forall_forall. intros i Hi. apply in_map_iff in Hi as [c [<- Hc]].
    destruct (csR_gapped r (map (fun e => e * v + r) (used steps r draws)) Hr) as [_ Hge].
    { apply intervals_ge; auto. apply firstn_Forall; auto. }
    rewrite Forall_forall in Hge. specialize (Hge _ Hc).
    destruct (clamp_index_range steps c (Rle_trans _ _ _ Hr Hge)) as [A B].
    split; [exact A|]. eapply Z.le_lt_trans; [exact B|lia].
  - eapply Forall_impl; [|apply exp_indices_none]. simpl. intros; subst. lia.
Qed.

(* ------------------------------------------------------------------ offline exp-interval, one element *)
Lemma exp_offline_elem_spec steps dt refrac comp inp draws tr :
  exp_offline_elem RN steps dt refrac comp inp draws = Some tr ->
  length tr = steps /\
  (forall t, nth t tr false = true <->
     ((t < steps)%nat /\ In (Z.of_nat t)
        (exp_indices RN steps (refrac_steps RN refrac dt)
           (scale_of RN inp dt (refrac_steps RN refrac dt) comp) draws))) /\
  (count_true tr <= length (exp_indices RN steps (refrac_steps RN refrac dt)
           (scale_of RN inp dt (refrac_steps RN refrac dt) comp) draws))%nat.
Proof.
  unfold exp_offline_elem. set (idx := exp_indices _ _ _ _ _).
  destruct (scatter_true (steps + 1) idx) as [l|] eqn:E; [|discriminate].
  intros H; inversion H; subst; clear H.
  destruct (scatter_true_spec _ _ _ E) as [Hlen [_ [Hnth Hcnt]]].
  split; [rewrite removelast_length; lia|]. split.
  - intros t. destruct (Nat.lt_ge_cases t steps) as [Ht|Ht].
    + rewrite nth_removelast by lia. rewrite Hnth. split; intros [? ?]; split; auto; lia.
    + rewrite nth_overflow by (rewrite removelast_length; lia). split; [discriminate|intros [? _]; lia].
  - pose proof (count_true_removelast l). lia.
Qed.

Lemma exp_offline_elem_defined steps dt refrac comp inp draws :
  0 < dt -> 0 <= refrac_ms refrac dt -> 0 <= inp -> (comp = true -> inp * refrac_ms refrac dt <= 1000) ->
  Forall (fun e => 0 <= e) draws ->
  exists tr, exp_offline_elem RN steps dt refrac comp inp draws = Some tr.
Proof.
  intros Hdt Hr Hinp Hdom Hd. unfold exp_offline_elem.
  destruct (scatter_true_defined (steps + 1)
              (exp_indices RN steps (refrac_steps RN refrac dt)
                 (scale_of RN inp dt (refrac_steps RN refrac dt) comp) draws)) as [l ->].
  - apply exp_indices_range; auto.
    + apply refrac_steps_nonneg; auto.
    + intros v Hv. rewrite refrac_steps_eq in Hv. eapply scale_of_nonneg; eauto.
  - simpl. eauto.
Qed.

(* zero intensity: the period is +inf, every cumulative time is clamped to `steps`, the only index written
   is the one that is cut off *)
Theorem exp_offline_elem_zero_silent steps dt refrac comp draws tr :
  exp_offline_elem RN steps dt refrac comp 0 draws = Some tr ->
  forall t, nth t tr false = false.
Proof.
  intros H t. destruct (exp_offline_elem_spec _ _ _ _ _ _ _ H) as [_ [Hn _]].
  destruct (nth t tr false) eqn:E; auto. apply Hn in E. destruct E as [Ht Hin].
  rewrite scale_of_zero in Hin. pose proof (exp_indices_none steps (refrac_steps RN refrac dt) draws) as Hf.
  rewrite Forall_forall in Hf. apply Hf in Hin. lia.
Qed.

(* minimum gap: consecutive or not, two spikes of an element are at least floor(refrac/dt) steps apart *)
Theorem exp_offline_elem_min_gap steps dt refrac comp inp draws tr t1 t2 :
  0 < dt -> 0 <= refrac_ms refrac dt -> 0 <= inp -> (comp = true -> inp * refrac_ms refrac dt <= 1000) ->
  Forall (fun e => 0 <= e) draws ->
  exp_offline_elem RN steps dt refrac comp inp draws = Some tr ->
  (t1 < t2)%nat -> nth t1 tr false = true -> nth t2 tr false = true ->
  (Zfloor (refrac_ms refrac dt / dt) <= Z.of_nat t2 - Z.of_nat t1)%Z.
Proof.
  intros Hdt Hrms Hinp Hdom Hd H Hlt H1 H2.
  destruct (exp_offline_elem_spec _ _ _ _ _ _ _ H) as [_ [Hn _]].
  apply Hn in H1. apply Hn in H2. destruct H1 as [Ht1 Hi1]. destruct H2 as [Ht2 Hi2].
  rewrite refrac_steps_eq in *. set (r := refrac_ms refrac dt / dt) in *.
  assert (Hr : 0 <= r) by (apply (refrac_steps_nonneg refrac dt); auto).
  destruct (scale_of RN inp dt r comp) as [v|] eqn:Es.
  - assert (Hv : 0 <= v) by (exact (scale_of_nonneg inp dt (refrac_ms refrac dt) comp v Hdt Hinp Hdom Es)).
    rewrite exp_indices_some in Hi1, Hi2.
    apply in_map_iff in Hi1 as [c1 [E1 Hc1]]. apply in_map_iff in Hi2 as [c2 [E2 Hc2]].
    destruct (csR_gapped r (map (fun e => e * v + r) (used steps r draws)) Hr) as [Hs Hge].
    { apply intervals_ge; auto. apply firstn_Forall; auto. }
    rewrite Forall_forall in Hge. pose proof (Hge _ Hc1). pose proof (Hge _ Hc2).
    destruct (clamp_index_inv steps c1 t1 ltac:(lra) Ht1 E1) as [_ F1].
    destruct (clamp_index_inv steps c2 t2 ltac:(lra) Ht2 E2) as [_ F2].
    assert (Hc : c1 < c2).
    { destruct (Rlt_dec c1 c2); auto. assert (Hle : c2 <= c1) by lra.
      pose proof (Zfloor_le _ _ Hle). lia. }
    pose proof (gapped_in r _ c1 c2 Hr Hs Hc1 Hc2 Hc) as Hg.
    pose proof (Zfloor_le _ _ Hg). pose proof (Zfloor_add_ge c1 r). lia.
  - pose proof (exp_indices_none steps r draws) as Hf. rewrite Forall_forall in Hf. apply Hf in Hi1. lia.
Qed.

(* corollary for the configurations the property names: refrac = k * dt gives a gap of at least k steps *)
Corollary exp_offline_elem_min_gap_multiple steps dt refrac comp inp draws tr t1 t2 (k : Z) :
  0 < dt -> (0 <= k)%Z -> refrac_ms refrac dt = IZR k * dt ->
  0 <= inp -> (comp = true -> inp * refrac_ms refrac dt <= 1000) ->
  Forall (fun e => 0 <= e) draws ->
  exp_offline_elem RN steps dt refrac comp inp draws = Some tr ->
  (t1 < t2)%nat -> nth t1 tr false = true -> nth t2 tr false = true ->
  (k <= Z.of_nat t2 - Z.of_nat t1)%Z.
Proof.
  intros Hdt Hk Hr Hinp Hdom Hd H Hlt H1 H2.
  assert (Hrms : 0 <= refrac_ms refrac dt).
  { rewrite Hr. apply Rmult_le_pos; [apply IZR_le; auto|lra]. }
  pose proof (exp_offline_elem_min_gap _ _ _ _ _ _ _ _ _ Hdt Hrms Hinp Hdom Hd H Hlt H1 H2) as G.
  replace (refrac_ms refrac dt / dt) with (IZR k) in G by (rewrite Hr; field; lra).
  rewrite Zfloor_IZR in G. auto.
Qed.

(* at most one spike in any window of floor(refrac/dt) steps *)
Theorem exp_offline_elem_once_per_refrac steps dt refrac comp inp draws tr a :
  0 < dt -> 0 <= refrac_ms refrac dt -> 0 <= inp -> (comp = true -> inp * refrac_ms refrac dt <= 1000) ->
  Forall (fun e => 0 <= e) draws ->
  exp_offline_elem RN steps dt refrac comp inp draws = Some tr ->
  (count_true (firstn (Z.to_nat (Zfloor (refrac_ms refrac dt / dt))) (skipn a tr)) <= 1)%nat.
Proof.
  intros Hdt Hrms Hinp Hdom Hd H. apply gap_window. intros t1 t2 Hlt H1 H2.
  pose proof (exp_offline_elem_min_gap _ _ _ _ _ _ _ _ _ Hdt Hrms Hinp Hdom Hd H Hlt H1 H2). lia.
Qed.

(* rate limit: an element fires at most nbins times, i.e. count * max(refrac/dt, 1) <= steps *)
Theorem exp_offline_elem_rate_limit steps dt refrac comp inp draws tr :
  0 < dt -> 0 <= refrac_ms refrac dt ->
  exp_offline_elem RN steps dt refrac comp inp draws = Some tr ->
  INR (count_true tr) * Rmax (refrac_ms refrac dt / dt) 1 <= INR steps.
Proof.
  intros Hdt Hrms H. destruct (exp_offline_elem_spec _ _ _ _ _ _ _ H) as [_ [_ Hc]].
  rewrite refrac_steps_eq in Hc. set (r := refrac_ms refrac dt / dt) in *.
  unfold exp_indices in Hc. rewrite map_length in Hc.
  assert (Hl : forall l : list (ext RN), length (cumsum RN l) = length l).
  { intros l. destruct l as [|x t]; simpl; auto. f_equal.
    generalize x. induction t; intros; simpl; auto. }
  rewrite Hl, map_length, firstn_length in Hc.
  assert (Hm : 1 <= Rmax r 1) by apply Rmax_r.
  assert (Hnb : IZR (nbins RN steps r) * Rmax r 1 <= INR steps).
  { unfold nbins; rn_simpl. rewrite tmax_Rmax. rewrite <- INR_IZR_INZ.
    pose proof (Zfloor_lb (INR steps / Rmax r 1)) as Hf.
    apply Rmult_le_compat_r with (r := Rmax r 1) in Hf; [|lra].
    replace (INR steps / Rmax r 1 * Rmax r 1) with (INR steps) in Hf by (field; lra). auto. }
  assert (Hcount : INR (count_true tr) <= Rmax 0 (IZR (nbins RN steps r))).
  { destruct (Z_lt_le_dec (nbins RN steps r) 0) as [Hneg|Hpos].
    - assert (count_true tr = 0)%nat as -> by lia.
      simpl. apply Rmax_l.
    - eapply Rle_trans; [|apply Rmax_r]. rewrite <- (Z2Nat.id (nbins RN steps r)) at 1 by auto.
      rewrite <- INR_IZR_INZ. apply le_INR. lia. }
  destruct (Rle_dec 0 (IZR (nbins RN steps r))) as [Hp|Hn].
  - rewrite Rmax_right in Hcount by auto.
    eapply Rle_trans; [|exact Hnb]. apply Rmult_le_compat_r; lra.
  - rewrite Rmax_left in Hcount by lra. pose proof (pos_INR (count_true tr)).
    assert (INR (count_true tr) = 0) as -> by lra. rewrite Rmult_0_l. apply pos_INR.
Qed.

(* ------------------------------------------------------------------ offline exp-interval, whole tensor *)
Lemma rows_out_of_range (out : list (list bool)) n j t :
  Forall (fun row => length row = n) out -> (n <= j)%nat -> nth j (nth t out []) false = false.
Proof.
  intros H Hj. destruct (Nat.lt_ge_cases t (length out)) as [Ht|Ht].
  - rewrite Forall_forall in H. rewrite nth_overflow; auto. rewrite (H (nth t out [])); auto. apply nth_In; auto.
  - rewrite (nth_overflow out) by auto. destruct j; auto.
Qed.

Lemma exp_offline_elems steps dt refrac comp inps draws out :
  exp_offline RN steps dt refrac comp inps draws = Ok out ->
  length out = steps /\ Forall (fun row => length row = length inps) out /\
  forall j, (j < length inps)%nat -> exists tr,
    exp_offline_elem RN steps dt refrac comp (nth j inps 0) (column 0 j draws) = Some tr /\
    forall t, nth j (nth t out []) false = nth t tr false.
Proof.
  unfold exp_offline. destruct (sequence _) as [trains|] eqn:E; [|discriminate].
  intros H; inversion H; subst; clear H.
  destruct (sequence_spec _ _ E) as [Hl Hn].
  rewrite map_length, combine_length, seq_length, Nat.min_id in Hl, Hn.
  split; [apply time_first_length|]. split; [rewrite <- Hl; apply time_first_rows|].
  intros j Hj. specialize (Hn j None [] Hj).
  rewrite nth_map_lt with (d := (0%nat, 0)) in Hn by (rewrite combine_length, seq_length, Nat.min_id; auto).
  rewrite nth_combine_seq in Hn by auto. simpl in Hn.
  exists (nth j trains []). split; auto. intros t.
  destruct (Nat.lt_ge_cases t steps) as [Ht|Ht].
  - apply time_first_nth; auto.
  - rewrite time_first_nth_out by auto.
    destruct (exp_offline_elem_spec _ _ _ _ _ _ _ Hn) as [Hlen _].
    rewrite nth_overflow; auto. lia.
Qed.

Lemma valid_facts (c : config RN) : valid_step RN c && valid_refrac RN c = true ->
  0 < c_dt c /\ 0 <= c_freq c /\ (0 < c_steps c)%Z /\ 0 <= enc_refrac RN c.
Proof.
  unfold valid_step, valid_refrac, enc_refrac; rn_simpl. intros H.
  apply andb_prop in H as [H Hr]. apply andb_prop in H as [H Hs]. apply andb_prop in H as [Hf Hd].
  destruct (Rleb'_spec 0 (c_freq c)); [|discriminate]. destruct (Rltb'_spec 0 (c_dt c)); [|discriminate].
  apply Z.ltb_lt in Hs. repeat split; auto.
  destruct (c_refrac c) as [x|]; [|lra]. destruct (Rleb'_spec 0 x); [auto|discriminate].
Qed.

Lemma valid_step_facts (c : config RN) : valid_step RN c = true ->
  0 < c_dt c /\ 0 <= c_freq c /\ (0 < c_steps c)%Z.
Proof.
  unfold valid_step; rn_simpl. intros H.
  apply andb_prop in H as [H Hs]. apply andb_prop in H as [Hf Hd].
  destruct (Rleb'_spec 0 (c_freq c)); [|discriminate]. destruct (Rltb'_spec 0 (c_dt c)); [|discriminate].
  apply Z.ltb_lt in Hs. auto.
Qed.

Lemma scaled_inputs_nth f xs j : (j < length xs)%nat -> nth j (scaled_inputs RN f xs) 0 = f * nth j xs 0.
Proof. intros H. unfold scaled_inputs. rewrite nth_map_lt with (d := 0) by auto. reflexivity. Qed.
Lemma scaled_inputs_length f xs : length (scaled_inputs RN f xs) = length xs.
Proof. apply map_length. Qed.

(* HomogeneousPoissonEncoder.forward(online=False): what an accepted call returns, element by element *)
Lemma hpe_offline_elems c xs draws out :
  hpe_offline RN c xs draws = Ok out ->
  (0 < c_dt c /\ 0 <= c_freq c /\ (0 < c_steps c)%Z /\ 0 <= enc_refrac RN c) /\
  length out = Z.to_nat (c_steps c) /\ Forall (fun row => length row = length xs) out /\
  forall j, (j < length xs)%nat -> exists tr,
    exp_offline_elem RN (Z.to_nat (c_steps c)) (c_dt c) (Some (enc_refrac RN c)) (c_comp c)
      (c_freq c * nth j xs 0) (column 0 j draws) = Some tr /\
    forall t, nth j (nth t out []) false = nth t tr false.
Proof.
  unfold hpe_offline. destruct (valid_step RN c && valid_refrac RN c) eqn:V; [|discriminate].
  intros H. apply exp_offline_elems in H. rewrite scaled_inputs_length in H.
  destruct H as [H1 [H2 H3]]. split; [apply valid_facts; auto|]. split; auto. split; auto.
  intros j Hj. destruct (H3 j Hj) as [tr [Ht Hn]]. rewrite scaled_inputs_nth in Ht by auto. eauto.
Qed.

(* --- C19: exactly `steps` rows, time first, each of the input's size *)
Theorem hpe_offline_shape c xs draws out :
  hpe_offline RN c xs draws = Ok out ->
  length out = Z.to_nat (c_steps c) /\ (0 < c_steps c)%Z /\ Forall (fun row => length row = length xs) out.
Proof. intros H. apply hpe_offline_elems in H. tauto. Qed.

(* --- C19: never a spike for an input of zero intensity *)
Theorem hpe_offline_zero_silent c xs draws out j :
  hpe_offline RN c xs draws = Ok out -> nth j xs 0 = 0 ->
  forall t, nth j (nth t out []) false = false.
Proof.
  intros H Hz t. apply hpe_offline_elems in H. destruct H as [_ [_ [Hrows Hel]]].
  destruct (Nat.lt_ge_cases j (length xs)) as [Hj|Hj]; [|eapply rows_out_of_range; eauto].
  destruct (Hel j Hj) as [tr [Ht Hn]]. rewrite Hn. rewrite Hz, Rmult_0_r in Ht.
  eapply exp_offline_elem_zero_silent; eauto.
Qed.

Definition hpe_domain (c : config RN) (xs : list R) : Prop :=
  Forall (fun x => 0 <= x) xs /\
  (c_comp c = true -> Forall (fun x => c_freq c * x * enc_refrac RN c <= 1000) xs).

Lemma hpe_domain_elem c xs j : hpe_domain c xs -> 0 <= c_freq c -> (j < length xs)%nat ->
  0 <= c_freq c * nth j xs 0 /\ (c_comp c = true -> c_freq c * nth j xs 0 * enc_refrac RN c <= 1000).
Proof.
  intros [Hx Hd] Hf Hj. split.
  - apply Rmult_le_pos; auto. rewrite Forall_forall in Hx. apply Hx. apply nth_In; auto.
  - intros Hc. specialize (Hd Hc). rewrite Forall_forall in Hd. apply Hd. apply nth_In; auto.
Qed.

(* --- C19: the refractory Poisson encoder never places two spikes of one element closer than
       floor(refrac / dt) steps (= refrac/dt when refrac is a multiple of dt), for every sample tensor *)
Theorem hpe_offline_min_gap c xs draws out j t1 t2 :
  hpe_offline RN c xs draws = Ok out -> hpe_domain c xs ->
  Forall (Forall (fun e => 0 <= e)) draws ->
  (t1 < t2)%nat -> nth j (nth t1 out []) false = true -> nth j (nth t2 out []) false = true ->
  (Zfloor (enc_refrac RN c / c_dt c) <= Z.of_nat t2 - Z.of_nat t1)%Z.
Proof.
  intros H Hdom Hd Hlt H1 H2. apply hpe_offline_elems in H.
  destruct H as [[Hdt [Hf [Hs Hr]]] [_ [Hrows Hel]]].
  destruct (Nat.lt_ge_cases j (length xs)) as [Hj|Hj];
    [|rewrite (rows_out_of_range out (length xs) j t1 Hrows Hj) in H1; discriminate].
  destruct (Hel j Hj) as [tr [Ht Hn]]. rewrite Hn in H1, H2.
  destruct (hpe_domain_elem c xs j Hdom Hf Hj) as [Hi Hc].
  exact (exp_offline_elem_min_gap _ _ (Some (enc_refrac RN c)) _ _ _ _ _ _ Hdt Hr Hi Hc
           (column_Forall _ 0 j draws (Rle_refl 0) Hd) Ht Hlt H1 H2).
Qed.

Corollary hpe_offline_min_gap_multiple c xs draws out j t1 t2 (k : Z) :
  hpe_offline RN c xs draws = Ok out -> hpe_domain c xs ->
  Forall (Forall (fun e => 0 <= e)) draws ->
  enc_refrac RN c = IZR k * c_dt c ->
  (t1 < t2)%nat -> nth j (nth t1 out []) false = true -> nth j (nth t2 out []) false = true ->
  (k <= Z.of_nat t2 - Z.of_nat t1)%Z.
Proof.
  intros H Hdom Hd Hk Hlt H1 H2.
  pose proof (hpe_offline_min_gap _ _ _ _ _ _ _ H Hdom Hd Hlt H1 H2) as G.
  apply hpe_offline_elems in H. destruct H as [[Hdt _] _].
  replace (enc_refrac RN c / c_dt c) with (IZR k) in G by (rewrite Hk; field; lra).
  rewrite Zfloor_IZR in G. auto.
Qed.

(* --- C19: no element fires more than once per refractory period *)
Theorem hpe_offline_once_per_refrac c xs draws out j a :
  hpe_offline RN c xs draws = Ok out -> hpe_domain c xs ->
  Forall (Forall (fun e => 0 <= e)) draws ->
  (count_true (firstn (Z.to_nat (Zfloor (enc_refrac RN c / c_dt c))) (skipn a (column false j out))) <= 1)%nat.
Proof.
  intros H Hdom Hd. apply gap_window. intros t1 t2 Hlt H1 H2. rewrite column_nth in H1, H2.
  pose proof (hpe_offline_min_gap _ _ _ _ _ _ _ H Hdom Hd Hlt H1 H2). lia.
Qed.

(* --- rate limit: spikes of an element * max(refrac/dt, 1) <= steps *)
Theorem hpe_offline_rate_limit c xs draws out j :
  hpe_offline RN c xs draws = Ok out ->
  INR (count_true (column false j out)) * Rmax (enc_refrac RN c / c_dt c) 1 <= IZR (c_steps c).
Proof.
  intros H. apply hpe_offline_elems in H. destruct H as [[Hdt [Hf [Hs Hr]]] [Hlen [Hrows Hel]]].
  assert (Hsteps : INR (Z.to_nat (c_steps c)) = IZR (c_steps c)) by (rewrite INR_IZR_INZ, Z2Nat.id; auto; lia).
  destruct (Nat.lt_ge_cases j (length xs)) as [Hj|Hj].
  - destruct (Hel j Hj) as [tr [Ht Hn]].
    assert (Hcol : column false j out = tr).
    { destruct (exp_offline_elem_spec _ _ _ _ _ _ _ Ht) as [Hl _].
      apply nth_ext with (d := false) (d' := false).
      - unfold column. rewrite map_length. lia.
      - intros t _. rewrite column_nth. auto. }
    rewrite Hcol, <- Hsteps.
    exact (exp_offline_elem_rate_limit _ _ (Some (enc_refrac RN c)) _ _ _ _ Hdt Hr Ht).
  - rewrite count_true_all_false.
    + simpl. rewrite Rmult_0_l. apply IZR_le. lia.
    + intros t. rewrite column_nth. eapply rows_out_of_range; eauto.
Qed.

(* --- inside the domain the call does not raise *)
Theorem hpe_offline_defined c xs draws :
  valid_step RN c && valid_refrac RN c = true -> hpe_domain c xs ->
  Forall (Forall (fun e => 0 <= e)) draws ->
  exists out, hpe_offline RN c xs draws = Ok out.
Proof.
  intros V Hdom Hd. unfold hpe_offline. rewrite V. unfold exp_offline.
  destruct (valid_facts c V) as [Hdt [Hf [Hs Hr]]].
  destruct (sequence_defined
    (map (fun ji => exp_offline_elem RN (Z.to_nat (c_steps c)) (c_dt c) (Some (enc_refrac RN c)) (c_comp c)
                      (snd ji) (column (zero RN) (fst ji) draws))
         (combine (seq 0 (length (scaled_inputs RN (c_freq c) xs))) (scaled_inputs RN (c_freq c) xs))))
    as [trains ->]; eauto.
  intros o Ho. apply in_map_iff in Ho as [[j inp] [<- Hin]]. simpl.
  assert (Hinp : In inp (scaled_inputs RN (c_freq c) xs)) by (eapply in_combine_r; eauto).
  apply in_map_iff in Hinp as [x [<- Hx]]. destruct Hdom as [Hx0 Hxd].
  rewrite Forall_forall in Hx0.
  apply exp_offline_elem_defined; auto.
  - apply Rmult_le_pos; auto.
  - intros Hc. specialize (Hxd Hc). rewrite Forall_forall in Hxd. apply Hxd; auto.
  - apply column_Forall; auto. apply Rle_refl.
Qed.

(* ------------------------------------------------------------------ online exp-interval: one element *)
Definition ext_ge (i : ext RN) (lb : R) : Prop := match i with None => True | Some x => lb <= x end.
Definition nonneg (e : R) : Prop := 0 <= e.
Notation exp_trace r := (elem_trace (ext_dec RN) (exp_fire RN) (interval RN r) nonneg).

Lemma exp_fire_inv (p i : ext RN) : exp_fire RN p (ext_dec RN i) = true -> exists x, i = Some x /\ x < 2.
Proof.
  unfold exp_fire, ext_lt1, ext_dec. destruct i as [x|]; simpl; [|discriminate]. rn_simpl.
  destruct (Rltb'_spec (x - 1) 1); [|discriminate]. intros _. exists x. split; auto. lra.
Qed.

(* a spike at step t needs the interval to have run down: it was below t + 2 at the start *)
Lemma exp_trace_first r s i bs : exp_trace r s i bs ->
  forall lb, ext_ge i lb -> forall t, nth t bs false = true -> lb < INR t + 2.
Proof.
  induction 1 as [i|i bs Hf Htr IH|i e bs Hf He Htr IH]; intros lb Hlb t Ht.
  - destruct t; discriminate.
  - destruct t as [|t]; [discriminate|]. simpl in Ht.
    assert (Hlb' : ext_ge (ext_dec RN i) (lb - 1)).
    { destruct i as [x|]; simpl in *; auto. rn_simpl. lra. }
    specialize (IH _ Hlb' _ Ht). rewrite S_INR. lra.
  - apply exp_fire_inv in Hf as [x [-> Hx]]. simpl in Hlb. pose proof (pos_INR t). lra.
Qed.

(* two spikes of one element: strictly more than refrac/dt - 1 steps apart *)
Lemma exp_trace_gap r s i bs : (forall v, s = Some v -> 0 <= v) -> exp_trace r s i bs ->
  forall t1 t2, (t1 < t2)%nat -> nth t1 bs false = true -> nth t2 bs false = true ->
  r < INR t2 - INR t1 + 1.
Proof.
  intros Hs. induction 1 as [i|i bs Hf Htr IH|i e bs Hf He Htr IH]; intros t1 t2 Hlt H1 H2.
  - destruct t1; discriminate.
  - destruct t1 as [|a]; [discriminate|]. destruct t2 as [|b]; [lia|]. simpl in H1, H2.
    specialize (IH a b ltac:(lia) H1 H2). rewrite !S_INR. lra.
  - destruct t2 as [|b]; [lia|]. simpl in H2. destruct t1 as [|a].
    + assert (Hlb : ext_ge (interval RN r s e) r).
      { destruct s as [v|]; simpl; auto. rn_simpl. specialize (Hs v eq_refl).
        unfold nonneg in He. pose proof (Rmult_le_pos _ _ He Hs). lra. }
      pose proof (exp_trace_first _ _ _ _ Htr _ Hlb _ H2). rewrite S_INR. simpl. lra.
    + simpl in H1. specialize (IH a b ltac:(lia) H1 H2). rewrite !S_INR. lra.
Qed.

Lemma exp_trace_none_gen r s i bs : exp_trace r s i bs -> i = None -> forall t, nth t bs false = false.
Proof.
  induction 1 as [i|i bs Hf Htr IH|i e bs Hf He Htr IH]; intros Ei t; subst.
  - destruct t; auto.
  - destruct t; simpl; auto.
  - simpl in Hf. discriminate.
Qed.
Lemma exp_trace_none r s bs : exp_trace r s None bs -> forall t, nth t bs false = false.
Proof. intros H. eapply exp_trace_none_gen; eauto. Qed.

Lemma gap_to_floor r (t1 t2 : nat) : r < INR t2 - INR t1 + 1 -> (Zfloor r <= Z.of_nat t2 - Z.of_nat t1)%Z.
Proof.
  intros H. pose proof (Zfloor_lb r) as Hf. rewrite !INR_IZR_INZ in H.
  assert (Hz : IZR (Zfloor r) < IZR (Z.of_nat t2 - Z.of_nat t1 + 1)) by (rewrite plus_IZR, minus_IZR; simpl; lra).
  apply lt_IZR in Hz. lia.
Qed.

(* ------------------------------------------------------------------ online exp-interval: whole tensor *)
Lemma combine_nth_error {A B} (l1 : list A) (l2 : list B) j a b :
  nth_error l1 j = Some a -> nth_error l2 j = Some b -> nth_error (combine l1 l2) j = Some (a, b).
Proof.
  revert l2 j; induction l1 as [|x t IH]; intros [|y t2] [|j] H1 H2; simpl in *; try discriminate.
  - inversion H1; inversion H2; auto.
  - auto.
Qed.

Lemma exp_online_columns steps dt refrac comp (inps draws0 : list (T RN)) (draws : list (list (T RN))) :
  length draws0 = length inps ->
  let outs := exp_online RN steps dt refrac comp inps draws0 draws in
  length outs = steps /\
  Forall (fun row => length row = length inps) outs /\
  (Forall nonneg draws0 -> Forall (Forall nonneg) draws ->
   forall j, (j < length inps)%nat -> exists e0, nonneg e0 /\
     exp_trace (refrac_steps RN refrac dt)
       (scale_of RN (nth j inps 0) dt (refrac_steps RN refrac dt) comp)
       (interval RN (refrac_steps RN refrac dt) (scale_of RN (nth j inps 0) dt (refrac_steps RN refrac dt) comp) e0)
       (column false j outs)).
Proof.
  unfold exp_online. set (r := refrac_steps RN refrac dt).
  set (scales := map (fun inp => scale_of RN inp dt r comp) inps).
  set (ivs0 := map _ (combine scales draws0)). intros Hl0.
  assert (Hls : length scales = length inps) by (unfold scales; apply map_length).
  assert (Hli : length scales = length ivs0).
  { unfold ivs0. rewrite map_length, combine_length. lia. }
  destruct (online_loop_shape (ext_dec RN) (exp_fire RN) (interval RN r) (zero RN) scales ivs0 draws steps Hli)
    as [S1 S2].
  rewrite Hls in S2. cbv zeta. repeat split; auto.
  intros Hd0 Hd j Hj.
  assert (Hs : nth_error scales j = Some (scale_of RN (nth j inps 0) dt r comp)).
  { unfold scales. rewrite nth_error_map, (nth_error_nth' inps 0) by auto. auto. }
  assert (He : nth_error draws0 j = Some (nth j draws0 0)) by (apply nth_error_nth'; lia).
  assert (Hi : nth_error ivs0 j = Some (interval RN r (scale_of RN (nth j inps 0) dt r comp) (nth j draws0 0))).
  { unfold ivs0. rewrite nth_error_map, (combine_nth_error _ _ _ _ _ Hs He). auto. }
  exists (nth j draws0 0). split.
  - rewrite Forall_forall in Hd0. apply Hd0. apply nth_In. lia.
  - apply (online_loop_column (ext_dec RN) (exp_fire RN) (interval RN r) (zero RN) nonneg scales); auto.
    unfold nonneg; simpl; lra.
Qed.

(* --- C19 online: yields exactly `steps` slices of the input's size *)
Theorem exp_online_yields_steps steps dt refrac comp (inps draws0 : list (T RN)) (draws : list (list (T RN))) :
  length draws0 = length inps ->
  length (exp_online RN steps dt refrac comp inps draws0 draws) = steps /\
  Forall (fun row => length row = length inps) (exp_online RN steps dt refrac comp inps draws0 draws).
Proof. intros Hl. destruct (exp_online_columns steps dt refrac comp inps draws0 draws Hl) as [H2 [H3 _]]. auto. Qed.

(* --- C19 online: silence at zero intensity *)
Theorem exp_online_zero_silent steps dt refrac comp (inps draws0 : list (T RN)) (draws : list (list (T RN))) j :
  length draws0 = length inps -> Forall nonneg draws0 -> Forall (Forall nonneg) draws ->
  nth j inps 0 = 0 ->
  forall t, nth j (nth t (exp_online RN steps dt refrac comp inps draws0 draws) []) false = false.
Proof.
  intros Hl Hd0 Hd Hz t. destruct (exp_online_columns steps dt refrac comp inps draws0 draws Hl) as [_ [Hrows Hcol]].
  destruct (Nat.lt_ge_cases j (length inps)) as [Hj|Hj]; [|eapply rows_out_of_range; eauto].
  destruct (Hcol Hd0 Hd j Hj) as [e0 [_ Htr]]. rewrite Hz, scale_of_zero in Htr. simpl in Htr.
  rewrite <- column_nth. eapply exp_trace_none; eauto.
Qed.

(* --- C19 online: minimum gap floor(refrac/dt) between two spikes of an element *)
Theorem exp_online_min_gap steps dt refrac comp (inps draws0 : list (T RN)) (draws : list (list (T RN))) j t1 t2 :
  length draws0 = length inps -> Forall nonneg draws0 -> Forall (Forall nonneg) draws ->
  0 < dt -> 0 <= refrac_ms refrac dt -> Forall (fun x => 0 <= x) inps ->
  (comp = true -> Forall (fun x => x * refrac_ms refrac dt <= 1000) inps) ->
  (t1 < t2)%nat ->
  nth j (nth t1 (exp_online RN steps dt refrac comp inps draws0 draws) []) false = true ->
  nth j (nth t2 (exp_online RN steps dt refrac comp inps draws0 draws) []) false = true ->
  (Zfloor (refrac_ms refrac dt / dt) <= Z.of_nat t2 - Z.of_nat t1)%Z.
Proof.
  intros Hl Hd0 Hd Hdt Hr Hx Hdom Hlt H1 H2.
  destruct (exp_online_columns steps dt refrac comp inps draws0 draws Hl) as [_ [Hrows Hcol]].
  destruct (Nat.lt_ge_cases j (length inps)) as [Hj|Hj];
    [|rewrite (rows_out_of_range _ (length inps) j t1 Hrows Hj) in H1; discriminate].
  destruct (Hcol Hd0 Hd j Hj) as [e0 [_ Htr]].
  rewrite <- column_nth in H1, H2. rewrite refrac_steps_eq in Htr.
  apply gap_to_floor. eapply exp_trace_gap; [|exact Htr|auto|auto|auto].
  intros v Hv. eapply scale_of_nonneg; [exact Hdt| | |exact Hv].
  - rewrite Forall_forall in Hx. apply Hx. apply nth_In; auto.
  - intros Hc. specialize (Hdom Hc). rewrite Forall_forall in Hdom. apply Hdom. apply nth_In; auto.
Qed.

Theorem exp_online_once_per_refrac steps dt refrac comp (inps draws0 : list (T RN)) (draws : list (list (T RN))) j a :
  length draws0 = length inps -> Forall nonneg draws0 -> Forall (Forall nonneg) draws ->
  0 < dt -> 0 <= refrac_ms refrac dt -> Forall (fun x => 0 <= x) inps ->
  (comp = true -> Forall (fun x => x * refrac_ms refrac dt <= 1000) inps) ->
  (count_true (firstn (Z.to_nat (Zfloor (refrac_ms refrac dt / dt)))
                 (skipn a (column false j (exp_online RN steps dt refrac comp inps draws0 draws)))) <= 1)%nat.
Proof.
  intros Hl Hd0 Hd Hdt Hr Hx Hdom. apply gap_window. intros t1 t2 Hlt H1 H2. rewrite column_nth in H1, H2.
  pose proof (exp_online_min_gap _ _ _ _ _ _ _ _ _ _ Hl Hd0 Hd Hdt Hr Hx Hdom Hlt H1 H2). lia.
Qed.

(* ------------------------------------------------------------------ HomogeneousPoissonEncoder.forward(online=True) *)
Lemma hpe_online_inv c xs draws0 draws outs :
  hpe_online RN c xs draws0 draws = Ok outs ->
  (0 < c_dt c /\ 0 <= c_freq c /\ (0 < c_steps c)%Z /\ 0 <= enc_refrac RN c) /\
  outs = exp_online RN (Z.to_nat (c_steps c)) (c_dt c) (Some (enc_refrac RN c)) (c_comp c)
           (scaled_inputs RN (c_freq c) xs) draws0 draws.
Proof.
  unfold hpe_online. destruct (valid_step RN c && valid_refrac RN c) eqn:V; [|discriminate].
  intros H; inversion H. split; auto. apply valid_facts; auto.
Qed.

Theorem hpe_online_yields_steps c xs draws0 draws outs :
  hpe_online RN c xs draws0 draws = Ok outs -> length draws0 = length xs ->
  length outs = Z.to_nat (c_steps c) /\ (0 < c_steps c)%Z /\ Forall (fun row => length row = length xs) outs.
Proof.
  intros H Hl. apply hpe_online_inv in H as [[_ [_ [Hs _]]] ->].
  destruct (exp_online_yields_steps (Z.to_nat (c_steps c)) (c_dt c) (Some (enc_refrac RN c)) (c_comp c)
              (scaled_inputs RN (c_freq c) xs) draws0 draws) as [H1 H2]; [rewrite scaled_inputs_length; auto|].
  rewrite scaled_inputs_length in H2. tauto.
Qed.

Theorem hpe_online_zero_silent c xs draws0 draws outs j :
  hpe_online RN c xs draws0 draws = Ok outs -> length draws0 = length xs ->
  Forall nonneg draws0 -> Forall (Forall nonneg) draws -> nth j xs 0 = 0 ->
  forall t, nth j (nth t outs []) false = false.
Proof.
  intros H Hl Hd0 Hd Hz t. pose proof (hpe_online_yields_steps _ _ _ _ _ H Hl) as [_ [_ Hrows]].
  apply hpe_online_inv in H as [_ ->].
  destruct (Nat.lt_ge_cases j (length xs)) as [Hj|Hj]; [|eapply rows_out_of_range; eauto].
  apply exp_online_zero_silent; auto; [rewrite scaled_inputs_length; auto|].
  rewrite scaled_inputs_nth by auto. rewrite Hz. apply Rmult_0_r.
Qed.

Theorem hpe_online_min_gap c xs draws0 draws outs j t1 t2 :
  hpe_online RN c xs draws0 draws = Ok outs -> length draws0 = length xs ->
  Forall nonneg draws0 -> Forall (Forall nonneg) draws -> hpe_domain c xs ->
  (t1 < t2)%nat -> nth j (nth t1 outs []) false = true -> nth j (nth t2 outs []) false = true ->
  (Zfloor (enc_refrac RN c / c_dt c) <= Z.of_nat t2 - Z.of_nat t1)%Z.
Proof.
  intros H Hl Hd0 Hd [Hx Hdom] Hlt H1 H2. apply hpe_online_inv in H as [[Hdt [Hf [Hs Hr]]] ->].
  apply (exp_online_min_gap (Z.to_nat (c_steps c)) (c_dt c) (Some (enc_refrac RN c)) (c_comp c)
           (scaled_inputs RN (c_freq c) xs) draws0 draws j t1 t2); auto.
  - rewrite scaled_inputs_length; auto.
  - unfold scaled_inputs. apply Forall_forall. intros y Hy. apply in_map_iff in Hy as [x [<- Hxin]].
    rewrite Forall_forall in Hx. apply Rmult_le_pos; auto.
  - intros Hc. specialize (Hdom Hc). unfold scaled_inputs. apply Forall_forall. intros y Hy.
    apply in_map_iff in Hy as [x [<- Hxin]]. rewrite Forall_forall in Hdom. simpl. apply Hdom; auto.
Qed.

(* ------------------------------------------------------------------ PoissonIntervalEncoder *)
Lemma pi_mask_zero f : pi_mask RN (f * 0) = false.
Proof. unfold pi_mask; rn_simpl. rewrite Rmult_0_r. destruct (Rltb'_spec 0 0); auto; lra. Qed.
Lemma pi_mask_pos x : 0 < x -> pi_mask RN x = true.
Proof. intros H. unfold pi_mask; rn_simpl. destruct (Rltb'_spec 0 x); auto; lra. Qed.

Lemma pie_offline_elems c xs draws out :
  pie_offline RN c xs draws = Ok out ->
  (0 < c_steps c)%Z /\ length out = Z.to_nat (c_steps c) /\ Forall (fun row => length row = length xs) out /\
  forall j, (j < length xs)%nat -> exists tr,
    pi_offline_elem (Z.to_nat (c_steps c)) (pi_mask RN (c_freq c * nth j xs 0)) (column 0%Z j draws) = Some tr /\
    forall t, nth j (nth t out []) false = nth t tr false.
Proof.
  unfold pie_offline. destruct (valid_step RN c) eqn:V; [|discriminate].
  destruct (valid_step_facts c V) as [_ [_ Hs]]. unfold pi_offline.
  destruct (sequence _) as [trains|] eqn:E; [|discriminate].
  intros H; inversion H; subst; clear H.
  destruct (sequence_spec _ _ E) as [Hl Hn].
  rewrite map_length, combine_length, seq_length, Nat.min_id in Hl, Hn. rewrite scaled_inputs_length in Hl.
  split; auto. split; [apply time_first_length|]. split; [rewrite <- Hl; apply time_first_rows|].
  intros j Hj. specialize (Hn j None [] ltac:(rewrite scaled_inputs_length; auto)).
  rewrite nth_map_lt with (d := (0%nat, 0)) in Hn
    by (rewrite combine_length, seq_length, Nat.min_id, scaled_inputs_length; auto).
  rewrite nth_combine_seq in Hn by (rewrite scaled_inputs_length; auto). simpl in Hn.
  rewrite scaled_inputs_nth in Hn by auto.
  exists (nth j trains []). split; auto. intros t.
  destruct (Nat.lt_ge_cases t (Z.to_nat (c_steps c))) as [Ht|Ht].
  - apply time_first_nth; auto.
  - rewrite time_first_nth_out by auto.
    destruct (pi_offline_elem_spec _ _ _ _ Hn) as [Hlen _]. rewrite nth_overflow; auto. lia.
Qed.

Theorem pie_offline_shape c xs draws out :
  pie_offline RN c xs draws = Ok out ->
  length out = Z.to_nat (c_steps c) /\ (0 < c_steps c)%Z /\ Forall (fun row => length row = length xs) out.
Proof. intros H. apply pie_offline_elems in H. tauto. Qed.

(* zero intensity: masked out; the sampler returns 0 at rate 0 (hypothesis) *)
Theorem pie_offline_zero_silent c xs draws out j :
  pie_offline RN c xs draws = Ok out -> nth j xs 0 = 0 ->
  Forall (fun d => d = 0%Z) (column 0%Z j draws) ->
  forall t, nth j (nth t out []) false = false.
Proof.
  intros H Hz Hd t. apply pie_offline_elems in H. destruct H as [_ [_ [Hrows Hel]]].
  destruct (Nat.lt_ge_cases j (length xs)) as [Hj|Hj]; [|eapply rows_out_of_range; eauto].
  destruct (Hel j Hj) as [tr [Ht Hn]]. rewrite Hn. rewrite Hz, pi_mask_zero in Ht.
  eapply pi_offline_elem_zero_silent; eauto.
Qed.

(* the artefact of the code as written: every active element fires at the last step of every call *)
Theorem pie_offline_last_step_always_fires c xs draws out j :
  pie_offline RN c xs draws = Ok out -> (j < length xs)%nat -> 0 < c_freq c * nth j xs 0 ->
  Forall (Forall (fun d => (0 <= d)%Z)) draws -> (Z.to_nat (c_steps c) + 2 <= length draws)%nat ->
  nth j (nth (Z.to_nat (c_steps c) - 1) out []) false = true.
Proof.
  intros H Hj Hpos Hd Hlen. apply pie_offline_elems in H. destruct H as [Hs [_ [_ Hel]]].
  destruct (Hel j Hj) as [tr [Ht Hn]]. rewrite Hn. rewrite pi_mask_pos in Ht by auto.
  apply (pi_offline_elem_last_step_always_fires (Z.to_nat (c_steps c)) (column 0%Z j draws) tr); auto.
  - lia.
  - apply column_Forall; auto. lia.
  - unfold column. rewrite map_length. auto.
Qed.

Theorem pie_online_shape c xs draws0 draws outs :
  pie_online RN c xs draws0 draws = Ok outs -> length draws0 = length xs ->
  length outs = Z.to_nat (c_steps c) /\ (0 < c_steps c)%Z /\
  Forall (fun row => length row = length xs) outs.
Proof.
  unfold pie_online. destruct (valid_step RN c) eqn:V; [|discriminate].
  destruct (valid_step_facts c V) as [_ [_ Hs]]. intros H Hl. inversion H as [E]. clear H.
  unfold pi_online.
  destruct (online_loop_shape (fun i => (i - 1)%Z) pi_fire (fun (_ : bool) (e : Z) => e) 0%Z
              (map (pi_mask RN) (scaled_inputs RN (c_freq c) xs)) draws0 draws (Z.to_nat (c_steps c)))
    as [E2 E3]; [rewrite map_length, scaled_inputs_length; auto|].
  rewrite map_length, scaled_inputs_length in E3. auto.
Qed.

Theorem pie_online_zero_silent c xs draws0 draws outs j :
  pie_online RN c xs draws0 draws = Ok outs -> length draws0 = length xs ->
  nth j xs 0 = 0 -> forall t, nth j (nth t outs []) false = false.
Proof.
  intros H Hl Hz t. destruct (pie_online_shape _ _ _ _ _ H Hl) as [_ [_ Hrows]].
  destruct (Nat.lt_ge_cases j (length xs)) as [Hj|Hj]; [|eapply rows_out_of_range; eauto].
  unfold pie_online in H. destruct (valid_step RN c); [|discriminate]. inversion H as [E]. clear H.
  unfold pi_online. rewrite <- column_nth.
  assert (Hok : Forall (Forall (fun _ : Z => True)) draws).
  { clear. induction draws as [|r rs IH]; constructor; auto. clear. induction r; constructor; auto. }
  apply (pi_online_never_when_masked (fun _ => True) (nth j draws0 0%Z)).
  apply (online_loop_column (fun i => (i - 1)%Z) pi_fire (fun (_ : bool) (e : Z) => e) 0%Z (fun _ => True)
           (map (pi_mask RN) (scaled_inputs RN (c_freq c) xs)) I
           (Z.to_nat (c_steps c)) draws0 draws Hok).
  - rewrite map_length, scaled_inputs_length; auto.
  - rewrite nth_error_map, (nth_error_nth' _ 0) by (rewrite scaled_inputs_length; auto).
    simpl. rewrite scaled_inputs_nth by auto. rewrite Hz. f_equal. apply pi_mask_zero.
  - apply nth_error_nth'. lia.
Qed.

(* ------------------------------------------------------------------ Bernoulli approximations *)
Lemma bern_prob_zero dt : bern_prob RN dt 0 = 0.
Proof.
  unfold bern_prob, tmin; rn_simpl. replace (0 / 1000 * dt) with 0 by (unfold Rdiv; ring).
  destruct (Rltb'_spec 1 0); auto; lra.
Qed.

Lemma bern_prob_range dt inp : 0 < dt -> 0 <= inp -> 0 <= bern_prob RN dt inp <= 1.
Proof.
  intros Hdt Hi. unfold bern_prob, tmin; rn_simpl.
  assert (0 <= inp / 1000 * dt) by (apply Rmult_le_pos; [unfold Rdiv; apply Rle_mult_inv_pos|]; lra).
  destruct (Rltb'_spec 1 (inp / 1000 * dt)); lra.
Qed.

Lemma bern_prob_saturated dt inp : 1000 <= inp * dt -> bern_prob RN dt inp = 1.
Proof.
  intros H. unfold bern_prob, tmin; rn_simpl.
  replace (inp / 1000 * dt) with (inp * dt / 1000) by (unfold Rdiv; ring).
  destruct (Rltb'_spec 1 (inp * dt / 1000)); auto. lra.
Qed.

Lemma combine_nth_lt {A B} (l1 : list A) (l2 : list B) j d1 d2 :
  (j < length l1)%nat -> (j < length l2)%nat -> nth j (combine l1 l2) (d1, d2) = (nth j l1 d1, nth j l2 d2).
Proof.
  revert l2 j; induction l1 as [|x t IH]; intros [|y t2] [|j] H1 H2; simpl in *; try lia; auto.
  apply IH; lia.
Qed.

Lemma bern_row_nth dt inps us j : (j < length inps)%nat -> (j < length us)%nat ->
  nth j (bern_row RN dt inps us) false = Rltb' (nth j us 0) (bern_prob RN dt (nth j inps 0)).
Proof.
  intros H1 H2. unfold bern_row. rewrite nth_map_lt with (d := (0, 0)) by (rewrite combine_length; lia).
  rewrite combine_nth_lt; auto.
Qed.

Lemma bern_homogeneous_shape steps dt inps us :
  length (bern_homogeneous RN steps dt inps us) = steps /\
  ((forall t, (t < steps)%nat -> length (nth t us []) = length inps) ->
   Forall (fun row => length row = length inps) (bern_homogeneous RN steps dt inps us)).
Proof.
  unfold bern_homogeneous. split; [rewrite map_length, seq_length; auto|].
  intros Hu. apply Forall_forall. intros row Hr. apply in_map_iff in Hr as [t [<- Ht]].
  apply in_seq in Ht. unfold bern_row. rewrite map_length, combine_length, Hu by lia. apply Nat.min_id.
Qed.

Lemma bern_homogeneous_nth steps dt inps us t j :
  (t < steps)%nat -> (j < length inps)%nat -> (j < length (nth t us []))%nat ->
  nth j (nth t (bern_homogeneous RN steps dt inps us) []) false =
  Rltb' (nth j (nth t us []) 0) (bern_prob RN dt (nth j inps 0)).
Proof.
  intros Ht Hj Hu. unfold bern_homogeneous. rewrite nth_map_lt with (d := 0%nat) by (rewrite seq_length; auto).
  rewrite seq_nth by auto. simpl. apply bern_row_nth; auto.
Qed.

(* HomogeneousPoissonApproxEncoder.forward (offline and online are the same function of the uniform draws) *)
Theorem hpa_forward_shape c xs us out :
  hpa_forward RN c xs us = Ok out ->
  length out = Z.to_nat (c_steps c) /\ (0 < c_steps c)%Z /\
  ((forall t, (t < Z.to_nat (c_steps c))%nat -> length (nth t us []) = length xs) ->
   Forall (fun row => length row = length xs) out).
Proof.
  unfold hpa_forward. destruct (valid_step RN c) eqn:V; [|discriminate].
  destruct (valid_step_facts c V) as [_ [_ Hs]]. intros H; inversion H; subst.
  destruct (bern_homogeneous_shape (Z.to_nat (c_steps c)) (c_dt c) (scaled_inputs RN (c_freq c) xs) us) as [H1 H2].
  rewrite scaled_inputs_length in H2. auto.
Qed.

Lemma hpa_forward_nth c xs us out t j :
  hpa_forward RN c xs us = Ok out ->
  (t < Z.to_nat (c_steps c))%nat -> (j < length xs)%nat -> (j < length (nth t us []))%nat ->
  0 < c_dt c /\ 0 <= c_freq c /\
  nth j (nth t out []) false = Rltb' (nth j (nth t us []) 0) (bern_prob RN (c_dt c) (c_freq c * nth j xs 0)).
Proof.
  unfold hpa_forward. destruct (valid_step RN c) eqn:V; [|discriminate].
  destruct (valid_step_facts c V) as [Hdt [Hf Hs]]. intros H Ht Hj Hu; inversion H; subst.
  split; auto. split; auto.
  rewrite bern_homogeneous_nth by (rewrite ?scaled_inputs_length; auto).
  rewrite scaled_inputs_nth by auto. reflexivity.
Qed.

(* --- C19: silence at zero intensity for every uniform draw u >= 0 *)
Theorem hpa_zero_silent c xs us out t j :
  hpa_forward RN c xs us = Ok out -> nth j xs 0 = 0 ->
  Forall (Forall (fun u => 0 <= u)) us ->
  nth j (nth t out []) false = false.
Proof.
  intros H Hz Hu.
  destruct (Nat.lt_ge_cases t (Z.to_nat (c_steps c))) as [Ht|Ht].
  2:{ destruct (hpa_forward_shape _ _ _ _ H) as [Hl _]. rewrite (nth_overflow out) by lia. destruct j; auto. }
  assert (Hrow : nth t out [] = bern_row RN (c_dt c) (scaled_inputs RN (c_freq c) xs) (nth t us [])).
  { unfold hpa_forward in H. destruct (valid_step RN c); [|discriminate]. inversion H; subst.
    unfold bern_homogeneous. rewrite nth_map_lt with (d := 0%nat) by (rewrite seq_length; auto).
    rewrite seq_nth by auto. reflexivity. }
  destruct (Nat.lt_ge_cases j (length xs)) as [Hj|Hj];
  [destruct (Nat.lt_ge_cases j (length (nth t us []))) as [Hju|Hju]|].
  - destruct (hpa_forward_nth _ _ _ _ t j H Ht Hj Hju) as [_ [_ ->]].
    rewrite Hz, Rmult_0_r, bern_prob_zero.
    destruct (Rltb'_spec (nth j (nth t us []) 0) 0) as [Hlt|]; auto. exfalso.
    assert (Hin : In (nth t us []) us \/ nth t us [] = []).
    { destruct (Nat.lt_ge_cases t (length us)); [left; apply nth_In; auto|right; apply nth_overflow; auto]. }
    destruct Hin as [Hin|Hin]; [|rewrite Hin in Hju; simpl in Hju; lia].
    rewrite Forall_forall in Hu. specialize (Hu _ Hin). rewrite Forall_forall in Hu.
    specialize (Hu (nth j (nth t us []) 0) (nth_In _ _ Hju)). lra.
  - rewrite Hrow. apply nth_overflow. unfold bern_row. rewrite map_length, combine_length. lia.
  - rewrite Hrow. apply nth_overflow. unfold bern_row. rewrite map_length, combine_length, scaled_inputs_length. lia.
Qed.

(* --- at the clamp (rate * dt >= 1000) the element fires at every step, for every uniform draw u < 1 *)
Theorem hpa_saturated_fires c xs us out t j :
  hpa_forward RN c xs us = Ok out ->
  (t < Z.to_nat (c_steps c))%nat -> (j < length xs)%nat -> (j < length (nth t us []))%nat ->
  1000 <= c_freq c * nth j xs 0 * c_dt c -> nth j (nth t us []) 0 < 1 ->
  nth j (nth t out []) false = true.
Proof.
  intros H Ht Hj Hu Hsat Hlt. destruct (hpa_forward_nth _ _ _ _ t j H Ht Hj Hu) as [_ [_ ->]].
  rewrite bern_prob_saturated by auto. destruct (Rltb'_spec (nth j (nth t us []) 0) 1); auto; lra.
Qed.

(* --- the sampler's parameter is a probability *)
Theorem hpa_probs_range c xs ps :
  hpa_probs RN c xs = Ok ps -> Forall (fun x => 0 <= x) xs ->
  length ps = length xs /\ Forall (fun p => 0 <= p <= 1) ps.
Proof.
  unfold hpa_probs. destruct (valid_step RN c) eqn:V; [|discriminate].
  destruct (valid_step_facts c V) as [Hdt [Hf Hs]]. intros H Hx; inversion H; subst.
  split; [rewrite map_length, scaled_inputs_length; auto|].
  apply Forall_forall. intros p Hp. apply in_map_iff in Hp as [y [<- Hy]].
  unfold scaled_inputs in Hy. apply in_map_iff in Hy as [x [<- Hxin]].
  rewrite Forall_forall in Hx. apply bern_prob_range; auto. apply Rmult_le_pos; auto.
Qed.

(* --- C19: reproducible - every encoder's result is a function of its configuration, inputs and draws
       (true by construction of the model: the implementation-side counterpart, equal generator state =>
       equal draws => equal result, is checked by the oracle on the real encoders) *)
Theorem reproducible c xs draws draws' draws0 draws0' :
  draws = draws' -> draws0 = draws0' ->
  hpe_offline RN c xs draws = hpe_offline RN c xs draws' /\
  hpe_online RN c xs draws0 draws = hpe_online RN c xs draws0' draws'.
Proof. intros -> ->. auto. Qed.

(* ------------------------------------------------------------------ non-vacuity: a concrete accepted call inside the
   domain with two spikes of one element (so the gap / window / rate theorems are about real trains), a silent
   zero-intensity element next to it *)
Definition nv_cfg : config RN := mkConfig RN 8%Z 1 1000 (Some 2) false.
Definition nv_xs : list R := [1; 0].
Definition nv_draws : list (list R) := [[1; 1]; [1; 1]; [1; 1]; [1; 1]].

Lemma nv_valid : valid_step RN nv_cfg && valid_refrac RN nv_cfg = true.
Proof.
  unfold valid_step, valid_refrac, nv_cfg; simpl.
  destruct (Rleb'_spec 0 1000); [|lra]. destruct (Rltb'_spec 0 1); [|lra]. destruct (Rleb'_spec 0 2); [|lra]. auto.
Qed.

Lemma nv_domain : hpe_domain nv_cfg nv_xs.
Proof. unfold hpe_domain, nv_cfg, nv_xs; simpl. split; [repeat constructor; lra|discriminate]. Qed.

Lemma nv_draws_ok : Forall (Forall (fun e => 0 <= e)) nv_draws.
Proof. unfold nv_draws. repeat constructor; lra. Qed.

Theorem nonvacuous :
  exists out, hpe_offline RN nv_cfg nv_xs nv_draws = Ok out /\ hpe_domain nv_cfg nv_xs /\
    Forall (Forall (fun e => 0 <= e)) nv_draws /\ length out = 8%nat /\
    nth 0 (nth 3 out []) false = true /\ nth 0 (nth 6 out []) false = true /\
    enc_refrac RN nv_cfg = IZR 2 * c_dt nv_cfg /\
    (forall t, nth 1 (nth t out []) false = false).
Proof.
  destruct (hpe_offline_defined nv_cfg nv_xs nv_draws nv_valid nv_domain nv_draws_ok) as [out Hout].
  exists out. split; auto. split; [apply nv_domain|]. split; [apply nv_draws_ok|].
  pose proof (hpe_offline_elems _ _ _ _ Hout) as [_ [Hlen [_ Hel]]].
  split; [exact Hlen|].
  destruct (Hel 0%nat ltac:(simpl; lia)) as [tr [Htr Hn]]. rewrite !Hn.
  destruct (exp_offline_elem_spec _ _ _ _ _ _ _ Htr) as [_ [Hspec _]].
  simpl in Hspec. unfold enc_refrac in Hspec. simpl in Hspec.
  (* the element's parameters *)
  change (Pos.to_nat 8) with 8%nat in Hspec.
  replace (2 / 1) with 2 in Hspec by lra.
  assert (Es : period_steps RN (1000 * 1) 1 = Some 1).
  { unfold period_steps; rn_simpl. destruct (Reqb'_spec (1000 * 1) 0); [lra|]. f_equal. field. }
  assert (En : Z.to_nat (nbins RN 8 2) = 4%nat).
  { unfold nbins; rn_simpl. rewrite tmax_Rmax, Rmax_left by lra.
    replace (IZR (Z.of_nat 8) / 2) with (IZR 4) by (simpl; lra). rewrite Zfloor_IZR. reflexivity. }
  rewrite Es in Hspec. rewrite exp_indices_some in Hspec. unfold used in Hspec. rewrite En in Hspec.
  simpl in Hspec.
  assert (C3 : clamp_index RN 8 (Some (1 * 1 + 2)) = 3%Z).
  { replace (1 * 1 + 2) with (IZR 3) by (simpl; lra).
    destruct (clamp_index_lt 8 (IZR 3)) as [-> _]; [simpl; lra|simpl; lra|]. apply Zfloor_IZR. }
  assert (C6 : clamp_index RN 8 (Some (1 * 1 + 2 + (1 * 1 + 2))) = 6%Z).
  { replace (1 * 1 + 2 + (1 * 1 + 2)) with (IZR 6) by (simpl; lra).
    destruct (clamp_index_lt 8 (IZR 6)) as [-> _]; [simpl; lra|simpl; lra|]. apply Zfloor_IZR. }
  split; [|split; [|split]].
  - apply Hspec. split; [lia|]. left. exact C3.
  - apply Hspec. split; [lia|]. right. left. exact C6.
  - unfold enc_refrac, nv_cfg. simpl. lra.
  - intros t. eapply hpe_offline_zero_silent; eauto.
Qed.

(* ------------------------------------------------------------------ independent description of the spike times
   offline: the element's k-th candidate spike time is the floor of the sum of its first k+1 intervals
   e_i * scale + refrac/dt; it is emitted iff it falls before `steps`.  (This is the statement of the
   encoder; the code reaches it through cumsum, clamp_max_, .long(), scatter_ into steps+1 rows, [:-1].) *)
Definition psum (l : list R) (k : nat) : R := fold_right Rplus 0 (firstn (S k) l).

Lemma csR_from_nth acc l k : (k < length l)%nat -> nth k (csR_from acc l) 0 = acc + psum l k.
Proof.
  revert acc k; induction l as [|x t IH]; intros acc k Hk; simpl in Hk; [lia|].
  destruct k as [|k]; simpl.
  - unfold psum. simpl. lra.
  - rewrite IH by lia. unfold psum. simpl. lra.
Qed.

Lemma csR_nth l k : (k < length l)%nat -> nth k (csR l) 0 = psum l k.
Proof.
  destruct l as [|x t]; intros Hk; simpl in Hk; [lia|]. destruct k as [|k]; simpl.
  - unfold psum. simpl. lra.
  - rewrite csR_from_nth by lia. unfold psum. simpl. lra.
Qed.

Theorem exp_offline_elem_spikes steps dt refrac comp inp draws tr v :
  0 < dt -> 0 <= refrac_ms refrac dt -> 0 <= v -> Forall (fun e => 0 <= e) draws ->
  exp_offline_elem RN steps dt refrac comp inp draws = Some tr ->
  scale_of RN inp dt (refrac_ms refrac dt / dt) comp = Some v ->
  let ivs := map (fun e => e * v + refrac_ms refrac dt / dt) (used steps (refrac_ms refrac dt / dt) draws) in
  forall t, nth t tr false = true <->
    ((t < steps)%nat /\ exists k, (k < length ivs)%nat /\ Zfloor (psum ivs k) = Z.of_nat t).
Proof.
  intros Hdt Hrms Hv Hd H Es ivs t.
  destruct (exp_offline_elem_spec _ _ _ _ _ _ _ H) as [_ [Hn _]]. rewrite Hn. clear Hn.
  rewrite refrac_steps_eq, Es, exp_indices_some. fold ivs.
  assert (Hr : 0 <= refrac_ms refrac dt / dt) by (apply (refrac_steps_nonneg refrac dt); auto).
  destruct (csR_gapped _ ivs Hr) as [_ Hge].
  { apply intervals_ge; auto. apply firstn_Forall; auto. }
  rewrite Forall_forall in Hge.
  split; intros [Ht Hx]; split; auto.
  - apply in_map_iff in Hx as [c [Hc Hin]]. pose proof (Hge _ Hin) as Hc0.
    destruct (clamp_index_inv steps c t ltac:(lra) Ht Hc) as [_ Hf].
    apply In_nth with (d := 0) in Hin as [k [Hk Hnk]]. rewrite csR_length in Hk.
    exists k. split; auto. rewrite <- Hf. f_equal. rewrite <- Hnk. symmetry. apply csR_nth; auto.
  - destruct Hx as [k [Hk Hf]]. rewrite <- (csR_nth ivs k Hk) in Hf.
    assert (Hin : In (nth k (csR ivs) 0) (csR ivs)) by (apply nth_In; rewrite csR_length; auto).
    pose proof (Hge _ Hin) as Hc0. set (c := nth k (csR ivs) 0) in *.
    assert (Hlt : c < IZR (Z.of_nat steps)).
    { pose proof (Zfloor_ub c) as Hub. rewrite Hf in Hub.
      assert (Hle : IZR (Z.of_nat t + 1) <= IZR (Z.of_nat steps)) by (apply IZR_le; lia).
      rewrite plus_IZR in Hle. simpl in Hle. lra. }
    destruct (clamp_index_lt steps c ltac:(lra) Hlt) as [E _].
    apply in_map_iff. exists c. split; auto. etransitivity; [exact E|exact Hf].
Qed.

(* online: from a finite countdown value x the element first fires at step max(0, floor(x) - 1); hence after
   a spike with fresh interval I the next spike follows exactly max(1, floor I) steps later *)
Lemma Zfloor_minus_1 x : Zfloor (x - 1) = (Zfloor x - 1)%Z.
Proof.
  apply Zfloor_imp. pose proof (Zfloor_lb x). pose proof (Zfloor_ub x).
  rewrite plus_IZR, minus_IZR. simpl. lra.
Qed.

Theorem exp_trace_wait r s x bs : exp_trace r s (Some x) bs ->
  forall t, nth t bs false = true -> (forall t', (t' < t)%nat -> nth t' bs false = false) ->
  Z.of_nat t = Z.max 0 (Zfloor x - 1).
Proof.
  intros H. remember (Some x) as i eqn:Ei. revert x Ei.
  induction H as [i|i bs Hf Htr IH|i e bs Hf He Htr IH]; intros x Ei t Ht Hfirst; subst.
  - destruct t; discriminate.
  - destruct t as [|t]; [discriminate|]. simpl in Ht.
    assert (Hx : 2 <= x).
    { unfold exp_fire, ext_lt1 in Hf. simpl in Hf. revert Hf. rn_simpl.
      destruct (Rltb'_spec (x - 1) 1); [discriminate|]. intros _. lra. }
    assert (E : Z.of_nat t = Z.max 0 (Zfloor (x - 1) - 1)).
    { apply (IH (x - 1)); auto. intros t' Ht'. apply (Hfirst (S t')). lia. }
    rewrite Zfloor_minus_1 in E.
    assert (2 <= Zfloor x)%Z by (apply Zfloor_lub; simpl; auto). lia.
  - destruct t as [|t]; [|specialize (Hfirst 0%nat ltac:(lia)); discriminate].
    apply exp_fire_inv in Hf as [y [Ey Hy]]. inversion Ey; subst y.
    assert (Zfloor x < 2)%Z by (apply lt_IZR; pose proof (Zfloor_lb x); simpl; lra). lia.
Qed.

(* ------------------------------------------------------------------ the domain hypothesis is needed, and the constructor
   does not enforce it: HomogeneousPoissonEncoder(steps=4, step_time=1, frequency=2000, refrac=2, compensate=True)
   is accepted (only the setters test frequency * refrac < 1000); the compensated scale is negative and two spikes
   land on adjacent steps although refrac = 2 steps. *)
Definition od_cfg : config RN := mkConfig RN 4%Z 1 2000 (Some 2) true.

Theorem hpe_min_gap_needs_domain_refuted :
  exists out, valid_step RN od_cfg && valid_refrac RN od_cfg = true /\
    hpe_offline RN od_cfg [1] [[1]; [1]] = Ok out /\
    nth 0 (nth 0 out []) false = true /\ nth 0 (nth 1 out []) false = true /\
    Zfloor (enc_refrac RN od_cfg / c_dt od_cfg) = 2%Z /\ ~ hpe_domain od_cfg [1].
Proof.
  assert (V : valid_step RN od_cfg && valid_refrac RN od_cfg = true).
  { unfold valid_step, valid_refrac, od_cfg; simpl.
    destruct (Rleb'_spec 0 2000); [|lra]. destruct (Rltb'_spec 0 1); [|lra]. destruct (Rleb'_spec 0 2); [|lra]. auto. }
  assert (Es : scale_of RN (2000 * 1) 1 2 true = Some (- (3 / 2))).
  { unfold scale_of, period_steps; rn_simpl. destruct (Reqb'_spec (2000 * 1) 0); [lra|]. simpl. f_equal. field. }
  assert (En : Z.to_nat (nbins RN 4 2) = 2%nat).
  { unfold nbins; rn_simpl. rewrite tmax_Rmax, Rmax_left by lra.
    replace (IZR (Z.of_nat 4) / 2) with (IZR 2) by (simpl; lra). rewrite Zfloor_IZR. reflexivity. }
  assert (C0 : clamp_index RN 4 (Some (1 * - (3 / 2) + 2)) = 0%Z).
  { destruct (clamp_index_lt 4 (1 * - (3 / 2) + 2)) as [-> _]; [lra|simpl; lra|].
    apply Zfloor_imp. simpl. lra. }
  assert (C1 : clamp_index RN 4 (Some (1 * - (3 / 2) + 2 + (1 * - (3 / 2) + 2))) = 1%Z).
  { destruct (clamp_index_lt 4 (1 * - (3 / 2) + 2 + (1 * - (3 / 2) + 2))) as [-> _]; [lra|simpl; lra|].
    apply Zfloor_imp. simpl. lra. }
  assert (Eidx : exp_indices RN 4 2 (Some (- (3 / 2))) [1; 1] = [0; 1]%Z).
  { rewrite exp_indices_some. unfold used. rewrite En. cbn [map firstn csR csR_from].
    f_equal; [exact C0|f_equal; exact C1]. }
  assert (Eel : exp_offline_elem RN 4 1 (Some 2) true (2000 * 1) [1; 1] = Some [true; true; false; false]).
  { unfold exp_offline_elem. replace (refrac_steps RN (Some 2) 1) with 2 by (rewrite refrac_steps_eq; simpl; field).
    rewrite Es, Eidx. reflexivity. }
  exists [[true]; [true]; [false]; [false]]. split; auto. split; [|split; [|split; [|split]]]; auto.
  - unfold hpe_offline. rewrite V. unfold od_cfg, enc_refrac, exp_offline; simpl.
    unfold column; simpl. change (Pos.to_nat 4) with 4%nat. change (mul RN 2000 1) with (2000 * 1).
    rewrite Eel. reflexivity.
  - unfold od_cfg, enc_refrac; simpl. replace (2 / 1) with (IZR 2) by (simpl; lra). apply Zfloor_IZR.
  - intros [_ Hd]. specialize (Hd eq_refl). inversion Hd as [|? ? Hx _]; subst.
    unfold od_cfg, enc_refrac in Hx; simpl in Hx. lra.
Qed.

(* ------------------------------------------------------------------ one Bernoulli row (shared by the homogeneous offline /
   online encoders and by inhomogeneous_poisson_bernoulli_approx): silence at zero rate for every uniform draw *)
Theorem bern_row_zero_silent dt inps us j :
  nth j inps 0 = 0 -> Forall (fun u => 0 <= u) us -> nth j (bern_row RN dt inps us) false = false.
Proof.
  intros Hz Hu.
  destruct (Nat.lt_ge_cases j (length inps)) as [Hj|Hj]; [destruct (Nat.lt_ge_cases j (length us)) as [Hju|Hju]|].
  - rewrite bern_row_nth by auto.
    assert (E : bern_prob RN dt (nth j inps 0) = 0) by (rewrite Hz; apply bern_prob_zero).
    match goal with |- Rltb' ?a ?b = false => destruct (Rltb'_spec a b) as [Hlt|]; auto end.
    exfalso. rewrite Forall_forall in Hu. specialize (Hu _ (nth_In _ 0 Hju)).
    apply (Rlt_irrefl 0). eapply Rle_lt_trans; [exact Hu|]. eapply Rlt_le_trans; [exact Hlt|]. right. exact E.
  - apply nth_overflow. unfold bern_row. rewrite map_length, combine_length.
    eapply Nat.le_trans; [apply Nat.le_min_r|exact Hju].
  - apply nth_overflow. unfold bern_row. rewrite map_length, combine_length.
    eapply Nat.le_trans; [apply Nat.le_min_l|exact Hj].
Qed.

Theorem bern_inhomogeneous_shape dt inps us :
  length us = length inps ->
  length (bern_inhomogeneous RN dt inps us) = length inps /\
  forall t j, nth j (nth t inps []) 0 = 0 -> Forall (Forall (fun u => 0 <= u)) us ->
    nth j (nth t (bern_inhomogeneous RN dt inps us) []) false = false.
Proof.
  intros Hl. unfold bern_inhomogeneous. split; [rewrite map_length, combine_length; lia|].
  intros t j Hz Hu. destruct (Nat.lt_ge_cases t (length inps)) as [Ht|Ht].
  - rewrite nth_map_lt with (d := ([], [])) by (rewrite combine_length; lia).
    rewrite combine_nth_lt by lia. simpl. apply bern_row_zero_silent; auto.
    rewrite Forall_forall in Hu. apply Hu. apply nth_In.
    pose proof Ht as Ht'. rewrite <- Hl in Ht'. exact Ht'.
  - match goal with |- nth j (nth t ?l []) false = false =>
      rewrite (nth_overflow l) by (rewrite map_length, combine_length; lia) end.
    destruct j; auto.
Qed.

(* ------------------------------------------------------------------ configuration reached through setters *)
Arguments e_steps {N} e.
Arguments e_dt {N} e.
Arguments e_freq {N} e.
Arguments e_comp {N} e.
Arguments e_derive {N} e.
Arguments e_refrac {N} e.

Definition is_refrac_assignment (a : assignment RN) : bool := match a with ARefrac _ _ => true | _ => false end.
Definition is_dt_assignment (a : assignment RN) : bool := match a with ADt _ _ => true | _ => false end.

Ltac assign_cases :=
  repeat match goal with
  | |- context [if ?b then _ else _] => destruct b eqn:?
  | H : context [if ?b then _ else _] |- _ => destruct b eqn:?
  end.

(* an assignment other than to refrac leaves an explicit refractory period alone *)
Lemma assign_keeps_explicit_refrac k (s : estate RN) a :
  e_derive s = false -> is_refrac_assignment a = false ->
  e_derive (fst (assign RN k s a)) = false /\ e_refrac (fst (assign RN k s a)) = e_refrac s.
Proof.
  intros Hd Ha. destruct a as [v|z|v|o|b]; try discriminate; destruct k; simpl; assign_cases; simpl; auto;
    rewrite Hd in *; try discriminate; auto.
Qed.

Lemma run_assign_cons k (s : estate RN) a l :
  run_assign RN k s (a :: l) = run_assign RN k (fst (assign RN k s a)) l.
Proof.
  unfold run_assign. simpl. destruct (assign_all RN k (fst (assign RN k s a)) l). reflexivity.
Qed.

(* --- the refractory period stays explicit once assigned: whatever is assigned afterwards to dt, steps,
       frequency, compensated (accepted or rejected), refrac keeps its value and is not re-derived from dt *)
Theorem explicit_refrac_sticky k (s : estate RN) l :
  e_derive s = false -> forallb (fun a => negb (is_refrac_assignment a)) l = true ->
  e_derive (run_assign RN k s l) = false /\ e_refrac (run_assign RN k s l) = e_refrac s.
Proof.
  revert s; induction l as [|a l IH]; intros s Hd Hl; [split; auto|].
  simpl in Hl. apply andb_prop in Hl as [Ha Hl]. apply negb_true_iff in Ha.
  rewrite run_assign_cons. destruct (assign_keeps_explicit_refrac k s a Hd Ha) as [H1 H2].
  destruct (IH _ H1 Hl) as [H3 H4]. split; auto. congruence.
Qed.

(* --- an accepted assignment: the getter returns the assigned value, the documented validation held, and
       the other attributes keep their values (refrac follows dt exactly when it is derived) *)
Theorem assign_accepted_spec (s s' : estate RN) a :
  assign RN KHpe s a = (s', None) ->
  match a with
  | ADt _ v => 0 < v /\ e_dt s' = v /\ e_refrac s' = (if e_derive s then v else e_refrac s) /\
               e_steps s' = e_steps s /\ e_freq s' = e_freq s /\ e_comp s' = e_comp s /\ e_derive s' = e_derive s
  | ASteps _ z => (0 < z)%Z /\ e_steps s' = z /\ e_dt s' = e_dt s /\ e_refrac s' = e_refrac s /\
               e_freq s' = e_freq s /\ e_comp s' = e_comp s /\ e_derive s' = e_derive s
  | AFreq _ v => 0 <= v /\ (e_comp s = true -> v * e_refrac s < 1000) /\ e_freq s' = v /\
               e_steps s' = e_steps s /\ e_dt s' = e_dt s /\ e_refrac s' = e_refrac s /\
               e_comp s' = e_comp s /\ e_derive s' = e_derive s
  | ARefrac _ (Some v) => 0 <= v /\ (e_comp s = true -> v * e_freq s < 1000) /\ e_refrac s' = v /\
               e_derive s' = false /\ e_steps s' = e_steps s /\ e_dt s' = e_dt s /\ e_freq s' = e_freq s /\
               e_comp s' = e_comp s
  | ARefrac _ None => (e_comp s = true -> e_dt s * e_freq s < 1000) /\ e_refrac s' = e_dt s /\
               e_derive s' = true /\ e_steps s' = e_steps s /\ e_dt s' = e_dt s /\ e_freq s' = e_freq s /\
               e_comp s' = e_comp s
  | AComp _ b => (b = true -> e_freq s * e_refrac s < 1000) /\ e_comp s' = b /\
               e_steps s' = e_steps s /\ e_dt s' = e_dt s /\ e_refrac s' = e_refrac s /\
               e_freq s' = e_freq s /\ e_derive s' = e_derive s
  end.
Proof.
  unfold assign, compat; rn_simpl. destruct a as [v|z|v|[v|]|b]; intros H.
  - destruct (Rltb'_spec 0 v); inversion H; subst; simpl. repeat split; auto.
  - destruct (Z.ltb_spec 0 z); inversion H; subst; simpl. repeat split; auto.
  - destruct (e_comp s) eqn:Ec; simpl in H.
    + destruct (Rltb'_spec (v * e_refrac s) 1000); simpl in H; [|discriminate].
      destruct (Rleb'_spec 0 v); inversion H; subst; simpl. repeat split; auto.
    + destruct (Rleb'_spec 0 v); inversion H; subst; simpl. repeat split; auto. discriminate.
  - destruct (e_comp s) eqn:Ec; simpl in H.
    + destruct (Rltb'_spec (v * e_freq s) 1000); simpl in H; [|discriminate].
      destruct (Rleb'_spec 0 v); inversion H; subst; simpl. repeat split; auto.
    + destruct (Rleb'_spec 0 v); inversion H; subst; simpl. repeat split; auto. discriminate.
  - destruct (e_comp s) eqn:Ec; simpl in H.
    + destruct (Rltb'_spec (e_dt s * e_freq s) 1000); simpl in H; inversion H; subst; simpl. repeat split; auto.
    + inversion H; subst; simpl. repeat split; auto. discriminate.
  - destruct b; simpl in H.
    + destruct (Rltb'_spec (e_freq s * e_refrac s) 1000); simpl in H; inversion H; subst; simpl.
      repeat split; auto.
    + inversion H; subst; simpl. repeat split; auto. discriminate.
Qed.

(* --- a rejected assignment (ValueError) changes nothing - except that a rejected NEGATIVE refrac has already
       switched off 'derive refrac from dt' (the flag is cleared before the value is validated) *)
Theorem assign_rejected_unchanged k (s s' : estate RN) a :
  assign RN k s a = (s', Some EValue) ->
  s' = s \/ (exists v, a = ARefrac RN (Some v) /\ v < 0 /\ e_derive s' = false /\ e_refrac s' = e_refrac s).
Proof.
  unfold assign, compat, EValue; rn_simpl. intros H.
  destruct a as [v|z|v|[v|]|b]; destruct k; simpl in H; assign_cases; inversion H; subst; auto.
  right. exists v. repeat split; auto.
  match goal with Hl : Rleb' 0 v = false |- _ => destruct (Rleb'_spec 0 v); [discriminate|lra] end.
Qed.

(* --- a derived refractory period follows the step time, through every assignment (accepted or rejected) *)
Definition tracks_dt (s : estate RN) : Prop := e_derive s = true -> e_refrac s = e_dt s.

Theorem construct_tracks_dt c s : construct RN KHpe c = Ok s -> tracks_dt s.
Proof.
  unfold construct. destruct (valid_step RN c && valid_refrac RN c); [|discriminate].
  intros H; inversion H; subst. unfold tracks_dt, enc_refrac; simpl. destruct (c_refrac c); [discriminate|auto].
Qed.

Theorem assign_tracks_dt (s : estate RN) a : tracks_dt s -> tracks_dt (fst (assign RN KHpe s a)).
Proof.
  unfold tracks_dt. intros Hs. destruct a as [v|z|v|[v|]|b]; simpl; assign_cases; simpl; auto;
    try discriminate; try (intros Hd; rewrite Hd in *; discriminate).
Qed.

Theorem run_tracks_dt (s : estate RN) l : tracks_dt s -> tracks_dt (run_assign RN KHpe s l).
Proof.
  revert s; induction l as [|a l IH]; intros s Hs; auto.
  rewrite run_assign_cons. apply IH. apply assign_tracks_dt; auto.
Qed.

(* --- `refrac = None` re-pins the refractory period to the step time and it keeps following dt through every
       later assignment that is not to refrac *)
Lemma assign_keeps_derived (s : estate RN) a :
  e_derive s = true -> is_refrac_assignment a = false -> e_derive (fst (assign RN KHpe s a)) = true.
Proof.
  intros Hd Ha. destruct a as [v|z|v|o|b]; try discriminate; simpl; assign_cases; simpl; auto.
Qed.

Theorem derived_refrac_follows_dt (s0 s1 : estate RN) l :
  tracks_dt s0 -> assign RN KHpe s0 (ARefrac RN None) = (s1, None) ->
  forallb (fun a => negb (is_refrac_assignment a)) l = true ->
  e_derive (run_assign RN KHpe s1 l) = true /\ e_refrac (run_assign RN KHpe s1 l) = e_dt (run_assign RN KHpe s1 l).
Proof.
  intros H0 Ha Hl. pose proof (assign_accepted_spec _ _ _ Ha) as [_ [Hr [Hd [_ [Hdt _]]]]].
  assert (Ht : tracks_dt s1) by (intros _; congruence).
  assert (Hder : e_derive (run_assign RN KHpe s1 l) = true).
  { clear Ht Hr Hdt Ha. revert s1 Hd Hl. induction l as [|a l IH]; intros s1 Hd Hl; auto.
    simpl in Hl. apply andb_prop in Hl as [Ha Hl]. apply negb_true_iff in Ha.
    rewrite run_assign_cons. apply IH; auto. apply assign_keeps_derived; auto. }
  split; auto. apply (run_tracks_dt s1 l Ht); auto.
Qed.

(* --- setters then encode: after `refrac = v` is accepted, whatever else is assigned (not to refrac), an
       accepted offline call keeps two spikes of an element at least floor(v / dt) steps apart, dt being the
       step time in force at the call *)
Theorem setters_then_encode_min_gap (s0 s1 : estate RN) v l xs draws out j t1 t2 :
  assign RN KHpe s0 (ARefrac RN (Some v)) = (s1, None) ->
  forallb (fun a => negb (is_refrac_assignment a)) l = true ->
  let s := run_assign RN KHpe s1 l in
  hpe_offline RN (forward_config RN s) xs draws = Ok out -> hpe_domain (forward_config RN s) xs ->
  Forall (Forall (fun e => 0 <= e)) draws ->
  (t1 < t2)%nat -> nth j (nth t1 out []) false = true -> nth j (nth t2 out []) false = true ->
  (Zfloor (v / e_dt s) <= Z.of_nat t2 - Z.of_nat t1)%Z.
Proof.
  intros Ha Hl s H Hdom Hd Hlt H1 H2.
  pose proof (assign_accepted_spec _ _ _ Ha) as [_ [_ [Hv [Hder _]]]].
  destruct (explicit_refrac_sticky KHpe s1 l Hder Hl) as [_ Hr]. fold s in Hr.
  pose proof (hpe_offline_min_gap _ _ _ _ _ _ _ H Hdom Hd Hlt H1 H2) as G.
  unfold forward_config, enc_refrac in G; simpl in G. rewrite Hr, Hv in G. exact G.
Qed.


(* ------------------------------------------------------------------ the generator attribute *)
Theorem assign_generator_spec k (s : gstate RN) o :
  assign_g RN k s (GGen RN o) = (mkG RN (g_enc RN s) o, None).
Proof. reflexivity. Qed.

Definition is_config_assignment (ga : gassignment RN) : bool := match ga with GA _ _ => true | GGen _ _ => false end.

Lemma assign_g_all_keeps_generator k l : forall s1 : gstate RN,
  forallb is_config_assignment l = true -> g_gen RN (snd (assign_g_all RN k s1 l)) = g_gen RN s1.
Proof.
  induction l as [|ga l IH]; intros s1 Hl; auto. simpl in Hl. apply andb_prop in Hl as [Ha Hl].
  simpl. destruct (assign_g_all RN k (fst (assign_g RN k s1 ga)) l) as [rest fin] eqn:E. simpl.
  specialize (IH (fst (assign_g RN k s1 ga)) Hl). rewrite E in IH. simpl in IH. rewrite IH.
  destruct ga; [reflexivity|discriminate].
Qed.

(* the generator reads back what was assigned last (None included), whatever is assigned to the other attributes
   afterwards, accepted or rejected; and assigning the generator touches no other attribute *)
Theorem generator_last_assigned k (s : gstate RN) o l :
  forallb is_config_assignment l = true ->
  g_gen RN (snd (assign_g_all RN k s (GGen RN o :: l))) = o.
Proof.
  intros Hl. simpl. destruct (assign_g_all RN k (mkG RN (g_enc RN s) o) l) as [rest fin] eqn:E. simpl.
  pose proof (assign_g_all_keeps_generator k l (mkG RN (g_enc RN s) o) Hl) as H. rewrite E in H. exact H.
Qed.
