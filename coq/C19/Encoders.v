(* C19 - spike encoders: model (definitions only, no proofs).
   Sources (hand-transcribed, branch by branch):
     inferno/neural/functional/encoding.py   (the seven functional encoders)
     inferno/neural/encoders/poisson.py, special.py, mixins.py   (encoder classes: validation, forward)
   The random draws are INPUTS of every model function: the exponential / Poisson / uniform samples the
   implementation obtains from its torch.Generator are passed in as lists; everything after sampling is
   deterministic and is what is modelled here.
   Numbers: polymorphic in N : Num (RN for theorems, FN for execution).  1/0 = +inf of the code is the
   value None of type ext (option T).  Draws of exponential_ are assumed strictly positive (so e * inf = inf). *)
From Coq Require Import List ZArith Bool.
From Inferno Require Import Base.Num.
Import ListNotations.

(* ------------------------------------------------------------------ generic helpers *)
Inductive result (A : Type) : Type := Ok (a : A) | Err (code : Z).
Arguments Ok {A} a.
Arguments Err {A} code.
(* error codes as in tools/impl/common.exc_code: 1 RuntimeError, 2 ValueError *)
Definition ERuntime : Z := 1%Z.
Definition EValue : Z := 2%Z.

Fixpoint set_nth {A} (n : nat) (v : A) (l : list A) : list A :=
  match l, n with
  | [], _ => []
  | _ :: t, O => v :: t
  | x :: t, S k => x :: set_nth k v t
  end.

Definition count_true (l : list bool) : nat := length (filter (fun b => b) l).

(* column j of a row-major matrix *)
Definition column {A} (d : A) (j : nat) (rows : list (list A)) : list A :=
  map (fun row => nth j row d) rows.

(* per-element trains (element-major) -> time-first matrix with exactly [steps] rows *)
Definition time_first (steps : nat) (trains : list (list bool)) : list (list bool) :=
  map (fun t => map (fun tr => nth t tr false) trains) (seq 0 steps).

Fixpoint sequence {A} (l : list (option A)) : option (list A) :=
  match l with
  | [] => Some []
  | None :: _ => None
  | Some a :: t => match sequence t with Some r => Some (a :: r) | None => None end
  end.

(* torch: zeros(size, dtype=bool).scatter_(0, idxs, 1) for ONE element (column); an index outside
   [0, size) raises RuntimeError (scatter_ does not wrap negative indices) -> None *)
Definition scatter_step (size : nat) (acc : option (list bool)) (i : Z) : option (list bool) :=
  match acc with
  | Some l => if ((0 <=? i) && (i <? Z.of_nat size))%Z then Some (set_nth (Z.to_nat i) true l) else None
  | None => None
  end.
Definition scatter_true (size : nat) (idxs : list Z) : option (list bool) :=
  fold_left (scatter_step size) idxs (Some (repeat false size)).

Fixpoint cumsumZ_from (acc : Z) (l : list Z) : list Z :=
  match l with [] => [] | x :: t => let a := (acc + x)%Z in a :: cumsumZ_from a t end.
Definition cumsumZ (l : list Z) : list Z := cumsumZ_from 0%Z l.

(* ------------------------------------------------------------------ online loop (shared by the
   exp-interval and the poisson-interval online encoders)
   state St per element, per-element parameter P, draw type E.
     intervals -= 1                        -> dec
     spikes = <test on intervals>          -> fire p
     intervals[spikes] = <fresh draws>     -> renew p e, draws consumed in row-major order of the spiking elements
     yield spikes *)
Section Online.
Context {St E P : Type}.
Variable dec : St -> St.
Variable fire : P -> St -> bool.
Variable renew : P -> E -> St.
Variable edef : E.

Fixpoint refill (ivs : list St) (spk : list bool) (ps : list P) (draws : list E) : list St :=
  match ivs, spk, ps with
  | i :: it, b :: bt, p :: pt =>
      if b then renew p (hd edef draws) :: refill it bt pt (tl draws)
      else i :: refill it bt pt draws
  | _, _, _ => []
  end.

Fixpoint fires (ps : list P) (ivs : list St) : list bool :=
  match ps, ivs with
  | p :: pt, i :: it => fire p i :: fires pt it
  | _, _ => []
  end.

(* the slices yielded, in order *)
Fixpoint online_loop (ps : list P) (ivs : list St) (draws : list (list E)) (steps : nat) : list (list bool) :=
  match steps with
  | O => []
  | S m =>
      let ivs1 := map dec ivs in
      let spk := fires ps ivs1 in
      spk :: online_loop ps (refill ivs1 spk ps (hd [] draws)) (tl draws) m
  end.

(* one element on its own: the independent description used by the theorems.
   [elem_trace ok p i bs]: bs is a possible spike train of an element with parameter p starting from
   interval i, every fresh draw satisfying [ok]. *)
Inductive elem_trace (ok : E -> Prop) (p : P) : St -> list bool -> Prop :=
| et_nil : forall i, elem_trace ok p i []
| et_quiet : forall i bs, fire p (dec i) = false -> elem_trace ok p (dec i) bs -> elem_trace ok p i (false :: bs)
| et_spike : forall i e bs, fire p (dec i) = true -> ok e -> elem_trace ok p (renew p e) bs ->
             elem_trace ok p i (true :: bs).
End Online.

(* ------------------------------------------------------------------ numeric part *)
Section Model.
Variable N : Num.
Notation T := (T N).

(* +inf as None *)
Definition ext := option T.
Definition ext_add (a b : ext) : ext :=
  match a, b with Some x, Some y => Some (add N x y) | _, _ => None end.
Fixpoint cumsum_from (acc : ext) (l : list ext) : list ext :=
  match l with [] => [] | x :: t => let a := ext_add acc x in a :: cumsum_from a t end.
(* torch.cumsum(dim=0): the first entry is the first interval itself *)
Definition cumsum (l : list ext) : list ext :=
  match l with [] => [] | x :: t => x :: cumsum_from x t end.

(* encoder classes' forward: self.frequency * inputs *)
Definition scaled_inputs (freq : T) (xs : list T) : list T := map (mul N freq) xs.

(* (1 / inputs) * (1000.0 / step_time)      [encoding.py:228, 330]; 1/0 = +inf *)
Definition period_steps (inp dt : T) : ext :=
  if eqb N inp (zero N) then None
  else Some (mul N (div N (one N) inp) (div N (ofZ N 1000) dt)).

(* refrac = step_time if refrac is None else refrac; refrac / step_time     [encoding.py:222-225, 324-327] *)
Definition refrac_steps (refrac : option T) (dt : T) : T :=
  div N (match refrac with None => dt | Some r => r end) dt.

(* if compensate: res = res - refrac *)
Definition scale_of (inp dt r : T) (compensate : bool) : ext :=
  let res := period_steps inp dt in
  if compensate then option_map (fun v => sub N v r) res else res.

(* nbins = int(steps // max(refrac, 1)) *)
Definition nbins (steps : nat) (r : T) : Z :=
  floorZ N (div N (ofZ N (Z.of_nat steps)) (tmax N r (one N))).

(* exponential_(1.0) * res + refrac *)
Definition interval (r : T) (s : ext) (e : T) : ext :=
  option_map (fun v => add N (mul N e v) r) s.

(* res.clamp_max_(steps).long() *)
Definition clamp_index (steps : nat) (c : ext) : Z :=
  match c with
  | None => Z.of_nat steps
  | Some v => truncZ N (tmin N v (ofZ N (Z.of_nat steps)))
  end.

(* ---- homogeneous_poisson_exp_interval, one element; draws = this element's column of the sample tensor *)
Definition exp_indices (steps : nat) (r : T) (s : ext) (draws : list T) : list Z :=
  map (clamp_index steps) (cumsum (map (interval r s) (firstn (Z.to_nat (nbins steps r)) draws))).

Definition exp_offline_elem (steps : nat) (dt : T) (refrac : option T) (compensate : bool) (inp : T)
           (draws : list T) : option (list bool) :=
  let r := refrac_steps refrac dt in
  let s := scale_of inp dt r compensate in
  (* new_zeros(steps + 1, ...).scatter_(0, res, 1)[:-1] *)
  option_map (@removelast bool) (scatter_true (steps + 1) (exp_indices steps r s draws)).

(* whole tensor (flattened row-major to n elements); draws: nbins rows of n samples (time-major, as sampled) *)
Definition exp_offline (steps : nat) (dt : T) (refrac : option T) (compensate : bool) (inps : list T)
           (draws : list (list T)) : result (list (list bool)) :=
  match sequence (map (fun ji => exp_offline_elem steps dt refrac compensate (snd ji)
                                   (column (zero N) (fst ji) draws))
                      (combine (seq 0 (length inps)) inps)) with
  | Some trains => Ok (time_first steps trains)
  | None => Err ERuntime
  end.

(* ---- homogeneous_poisson_exp_interval_online *)
Definition ext_dec (a : ext) : ext := option_map (fun v => sub N v (one N)) a.
Definition ext_lt1 (a : ext) : bool := match a with None => false | Some v => ltb N v (one N) end.
Definition exp_fire (_ : ext) (i : ext) : bool := ext_lt1 i.

(* intervals[spikes] = empty_like(intervals[spikes]).exponential_() * inputs[spikes] + refrac   [encoding.py:351-357] *)
Definition exp_online (steps : nat) (dt : T) (refrac : option T) (compensate : bool)
           (inps : list T) (draws0 : list T) (draws : list (list T)) : list (list bool) :=
  let r := refrac_steps refrac dt in
  let scales := map (fun inp => scale_of inp dt r compensate) inps in
  (* initial intervals: empty_like(inputs).exponential_() * inputs + refrac *)
  let ivs0 := map (fun se => interval r (fst se) (snd se)) (combine scales draws0) in
  online_loop ext_dec exp_fire (interval r) (zero N) scales ivs0 draws steps.

(* ---- poisson_interval (offline), one element.  Poisson samples are integral: draws in Z.
   mask = inputs > 0; rates of masked-out elements are 0, so their samples are 0. *)
Definition pi_mask (inp : T) : bool := ltb N (zero N) inp.

Definition pi_indices (steps : nat) (mask : bool) (draws : list Z) : list Z :=
  (* res[:, mask] += res[:, mask] == 0 ; cumsum ; clamp_max_(steps) *)
  map (fun c => Z.min c (Z.of_nat steps))
      (cumsumZ (map (fun d => if mask then (d + (if (d =? 0)%Z then 1 else 0))%Z else d)
                    (firstn (steps + 2) draws))).

Definition pi_offline_elem (steps : nat) (mask : bool) (draws : list Z) : option (list bool) :=
  (* zeros_like(res).scatter_(0, res, 1)[1:-1]   (res has steps + 2 rows) *)
  option_map (fun l => removelast (tl l)) (scatter_true (steps + 2) (pi_indices steps mask draws)).

Definition pi_offline (steps : nat) (inps : list T) (draws : list (list Z)) : result (list (list bool)) :=
  match sequence (map (fun ji => pi_offline_elem steps (pi_mask (snd ji)) (column 0%Z (fst ji) draws))
                      (combine (seq 0 (length inps)) inps)) with
  | Some trains => Ok (time_first steps trains)
  | None => Err ERuntime
  end.

(* ---- poisson_interval_online: intervals -= 1; spikes = (intervals < 1) & mask;
        intervals[spikes] = poisson(inputs[spikes]) *)
Definition pi_fire (mask : bool) (i : Z) : bool := (i <? 1)%Z && mask.
Definition pi_online (steps : nat) (inps : list T) (draws0 : list Z) (draws : list (list Z))
  : list (list bool) :=
  online_loop (fun i => (i - 1)%Z) pi_fire (fun (_ : bool) (e : Z) => e) 0%Z
              (map pi_mask inps) draws0 draws steps.

(* ---- Bernoulli approximations: p = ((inputs / 1000.0) * step_time).clamp_max_(1.0);
        torch.bernoulli(p): spike iff u < p for a uniform draw u in [0, 1) *)
Definition bern_prob (dt : T) (inp : T) : T :=
  tmin N (mul N (div N inp (ofZ N 1000)) dt) (one N).
Definition bern_row (dt : T) (inps : list T) (us : list T) : list bool :=
  map (fun iu => ltb N (snd iu) (bern_prob dt (fst iu))) (combine inps us).
(* homogeneous (offline: one tensor of steps rows; online: one row per step - same function of the draws) *)
Definition bern_homogeneous (steps : nat) (dt : T) (inps : list T) (us : list (list T)) : list (list bool) :=
  map (fun t => bern_row dt inps (nth t us [])) (seq 0 steps).
(* inhomogeneous: inputs are given per step *)
Definition bern_inhomogeneous (dt : T) (inps : list (list T)) (us : list (list T)) : list (list bool) :=
  map (fun iu => bern_row dt (fst iu) (snd iu)) (combine inps us).

(* ------------------------------------------------------------------ encoder classes *)
Record config := mkConfig {
  c_steps : Z; c_dt : T; c_freq : T; c_refrac : option T; c_comp : bool }.

(* argtest in the constructors: frequency >= 0, step_time > 0, steps > 0, refrac >= 0 (all ValueError) *)
Definition valid_step (c : config) : bool :=
  leb N (zero N) (c_freq c) && ltb N (zero N) (c_dt c) && (0 <? c_steps c)%Z.
Definition valid_refrac (c : config) : bool :=
  match c_refrac c with None => true | Some r => leb N (zero N) r end.
(* RefractoryStepMixin.__init__: refrac None is pinned to the step time *)
Definition enc_refrac (c : config) : T := match c_refrac c with None => c_dt c | Some r => r end.

(* HomogeneousPoissonEncoder.forward *)
Definition hpe_offline (c : config) (xs : list T) (draws : list (list T)) : result (list (list bool)) :=
  if valid_step c && valid_refrac c then
    exp_offline (Z.to_nat (c_steps c)) (c_dt c) (Some (enc_refrac c)) (c_comp c) (scaled_inputs (c_freq c) xs) draws
  else Err EValue.
Definition hpe_online (c : config) (xs : list T) (draws0 : list T) (draws : list (list T))
  : result (list (list bool)) :=
  if valid_step c && valid_refrac c then
    Ok (exp_online (Z.to_nat (c_steps c)) (c_dt c) (Some (enc_refrac c)) (c_comp c)
                   (scaled_inputs (c_freq c) xs) draws0 draws)
  else Err EValue.
(* PoissonIntervalEncoder.forward *)
Definition pie_offline (c : config) (xs : list T) (draws : list (list Z)) : result (list (list bool)) :=
  if valid_step c then pi_offline (Z.to_nat (c_steps c)) (scaled_inputs (c_freq c) xs) draws else Err EValue.
Definition pie_online (c : config) (xs : list T) (draws0 : list Z) (draws : list (list Z))
  : result (list (list bool)) :=
  if valid_step c then Ok (pi_online (Z.to_nat (c_steps c)) (scaled_inputs (c_freq c) xs) draws0 draws)
  else Err EValue.
(* HomogeneousPoissonApproxEncoder.forward: spike probabilities (the sampler's parameter) and spikes *)
Definition hpa_probs (c : config) (xs : list T) : result (list T) :=
  if valid_step c then Ok (map (bern_prob (c_dt c)) (scaled_inputs (c_freq c) xs)) else Err EValue.
Definition hpa_forward (c : config) (xs : list T) (us : list (list T)) : result (list (list bool)) :=
  if valid_step c then Ok (bern_homogeneous (Z.to_nat (c_steps c)) (c_dt c) (scaled_inputs (c_freq c) xs) us)
  else Err EValue.
(* ------------------------------------------------------------------ configuration through setters
   [encoders/mixins.py, poisson.py, special.py property setters], as they are written.
   State of an encoder object: the private fields.  e_derive / e_refrac are RefractoryStepMixin's
   __derive_refrac / __refrac_time (only meaningful for HomogeneousPoissonEncoder).
   An assignment returns the state afterwards and the exception it raised, if any (2 ValueError);
   a raising setter may already have changed a field. *)
Record estate := mkE { e_steps : Z; e_dt : T; e_freq : T; e_comp : bool; e_derive : bool; e_refrac : T }.
Inductive enc_kind := KHpe | KHpa | KPie.
Inductive assignment :=
| ADt (v : T) | ASteps (z : Z) | AFreq (v : T) | ARefrac (o : option T) | AComp (b : bool).

(* constructors (validation as in valid_step / valid_refrac) *)
Definition construct (k : enc_kind) (c : config) : result estate :=
  if valid_step c && (match k with KHpe => valid_refrac c | _ => true end) then
    Ok (mkE (c_steps c) (c_dt c) (c_freq c) (c_comp c)
            (match c_refrac c with None => true | Some _ => false end) (enc_refrac c))
  else Err EValue.

(* argtest.lt("...", a * b, 1000) *)
Definition compat (a b : T) : bool := ltb N (mul N a b) (ofZ N 1000).

Definition assign (k : enc_kind) (s : estate) (a : assignment) : estate * option Z :=
  match a with
  | ADt v =>
      (* StepTimeMixin.dt: argtest.gt; RefractoryStepMixin.dt additionally re-pins a derived refrac *)
      if ltb N (zero N) v then
        (mkE (e_steps s) v (e_freq s) (e_comp s) (e_derive s)
             (match k with KHpe => if e_derive s then v else e_refrac s | _ => e_refrac s end), None)
      else (s, Some EValue)
  | ASteps z =>
      if (0 <? z)%Z then (mkE z (e_dt s) (e_freq s) (e_comp s) (e_derive s) (e_refrac s), None)
      else (s, Some EValue)
  | AFreq v =>
      match k with
      | KHpa | KPie =>                    (* argtest.gte("frequency", value, 0) *)
          if leb N (zero N) v then (mkE (e_steps s) (e_dt s) v (e_comp s) (e_derive s) (e_refrac s), None)
          else (s, Some EValue)
      | KHpe =>
          if e_comp s && negb (compat v (e_refrac s)) then (s, Some EValue)
          else if leb N (zero N) v then (mkE (e_steps s) (e_dt s) v (e_comp s) (e_derive s) (e_refrac s), None)
          else (s, Some EValue)
      end
  | ARefrac o =>
      match k with
      | KHpe =>
          if e_comp s && negb (compat (match o with None => e_dt s | Some v => v end) (e_freq s))
          then (s, Some EValue)
          else match o with
               | None =>
                   (* __derive_refrac = True; __refrac_time = self.dt *)
                   (mkE (e_steps s) (e_dt s) (e_freq s) (e_comp s) true (e_dt s), None)
               | Some v =>
                   (* __derive_refrac = False happens before the value is validated *)
                   if leb N (zero N) v then (mkE (e_steps s) (e_dt s) (e_freq s) (e_comp s) false v, None)
                   else (mkE (e_steps s) (e_dt s) (e_freq s) (e_comp s) false (e_refrac s), Some EValue)
               end
      | _ => (s, None)      (* not a property of these classes; not generated *)
      end
  | AComp b =>
      match k with
      | KHpe =>
          if b && negb (compat (e_freq s) (e_refrac s)) then (s, Some EValue)
          else (mkE (e_steps s) (e_dt s) (e_freq s) b (e_derive s) (e_refrac s), None)
      | _ => (s, None)
      end
  end.

(* a program of assignments: state after each and the exception raised *)
Fixpoint assign_all (k : enc_kind) (s : estate) (l : list assignment) : list (estate * option Z) * estate :=
  match l with
  | [] => ([], s)
  | a :: t => let r := assign k s a in
              let '(rest, fin) := assign_all k (fst r) t in (r :: rest, fin)
  end.
Definition run_assign (k : enc_kind) (s : estate) (l : list assignment) : estate := snd (assign_all k s l).

(* what forward reads: self.steps, self.dt, self.frequency, self.refrac, self.compensated *)
Definition forward_config (s : estate) : config :=
  mkConfig (e_steps s) (e_dt s) (e_freq s) (Some (e_refrac s)) (e_comp s).
(* GeneratorMixin: the generator attribute.  A generator is identified by a number (None = the global RNG);
   the setter stores whatever is assigned [mixins.py GeneratorMixin.generator]. *)
Record gstate := mkG { g_enc : estate; g_gen : option Z }.
Inductive gassignment := GA (a : assignment) | GGen (o : option Z).
Definition assign_g (k : enc_kind) (s : gstate) (ga : gassignment) : gstate * option Z :=
  match ga with
  | GA a => let r := assign k (g_enc s) a in (mkG (fst r) (g_gen s), snd r)
  | GGen o => (mkG (g_enc s) o, None)
  end.
Fixpoint assign_g_all (k : enc_kind) (s : gstate) (l : list gassignment) : list (gstate * option Z) * gstate :=
  match l with
  | [] => ([], s)
  | a :: t => let r := assign_g k s a in
              let '(rest, fin) := assign_g_all k (fst r) t in (r :: rest, fin)
  end.
End Model.
