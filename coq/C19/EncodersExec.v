(* Executable (binary64) instance of the encoder model for the correspondence check, and serialisers. *)
From Coq Require Import List ZArith Bool.
From Inferno Require Import Base.Num Base.NumF C19.Encoders.
Import ListNotations.

Definition ser_matrix (m : list (list bool)) : tree := ser_list (ser_list ser_bool) m.
Definition ser_result {A} (f : A -> tree) (r : result A) : tree :=
  match r with Ok a => Nd [L 0%Z; f a] | Err c => Nd [L 1%Z; L c] end.

Definition cfg (steps : Z) (dt freq : PrimFloat.float) (refrac : option PrimFloat.float) (comp : bool) : config FN :=
  mkConfig FN steps dt freq refrac comp.

(* encoder classes *)
Definition run_hpe_offline c xs draws : tree := ser_result ser_matrix (hpe_offline FN c xs draws).
Definition run_hpe_online c xs draws0 draws : tree := ser_result ser_matrix (hpe_online FN c xs draws0 draws).
Definition run_pie_offline c xs draws : tree := ser_result ser_matrix (pie_offline FN c xs draws).
Definition run_pie_online c xs draws0 draws : tree := ser_result ser_matrix (pie_online FN c xs draws0 draws).
Definition run_hpa c xs : tree := ser_result (ser_list ser_float) (hpa_probs FN c xs).

(* functional encoders called directly (refrac may be None here) *)
Definition run_f_exp_offline (steps : nat) dt refrac comp inps draws : tree :=
  ser_result ser_matrix (exp_offline FN steps dt refrac comp inps draws).
Definition run_f_exp_online (steps : nat) dt refrac comp inps draws0 draws : tree :=
  ser_matrix (exp_online FN steps dt refrac comp inps draws0 draws).
Definition run_f_inhomog dt (inps : list (list PrimFloat.float)) : tree :=
  ser_list (ser_list ser_float) (map (map (bern_prob FN dt)) inps).

(* configuration through setters: getters after every assignment, then forward on the state reached *)
Definition ser_estate (s : estate FN) : tree :=
  Nd [L (e_steps FN s); ser_float (e_dt FN s); ser_float (e_freq FN s); ser_bool (e_comp FN s); ser_float (e_refrac FN s)].
Definition ser_step (r : estate FN * option Z) : tree :=
  Nd [ser_option ser_Z (snd r); ser_estate (fst r)].
Definition run_seq (k : enc_kind) (c : config FN) (l : list (assignment FN))
           (fwd : config FN -> tree) : tree :=
  match construct FN k c with
  | Err code => Nd [L 1%Z; L code]
  | Ok s0 => let r := assign_all FN k s0 l in
             Nd [L 0%Z; ser_estate s0; ser_list ser_step (fst r); fwd (forward_config FN (snd r))]
  end.

(* Bernoulli encoders on GIVEN uniform draws (adversarial schedules: the stub layer's bernoulli(p) is [u < p]) *)
Definition run_hpa_spikes c xs us : tree := ser_result ser_matrix (hpa_forward FN c xs us).
Definition run_f_bern_spikes (steps : nat) dt inps us : tree := ser_matrix (bern_homogeneous FN steps dt inps us).
Definition run_f_inhomog_spikes dt inps us : tree := ser_matrix (bern_inhomogeneous FN dt inps us).

(* setters including the generator attribute *)
Definition ser_gstep (r : gstate FN * option Z) : tree :=
  Nd [ser_option ser_Z (snd r); ser_estate (g_enc FN (fst r)); ser_option ser_Z (g_gen FN (fst r))].
Definition run_gseq (k : enc_kind) (c : config FN) (gen0 : option Z) (l : list (gassignment FN))
           (fwd : config FN -> tree) : tree :=
  match construct FN k c with
  | Err code => Nd [L 1%Z; L code]
  | Ok s0 => let r := assign_g_all FN k (mkG FN s0 gen0) l in
             Nd [L 0%Z; ser_estate s0; ser_list ser_gstep (fst r); fwd (forward_config FN (g_enc FN (snd r)));
                 ser_option ser_Z (g_gen FN (snd r))]
  end.
