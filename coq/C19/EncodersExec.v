(* Executable (binary64) instance of the encoder model for the correspondence check, and serialisers. *)
From Coq Require Import List ZArith Bool.
From Inferno Require Import Base.Num Base.NumF C19.Encoders.
Import ListNotations.

Definition ser_matrix (m : list (list bool)) : tree := ser_list (ser_list ser_bool) m.
Definition ser_result {A} (f : A -> tree) (r : result A) : tree :=
  match r with Ok a => Nd [L 0%Z; f a] | Err c => Nd [L 1%Z; L c] end.

Definition cfg (steps : Z) (dt freq : PrimFloat.float) (refrac : option PrimFloat.float) (comp : bool) : config FN :=
  mkConfig FN steps dt freq refrac comp.

(* encoder classes *)
Definition run_hpe_offline c xs draws : tree := ser_result ser_matrix (hpe_offline FN c xs draws).
Definition run_hpe_online c xs draws0 draws : tree := ser_result ser_matrix (hpe_online FN c xs draws0 draws).
Definition run_pie_offline c xs draws : tree := ser_result ser_matrix (pie_offline FN c xs draws).
Definition run_pie_online c xs draws0 draws : tree := ser_result ser_matrix (pie_online FN c xs draws0 draws).
Definition run_hpa c xs : tree := ser_result (ser_list ser_float) (hpa_probs FN c xs).

(* functional encoders called directly (refrac may be None here) *)
Definition run_f_exp_offline (steps : nat) dt refrac comp inps draws : tree :=
  ser_result ser_matrix (exp_offline FN steps dt refrac comp inps draws).
Definition run_f_exp_online (steps : nat) dt refrac comp inps draws0 draws : tree :=
  ser_matrix (exp_online FN steps dt refrac comp inps draws0 draws).
Definition run_f_inhomog dt (inps : list (list PrimFloat.float)) : tree :=
  ser_list (ser_list ser_float) (map (map (bern_prob FN dt)) inps).
