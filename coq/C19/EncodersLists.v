(* C19 - axiom-free list / integer lemmas behind the encoder theorems:
   scatter, removelast, time-first layout, sequence, windows, the generic online loop. *)
From Coq Require Import List ZArith Bool Arith Lia.
From Inferno Require Import C19.Encoders.
Import ListNotations.

(* ------------------------------------------------------------------ set_nth *)
Lemma set_nth_length {A} (n : nat) (v : A) l : length (set_nth n v l) = length l.
Proof. revert n; induction l as [|x t IH]; intros [|n]; simpl; auto. Qed.

Lemma set_nth_same {A} (n : nat) (v d : A) l : n < length l -> nth n (set_nth n v l) d = v.
Proof. revert n; induction l as [|x t IH]; intros [|n] H; simpl in *; try lia; auto. apply IH; lia. Qed.

Lemma set_nth_other {A} (n m : nat) (v d : A) l : n <> m -> nth m (set_nth n v l) d = nth m l d.
Proof.
  revert n m; induction l as [|x t IH]; intros [|n] [|m] H; simpl; auto; try lia.
Qed.

Lemma nth_set_nth_true n m l :
  nth m (set_nth n true l) false = true <-> (m = n /\ n < length l) \/ nth m l false = true.
Proof.
  destruct (Nat.eq_dec n m) as [->|Hne].
  - destruct (Nat.lt_ge_cases m (length l)) as [Hlt|Hge].
    + rewrite set_nth_same by auto. tauto.
    + rewrite nth_overflow by (rewrite set_nth_length; lia).
      rewrite nth_overflow by lia. split; [discriminate|intros [[_ H]|H]; [lia|discriminate]].
  - rewrite set_nth_other by auto. split; [auto|intros [[H _]|H]; [congruence|auto]].
Qed.

(* ------------------------------------------------------------------ count_true *)
Lemma count_true_cons b l : count_true (b :: l) = (if b then 1 else 0) + count_true l.
Proof. unfold count_true; simpl; destruct b; simpl; auto. Qed.

Lemma count_true_repeat_false n : count_true (repeat false n) = 0.
Proof. induction n; auto. Qed.

Lemma count_true_set_nth n l : count_true (set_nth n true l) <= S (count_true l).
Proof.
  revert n; induction l as [|x t IH]; intros [|n]; simpl; auto.
  - rewrite !count_true_cons. destruct x; simpl; lia.
  - rewrite !count_true_cons. specialize (IH n). lia.
Qed.

Lemma count_true_removelast l : count_true (removelast l) <= count_true l.
Proof.
  induction l as [|x t IH]; auto. simpl. destruct t as [|y t']; [unfold count_true; simpl; lia|].
  rewrite !(count_true_cons x). lia.
Qed.

Lemma count_true_tl l : count_true (tl l) <= count_true l.
Proof. destruct l; simpl; auto. rewrite count_true_cons. lia. Qed.

Lemma count_true_all_false l : (forall t, nth t l false = false) -> count_true l = 0.
Proof.
  induction l as [|x t IH]; intros H; auto. rewrite count_true_cons.
  rewrite (H 0 : x = false). rewrite IH; auto. intros k. apply (H (S k)).
Qed.

(* two spikes in a list: their positions *)
Lemma count_true_two l : 2 <= count_true l ->
  exists i j, i < j < length l /\ nth i l false = true /\ nth j l false = true.
Proof.
  induction l as [|x t IH]; intros H; [unfold count_true in H; simpl in H; lia|].
  rewrite count_true_cons in H. destruct x.
  - assert (H1 : 1 <= count_true t) by (simpl in H; lia).
    assert (exists j, j < length t /\ nth j t false = true) as [j [Hj Hn]].
    { clear -H1. induction t as [|y t IH]; [unfold count_true in H1; simpl in H1; lia|].
      rewrite count_true_cons in H1. destruct y.
      - exists 0; simpl; split; [lia|auto].
      - destruct IH as [j [? ?]]; [simpl in H1; lia|]. exists (S j); simpl; split; [lia|auto]. }
    exists 0, (S j); simpl; repeat split; auto; lia.
  - destruct IH as [i [j [Hij [Hi Hj]]]]; [simpl in H; lia|].
    exists (S i), (S j); simpl; repeat split; auto; lia.
Qed.

Lemma nth_firstn_lt {A} (l : list A) n i d : i < n -> nth i (firstn n l) d = nth i l d.
Proof.
  revert n i; induction l as [|x t IH]; intros [|n] [|i] H; simpl; auto; try lia. apply IH; lia.
Qed.
Lemma nth_skipn_add {A} (l : list A) n i d : nth i (skipn n l) d = nth (n + i) l d.
Proof.
  revert l; induction n as [|n IH]; intros [|x t]; simpl; auto. destruct i; auto.
Qed.

(* if any two spikes are at least g steps apart, every window of g steps holds at most one *)
Lemma gap_window (l : list bool) (g : nat) :
  (forall t1 t2, t1 < t2 -> nth t1 l false = true -> nth t2 l false = true -> g <= t2 - t1) ->
  forall a, count_true (firstn g (skipn a l)) <= 1.
Proof.
  intros Hgap a. destruct (le_lt_dec (count_true (firstn g (skipn a l))) 1) as [|H]; auto.
  destruct (count_true_two _ H) as [i [j [[Hij Hj] [Hi' Hj']]]].
  rewrite firstn_length in Hj.
  assert (Hi : i < g) by lia. assert (Hjg : j < g) by lia.
  rewrite nth_firstn_lt in Hi', Hj' by auto.
  rewrite nth_skipn_add in Hi', Hj'.
  specialize (Hgap (a + i) (a + j) ltac:(lia) Hi' Hj'). lia.
Qed.

(* ------------------------------------------------------------------ scatter *)
Lemma scatter_fold_none size idxs : fold_left (scatter_step size) idxs None = None.
Proof. induction idxs; simpl; auto. Qed.

Lemma scatter_fold_spec size idxs : forall l0, length l0 = size ->
  forall l, fold_left (scatter_step size) idxs (Some l0) = Some l ->
    length l = size /\
    Forall (fun i => (0 <= i < Z.of_nat size)%Z) idxs /\
    (forall t, nth t l false = true <-> (nth t l0 false = true \/ (t < size /\ In (Z.of_nat t) idxs))) /\
    count_true l <= count_true l0 + length idxs.
Proof.
  induction idxs as [|i tl IH]; intros l0 Hl0 l H; simpl in H.
  - inversion H; subst. repeat split; auto; try tauto; try lia. intros [?|[_ []]]; auto.
  - destruct ((0 <=? i)%Z && (i <? Z.of_nat (length l0))%Z) eqn:Hr;
      rewrite <- Hl0 in H; rewrite Hr in H; [|rewrite scatter_fold_none in H; discriminate].
    apply andb_prop in Hr as [H0 H1]. apply Z.leb_le in H0. apply Z.ltb_lt in H1.
    rewrite Hl0 in H. apply IH in H; [|rewrite set_nth_length; auto].
    destruct H as [Hlen [Hall [Hnth Hcnt]]]. repeat split; auto.
    + constructor; auto. lia.
    + intros Ht. apply Hnth in Ht. destruct Ht as [Ht|[Ht Hin]].
      * apply nth_set_nth_true in Ht. destruct Ht as [[-> Hlt]|Ht]; auto.
        right. split; [lia|]. left. lia.
      * right; split; auto. right; auto.
    + intros Ht. apply Hnth. destruct Ht as [Ht|[Ht [Heq|Hin]]].
      * left. apply nth_set_nth_true. auto.
      * left. apply nth_set_nth_true. left. split; lia.
      * right; auto.
    + pose proof (count_true_set_nth (Z.to_nat i) l0). simpl. lia.
Qed.

Lemma scatter_true_spec size idxs l : scatter_true size idxs = Some l ->
  length l = size /\
  Forall (fun i => (0 <= i < Z.of_nat size)%Z) idxs /\
  (forall t, nth t l false = true <-> (t < size /\ In (Z.of_nat t) idxs)) /\
  count_true l <= length idxs.
Proof.
  intros H. apply scatter_fold_spec in H; [|apply repeat_length].
  destruct H as [Hlen [Hall [Hnth Hcnt]]]. repeat split; auto.
  - apply Hnth in H. destruct H as [H|H]; [|tauto].
    rewrite nth_repeat in H. discriminate.
  - apply Hnth in H. destruct H as [H|H]; [|tauto]. rewrite nth_repeat in H. discriminate.
  - intros [? ?]. apply Hnth. auto.
  - rewrite count_true_repeat_false in Hcnt. lia.
Qed.

Lemma scatter_true_defined size idxs :
  Forall (fun i => (0 <= i < Z.of_nat size)%Z) idxs -> exists l, scatter_true size idxs = Some l.
Proof.
  unfold scatter_true. generalize (repeat_length false size). generalize (repeat false size).
  induction idxs as [|i tl IH]; intros l0 Hl0 H; simpl.
  - eauto.
  - inversion H; subst. destruct ((0 <=? i)%Z && (i <? Z.of_nat (length l0))%Z) eqn:Hr.
    + apply IH; auto. rewrite set_nth_length; auto.
    + exfalso. apply andb_false_iff in Hr as [Hr|Hr]; [apply Z.leb_gt in Hr|apply Z.ltb_ge in Hr]; lia.
Qed.

(* ------------------------------------------------------------------ removelast / tl *)
Lemma removelast_length {A} (l : list A) : length (removelast l) = length l - 1.
Proof.
  induction l as [|x t IH]; auto. simpl. destruct t; auto. simpl in *. lia.
Qed.

Lemma nth_removelast {A} (l : list A) d t : t < length l - 1 -> nth t (removelast l) d = nth t l d.
Proof.
  revert t; induction l as [|x tl IH]; intros t H; auto.
  simpl. destruct tl as [|y tl']; [simpl in H; lia|].
  destruct t; auto. apply IH. simpl in *. lia.
Qed.

Lemma nth_tl {A} (l : list A) d t : nth t (tl l) d = nth (S t) l d.
Proof. destruct l; simpl; auto. destruct t; auto. Qed.

(* ------------------------------------------------------------------ time-first layout *)
Lemma time_first_length steps trains : length (time_first steps trains) = steps.
Proof. unfold time_first. rewrite map_length, seq_length. auto. Qed.

Lemma time_first_rows steps trains :
  Forall (fun row => length row = length trains) (time_first steps trains).
Proof.
  unfold time_first. apply Forall_forall. intros row H. apply in_map_iff in H as [t [<- _]].
  apply map_length.
Qed.

Lemma nth_map_lt {A B} (f : A -> B) l t d d' : t < length l -> nth t (map f l) d' = f (nth t l d).
Proof.
  intros H. rewrite nth_indep with (d' := f d) by (rewrite map_length; auto). apply map_nth.
Qed.

Lemma time_first_nth steps trains t j : t < steps ->
  nth j (nth t (time_first steps trains) []) false = nth t (nth j trains []) false.
Proof.
  intros Ht. unfold time_first.
  rewrite nth_map_lt with (d := 0) by (rewrite seq_length; auto).
  rewrite seq_nth by auto. simpl.
  destruct (Nat.lt_ge_cases j (length trains)) as [Hj|Hj].
  - rewrite nth_map_lt with (d := []) by auto. auto.
  - rewrite nth_overflow by (rewrite map_length; auto).
    rewrite (nth_overflow trains) by auto. destruct t; auto.
Qed.

Lemma time_first_nth_out steps trains t j : steps <= t ->
  nth j (nth t (time_first steps trains) []) false = false.
Proof.
  intros H. rewrite (nth_overflow (time_first steps trains)) by (rewrite time_first_length; auto).
  destruct j; auto.
Qed.

(* ------------------------------------------------------------------ sequence *)
Lemma sequence_spec {A} (l : list (option A)) r : sequence l = Some r ->
  length r = length l /\ forall j d d', j < length l -> nth j l d = Some (nth j r d').
Proof.
  revert r; induction l as [|x t IH]; intros r H; simpl in H.
  - inversion H; subst. split; auto. intros; simpl in *; lia.
  - destruct x as [a|]; [|discriminate]. destruct (sequence t) as [r'|] eqn:E; [|discriminate].
    inversion H; subst. destruct (IH r' eq_refl) as [Hl Hn]. split; [simpl; lia|].
    intros [|j] d d' Hj; simpl; auto. apply Hn. simpl in Hj; lia.
Qed.

Lemma sequence_defined {A} (l : list (option A)) :
  (forall x, In x l -> exists a, x = Some a) -> exists r, sequence l = Some r.
Proof.
  induction l as [|x t IH]; intros H; simpl; eauto.
  destruct (H x (or_introl eq_refl)) as [a ->].
  destruct IH as [r ->]; eauto. intros y Hy. apply H. right; auto.
Qed.

Lemma nth_combine_seq {A} (l : list A) j d : j < length l ->
  nth j (combine (seq 0 (length l)) l) (0, d) = (j, nth j l d).
Proof.
  intros H. rewrite combine_nth by (rewrite seq_length; auto). rewrite seq_nth by auto. auto.
Qed.

(* ------------------------------------------------------------------ column *)
Lemma column_nth {A} (d : A) j rows t : nth t (column d j rows) d = nth j (nth t rows []) d.
Proof.
  unfold column. destruct (Nat.lt_ge_cases t (length rows)) as [H|H].
  - rewrite nth_map_lt with (d := []) by auto. auto.
  - rewrite nth_overflow by (rewrite map_length; auto). rewrite (nth_overflow rows) by auto.
    destruct j; auto.
Qed.

Lemma column_Forall {A} (P : A -> Prop) d j rows :
  P d -> Forall (Forall P) rows -> Forall P (column d j rows).
Proof.
  intros Hd H. unfold column. apply Forall_forall. intros x Hx. apply in_map_iff in Hx as [row [<- Hr]].
  rewrite Forall_forall in H. specialize (H _ Hr).
  destruct (Nat.lt_ge_cases j (length row)) as [Hj|Hj].
  - rewrite Forall_forall in H. apply H. apply nth_In; auto.
  - rewrite nth_overflow; auto.
Qed.

(* ------------------------------------------------------------------ cumulative sums over Z *)
Lemma cumsumZ_from_length acc l : length (cumsumZ_from acc l) = length l.
Proof. revert acc; induction l; intros; simpl; auto. Qed.

Lemma cumsumZ_from_lb l : Forall (fun d => (1 <= d)%Z) l ->
  forall acc k, k < length l -> (acc + Z.of_nat (S k) <= nth k (cumsumZ_from acc l) 0)%Z.
Proof.
  induction l as [|x t IH]; intros H acc k Hk; [simpl in Hk; lia|].
  inversion H; subst. cbn [length] in Hk. cbn [cumsumZ_from nth].
  destruct k; [lia|].
  specialize (IH H3 (acc + x)%Z k ltac:(lia)). lia.
Qed.

Lemma cumsumZ_from_zero l : Forall (fun d => d = 0%Z) l -> forall acc c, In c (cumsumZ_from acc l) -> c = acc.
Proof.
  induction l as [|x t IH]; intros H acc c Hc; simpl in *; [tauto|].
  inversion H; subst. destruct Hc as [Hc|Hc]; [lia|]. rewrite (IH H3 _ _ Hc). lia.
Qed.

(* ------------------------------------------------------------------ the generic online loop *)
Section OnlineFacts.
Context {St E P : Type}.
Variable dec : St -> St.
Variable fire : P -> St -> bool.
Variable renew : P -> E -> St.
Variable edef : E.

Lemma fires_length ps ivs : length ps = length ivs -> length (fires fire ps ivs) = length ps.
Proof. revert ivs; induction ps as [|p pt IH]; intros [|i it] H; simpl in *; auto; try lia. Qed.

Lemma refill_length ivs ps draws : length ps = length ivs ->
  length (refill renew edef ivs (fires fire ps ivs) ps draws) = length ps.
Proof.
  revert ps draws; induction ivs as [|i it IH]; intros [|p pt] draws H; simpl in *; auto; try lia.
  destruct (fire p i); simpl; rewrite IH; auto.
Qed.

(* what one step does to element j *)
Lemma refill_nth_error (ok : E -> Prop) ivs ps draws :
  ok edef -> Forall ok draws -> length ps = length ivs ->
  forall j p i, nth_error ps j = Some p -> nth_error ivs j = Some i ->
    nth_error (fires fire ps ivs) j = Some (fire p i) /\
    ((fire p i = false /\ nth_error (refill renew edef ivs (fires fire ps ivs) ps draws) j = Some i) \/
     (fire p i = true /\ exists e, ok e /\
        nth_error (refill renew edef ivs (fires fire ps ivs) ps draws) j = Some (renew p e))).
Proof.
  intros Hd. revert ps draws; induction ivs as [|i0 it IH]; intros [|p0 pt] draws Hok Hlen j p i Hp Hi;
    simpl in *; try lia; try (destruct j; discriminate).
  assert (Hhd : ok (hd edef draws)) by (destruct draws; simpl; auto; inversion Hok; auto).
  assert (Htl : Forall ok (tl draws)) by (destruct draws; simpl; auto; inversion Hok; auto).
  destruct j as [|j]; simpl in *.
  - inversion Hp; inversion Hi; subst. split; auto.
    destruct (fire p i) eqn:Hf; simpl; [right|left]; auto. split; auto. exists (hd edef draws). auto.
  - destruct (fire p0 i0); simpl; apply IH; auto.
Qed.

Lemma online_loop_shape ps ivs draws steps :
  length ps = length ivs ->
  length (online_loop dec fire renew edef ps ivs draws steps) = steps /\
  Forall (fun row => length row = length ps) (online_loop dec fire renew edef ps ivs draws steps).
Proof.
  revert ivs draws; induction steps as [|m IH]; intros ivs draws Hlen; simpl.
  - split; auto.
  - destruct (IH (refill renew edef (map dec ivs) (fires fire ps (map dec ivs)) ps (hd [] draws)) (tl draws))
      as [H1 H2]; [rewrite refill_length; rewrite ?map_length; auto|].
    split; [lia|]. constructor; auto. apply fires_length. rewrite map_length; auto.
Qed.

(* every column of the yielded slices is a trace of the single-element process *)
Lemma online_loop_column (ok : E -> Prop) ps :
  ok edef ->
  forall steps ivs draws,
  Forall (Forall ok) draws -> length ps = length ivs ->
  forall j p i, nth_error ps j = Some p -> nth_error ivs j = Some i ->
    elem_trace dec fire renew ok p i (column false j (online_loop dec fire renew edef ps ivs draws steps)).
Proof.
  intros Hd. induction steps as [|m IH]; intros ivs draws Hok Hlen j p i Hp Hi; simpl.
  - constructor.
  - assert (Hhd : Forall ok (hd [] draws)) by (destruct draws; simpl; auto; inversion Hok; auto).
    assert (Htl : Forall (Forall ok) (tl draws)) by (destruct draws; simpl; auto; inversion Hok; auto).
    assert (Hi1 : nth_error (map dec ivs) j = Some (dec i)) by (rewrite nth_error_map, Hi; auto).
    destruct (refill_nth_error ok (map dec ivs) ps (hd [] draws) Hd Hhd ltac:(rewrite map_length; auto)
                j p (dec i) Hp Hi1) as [Hf Hcase].
    rewrite (nth_error_nth _ _ false Hf).
    assert (Hlen' : length ps = length (refill renew edef (map dec ivs) (fires fire ps (map dec ivs)) ps (hd [] draws)))
      by (rewrite refill_length; rewrite ?map_length; auto).
    destruct Hcase as [[Hq Hn]|[Hs [e [He Hn]]]].
    + rewrite Hq. apply et_quiet; auto; try (apply IH; auto).
    + rewrite Hs. eapply et_spike; eauto; try (apply IH; auto).
Qed.

(* an element whose test never succeeds never spikes *)
Lemma elem_trace_never (ok : E -> Prop) p :
  (forall i, fire p i = false) -> forall i bs, elem_trace dec fire renew ok p i bs ->
  forall t, nth t bs false = false.
Proof.
  intros Hn i bs H. induction H; intros t.
  - destruct t; auto.
  - destruct t; simpl; auto.
  - rewrite Hn in H. discriminate.
Qed.
End OnlineFacts.
