(* C19 - poisson_interval (offline and online): integer theorems, axiom-free.
   The Poisson samples are inputs.  Assumptions about the sampler (stated as hypotheses): samples are >= 0,
   and samples at rate 0 (masked-out elements) are 0. *)
From Coq Require Import List ZArith Bool Arith Lia.
From Inferno Require Import C19.Encoders C19.EncodersLists.
Import ListNotations.
Open Scope Z_scope.

Definition pi_adjust (mask : bool) (d : Z) : Z := if mask then d + (if d =? 0 then 1 else 0) else d.

Lemma pi_indices_eq steps mask draws :
  pi_indices steps mask draws =
  map (fun c => Z.min c (Z.of_nat steps)) (cumsumZ (map (pi_adjust mask) (firstn (steps + 2) draws))).
Proof. reflexivity. Qed.

Lemma cumsumZ_from_nonneg l : Forall (fun d => 0 <= d) l -> forall acc, 0 <= acc ->
  Forall (fun c => 0 <= c) (cumsumZ_from acc l).
Proof.
  induction l as [|x t IH]; intros H acc Ha; simpl; auto. inversion H; subst.
  constructor; [lia|]. apply IH; auto. lia.
Qed.

Lemma pi_adjust_nonneg mask l : Forall (fun d => 0 <= d) l -> Forall (fun d => 0 <= d) (map (pi_adjust mask) l).
Proof.
  intros H. apply Forall_forall. intros x Hx. apply in_map_iff in Hx as [d [<- Hd]].
  rewrite Forall_forall in H. specialize (H _ Hd). unfold pi_adjust. destruct mask; auto. destruct (d =? 0); lia.
Qed.

Lemma pi_adjust_pos l : Forall (fun d => 0 <= d) l -> Forall (fun d => 1 <= d) (map (pi_adjust true) l).
Proof.
  intros H. apply Forall_forall. intros x Hx. apply in_map_iff in Hx as [d [<- Hd]].
  rewrite Forall_forall in H. specialize (H _ Hd). unfold pi_adjust. destruct (Z.eqb_spec d 0); lia.
Qed.

Lemma firstn_Forall' {A} (P : A -> Prop) n l : Forall P l -> Forall P (firstn n l).
Proof.
  revert n; induction l as [|x t IH]; intros [|n] H; simpl; auto. inversion H; subst. constructor; auto.
Qed.

Lemma pi_offline_elem_spec steps mask draws tr :
  pi_offline_elem steps mask draws = Some tr ->
  length tr = steps /\
  forall t, nth t tr false = true <-> ((t < steps)%nat /\ In (Z.of_nat (S t)) (pi_indices steps mask draws)).
Proof.
  unfold pi_offline_elem. destruct (scatter_true (steps + 2) (pi_indices steps mask draws)) as [l|] eqn:E; [|discriminate].
  intros H; inversion H; subst; clear H.
  destruct (scatter_true_spec _ _ _ E) as [Hlen [_ [Hnth _]]].
  assert (Hl : length (removelast (tl l)) = steps).
  { rewrite removelast_length. destruct l; simpl in *; lia. }
  split; auto. intros t. destruct (Nat.lt_ge_cases t steps) as [Ht|Ht].
  - rewrite nth_removelast by (destruct l; simpl in *; lia). rewrite nth_tl, Hnth.
    split; intros [? ?]; split; auto; lia.
  - rewrite nth_overflow by lia. split; [discriminate|intros [? _]; lia].
Qed.

(* inside the sampler's range the call does not raise *)
Theorem pi_offline_elem_defined steps mask draws :
  Forall (fun d => 0 <= d) draws -> exists tr, pi_offline_elem steps mask draws = Some tr.
Proof.
  intros H. unfold pi_offline_elem.
  destruct (scatter_true_defined (steps + 2) (pi_indices steps mask draws)) as [l ->]; [|simpl; eauto].
  rewrite pi_indices_eq. apply Forall_forall. intros i Hi. apply in_map_iff in Hi as [c [<- Hc]].
  assert (Hc0 : 0 <= c).
  { pose proof (cumsumZ_from_nonneg _ (pi_adjust_nonneg mask _ (firstn_Forall' _ (steps + 2)%nat _ H)) 0 ltac:(lia)) as Hf.
    rewrite Forall_forall in Hf. apply Hf. exact Hc. }
  lia.
Qed.

(* --- C19: zero intensity (masked out, samples 0) never spikes: all cumulative times are 0, which is the
       row that is cut off *)
Theorem pi_offline_elem_zero_silent steps draws tr :
  Forall (fun d => d = 0) draws -> pi_offline_elem steps false draws = Some tr ->
  forall t, nth t tr false = false.
Proof.
  intros Hz H t. destruct (pi_offline_elem_spec _ _ _ _ H) as [_ Hn].
  destruct (nth t tr false) eqn:E; auto. apply Hn in E as [_ Hin].
  rewrite pi_indices_eq in Hin. apply in_map_iff in Hin as [c [Hc Hin]].
  assert (c = 0).
  { eapply (cumsumZ_from_zero (map (pi_adjust false) (firstn (steps + 2) draws))); [|exact Hin].
    apply Forall_forall. intros x Hx. apply in_map_iff in Hx as [d [<- Hd]]. simpl.
    pose proof (firstn_Forall' _ (steps + 2)%nat _ Hz) as Hf. rewrite Forall_forall in Hf. auto. }
  lia.
Qed.

(* --- characterisation: an active element spikes at step t iff some cumulative (collision-free) interval
       sum, clamped to `steps`, equals t + 1 *)
Theorem pi_offline_elem_spikes steps draws tr t :
  pi_offline_elem steps true draws = Some tr ->
  (nth t tr false = true <->
   ((t < steps)%nat /\ exists k, (k < Nat.min (steps + 2) (length draws))%nat /\
      Z.min (nth k (cumsumZ (map (pi_adjust true) (firstn (steps + 2) draws))) 0) (Z.of_nat steps) = Z.of_nat (S t))).
Proof.
  intros H. destruct (pi_offline_elem_spec _ _ _ _ H) as [_ Hn]. rewrite Hn, pi_indices_eq.
  set (cs := cumsumZ _).
  assert (Hl : length cs = Nat.min (steps + 2) (length draws)).
  { unfold cs, cumsumZ. rewrite cumsumZ_from_length, map_length, firstn_length. auto. }
  split; intros [Ht Hx]; split; auto.
  - apply in_map_iff in Hx as [c [Hc Hin]]. apply In_nth with (d := 0) in Hin as [k [Hk Hnk]].
    exists k. split; [lia|]. rewrite Hnk. auto.
  - destruct Hx as [k [Hk Hc]]. rewrite <- Hc. apply (in_map (fun c => Z.min c (Z.of_nat steps))). apply nth_In. lia.
Qed.

(* --- the code as it is: overflowing cumulative times are clamped to `steps`, and row `steps` of the
       scatter target is the LAST row that is kept ([1:-1] of steps+2 rows).  Hence every element with a
       non-zero rate fires at the last step of every call, whatever was sampled. *)
Theorem pi_offline_elem_last_step_always_fires steps draws tr :
  (1 <= steps)%nat -> Forall (fun d => 0 <= d) draws -> (steps + 2 <= length draws)%nat ->
  pi_offline_elem steps true draws = Some tr ->
  nth (steps - 1) tr false = true.
Proof.
  intros Hs Hd Hlen H. apply (pi_offline_elem_spikes _ _ _ (steps - 1)%nat H). split; [lia|].
  exists (steps + 1)%nat. split; [lia|].
  pose proof (cumsumZ_from_lb (map (pi_adjust true) (firstn (steps + 2) draws))
                (pi_adjust_pos _ (firstn_Forall' _ (steps + 2)%nat _ Hd)) 0 (steps + 1)%nat) as Hlb.
  rewrite map_length, firstn_length in Hlb. specialize (Hlb ltac:(lia)).
  unfold cumsumZ. lia.
Qed.

(* ------------------------------------------------------------------ online *)
Theorem pi_online_never_when_masked (ok : Z -> Prop) i bs :
  elem_trace (fun i => i - 1) pi_fire (fun (_ : bool) (e : Z) => e) ok false i bs ->
  forall t, nth t bs false = false.
Proof.
  apply elem_trace_never. intros j. unfold pi_fire. apply andb_false_r.
Qed.

(* an active element: after a spike with fresh sample e the next spike comes exactly max(e, 1) steps later *)
Lemma pi_trace_wait (ok : Z -> Prop) i bs :
  elem_trace (fun i => i - 1) pi_fire (fun (_ : bool) (e : Z) => e) ok true i bs ->
  forall t, nth t bs false = true -> (forall t', (t' < t)%nat -> nth t' bs false = false) ->
  Z.of_nat t = Z.max i 1 - 1.
Proof.
  induction 1 as [i|i bs Hf Htr IH|i e bs Hf He Htr IH]; intros t Ht Hfirst.
  - destruct t; discriminate.
  - destruct t as [|t]; [discriminate|]. simpl in Ht.
    unfold pi_fire in Hf. rewrite andb_true_r in Hf. apply Z.ltb_ge in Hf.
    assert (E : Z.of_nat t = Z.max (i - 1) 1 - 1).
    { apply IH; auto. intros t' Ht'. apply (Hfirst (S t')). lia. }
    lia.
  - destruct t as [|t].
    + unfold pi_fire in Hf. rewrite andb_true_r in Hf. apply Z.ltb_lt in Hf. lia.
    + specialize (Hfirst 0%nat ltac:(lia)). discriminate.
Qed.
