(* C18 - proofs, part 1 (independent of the STDP kernels): the event-time bookkeeping and the whole-cell, whole-history
   statement that every trainer's forward is applied to t_delta = t_post_last - t_pre_last - d of the TRUE most recent
   spike times.  Part 2 (rule formulas, agreement of the trainers) is C18/DelayAdjProofs.v. *)
From Coq Require Import List ZArith Bool Reals Lra Lia Arith.
From Inferno Require Import Base.Num Base.NumR C18.DelayAdj.
Import ListNotations.
Open Scope R_scope.

Notation nvR := (nv RN).

(* ================================================================== A. event times *)

(* one unit's monitor after observing the history h (oldest first); None: nothing observed yet *)
Definition ev_run (dt : R) (h : list bool) : option nvR :=
  fold_left (fun st o => Some (ev_fold RN dt o st)) h None.
(* Monitor.peek(): NaN (None) is also what an unobserved unit reads as in [nth _ _ None] *)
Definition ev_peek (dt : R) (h : list bool) : nvR :=
  match ev_run dt h with Some v => v | None => None end.

(* independent description of "the most recent spike": step j spiked and no later step did *)
Definition is_last (h : list bool) (j : nat) : Prop :=
  nth j h false = true /\ forall i, (j < i)%nat -> nth i h false = false.
Definition never (h : list bool) : Prop := forall i, nth i h false = false.

(* the same, computed: index of the last [true] *)
Fixpoint last_true (h : list bool) : option nat :=
  match h with
  | [] => None
  | b :: t => match last_true t with
              | Some j => Some (S j)
              | None => if b then Some O else None
              end
  end.

Lemma last_true_never h : last_true h = None <-> never h.
Proof.
  induction h as [|b t IH]; cbn.
  - split; [intros _ i; destruct i; reflexivity | reflexivity].
  - destruct (last_true t) as [j|] eqn:E.
    + split; [discriminate|]. intros Hn. assert (Ht : never t) by (intros i; exact (Hn (S i))).
      apply IH in Ht. discriminate.
    + destruct b.
      * split; [discriminate|]. intros Hn. specialize (Hn O). discriminate.
      * split; [|reflexivity]. intros _ i. destruct i; [reflexivity|]. apply (proj1 IH eq_refl).
Qed.

Lemma last_true_is_last h j : last_true h = Some j <-> is_last h j.
Proof.
  revert j; induction h as [|b t IH]; intros j; cbn.
  - split; [discriminate|]. intros [H _]. destruct j; discriminate.
  - destruct (last_true t) as [k|] eqn:E.
    + split.
      * intros H; inversion H; subst. destruct (proj1 (IH k) eq_refl) as [H1 H2].
        split; [exact H1|]. intros i Hi. destruct i; [lia|]. apply H2. lia.
      * intros [H1 H2]. destruct j.
        -- destruct (proj1 (IH k) eq_refl) as [H3 _]. specialize (H2 (S k) ltac:(lia)). cbn in H2. congruence.
        -- f_equal. assert (Hj : is_last t j).
           { split; [exact H1|]. intros i Hi. apply (H2 (S i)). lia. }
           apply IH in Hj. congruence.
    + assert (Hn : never t) by (apply last_true_never; exact E).
      destruct b.
      * split.
        -- intros H; inversion H; subst. split; [reflexivity|]. intros i Hi. destruct i; [lia|]. apply Hn.
        -- intros [H1 H2]. destruct j; [reflexivity|]. cbn in H1. rewrite Hn in H1. discriminate.
      * split; [discriminate|]. intros [H1 _]. destruct j; [discriminate|]. cbn in H1. rewrite Hn in H1. discriminate.
Qed.

Lemma last_true_lt h j : last_true h = Some j -> (j < length h)%nat.
Proof.
  revert j; induction h as [|b t IH]; intros j; cbn; [discriminate|].
  destruct (last_true t) as [k|].
  - intros H; inversion H; subst. specialize (IH k eq_refl). lia.
  - destruct b; [|discriminate]. intros H; inversion H. lia.
Qed.

Lemma last_true_snoc h o :
  last_true (h ++ [o]) = if o then Some (length h) else last_true h.
Proof.
  induction h as [|b t IH]; cbn; [destruct o; reflexivity|].
  rewrite IH. destruct o; [reflexivity|]. reflexivity.
Qed.

Lemma ev_run_snoc dt h o : ev_run dt (h ++ [o]) = Some (ev_fold RN dt o (ev_run dt h)).
Proof. unfold ev_run. rewrite fold_left_app. reflexivity. Qed.

(* closed form of the monitor: (number of steps since the last spike) * dt, NaN if there was none *)
Definition since_last (dt : R) (h : list bool) : nvR :=
  match last_true h with
  | Some j => Some (INR (length h - 1 - j) * dt)
  | None => None
  end.

Theorem event_time_since_last dt h : h <> [] -> ev_run dt h = Some (since_last dt h).
Proof.
  induction h as [|o h IH] using rev_ind; [congruence|]. intros _.
  rewrite ev_run_snoc. f_equal. unfold since_last. rewrite last_true_snoc, app_length. cbn [length].
  destruct h as [|b t].
  - cbn. destruct o; [|reflexivity]. cbn. f_equal. lra.
  - rewrite IH by discriminate. unfold ev_fold. destruct o.
    + replace (length (b :: t) + 1 - 1 - length (b :: t))%nat with O by lia. cbn [INR]. f_equal. rn_simpl. lra.
    + unfold since_last. destruct (last_true (b :: t)) as [j|] eqn:E; [|reflexivity].
      apply last_true_lt in E. cbn [nv_add]. f_equal. rn_simpl.
      replace (length (b :: t) + 1 - 1 - j)%nat with (S (length (b :: t) - 1 - j)) by lia.
      rewrite S_INR. lra.
Qed.

Corollary ev_peek_since_last dt h : ev_peek dt h = since_last dt h.
Proof.
  unfold ev_peek. destruct h as [|b t]; [reflexivity|]. rewrite event_time_since_last by discriminate. reflexivity.
Qed.

(* the same against the declarative description, with true times: step k happens at time k * dt *)
Theorem event_true_time dt h j :
  is_last h j -> ev_peek dt h = Some (INR (length h - 1) * dt - INR j * dt).
Proof.
  intros H. apply last_true_is_last in H. rewrite ev_peek_since_last. unfold since_last. rewrite H.
  apply last_true_lt in H. f_equal. rewrite minus_INR by lia. lra.
Qed.
Theorem event_not_spiked_yet dt h : never h -> ev_peek dt h = None.
Proof. intros H. apply last_true_never in H. rewrite ev_peek_since_last. unfold since_last. rewrite H. reflexivity. Qed.

(* ---- t_delta from the true spike times *)
Definition true_tdelta (dt : R) (hpre hpost : list bool) (d : R) : nvR :=
  match last_true hpre, last_true hpost with
  | Some jp, Some jq => Some (INR jq * dt - INR jp * dt - d)     (* t_post_last - t_pre_last - d *)
  | _, _ => None
  end.

Theorem tdelta_model_true dt hpre hpost d :
  length hpre = length hpost ->
  tdelta_adj RN (ev_peek dt hpre) (ev_peek dt hpost) d = true_tdelta dt hpre hpost d.
Proof.
  intros HL. rewrite !ev_peek_since_last. unfold since_last, true_tdelta.
  destruct (last_true hpre) as [jp|] eqn:Ep; destruct (last_true hpost) as [jq|] eqn:Eq; try reflexivity.
  apply last_true_lt in Ep. apply last_true_lt in Eq.
  unfold tdelta_adj, nv_sub. f_equal. rn_simpl. rewrite !minus_INR by lia. rewrite HL. lra.
Qed.

Theorem tdelta_true_times dt hpre hpost d jp jq :
  length hpre = length hpost -> is_last hpre jp -> is_last hpost jq ->
  tdelta_adj RN (ev_peek dt hpre) (ev_peek dt hpost) d = Some (INR jq * dt - INR jp * dt - d).
Proof.
  intros HL Hp Hq. rewrite tdelta_model_true by exact HL. unfold true_tdelta.
  apply last_true_is_last in Hp. apply last_true_is_last in Hq. rewrite Hp, Hq. reflexivity.
Qed.

Theorem tdelta_nan_until_both_spiked dt hpre hpost d :
  never hpre \/ never hpost -> tdelta_adj RN (ev_peek dt hpre) (ev_peek dt hpost) d = None.
Proof.
  intros [H|H]; apply event_not_spiked_yet with (dt := dt) in H; rewrite H; unfold tdelta_adj, nv_sub;
    [reflexivity | destruct (ev_peek dt hpre); reflexivity].
Qed.


Lemma map2_ext {A B C : Type} (f g : A -> B -> C) la lb : (forall a b, f a b = g a b) -> map2 f la lb = map2 g la lb.
Proof.
  intros H. revert lb; induction la as [|a t IH]; intros lb; [reflexivity|]. destruct lb; [reflexivity|].
  cbn. rewrite H, IH. reflexivity.
Qed.

(* ================================================================== E/F. whole cells, whole histories *)

Lemma tdelta_adj_zero tpre tpost : tdelta_adj RN tpre tpost 0 = tdelta_raw RN tpre tpost.
Proof. destruct tpre, tpost; cbn; try reflexivity. f_equal. rn_simpl. lra. Qed.

(* ---- tensors of event times *)
Definition evt_from (dt : R) (st : option (list nvR)) (obs : list (list bool)) : option (list nvR) :=
  fold_left (fun s o => Some (ev_fold_t RN dt o s)) obs st.
Definition unit_hist (u : nat) (obs : list (list bool)) : list bool := map (fun o => nth u o false) obs.

Lemma nth_map2 {A B C : Type} (f : A -> B -> C) la lb da db dc u :
  length la = length lb -> f da db = dc -> nth u (map2 f la lb) dc = f (nth u la da) (nth u lb db).
Proof.
  revert lb u; induction la as [|a t IH]; intros lb u HL Hd; destruct lb as [|b lb]; try discriminate.
  - destruct u; cbn; congruence.
  - destruct u; cbn; [reflexivity|]. apply IH; [cbn in HL; lia | exact Hd].
Qed.
Lemma map2_length {A B C : Type} (f : A -> B -> C) la lb : length la = length lb -> length (map2 f la lb) = length la.
Proof.
  revert lb; induction la as [|a t IH]; intros lb HL; destruct lb; try discriminate; cbn; [reflexivity|].
  f_equal. apply IH. cbn in HL. lia.
Qed.

Lemma ev_peek_snoc dt h b : h <> [] -> ev_peek dt (h ++ [b]) = ev_fold RN dt b (Some (ev_peek dt h)).
Proof.
  intros Hh. unfold ev_peek at 1. rewrite ev_run_snoc. unfold ev_peek.
  rewrite (event_time_since_last dt h Hh). reflexivity.
Qed.

(* every entry of the monitor's tensor is the unit's own event time *)
Lemma evt_from_units dt n obs :
  obs <> [] -> Forall (fun o => length o = n) obs ->
  exists l, evt_from dt None obs = Some l /\ length l = n /\
            forall u, nth u l None = ev_peek dt (unit_hist u obs).
Proof.
  induction obs as [|o obs IH] using rev_ind; [congruence|]. intros _ Hf.
  apply Forall_app in Hf. destruct Hf as [Hf Ho]. inversion Ho as [|? ? Hlo _]; subst.
  unfold evt_from. rewrite fold_left_app. cbn [fold_left]. fold (evt_from dt None obs).
  destruct obs as [|o' obs'].
  - cbn [evt_from fold_left ev_fold_t]. eexists; split; [reflexivity|]. split; [apply map_length|].
    intros u. exact (map_nth (fun o0 => ev_fold RN dt o0 None) o false u).
  - destruct (IH ltac:(discriminate) Hf) as [l [El [Ll Hl]]]. rewrite El. cbn [ev_fold_t].
    eexists; split; [reflexivity|]. split; [rewrite map2_length; lia|].
    intros u. unfold unit_hist. rewrite map_app. cbn [map]. rewrite ev_peek_snoc by discriminate.
    change (nth u o' false :: map (fun o0 : list bool => nth u o0 false) obs') with (unit_hist u (o' :: obs')).
    rewrite <- Hl.
    apply (nth_map2 (fun o0 s => ev_fold RN dt o0 (Some s)) o l false None None u); [lia | reflexivity].
Qed.

(* ---- the cell *)
Section Cell.
Variable red : list R -> R.
Variable c : cellcfg RN.

Definition state_after (st : cellstate RN) (is : list (stepin RN)) : cellstate RN :=
  fold_left (fun s i => fst (cell_step RN red c s i)) is st.

Lemma cell_run_app st is1 is2 :
  cell_run RN red c st (is1 ++ is2) = cell_run RN red c st is1 ++ cell_run RN red c (state_after st is1) is2.
Proof.
  revert st; induction is1 as [|i t IH]; intros st; [reflexivity|]. cbn [app cell_run]. rewrite IH. reflexivity.
Qed.
(* so the record of step k of any run is one cell_step from the state reached by the first k inputs *)
Corollary cell_run_step prefix i :
  cell_run RN red c (mkCS RN None None) (prefix ++ [i]) =
  cell_run RN red c (mkCS RN None None) prefix ++ [cell_step RN red c (state_after (mkCS RN None None) prefix) i].
Proof. rewrite cell_run_app. reflexivity. Qed.

Lemma state_after_evt st is :
  state_after st is = mkCS RN (evt_from (c_dt RN c) (cs_pre RN st) (map (si_pre RN) is))
                          (evt_from (c_dt RN c) (cs_post RN st) (map (si_post RN) is)).
Proof.
  revert st; induction is as [|i t IH]; intros st; [destruct st; reflexivity|].
  cbn [state_after fold_left map evt_from]. fold (state_after (fst (cell_step RN red c st i)) t).
  rewrite IH. reflexivity.
Qed.

(* t_delta of a receptive pair as the statement of the property has it: from the TRUE spike times of the two units *)
Definition spec_tdelta (hpre hpost : list bool) (d : R) : nvR :=
  match c_tr RN c with
  | TKernel _ _ _ => true_tdelta (c_dt RN c) hpre hpost 0
  | _ => true_tdelta (c_dt RN c) hpre hpost d
  end.
Definition spec_tds (is : list (stepin RN)) (s : synapse) (d : R) : list (list nvR) :=
  map (fun b => map (fun io => spec_tdelta (unit_hist (b * c_npre RN c + fst io) (map (si_pre RN) is))
                                           (unit_hist (b * c_npost RN c + snd io) (map (si_post RN) is)) d) s)
      (seq 0 (c_B RN c)).

Definition shaped (n m : nat) (is : list (stepin RN)) : Prop :=
  Forall (fun i => length (si_pre RN i) = n /\ length (si_post RN i) = m) is.

Lemma map2_ext_l {A B C : Type} (f g : A -> B -> C) la lb :
  (forall a b, In a la -> f a b = g a b) -> map2 f la lb = map2 g la lb.
Proof.
  revert lb; induction la as [|a t IH]; intros lb H; [reflexivity|]. destruct lb; [reflexivity|].
  cbn. rewrite H by (left; reflexivity). rewrite IH; [reflexivity|]. intros; apply H; right; assumption.
Qed.

(* FLAGSHIP: at every step of every run, for every parameter element, the trainer's forward is applied to the
   t_delta values t_post_last - t_pre_last - d(t) of the true most recent spike times (NaN while a side is silent) *)
Theorem cell_step_true_times n m prefix i :
  shaped n m (prefix ++ [i]) ->
  snd (cell_step RN red c (state_after (mkCS RN None None) prefix) i) =
  map2 (fun s d => fwd RN red (c_tr RN c) (si_sig RN i) (spec_tds (prefix ++ [i]) s d)) (c_syn RN c) (si_delay RN i).
Proof.
  intros Hs. unfold cell_step. cbn [snd]. rewrite state_after_evt. cbn [cs_pre cs_post].
  assert (Hpre : Forall (fun o => length o = n) (map (si_pre RN) (prefix ++ [i]))).
  { apply Forall_map. eapply Forall_impl; [|exact Hs]. intros a [H _]; exact H. }
  assert (Hpost : Forall (fun o => length o = m) (map (si_post RN) (prefix ++ [i]))).
  { apply Forall_map. eapply Forall_impl; [|exact Hs]. intros a [_ H]; exact H. }
  assert (Nn : forall (f : stepin RN -> list bool), map f (prefix ++ [i]) <> []).
  { intros f. rewrite map_app. intros E. apply app_eq_nil in E. destruct E; discriminate. }
  destruct (evt_from_units (c_dt RN c) n _ (Nn _) Hpre) as [lp [Ep [_ Hp]]].
  destruct (evt_from_units (c_dt RN c) m _ (Nn _) Hpost) as [lq [Eq [_ Hq]]].
  unfold evt_from in Ep, Eq. rewrite map_app, fold_left_app in Ep, Eq. cbn [map fold_left] in Ep, Eq.
  unfold evt_from. inversion Ep as [Ep']. inversion Eq as [Eq']. clear Ep Eq.
  apply map2_ext. intros s d. f_equal. unfold tds_of, spec_tds. apply map_ext. intros b. apply map_ext. intros io.
  rewrite Ep', Eq', Hp, Hq. unfold tdelta_of, spec_tdelta.
  assert (HL : forall u v, length (unit_hist u (map (si_pre RN) (prefix ++ [i]))) =
                           length (unit_hist v (map (si_post RN) (prefix ++ [i])))).
  { intros. unfold unit_hist. rewrite !map_length. reflexivity. }
  destruct (c_tr RN c); try (apply tdelta_model_true; apply HL).
  rewrite <- tdelta_adj_zero. apply tdelta_model_true. apply HL.
Qed.
End Cell.


(* the monitors themselves: after any non-empty run, entry u of the presynaptic (postsynaptic) monitor's tensor is the
   time since unit u's true most recent spike, NaN if it has not spiked *)
Theorem monitor_true_times red c n m (is : list (stepin RN)) :
  is <> [] -> shaped n m is ->
  exists lp lq,
    state_after red c (mkCS RN None None) is = mkCS RN (Some lp) (Some lq) /\ length lp = n /\ length lq = m /\
    (forall u, nth u lp None = since_last (c_dt RN c) (unit_hist u (map (si_pre RN) is))) /\
    (forall u, nth u lq None = since_last (c_dt RN c) (unit_hist u (map (si_post RN) is))).
Proof.
  intros Hne Hs. rewrite state_after_evt. cbn [cs_pre cs_post].
  assert (Hpre : Forall (fun o => length o = n) (map (si_pre RN) is)).
  { apply Forall_map. eapply Forall_impl; [|exact Hs]. intros a [H _]; exact H. }
  assert (Hpost : Forall (fun o => length o = m) (map (si_post RN) is)).
  { apply Forall_map. eapply Forall_impl; [|exact Hs]. intros a [_ H]; exact H. }
  assert (Nn : forall (f : stepin RN -> list bool), map f is <> []) by (intros f E; apply map_eq_nil in E; congruence).
  destruct (evt_from_units (c_dt RN c) n _ (Nn _) Hpre) as [lp [Ep [Lp Hp]]].
  destruct (evt_from_units (c_dt RN c) m _ (Nn _) Hpost) as [lq [Eq [Lq Hq]]].
  exists lp, lq. rewrite Ep, Eq. repeat split; try assumption; intros u; rewrite <- ev_peek_since_last; [apply Hp | apply Hq].
Qed.

(* ================================================================== hyperparameters per parameter element *)
Lemma map3_ext {A B C D : Type} (f g : A -> B -> C -> D) la lb lc :
  (forall a b c, f a b c = g a b c) -> map3 f la lb lc = map3 g la lb lc.
Proof.
  intros H. revert lb lc; induction la as [|a t IH]; intros lb lc; [reflexivity|].
  destruct lb; [reflexivity|]. destruct lc; [reflexivity|]. cbn. rewrite H, IH. reflexivity.
Qed.
Lemma map3_const {A B C D : Type} (f : A -> B -> C -> D) (x : C) la lb :
  map3 f la lb (map (fun _ => x) la) = map2 (fun a b => f a b x) la lb.
Proof.
  revert lb; induction la as [|a t IH]; intros lb; [reflexivity|]. destruct lb; [reflexivity|]. cbn. rewrite IH. reflexivity.
Qed.
Lemma set_tr_same (c : cellcfg RN) : set_tr RN c (c_tr RN c) = c.
Proof. destruct c; reflexivity. Qed.

(* a cell whose elements all carry the cell's one trainer value is the plain cell *)
Theorem cell_step_ps_const red c st i :
  cell_step_ps RN red c (map (fun _ => c_tr RN c) (c_syn RN c)) st i = cell_step RN red c st i.
Proof. unfold cell_step_ps, cell_step. rewrite map3_const, set_tr_same. reflexivity. Qed.

(* the monitors do not depend on the trainers' hyperparameters *)
Lemma cell_step_ps_state red c trs st i : fst (cell_step_ps RN red c trs st i) = fst (cell_step RN red c st i).
Proof. reflexivity. Qed.

(* the flagship statement with per-element hyperparameters (tensor-valued kernel keyword arguments): every element's
   own trainer value is applied to the element's true-time t_delta values *)
Theorem cell_step_ps_true_times red c trs n m prefix i :
  shaped n m (prefix ++ [i]) ->
  snd (cell_step_ps RN red c trs (state_after red c (mkCS RN None None) prefix) i) =
  map3 (fun s d tr => fwd RN red tr (si_sig RN i) (spec_tds (set_tr RN c tr) (prefix ++ [i]) s d))
       (c_syn RN c) (si_delay RN i) trs.
Proof.
  intros Hs. unfold cell_step_ps. cbn [snd]. rewrite state_after_evt. cbn [cs_pre cs_post].
  assert (Hpre : Forall (fun o => length o = n) (map (si_pre RN) (prefix ++ [i]))).
  { apply Forall_map. eapply Forall_impl; [|exact Hs]. intros a [H _]; exact H. }
  assert (Hpost : Forall (fun o => length o = m) (map (si_post RN) (prefix ++ [i]))).
  { apply Forall_map. eapply Forall_impl; [|exact Hs]. intros a [_ H]; exact H. }
  assert (Nn : forall (f : stepin RN -> list bool), map f (prefix ++ [i]) <> []).
  { intros f. rewrite map_app. intros E. apply app_eq_nil in E. destruct E; discriminate. }
  destruct (evt_from_units (c_dt RN c) n _ (Nn _) Hpre) as [lp [Ep [_ Hp]]].
  destruct (evt_from_units (c_dt RN c) m _ (Nn _) Hpost) as [lq [Eq [_ Hq]]].
  unfold evt_from in Ep, Eq. rewrite map_app, fold_left_app in Ep, Eq. cbn [map fold_left] in Ep, Eq.
  unfold evt_from. inversion Ep as [Ep']. inversion Eq as [Eq']. clear Ep Eq.
  apply map3_ext. intros s d tr. f_equal. unfold tds_of, spec_tds. cbn [set_tr c_B c_npre c_npost c_tr c_dt].
  apply map_ext. intros b. apply map_ext. intros io.
  rewrite Ep', Eq', Hp, Hq. unfold tdelta_of, spec_tdelta. cbn [set_tr c_tr c_dt].
  assert (HL : forall u v, length (unit_hist u (map (si_pre RN) (prefix ++ [i]))) =
                           length (unit_hist v (map (si_post RN) (prefix ++ [i])))).
  { intros. unfold unit_hist. rewrite !map_length. reflexivity. }
  destruct tr; try (apply tdelta_model_true; apply HL).
  rewrite <- tdelta_adj_zero. apply tdelta_model_true. apply HL.
Qed.

(* ================================================================== hyperparameters re-assigned between steps *)
(* a run whose reduction and trainer values never change is the plain per-element run *)
Theorem cell_run_tv_const red c trs st (is : list (stepin RN)) :
  cell_run_tv RN c st (map (fun i => (red, trs, i)) is) = cell_run_ps RN red c trs st is.
Proof. revert st; induction is as [|i t IH]; intros st; [reflexivity|]. cbn. rewrite IH. reflexivity. Qed.

(* the monitors of such a run are those of the plain cell: re-assigning hyperparameters does not touch them *)
Definition tv_state (c : cellcfg RN) (st : cellstate RN) (is : list (tvstep RN)) : cellstate RN :=
  fold_left (fun s (x : tvstep RN) => fst (cell_step_ps RN (fst (fst x)) c (snd (fst x)) s (snd x))) is st.
Lemma tv_state_is_state_after red c st is : tv_state c st is = state_after red c st (map snd is).
Proof.
  revert st; induction is as [|[[r trs] i] t IH]; intros st; [reflexivity|]. cbn [tv_state fold_left map snd fst].
  fold (tv_state c (fst (cell_step_ps RN r c trs st i)) t). rewrite IH. reflexivity.
Qed.
Lemma cell_run_tv_app c st is1 is2 :
  cell_run_tv RN c st (is1 ++ is2) = cell_run_tv RN c st is1 ++ cell_run_tv RN c (tv_state c st is1) is2.
Proof.
  revert st; induction is1 as [|[[r trs] i] t IH]; intros st; [reflexivity|]. cbn [app cell_run_tv]. rewrite IH. reflexivity.
Qed.

(* FLAGSHIP for live hyperparameters: the record of every step of such a run is the forward of the trainer values IN FORCE
   AT THAT STEP (with that step's reduction and delays) applied to the true-time t_delta values of the whole history *)
Theorem cell_run_tv_true_times c n m (prefix : list (tvstep RN)) red trs i :
  shaped n m (map snd prefix ++ [i]) ->
  cell_run_tv RN c (mkCS RN None None) (prefix ++ [(red, trs, i)]) =
  cell_run_tv RN c (mkCS RN None None) prefix ++
  [(fst (cell_step RN red c (state_after red c (mkCS RN None None) (map snd prefix)) i),
    map3 (fun s d tr => fwd RN red tr (si_sig RN i) (spec_tds (set_tr RN c tr) (map snd prefix ++ [i]) s d))
         (c_syn RN c) (si_delay RN i) trs)].
Proof.
  intros Hs. rewrite cell_run_tv_app. f_equal. cbn [cell_run_tv]. f_equal.
  rewrite (tv_state_is_state_after red).
  rewrite (surjective_pairing (cell_step_ps RN red c trs (state_after red c (mkCS RN None None) (map snd prefix)) i)).
  f_equal. apply cell_step_ps_true_times with (n := n) (m := m). exact Hs.
Qed.
