(* C18 - model of the delay-adjusted and kernel STDP trainers, per synapse, mirroring the code branch by branch.
   Definitions only (no proofs) so the model keeps running for the correspondence check when a proof breaks.

   Sources modelled (hand-transcribed, tied by the correspondence check of tools/props/c18.py):
     inferno/observe/reducers/general.py:58-78      EventReducer.fold  (initial="nan", as every trainer here builds it)
     inferno/learn/trainers/delay_adj_two_factor_stdp.py:231-272   DelayAdjustedSTDP.forward
     inferno/learn/trainers/delay_adj_two_factor_stdp.py:495-536   DelayAdjustedSTDPD.forward
     inferno/learn/trainers/kernel_stdp.py:260-303                 KernelSTDP.forward (peek branch)
     inferno/learn/trainers/kernel_stdp.py:532-571, 800-839        DelayAdjustedKernelSTDP / ...STDPD.forward
     inferno/learn/trainers/delay_adj_three_factor_stdp.py:237-366 DelayAdjustedMSTDP.forward (scalar and per-sample signal)
     inferno/learn/trainers/delay_adj_three_factor_stdp.py:593-722 DelayAdjustedMSTDPD.forward
   The half kernels handed to the kernel trainers are the GENERATED Gen.Stdkernels.exp_stdp_post_kernel /
   exp_stdp_pre_kernel (functional/stdkernels.py).

   NaN ("this unit has not spiked yet") is modelled explicitly: [nv := option T], None = NaN, with torch's
   propagation rules written out (NaN + x = NaN, comparisons with NaN are false but the product with NaN is NaN,
   clamp keeps NaN, nansum reads NaN as 0).  A *missing update part* (Python None handed to the Updater) is the
   None of [parts].

   Tensors: a trainer's forward is element-wise over the parameter (weight or delay) tensor, followed by nansum over
   the receptive axis (last axis; size 1 for the linear connections, the output positions for Conv2D) and the batch
   reduction over axis 0.  One parameter element ("synapse") is therefore described by its list of receptive pairs
   (presynaptic unit, postsynaptic unit); the monitors' tensors are flat lists over (batch, unit). *)
From Coq Require Import List ZArith Bool.
From Inferno Require Import Base.Num.
Import ListNotations.

Fixpoint map2 {A B C : Type} (f : A -> B -> C) (la : list A) (lb : list B) : list C :=
  match la, lb with
  | a :: ta, b :: tb => f a b :: map2 f ta tb
  | _, _ => []
  end.

Section Model.
Variable N : Num.
Local Notation TT := (T N).

(* ------------------------------------------------------------------ NaN-aware numbers *)
Definition nv := option TT.
Definition nv_add (a b : nv) : nv := match a, b with Some x, Some y => Some (add N x y) | _, _ => None end.
Definition nv_sub (a b : nv) : nv := match a, b with Some x, Some y => Some (sub N x y) | _, _ => None end.
Definition nan0 (v : nv) : TT := match v with Some x => x | None => zero N end.
(* Tensor.nansum(-1) *)
Definition nansum (l : list nv) : TT := tsum N (map nan0 l).

(* ------------------------------------------------------------------ EventReducer (initial = "nan")
   general.py:58-78.  state = None: no prior observation (FoldReducer passes None on the first fold). *)
Definition ev_fold (dt : TT) (obs : bool) (state : option nv) : nv :=
  match state with
  | None => if obs then Some (zero N) else None                       (* where(criterion(obs), 0, initial) *)
  | Some s => if obs then Some (zero N) else nv_add s (Some dt)       (* where(criterion(obs), 0, state + dt) *)
  end.
(* the same on a whole (flat) tensor; the monitor's reducer has duration 0, so it keeps one observation *)
Definition ev_fold_t (dt : TT) (obs : list bool) (state : option (list nv)) : list nv :=
  match state with
  | None => map (fun o => ev_fold dt o None) obs
  | Some st => map2 (fun o s => ev_fold dt o (Some s)) obs st
  end.

(* ------------------------------------------------------------------ batch reductions (axis 0) *)
Inductive redkind := RSum | RMean | RAmax | RAmin.
Definition reduce (k : redkind) (l : list TT) : TT :=
  match k with
  | RSum => tsum N l
  | RMean => div N (tsum N l) (ofZ N (Z.of_nat (length l)))
  | RAmax => match l with [] => zero N | x :: t => fold_left (tmax N) t x end
  | RAmin => match l with [] => zero N | x :: t => fold_left (tmin N) t x end
  end.

(* ------------------------------------------------------------------ adjusted time difference
   t_delta = t_pre - t_post - delay  (t_pre, t_post are TIMES SINCE the last spike) *)
Definition tdelta_adj (tpre tpost : nv) (d : TT) : nv := nv_sub (nv_sub tpre tpost) (Some d).
(* KernelSTDP: t_delta = t_pre - t_post *)
Definition tdelta_raw (tpre tpost : nv) : nv := nv_sub tpre tpost.

(* ------------------------------------------------------------------ the dedicated rules' inline term
   torch.exp(t_delta_abs / (-tc)) * (abs(lr) * (t_delta >= 0 | t_delta < 0).to(dtype))
   (hand-transcribed: delay_adj_two_factor_stdp.py:248-261, 512-525; delay_adj_three_factor_stdp.py:305-314, 661-670) *)
Definition da_term (tc lr : TT) (causal : bool) (td : nv) : nv :=
  option_map (fun x =>
    mul N (exp N (div N (abs N x) (opp N tc)))
          (mul N (abs N lr) (b2t N (if causal then geb N x (zero N) else ltb N x (zero N))))) td.

Definition parts := (option TT * option TT)%type.      (* (pos, neg) handed to the Updater; None = Python None *)
Definition part_val (p : option TT) : TT := match p with Some x => x | None => zero N end.
(* what Accumulator.update makes of the two parts without bounding: pos - neg, a missing part is zero *)
Definition net (p : parts) : TT := sub N (part_val (fst p)) (part_val (snd p)).

Section Forward.
Variable red : list TT -> TT.        (* state.batchreduce(., 0) *)

(* reduce over the batch of the nansum over the receptive axis *)
Definition rsum (f : nv -> nv) (tds : list (list nv)) : TT :=
  red (map (fun row => nansum (map f row)) tds).

(* DelayAdjustedSTDP.forward, delay_adj_two_factor_stdp.py:231-272 *)
Definition da_stdp (lr_pos lr_neg tc_pos tc_neg : TT) (tds : list (list nv)) : parts :=
  let dpos := rsum (da_term tc_pos lr_pos true) tds in
  let dneg := rsum (da_term tc_neg lr_neg false) tds in
  match geb N lr_pos (zero N), geb N lr_neg (zero N) with
  | false, false => (None, Some (add N dpos dneg))           (* depressive *)
  | false, true => (Some dneg, Some dpos)                     (* anti-hebbian *)
  | true, false => (Some dpos, Some dneg)                     (* hebbian *)
  | true, true => (Some (add N dpos dneg), None)              (* potentiative *)
  end.

(* DelayAdjustedSTDPD.forward, delay_adj_two_factor_stdp.py:495-536 *)
Definition da_stdpd (lr_neg lr_pos tc_neg tc_pos : TT) (tds : list (list nv)) : parts :=
  let dneg := rsum (da_term tc_neg lr_neg true) tds in
  let dpos := rsum (da_term tc_pos lr_pos false) tds in
  match ltb N lr_neg (zero N), ltb N lr_pos (zero N) with
  | true, true => (None, Some (add N dpos dneg))              (* potentiative *)
  | true, false => (Some dpos, Some dneg)                     (* hebbian *)
  | false, true => (Some dneg, Some dpos)                     (* anti-hebbian *)
  | false, false => (Some (add N dpos dneg), None)            (* depressive *)
  end.

(* KernelSTDP / DelayAdjustedKernelSTDP / DelayAdjustedKernelSTDPD .forward (they differ only in t_delta and in the
   updated parameter), kernel_stdp.py:279-303, 547-571, 815-839.  A half kernel is applied element-wise;
   NaN in gives NaN out (true of every arithmetic kernel, in particular of the shipped ones). *)
Definition clamp_min0 (v : nv) : nv := option_map (fun x => tmax N x (zero N)) v.
Definition clamp_max0 (v : nv) : nv := option_map (fun x => tmin N x (zero N)) v.
Definition kernel_fwd (kpost kpre : TT -> TT) (tds : list (list nv)) : parts :=
  (Some (add N (rsum (fun v => clamp_min0 (option_map kpost v)) tds)
               (rsum (fun v => clamp_min0 (option_map kpre v)) tds)),
   Some (opp N (add N (rsum (fun v => clamp_max0 (option_map kpost v)) tds)
                      (rsum (fun v => clamp_max0 (option_map kpre v)) tds)))).

(* ---- three-factor rules.  signal: a Python float (scalar branch) or a tensor with one entry per sample. *)
(* scalar branch, delay_adj_three_factor_stdp.py:352-366 *)
Definition da_mstdp_scalar (lr_pos lr_neg tc_pos tc_neg signal scale : TT) (tds : list (list nv)) : parts :=
  let dpost := mul N (rsum (da_term tc_pos lr_pos true) tds) (abs N (mul N signal scale)) in
  let dpre := mul N (rsum (da_term tc_neg lr_neg false) tds) (abs N (mul N signal scale)) in
  match geb N (mul N lr_pos signal) (zero N), geb N (mul N lr_neg signal) (zero N) with
  | false, false => (None, Some (add N dpost dpre))
  | false, true => (Some dpre, Some dpost)
  | true, false => (Some dpost, Some dpre)
  | true, true => (Some (add N dpost dpre), None)
  end.
(* scalar branch, delay_adj_three_factor_stdp.py:708-722 *)
Definition da_mstdpd_scalar (lr_neg lr_pos tc_neg tc_pos signal scale : TT) (tds : list (list nv)) : parts :=
  let dpost := mul N (rsum (da_term tc_neg lr_neg true) tds) (abs N (mul N signal scale)) in
  let dpre := mul N (rsum (da_term tc_pos lr_pos false) tds) (abs N (mul N signal scale)) in
  match ltb N (mul N lr_neg signal) (zero N), ltb N (mul N lr_pos signal) (zero N) with
  | true, true => (None, Some (add N dpre dpost))
  | true, false => (Some dpre, Some dpost)
  | false, true => (Some dpost, Some dpre)
  | false, false => (Some (add N dpre dpost), None)
  end.

(* per-sample branch: the unreduced per-sample sums are scaled by |signal_b * scale|, split by the sign of signal_b
   (argwhere(signal >= 0) / argwhere(signal < 0)), concatenated by mode and only then batch-reduced; an empty
   selection gives None (dpos.numel() == 0). *)
Fixpoint select {A : Type} (m : list bool) (l : list A) : list A :=
  match m, l with
  | b :: tm, x :: tl => if b then x :: select tm tl else select tm tl
  | _, _ => []
  end.
Definition red_opt (l : list TT) : option TT := match l with [] => None | _ => Some (red l) end.
Definition scaled_rows (f : nv -> nv) (signals : list TT) (scale : TT) (tds : list (list nv)) : list TT :=
  map2 (fun row s => mul N (nansum (map f row)) (abs N (mul N s scale))) tds signals.

(* delay_adj_three_factor_stdp.py:316-350 *)
Definition da_mstdp_tensor (lr_pos lr_neg tc_pos tc_neg : TT) (signals : list TT) (scale : TT)
           (tds : list (list nv)) : parts :=
  let dpost := scaled_rows (da_term tc_pos lr_pos true) signals scale tds in
  let dpre := scaled_rows (da_term tc_neg lr_neg false) signals scale tds in
  let mreg := map (fun s => geb N s (zero N)) signals in
  let minv := map (fun s => ltb N s (zero N)) signals in
  let dpost_reg := select mreg dpost in let dpost_inv := select minv dpost in
  let dpre_reg := select mreg dpre in let dpre_inv := select minv dpre in
  let '(dpos, dneg) :=
    match geb N lr_pos (zero N), geb N lr_neg (zero N) with
    | false, false => (dpost_inv ++ dpre_inv, dpost_reg ++ dpre_reg)
    | false, true => (dpost_inv ++ dpre_reg, dpost_reg ++ dpre_inv)
    | true, false => (dpost_reg ++ dpre_inv, dpost_inv ++ dpre_reg)
    | true, true => (dpost_reg ++ dpre_reg, dpost_inv ++ dpre_inv)
    end in
  (red_opt dpos, red_opt dneg).

(* delay_adj_three_factor_stdp.py:672-706 *)
Definition da_mstdpd_tensor (lr_neg lr_pos tc_neg tc_pos : TT) (signals : list TT) (scale : TT)
           (tds : list (list nv)) : parts :=
  let dpost := scaled_rows (da_term tc_neg lr_neg true) signals scale tds in
  let dpre := scaled_rows (da_term tc_pos lr_pos false) signals scale tds in
  let mreg := map (fun s => geb N s (zero N)) signals in
  let minv := map (fun s => ltb N s (zero N)) signals in
  let dpost_reg := select mreg dpost in let dpost_inv := select minv dpost in
  let dpre_reg := select mreg dpre in let dpre_inv := select minv dpre in
  let '(dneg, dpos) :=
    match ltb N lr_neg (zero N), ltb N lr_pos (zero N) with
    | true, true => (dpost_reg ++ dpre_reg, dpost_inv ++ dpre_inv)
    | true, false => (dpost_reg ++ dpre_inv, dpost_inv ++ dpre_reg)
    | false, true => (dpost_inv ++ dpre_reg, dpost_reg ++ dpre_inv)
    | false, false => (dpost_inv ++ dpre_inv, dpost_reg ++ dpre_reg)
    end in
  (red_opt dpos, red_opt dneg).

(* ------------------------------------------------------------------ a trained cell *)
Inductive trainer :=
| TDaStdp (lr_pos lr_neg tc_pos tc_neg : TT)            (* DelayAdjustedSTDP: updates the weights *)
| TDaStdpD (lr_neg lr_pos tc_neg tc_pos : TT)           (* DelayAdjustedSTDPD: updates the delays *)
| TKernel (kpost kpre : TT -> TT)                       (* KernelSTDP: unadjusted time difference *)
| TDaKernel (kpost kpre : TT -> TT)                     (* DelayAdjustedKernelSTDP and ...STDPD *)
| TDaMstdp (lr_pos lr_neg tc_pos tc_neg : TT)           (* DelayAdjustedMSTDP *)
| TDaMstdpD (lr_neg lr_pos tc_neg tc_pos : TT).         (* DelayAdjustedMSTDPD *)

Inductive signal :=
| SigNone                                              (* two-factor trainers take no arguments *)
| SigScalar (s scale : TT)
| SigTensor (ss : list TT) (scale : TT).

Definition tdelta_of (tr : trainer) (tpre tpost : nv) (d : TT) : nv :=
  match tr with
  | TKernel _ _ => tdelta_raw tpre tpost
  | _ => tdelta_adj tpre tpost d
  end.

(* the trainer's forward for one parameter element, from the element's t_delta values [batch][receptive] *)
Definition fwd (tr : trainer) (sg : signal) (tds : list (list nv)) : parts :=
  match tr, sg with
  | TDaStdp a b c d, _ => da_stdp a b c d tds
  | TDaStdpD a b c d, _ => da_stdpd a b c d tds
  | TKernel kpost kpre, _ => kernel_fwd kpost kpre tds
  | TDaKernel kpost kpre, _ => kernel_fwd kpost kpre tds
  | TDaMstdp a b c d, SigScalar s sc => da_mstdp_scalar a b c d s sc tds
  | TDaMstdp a b c d, SigTensor ss sc => da_mstdp_tensor a b c d ss sc tds
  | TDaMstdpD a b c d, SigScalar s sc => da_mstdpd_scalar a b c d s sc tds
  | TDaMstdpD a b c d, SigTensor ss sc => da_mstdpd_tensor a b c d ss sc tds
  | _, SigNone => (None, None)                          (* not reachable: signal is a required argument *)
  end.

(* one parameter element: its receptive pairs (presynaptic unit, postsynaptic unit), unbatched unit indices *)
Definition synapse := list (nat * nat).

Record cellcfg := mkCfg {
  c_B : nat;                      (* batch size *)
  c_npre : nat;                   (* number of units the presynaptic monitor sees per sample *)
  c_npost : nat;                  (* number of postsynaptic units per sample *)
  c_syn : list synapse;           (* parameter elements, row-major *)
  c_dt : TT;
  c_tr : trainer
}.
Record cellstate := mkCS { cs_pre : option (list nv); cs_post : option (list nv) }.
Record stepin := mkIn {
  si_pre : list bool;             (* what the presynaptic monitor observes, flat over (batch, unit) *)
  si_post : list bool;            (* neuron.spike, flat over (batch, unit) *)
  si_delay : list TT;             (* connection.delay at this step, one per parameter element *)
  si_sig : signal
}.

(* the element's t_delta tensor [batch][receptive] *)
Definition tds_of (c : cellcfg) (pre post : list nv) (s : synapse) (d : TT) : list (list nv) :=
  map (fun b => map (fun io => tdelta_of (c_tr c) (nth (b * c_npre c + fst io) pre None)
                                                   (nth (b * c_npost c + snd io) post None) d) s)
      (seq 0 (c_B c)).

(* a step of the layer (monitors fold the new spikes) followed by trainer(...) *)
Definition cell_step (c : cellcfg) (st : cellstate) (i : stepin) : cellstate * list parts :=
  let pre := ev_fold_t (c_dt c) (si_pre i) (cs_pre st) in
  let post := ev_fold_t (c_dt c) (si_post i) (cs_post st) in
  (mkCS (Some pre) (Some post),
   map2 (fun s d => fwd (c_tr c) (si_sig i) (tds_of c pre post s d)) (c_syn c) (si_delay i)).

Fixpoint cell_run (c : cellcfg) (st : cellstate) (is : list stepin) : list (cellstate * list parts) :=
  match is with
  | [] => []
  | i :: tl => let r := cell_step c st i in r :: cell_run c (fst r) tl
  end.

(* ---- hyperparameters given per parameter element.  The kernel trainers accept TENSOR-valued kernel keyword arguments
   (kept as buffers of the cell state and handed to the kernel on every forward, kernel_stdp.py:137-149, 282-292);
   a tensor shaped like the parameter (plus the receptive axis) gives every parameter element its own learning rate /
   time constant.  The forward is element-wise, so the cell is then described by one trainer value per element. *)
Fixpoint map3 {A B C D : Type} (f : A -> B -> C -> D) (la : list A) (lb : list B) (lc : list C) : list D :=
  match la, lb, lc with
  | a :: ta, b :: tb, c :: tc => f a b c :: map3 f ta tb tc
  | _, _, _ => []
  end.
Definition set_tr (c : cellcfg) (tr : trainer) : cellcfg :=
  mkCfg (c_B c) (c_npre c) (c_npost c) (c_syn c) (c_dt c) tr.
Definition cell_step_ps (c : cellcfg) (trs : list trainer) (st : cellstate) (i : stepin) : cellstate * list parts :=
  let pre := ev_fold_t (c_dt c) (si_pre i) (cs_pre st) in
  let post := ev_fold_t (c_dt c) (si_post i) (cs_post st) in
  (mkCS (Some pre) (Some post),
   map3 (fun s d tr => fwd tr (si_sig i) (tds_of (set_tr c tr) pre post s d)) (c_syn c) (si_delay i) trs).
Fixpoint cell_run_ps (c : cellcfg) (trs : list trainer) (st : cellstate) (is : list stepin)
  : list (cellstate * list parts) :=
  match is with
  | [] => []
  | i :: tl => let r := cell_step_ps c trs st i in r :: cell_run_ps c trs (fst r) tl
  end.

End Forward.

(* ---- hyperparameters re-assigned between steps.  The per-cell state returned by register_cell is a plain Module whose
   attributes (lr_*, tc_*, batchreduce, kernel kwargs, ...) the forward pass reads LIVE on every call
   (e.g. delay_adj_two_factor_stdp.py:248-272), so a run is described by the batch reduction and the per-element
   trainer values in force at each step; the monitors are untouched by such a re-assignment. *)
Definition tvstep := ((list TT -> TT) * list trainer * stepin)%type.
Fixpoint cell_run_tv (c : cellcfg) (st : cellstate) (is : list tvstep) : list (cellstate * list parts) :=
  match is with
  | [] => []
  | (red, trs, i) :: tl => let r := cell_step_ps red c trs st i in r :: cell_run_tv c (fst r) tl
  end.

End Model.

Arguments SigNone {N}.
