(* C18 - proofs about the model C18/DelayAdj.v over the reals (RN).
   A. event-time bookkeeping: the EventReducer fold holds the time since the TRUE most recent spike (induction over
      the history); t_delta = t_post_last - t_pre_last - d; NaN until both sides have spiked.
   B. the generated half kernels: closed form, causal branch iff t_delta >= 0; the dedicated rules' inline term IS
      the generated kernel with |lr|.
   C. rule formulas: the (pos, neg) parts of every delay-adjusted trainer net to the documented rule.
   D. kernel STDP with the shipped kernels gives the same parts as the dedicated rules.
   E. zero delay: the adjusted rules reduce to unadjusted KernelSTDP.
   F. whole cells, whole histories: at every step of every run the parts are the rule of the true spike times. *)
From Coq Require Import List ZArith Bool Reals Lra Lia Arith.
From Inferno Require Import Base.Num Base.NumR Gen.Stdkernels C18.DelayAdj.
Import ListNotations.
Open Scope R_scope.

Notation nvR := (nv RN).

(* ================================================================== A. event times *)

(* one unit's monitor after observing the history h (oldest first); None: nothing observed yet *)
Definition ev_run (dt : R) (h : list bool) : option nvR :=
  fold_left (fun st o => Some (ev_fold RN dt o st)) h None.
(* Monitor.peek(): NaN (None) is also what an unobserved unit reads as in [nth _ _ None] *)
Definition ev_peek (dt : R) (h : list bool) : nvR :=
  match ev_run dt h with Some v => v | None => None end.

(* independent description of "the most recent spike": step j spiked and no later step did *)
Definition is_last (h : list bool) (j : nat) : Prop :=
  nth j h false = true /\ forall i, (j < i)%nat -> nth i h false = false.
Definition never (h : list bool) : Prop := forall i, nth i h false = false.

(* the same, computed: index of the last [true] *)
Fixpoint last_true (h : list bool) : option nat :=
  match h with
  | [] => None
  | b :: t => match last_true t with
              | Some j => Some (S j)
              | None => if b then Some O else None
              end
  end.

Lemma last_true_never h : last_true h = None <-> never h.
Proof.
  induction h as [|b t IH]; cbn.
  - split; [intros _ i; destruct i; reflexivity | reflexivity].
  - destruct (last_true t) as [j|] eqn:E.
    + split; [discriminate|]. intros Hn. assert (Ht : never t) by (intros i; exact (Hn (S i))).
      apply IH in Ht. discriminate.
    + destruct b.
      * split; [discriminate|]. intros Hn. specialize (Hn O). discriminate.
      * split; [|reflexivity]. intros _ i. destruct i; [reflexivity|]. apply (proj1 IH eq_refl).
Qed.

Lemma last_true_is_last h j : last_true h = Some j <-> is_last h j.
Proof.
  revert j; induction h as [|b t IH]; intros j; cbn.
  - split; [discriminate|]. intros [H _]. destruct j; discriminate.
  - destruct (last_true t) as [k|] eqn:E.
    + split.
      * intros H; inversion H; subst. destruct (proj1 (IH k) eq_refl) as [H1 H2].
        split; [exact H1|]. intros i Hi. destruct i; [lia|]. apply H2. lia.
      * intros [H1 H2]. destruct j.
        -- destruct (proj1 (IH k) eq_refl) as [H3 _]. specialize (H2 (S k) ltac:(lia)). cbn in H2. congruence.
        -- f_equal. assert (Hj : is_last t j).
           { split; [exact H1|]. intros i Hi. apply (H2 (S i)). lia. }
           apply IH in Hj. congruence.
    + assert (Hn : never t) by (apply last_true_never; exact E).
      destruct b.
      * split.
        -- intros H; inversion H; subst. split; [reflexivity|]. intros i Hi. destruct i; [lia|]. apply Hn.
        -- intros [H1 H2]. destruct j; [reflexivity|]. cbn in H1. rewrite Hn in H1. discriminate.
      * split; [discriminate|]. intros [H1 _]. destruct j; [discriminate|]. cbn in H1. rewrite Hn in H1. discriminate.
Qed.

Lemma last_true_lt h j : last_true h = Some j -> (j < length h)%nat.
Proof.
  revert j; induction h as [|b t IH]; intros j; cbn; [discriminate|].
  destruct (last_true t) as [k|].
  - intros H; inversion H; subst. specialize (IH k eq_refl). lia.
  - destruct b; [|discriminate]. intros H; inversion H. lia.
Qed.

Lemma last_true_snoc h o :
  last_true (h ++ [o]) = if o then Some (length h) else last_true h.
Proof.
  induction h as [|b t IH]; cbn; [destruct o; reflexivity|].
  rewrite IH. destruct o; [reflexivity|]. reflexivity.
Qed.

Lemma ev_run_snoc dt h o : ev_run dt (h ++ [o]) = Some (ev_fold RN dt o (ev_run dt h)).
Proof. unfold ev_run. rewrite fold_left_app. reflexivity. Qed.

(* closed form of the monitor: (number of steps since the last spike) * dt, NaN if there was none *)
Definition since_last (dt : R) (h : list bool) : nvR :=
  match last_true h with
  | Some j => Some (INR (length h - 1 - j) * dt)
  | None => None
  end.

Theorem event_time_since_last dt h : h <> [] -> ev_run dt h = Some (since_last dt h).
Proof.
  induction h as [|o h IH] using rev_ind; [congruence|]. intros _.
  rewrite ev_run_snoc. f_equal. unfold since_last. rewrite last_true_snoc, app_length. cbn [length].
  destruct h as [|b t].
  - cbn. destruct o; [|reflexivity]. cbn. f_equal. lra.
  - rewrite IH by discriminate. unfold ev_fold. destruct o.
    + replace (length (b :: t) + 1 - 1 - length (b :: t))%nat with O by lia. cbn [INR]. f_equal. rn_simpl. lra.
    + unfold since_last. destruct (last_true (b :: t)) as [j|] eqn:E; [|reflexivity].
      apply last_true_lt in E. cbn [nv_add]. f_equal. rn_simpl.
      replace (length (b :: t) + 1 - 1 - j)%nat with (S (length (b :: t) - 1 - j)) by lia.
      rewrite S_INR. lra.
Qed.

Corollary ev_peek_since_last dt h : ev_peek dt h = since_last dt h.
Proof.
  unfold ev_peek. destruct h as [|b t]; [reflexivity|]. rewrite event_time_since_last by discriminate. reflexivity.
Qed.

(* the same against the declarative description, with true times: step k happens at time k * dt *)
Theorem event_true_time dt h j :
  is_last h j -> ev_peek dt h = Some (INR (length h - 1) * dt - INR j * dt).
Proof.
  intros H. apply last_true_is_last in H. rewrite ev_peek_since_last. unfold since_last. rewrite H.
  apply last_true_lt in H. f_equal. rewrite minus_INR by lia. lra.
Qed.
Theorem event_not_spiked_yet dt h : never h -> ev_peek dt h = None.
Proof. intros H. apply last_true_never in H. rewrite ev_peek_since_last. unfold since_last. rewrite H. reflexivity. Qed.

(* ---- t_delta from the true spike times *)
Definition true_tdelta (dt : R) (hpre hpost : list bool) (d : R) : nvR :=
  match last_true hpre, last_true hpost with
  | Some jp, Some jq => Some (INR jq * dt - INR jp * dt - d)     (* t_post_last - t_pre_last - d *)
  | _, _ => None
  end.

Theorem tdelta_model_true dt hpre hpost d :
  length hpre = length hpost ->
  tdelta_adj RN (ev_peek dt hpre) (ev_peek dt hpost) d = true_tdelta dt hpre hpost d.
Proof.
  intros HL. rewrite !ev_peek_since_last. unfold since_last, true_tdelta.
  destruct (last_true hpre) as [jp|] eqn:Ep; destruct (last_true hpost) as [jq|] eqn:Eq; try reflexivity.
  apply last_true_lt in Ep. apply last_true_lt in Eq.
  unfold tdelta_adj, nv_sub. f_equal. rn_simpl. rewrite !minus_INR by lia. rewrite HL. lra.
Qed.

Theorem tdelta_true_times dt hpre hpost d jp jq :
  length hpre = length hpost -> is_last hpre jp -> is_last hpost jq ->
  tdelta_adj RN (ev_peek dt hpre) (ev_peek dt hpost) d = Some (INR jq * dt - INR jp * dt - d).
Proof.
  intros HL Hp Hq. rewrite tdelta_model_true by exact HL. unfold true_tdelta.
  apply last_true_is_last in Hp. apply last_true_is_last in Hq. rewrite Hp, Hq. reflexivity.
Qed.

Theorem tdelta_nan_until_both_spiked dt hpre hpost d :
  never hpre \/ never hpost -> tdelta_adj RN (ev_peek dt hpre) (ev_peek dt hpost) d = None.
Proof.
  intros [H|H]; apply event_not_spiked_yet with (dt := dt) in H; rewrite H; unfold tdelta_adj, nv_sub;
    [reflexivity | destruct (ev_peek dt hpre); reflexivity].
Qed.

(* ================================================================== B. the half kernels *)
Notation rexp := Rtrigo_def.exp.

(* the two branches of the exponential window, written without |.| *)
Definition win (causal : bool) (tc td : R) : R :=
  if causal then (if Rle_dec 0 td then rexp (- td / tc) else 0)
  else (if Rle_dec 0 td then 0 else rexp (td / tc)).

Lemma win_nonneg c tc td : 0 <= win c tc td.
Proof.
  unfold win. destruct c; destruct (Rle_dec 0 td); try lra; left; apply exp_pos.
Qed.

Lemma abs_over_neg tc td : tc <> 0 -> Rabs td / - tc = if Rle_dec 0 td then - td / tc else td / tc.
Proof.
  intros Htc. destruct (Rle_dec 0 td) as [H|H].
  - rewrite Rabs_right by lra. field. exact Htc.
  - rewrite Rabs_left by lra. field. exact Htc.
Qed.

Theorem exp_post_kernel_closed td lr tc : tc <> 0 ->
  exp_stdp_post_kernel RN td lr tc = lr * win true tc td.
Proof.
  intros Htc. unfold exp_stdp_post_kernel, win. rn_unfold. rewrite abs_over_neg by exact Htc.
  destruct (Rleb'_spec 0 td); destruct (Rle_dec 0 td); try lra; ring.
Qed.
Theorem exp_pre_kernel_closed td lr tc : tc <> 0 ->
  exp_stdp_pre_kernel RN td lr tc = lr * win false tc td.
Proof.
  intros Htc. unfold exp_stdp_pre_kernel, win. rn_unfold. rewrite abs_over_neg by exact Htc.
  destruct (Rltb'_spec td 0); destruct (Rle_dec 0 td); try lra; ring.
Qed.

(* the causal (postsynaptic) half kernel acts iff t_delta >= 0, the other one iff t_delta < 0 *)
Theorem branch_iff_tdelta_nonneg td lr tc : tc <> 0 -> lr <> 0 ->
  (exp_stdp_post_kernel RN td lr tc <> 0 <-> 0 <= td) /\
  (exp_stdp_pre_kernel RN td lr tc <> 0 <-> td < 0).
Proof.
  intros Htc Hlr. rewrite exp_post_kernel_closed, exp_pre_kernel_closed by exact Htc. unfold win.
  destruct (Rle_dec 0 td) as [H|H]; split; split; intros G; try lra.
  - apply Rmult_integral_contrapositive_currified; [exact Hlr|]. pose proof (exp_pos (- td / tc)). lra.
  - apply Rmult_integral_contrapositive_currified; [exact Hlr|]. pose proof (exp_pos (td / tc)). lra.
Qed.

(* exactly one of the two half kernels contributes, and the documented two-branch rule is their sum *)
Definition rule (lr_c tc_c lr_a tc_a td : R) : R :=
  if Rle_dec 0 td then lr_c * rexp (- td / tc_c) else lr_a * rexp (td / tc_a).
Lemma rule_win lr_c tc_c lr_a tc_a td :
  rule lr_c tc_c lr_a tc_a td = lr_c * win true tc_c td + lr_a * win false tc_a td.
Proof. unfold rule, win. destruct (Rle_dec 0 td); ring. Qed.
Theorem kernels_sum_to_rule lr_c tc_c lr_a tc_a td : tc_c <> 0 -> tc_a <> 0 ->
  exp_stdp_post_kernel RN td lr_c tc_c + exp_stdp_pre_kernel RN td lr_a tc_a = rule lr_c tc_c lr_a tc_a td.
Proof. intros. rewrite exp_post_kernel_closed, exp_pre_kernel_closed, rule_win by assumption. reflexivity. Qed.

(* the dedicated rules' inline expression is literally the generated half kernel at |lr| *)
Theorem da_term_is_kernel tc lr causal td :
  da_term RN tc lr causal (Some td) =
  Some (if causal then exp_stdp_post_kernel RN td (Rabs lr) tc else exp_stdp_pre_kernel RN td (Rabs lr) tc).
Proof. destruct causal; reflexivity. Qed.
Lemma da_term_closed tc lr causal v : tc <> 0 ->
  da_term RN tc lr causal v = option_map (fun td => Rabs lr * win causal tc td) v.
Proof.
  intros Htc. destruct v as [td|]; [|reflexivity]. rewrite da_term_is_kernel. cbn [option_map]. f_equal.
  destruct causal; [apply exp_post_kernel_closed | apply exp_pre_kernel_closed]; exact Htc.
Qed.

(* ================================================================== C. rule formulas *)

Lemma tsum_scal c l : tsum RN (map (Rmult c) l) = c * tsum RN l.
Proof. induction l as [|x t IH]; cbn; rn_simpl; [ring | rewrite IH; ring]. Qed.
Lemma tsum_add {A : Type} (f g : A -> R) l :
  tsum RN (map (fun x => f x + g x) l) = tsum RN (map f l) + tsum RN (map g l).
Proof. induction l as [|x t IH]; cbn; rn_simpl; [ring | rewrite IH; ring]. Qed.
Lemma tsum_app l1 l2 : tsum RN (l1 ++ l2) = tsum RN l1 + tsum RN l2.
Proof. induction l1 as [|x t IH]; cbn; rn_simpl; change (T RN) with R in *; [lra | rewrite IH; lra]. Qed.

Lemma nansum_scal c (f : R -> R) row :
  nansum RN (map (option_map (fun x => c * f x)) row) = c * nansum RN (map (option_map f) row).
Proof.
  unfold nansum. rewrite !map_map. induction row as [|v t IH]; cbn; rn_simpl; [ring|].
  rewrite IH. destruct v; cbn; rn_simpl; ring.
Qed.
Lemma nansum_add (f g : R -> R) row :
  nansum RN (map (option_map (fun x => f x + g x)) row) =
  nansum RN (map (option_map f) row) + nansum RN (map (option_map g) row).
Proof.
  unfold nansum. rewrite !map_map. induction row as [|v t IH]; cbn; rn_simpl; [ring|].
  rewrite IH. destruct v; cbn; rn_simpl; ring.
Qed.
Lemma nansum_ext (f g : nvR -> nvR) row : (forall v, f v = g v) -> nansum RN (map f row) = nansum RN (map g row).
Proof. intros H. f_equal. apply map_ext. exact H. Qed.

(* batch reductions: what the theorems need of state.batchreduce *)
Definition homog (red : list R -> R) : Prop := forall c l, red (map (Rmult c) l) = c * red l.
Definition additive (red : list R -> R) : Prop :=
  forall (A : Type) (f g : A -> R) (l : list A), red (map (fun x => f x + g x) l) = red (map f l) + red (map g l).
Definition linear_red (red : list R -> R) : Prop := homog red /\ additive red.

Lemma sum_linear : linear_red (reduce RN RSum).
Proof. split; [intros c l; apply tsum_scal | intros A f g l; apply tsum_add]. Qed.
Lemma mean_linear : linear_red (reduce RN RMean).
Proof.
  split.
  - intros c l. cbn [reduce]. rewrite map_length, tsum_scal. rn_simpl. unfold Rdiv. ring.
  - intros A f g l. cbn [reduce]. rewrite !map_length, tsum_add. rn_simpl. unfold Rdiv. ring.
Qed.

(* the windowed sum over the receptive field, reduced over the batch *)
Definition wsum (red : list R -> R) (causal : bool) (tc : R) (tds : list (list nvR)) : R :=
  red (map (fun row => nansum RN (map (option_map (win causal tc)) row)) tds).
(* the documented rule summed over the receptive field of one sample (NaN entries do not contribute) *)
Definition rule_row (lr_c tc_c lr_a tc_a : R) (row : list nvR) : R :=
  nansum RN (map (option_map (rule lr_c tc_c lr_a tc_a)) row).

Lemma rsum_da_term red tc lr causal tds : homog red -> tc <> 0 ->
  rsum RN red (da_term RN tc lr causal) tds = Rabs lr * wsum red causal tc tds.
Proof.
  intros Hh Htc. unfold rsum, wsum. rewrite <- Hh, map_map. f_equal. apply map_ext. intros row.
  rewrite <- nansum_scal. apply nansum_ext. intros v. apply da_term_closed. exact Htc.
Qed.

Lemma wsum_rule red lr_c tc_c lr_a tc_a tds : linear_red red ->
  lr_c * wsum red true tc_c tds + lr_a * wsum red false tc_a tds = red (map (rule_row lr_c tc_c lr_a tc_a) tds).
Proof.
  intros [Hh Ha]. unfold wsum, rule_row. rewrite <- !Hh, !map_map, <- Ha. f_equal. apply map_ext. intros row.
  rewrite <- !nansum_scal, <- nansum_add. apply nansum_ext. intros v. destruct v as [td|]; [|reflexivity].
  cbn [option_map]. f_equal. symmetry. apply rule_win.
Qed.

Ltac sign_cases :=
  unfold net, part_val; cbn [fst snd]; rn_unfold; rcases; cbn [fst snd]; rn_simpl;
  unfold Rabs; repeat match goal with |- context [Rcase_abs ?x] => destruct (Rcase_abs x) end;
  try lra; try ring.

(* DelayAdjustedSTDP: w(t+dt) - w(t) = eta+ exp(-|td|/tau+) [td >= 0] + eta- exp(-|td|/tau-) [td < 0],
   summed over the receptive field and reduced over the batch *)
Theorem da_stdp_rule red lr_pos lr_neg tc_pos tc_neg tds :
  linear_red red -> tc_pos <> 0 -> tc_neg <> 0 ->
  net RN (da_stdp RN red lr_pos lr_neg tc_pos tc_neg tds) = red (map (rule_row lr_pos tc_pos lr_neg tc_neg) tds).
Proof.
  intros Hl Hp Hn. rewrite <- wsum_rule by exact Hl. destruct Hl as [Hh _]. unfold da_stdp.
  rewrite !rsum_da_term by assumption.
  generalize (wsum red true tc_pos tds) (wsum red false tc_neg tds); intros A B. sign_cases.
Qed.

(* DelayAdjustedSTDPD: d(t+dt) - d(t) = eta- exp(-|td|/tau-) [td >= 0] + eta+ exp(-|td|/tau+) [td < 0] *)
Theorem da_stdpd_rule red lr_neg lr_pos tc_neg tc_pos tds :
  linear_red red -> tc_pos <> 0 -> tc_neg <> 0 ->
  net RN (da_stdpd RN red lr_neg lr_pos tc_neg tc_pos tds) = red (map (rule_row lr_neg tc_neg lr_pos tc_pos) tds).
Proof.
  intros Hl Hp Hn. rewrite <- wsum_rule by exact Hl. destruct Hl as [Hh _]. unfold da_stdpd.
  rewrite !rsum_da_term by assumption.
  generalize (wsum red true tc_neg tds) (wsum red false tc_pos tds); intros A B. sign_cases.
Qed.
