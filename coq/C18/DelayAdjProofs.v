(* C18 - proofs, part 2, about the model C18/DelayAdj.v over the reals (RN); part 1 (event times, whole-cell
   true-times statement) is C18/EventProofs.v.
   B. the generated half kernels: closed form, causal branch iff t_delta >= 0; the dedicated rules' inline term IS
      the generated kernel with |lr|.
   C. rule formulas: the (pos, neg) parts of every delay-adjusted trainer net to the documented rule.
   D. kernel STDP with the shipped kernels gives the same parts as the dedicated rules (refuted for amax).
   E. zero delay: the adjusted rules reduce to unadjusted KernelSTDP, over whole runs.
   F. no change while a side is silent; the documented rule over whole runs; routing and sign of the parts. *)
From Coq Require Import List ZArith Bool Reals Lra Lia Arith.
From Inferno Require Import Base.Num Base.NumR Gen.Stdkernels C18.DelayAdj C18.EventProofs.
Import ListNotations.
Open Scope R_scope.

(* ================================================================== B. the half kernels *)
Notation rexp := Rtrigo_def.exp.

(* the two branches of the exponential window, written without |.| *)
Definition win (causal : bool) (tc td : R) : R :=
  if causal then (if Rle_dec 0 td then rexp (- td / tc) else 0)
  else (if Rle_dec 0 td then 0 else rexp (td / tc)).

Lemma win_nonneg c tc td : 0 <= win c tc td.
Proof.
  unfold win. destruct c; destruct (Rle_dec 0 td); try lra; left; apply exp_pos.
Qed.

Lemma abs_over_neg tc td : tc <> 0 -> Rabs td / - tc = if Rle_dec 0 td then - td / tc else td / tc.
Proof.
  intros Htc. destruct (Rle_dec 0 td) as [H|H].
  - rewrite Rabs_right by lra. field. exact Htc.
  - rewrite Rabs_left by lra. field. exact Htc.
Qed.

Theorem exp_post_kernel_closed td lr tc : tc <> 0 ->
  exp_stdp_post_kernel RN td lr tc = lr * win true tc td.
Proof.
  intros Htc. unfold exp_stdp_post_kernel, win. rn_unfold. rewrite abs_over_neg by exact Htc.
  destruct (Rleb'_spec 0 td); destruct (Rle_dec 0 td); try lra; ring.
Qed.
Theorem exp_pre_kernel_closed td lr tc : tc <> 0 ->
  exp_stdp_pre_kernel RN td lr tc = lr * win false tc td.
Proof.
  intros Htc. unfold exp_stdp_pre_kernel, win. rn_unfold. rewrite abs_over_neg by exact Htc.
  destruct (Rltb'_spec td 0); destruct (Rle_dec 0 td); try lra; ring.
Qed.

(* the causal (postsynaptic) half kernel acts iff t_delta >= 0, the other one iff t_delta < 0 *)
Theorem branch_iff_tdelta_nonneg td lr tc : tc <> 0 -> lr <> 0 ->
  (exp_stdp_post_kernel RN td lr tc <> 0 <-> 0 <= td) /\
  (exp_stdp_pre_kernel RN td lr tc <> 0 <-> td < 0).
Proof.
  intros Htc Hlr. rewrite exp_post_kernel_closed, exp_pre_kernel_closed by exact Htc. unfold win.
  destruct (Rle_dec 0 td) as [H|H]; split; split; intros G; try lra.
  - apply Rmult_integral_contrapositive_currified; [exact Hlr|]. pose proof (exp_pos (- td / tc)). lra.
  - apply Rmult_integral_contrapositive_currified; [exact Hlr|]. pose proof (exp_pos (td / tc)). lra.
Qed.

(* exactly one of the two half kernels contributes, and the documented two-branch rule is their sum *)
Definition rule (lr_c tc_c lr_a tc_a td : R) : R :=
  if Rle_dec 0 td then lr_c * rexp (- td / tc_c) else lr_a * rexp (td / tc_a).
Lemma rule_win lr_c tc_c lr_a tc_a td :
  rule lr_c tc_c lr_a tc_a td = lr_c * win true tc_c td + lr_a * win false tc_a td.
Proof. unfold rule, win. destruct (Rle_dec 0 td); ring. Qed.
Theorem kernels_sum_to_rule lr_c tc_c lr_a tc_a td : tc_c <> 0 -> tc_a <> 0 ->
  exp_stdp_post_kernel RN td lr_c tc_c + exp_stdp_pre_kernel RN td lr_a tc_a = rule lr_c tc_c lr_a tc_a td.
Proof. intros. rewrite exp_post_kernel_closed, exp_pre_kernel_closed, rule_win by assumption. reflexivity. Qed.

(* the dedicated rules' inline expression is literally the generated half kernel at |lr| *)
Theorem da_term_is_kernel tc lr causal td :
  da_term RN tc lr causal (Some td) =
  Some (if causal then exp_stdp_post_kernel RN td (Rabs lr) tc else exp_stdp_pre_kernel RN td (Rabs lr) tc).
Proof. destruct causal; reflexivity. Qed.
Lemma da_term_closed tc lr causal v : tc <> 0 ->
  da_term RN tc lr causal v = option_map (fun td => Rabs lr * win causal tc td) v.
Proof.
  intros Htc. destruct v as [td|]; [|reflexivity]. rewrite da_term_is_kernel. cbn [option_map]. f_equal.
  destruct causal; [apply exp_post_kernel_closed | apply exp_pre_kernel_closed]; exact Htc.
Qed.

(* ================================================================== C. rule formulas *)

Lemma tsum_scal c l : tsum RN (map (Rmult c) l) = c * tsum RN l.
Proof. induction l as [|x t IH]; cbn; rn_simpl; [ring | rewrite IH; ring]. Qed.
Lemma tsum_add {A : Type} (f g : A -> R) l :
  tsum RN (map (fun x => f x + g x) l) = tsum RN (map f l) + tsum RN (map g l).
Proof. induction l as [|x t IH]; cbn; rn_simpl; [ring | rewrite IH; ring]. Qed.
Lemma tsum_app l1 l2 : tsum RN (l1 ++ l2) = tsum RN l1 + tsum RN l2.
Proof. induction l1 as [|x t IH]; cbn; rn_simpl; change (T RN) with R in *; [lra | rewrite IH; lra]. Qed.

Lemma nansum_scal c (f : R -> R) row :
  nansum RN (map (option_map (fun x => c * f x)) row) = c * nansum RN (map (option_map f) row).
Proof.
  unfold nansum. rewrite !map_map. induction row as [|v t IH]; cbn; rn_simpl; [ring|].
  rewrite IH. destruct v; cbn; rn_simpl; ring.
Qed.
Lemma nansum_add (f g : R -> R) row :
  nansum RN (map (option_map (fun x => f x + g x)) row) =
  nansum RN (map (option_map f) row) + nansum RN (map (option_map g) row).
Proof.
  unfold nansum. rewrite !map_map. induction row as [|v t IH]; cbn; rn_simpl; [ring|].
  rewrite IH. destruct v; cbn; rn_simpl; ring.
Qed.
Lemma nansum_ext (f g : nvR -> nvR) row : (forall v, f v = g v) -> nansum RN (map f row) = nansum RN (map g row).
Proof. intros H. f_equal. apply map_ext. exact H. Qed.

(* batch reductions: what the theorems need of state.batchreduce *)
Definition homog (red : list R -> R) : Prop := forall c l, red (map (Rmult c) l) = c * red l.
Definition additive (red : list R -> R) : Prop :=
  forall (A : Type) (f g : A -> R) (l : list A), red (map (fun x => f x + g x) l) = red (map f l) + red (map g l).
Definition linear_red (red : list R -> R) : Prop := homog red /\ additive red.

Lemma sum_linear : linear_red (reduce RN RSum).
Proof. split; [intros c l; apply tsum_scal | intros A f g l; apply tsum_add]. Qed.
Lemma mean_linear : linear_red (reduce RN RMean).
Proof.
  split.
  - intros c l. cbn [reduce]. rewrite map_length, tsum_scal. rn_simpl. unfold Rdiv. ring.
  - intros A f g l. cbn [reduce]. rewrite !map_length, tsum_add. rn_simpl. unfold Rdiv. ring.
Qed.

(* the windowed sum over the receptive field, reduced over the batch *)
Definition wsum (red : list R -> R) (causal : bool) (tc : R) (tds : list (list nvR)) : R :=
  red (map (fun row => nansum RN (map (option_map (win causal tc)) row)) tds).
(* the documented rule summed over the receptive field of one sample (NaN entries do not contribute) *)
Definition rule_row (lr_c tc_c lr_a tc_a : R) (row : list nvR) : R :=
  nansum RN (map (option_map (rule lr_c tc_c lr_a tc_a)) row).

Lemma rsum_da_term red tc lr causal tds : homog red -> tc <> 0 ->
  rsum RN red (da_term RN tc lr causal) tds = Rabs lr * wsum red causal tc tds.
Proof.
  intros Hh Htc. unfold rsum, wsum. rewrite <- Hh, map_map. f_equal. apply map_ext. intros row.
  rewrite <- nansum_scal. apply nansum_ext. intros v. apply da_term_closed. exact Htc.
Qed.

Lemma wsum_rule red lr_c tc_c lr_a tc_a tds : linear_red red ->
  lr_c * wsum red true tc_c tds + lr_a * wsum red false tc_a tds = red (map (rule_row lr_c tc_c lr_a tc_a) tds).
Proof.
  intros [Hh Ha]. unfold wsum, rule_row. rewrite <- !Hh, !map_map, <- Ha. f_equal. apply map_ext. intros row.
  rewrite <- !nansum_scal, <- nansum_add. apply nansum_ext. intros v. destruct v as [td|]; [|reflexivity].
  cbn [option_map]. f_equal. symmetry. apply rule_win.
Qed.

Ltac sign_cases :=
  unfold net, part_val; cbn [fst snd]; rn_unfold; rcases; cbn [fst snd]; rn_simpl;
  unfold Rabs; repeat match goal with |- context [Rcase_abs ?x] => destruct (Rcase_abs x) end;
  try lra; try ring.

(* DelayAdjustedSTDP: w(t+dt) - w(t) = eta+ exp(-|td|/tau+) [td >= 0] + eta- exp(-|td|/tau-) [td < 0],
   summed over the receptive field and reduced over the batch *)
Theorem da_stdp_rule red lr_pos lr_neg tc_pos tc_neg tds :
  linear_red red -> tc_pos <> 0 -> tc_neg <> 0 ->
  net RN (da_stdp RN red lr_pos lr_neg tc_pos tc_neg tds) = red (map (rule_row lr_pos tc_pos lr_neg tc_neg) tds).
Proof.
  intros Hl Hp Hn. rewrite <- wsum_rule by exact Hl. destruct Hl as [Hh _]. unfold da_stdp.
  rewrite !rsum_da_term by assumption.
  generalize (wsum red true tc_pos tds) (wsum red false tc_neg tds); intros A B. sign_cases.
Qed.

(* DelayAdjustedSTDPD: d(t+dt) - d(t) = eta- exp(-|td|/tau-) [td >= 0] + eta+ exp(-|td|/tau+) [td < 0] *)
Theorem da_stdpd_rule red lr_neg lr_pos tc_neg tc_pos tds :
  linear_red red -> tc_pos <> 0 -> tc_neg <> 0 ->
  net RN (da_stdpd RN red lr_neg lr_pos tc_neg tc_pos tds) = red (map (rule_row lr_neg tc_neg lr_pos tc_pos) tds).
Proof.
  intros Hl Hp Hn. rewrite <- wsum_rule by exact Hl. destruct Hl as [Hh _]. unfold da_stdpd.
  rewrite !rsum_da_term by assumption.
  generalize (wsum red true tc_neg tds) (wsum red false tc_pos tds); intros A B. sign_cases.
Qed.

(* ---- three-factor rules, scalar signal: w(t+dt) - w(t) = gamma M zeta, gamma = |scale| *)
Theorem da_mstdp_scalar_rule red lr_pos lr_neg tc_pos tc_neg signal scale tds :
  linear_red red -> tc_pos <> 0 -> tc_neg <> 0 ->
  net RN (da_mstdp_scalar RN red lr_pos lr_neg tc_pos tc_neg signal scale tds) =
  Rabs scale * signal * red (map (rule_row lr_pos tc_pos lr_neg tc_neg) tds).
Proof.
  intros Hl Hp Hn. rewrite <- wsum_rule by exact Hl. destruct Hl as [Hh _]. unfold da_mstdp_scalar.
  rewrite !rsum_da_term by assumption.
  generalize (wsum red true tc_pos tds) (wsum red false tc_neg tds); intros A B. rn_simpl.
  replace (Rabs scale * signal * (lr_pos * A + lr_neg * B))
    with (Rabs scale * ((lr_pos * signal) * A + (lr_neg * signal) * B)) by ring.
  replace (Rabs lr_pos * A * Rabs (signal * scale)) with (Rabs (lr_pos * signal) * (Rabs scale * A))
    by (rewrite !Rabs_mult; ring).
  replace (Rabs lr_neg * B * Rabs (signal * scale)) with (Rabs (lr_neg * signal) * (Rabs scale * B))
    by (rewrite !Rabs_mult; ring).
  generalize (lr_pos * signal) (lr_neg * signal) (Rabs scale); intros p q s. sign_cases.
Qed.

Theorem da_mstdpd_scalar_rule red lr_neg lr_pos tc_neg tc_pos signal scale tds :
  linear_red red -> tc_pos <> 0 -> tc_neg <> 0 ->
  net RN (da_mstdpd_scalar RN red lr_neg lr_pos tc_neg tc_pos signal scale tds) =
  Rabs scale * signal * red (map (rule_row lr_neg tc_neg lr_pos tc_pos) tds).
Proof.
  intros Hl Hp Hn. rewrite <- wsum_rule by exact Hl. destruct Hl as [Hh _]. unfold da_mstdpd_scalar.
  rewrite !rsum_da_term by assumption.
  generalize (wsum red true tc_neg tds) (wsum red false tc_pos tds); intros A B. rn_simpl.
  replace (Rabs scale * signal * (lr_neg * A + lr_pos * B))
    with (Rabs scale * ((lr_neg * signal) * A + (lr_pos * signal) * B)) by ring.
  replace (Rabs lr_neg * A * Rabs (signal * scale)) with (Rabs (lr_neg * signal) * (Rabs scale * A))
    by (rewrite !Rabs_mult; ring).
  replace (Rabs lr_pos * B * Rabs (signal * scale)) with (Rabs (lr_pos * signal) * (Rabs scale * B))
    by (rewrite !Rabs_mult; ring).
  generalize (lr_neg * signal) (lr_pos * signal) (Rabs scale); intros p q s. sign_cases.
Qed.

(* ---- three-factor rules, per-sample signal, sum over the batch (the trainers' default reduction):
   w(t+dt) - w(t) = sum_b gamma M_b zeta_b *)
Definition sgn_of (s : R) : R := if Rle_dec 0 s then 1 else -1.

Lemma select_split (F : list nvR -> R -> R) tds ss :
  tsum RN (select (map (fun s => geb RN s (zero RN)) ss) (map2 F tds ss)) -
  tsum RN (select (map (fun s => ltb RN s (zero RN)) ss) (map2 F tds ss)) =
  tsum RN (map2 (fun row s => sgn_of s * F row s) tds ss).
Proof.
  revert ss; induction tds as [|row t IH]; intros ss; [destruct ss; cbn; rn_simpl; lra|].
  destruct ss as [|s ss]; [cbn; rn_simpl; lra|]. specialize (IH ss).
  cbn [map map2 select]. unfold sgn_of in *. rn_unfold.
  destruct (Rleb'_spec 0 s); destruct (Rltb'_spec s 0); destruct (Rle_dec 0 s); try lra;
    cbn [tsum]; rn_simpl; change (T RN) with R in *; lra.
Qed.

Lemma tsum_map2_add {A B : Type} (f g : A -> B -> R) la lb :
  tsum RN (map2 (fun a b => f a b + g a b) la lb) = tsum RN (map2 f la lb) + tsum RN (map2 g la lb).
Proof.
  revert lb; induction la as [|a t IH]; intros lb; [cbn; rn_simpl; lra|].
  destruct lb as [|b lb]; [cbn; rn_simpl; lra|]. cbn [map2 tsum]. rn_simpl. rewrite IH. lra.
Qed.
Lemma tsum_map2_scal {A B : Type} c (f : A -> B -> R) la lb :
  tsum RN (map2 (fun a b => c * f a b) la lb) = c * tsum RN (map2 f la lb).
Proof.
  revert lb; induction la as [|a t IH]; intros lb; [cbn; rn_simpl; lra|].
  destruct lb as [|b lb]; [cbn; rn_simpl; lra|]. cbn [map2 tsum]. rn_simpl. rewrite IH. lra.
Qed.
Lemma part_val_red_opt_sum l : part_val RN (red_opt RN (reduce RN RSum) l) = tsum RN l.
Proof. destruct l; reflexivity. Qed.

Definition wrow (causal : bool) (tc : R) (row : list nvR) : R := nansum RN (map (option_map (win causal tc)) row).
Lemma rule_row_split lr_c tc_c lr_a tc_a row :
  rule_row lr_c tc_c lr_a tc_a row = lr_c * wrow true tc_c row + lr_a * wrow false tc_a row.
Proof.
  unfold rule_row, wrow. rewrite <- !nansum_scal, <- nansum_add. apply nansum_ext. intros [td|]; [|reflexivity].
  cbn [option_map]. f_equal. apply rule_win.
Qed.

(* the signed, scaled per-sample sums of one half of the rule *)
Lemma signed_scaled_rows tc lr causal ss scale tds : tc <> 0 ->
  let X := scaled_rows RN (da_term RN tc lr causal) ss scale tds in
  tsum RN (select (map (fun s => geb RN s (zero RN)) ss) X) - tsum RN (select (map (fun s => ltb RN s (zero RN)) ss) X) =
  Rabs lr * tsum RN (map2 (fun row s => Rabs scale * s * wrow causal tc row) tds ss).
Proof.
  intros Htc X. unfold X, scaled_rows. rewrite select_split, <- tsum_map2_scal. f_equal. apply map2_ext. intros row s.
  replace (nansum RN (map (da_term RN tc lr causal) row)) with (Rabs lr * wrow causal tc row).
  2:{ unfold wrow. rewrite <- nansum_scal. apply nansum_ext. intros v. symmetry. apply da_term_closed. exact Htc. }
  rn_simpl. rewrite Rabs_mult. unfold sgn_of, Rabs at 2. destruct (Rle_dec 0 s); destruct (Rcase_abs s); try lra; ring.
Qed.

Ltac tensor_cases :=
  unfold net; cbn [fst snd]; rewrite !part_val_red_opt_sum, !tsum_app; rn_simpl; change (T RN) with R in *;
  repeat match goal with |- context [tsum RN (select ?m ?x)] => generalize dependent (tsum RN (select m x)); intros end;
  unfold Rabs in *; repeat match goal with |- context [Rcase_abs ?x] => destruct (Rcase_abs x) end;
  repeat match goal with H : context [Rcase_abs ?x] |- _ => destruct (Rcase_abs x) end; try lra; try nra.

Theorem da_mstdp_tensor_rule lr_pos lr_neg tc_pos tc_neg ss scale tds :
  tc_pos <> 0 -> tc_neg <> 0 ->
  net RN (da_mstdp_tensor RN (reduce RN RSum) lr_pos lr_neg tc_pos tc_neg ss scale tds) =
  tsum RN (map2 (fun row s => Rabs scale * s * rule_row lr_pos tc_pos lr_neg tc_neg row) tds ss).
Proof.
  intros Hp Hn.
  pose proof (signed_scaled_rows tc_pos lr_pos true ss scale tds Hp) as E1.
  pose proof (signed_scaled_rows tc_neg lr_neg false ss scale tds Hn) as E2. cbv zeta in E1, E2.
  rewrite (map2_ext _ (fun row s => lr_pos * (Rabs scale * s * wrow true tc_pos row)
                                    + lr_neg * (Rabs scale * s * wrow false tc_neg row)))
    by (intros; rewrite rule_row_split; ring).
  rewrite tsum_map2_add, !tsum_map2_scal.
  revert E1 E2.
  generalize (tsum RN (map2 (fun row s => Rabs scale * s * wrow true tc_pos row) tds ss)).
  generalize (tsum RN (map2 (fun row s => Rabs scale * s * wrow false tc_neg row) tds ss)).
  intros B A. unfold da_mstdp_tensor.
  set (X := scaled_rows RN (da_term RN tc_pos lr_pos true) ss scale tds).
  set (Y := scaled_rows RN (da_term RN tc_neg lr_neg false) ss scale tds).
  intros E1 E2. unfold geb in *. rn_simpl.
  destruct (Rleb'_spec 0 lr_pos); destruct (Rleb'_spec 0 lr_neg); tensor_cases.
Qed.

Theorem da_mstdpd_tensor_rule lr_neg lr_pos tc_neg tc_pos ss scale tds :
  tc_pos <> 0 -> tc_neg <> 0 ->
  net RN (da_mstdpd_tensor RN (reduce RN RSum) lr_neg lr_pos tc_neg tc_pos ss scale tds) =
  tsum RN (map2 (fun row s => Rabs scale * s * rule_row lr_neg tc_neg lr_pos tc_pos row) tds ss).
Proof.
  intros Hp Hn.
  pose proof (signed_scaled_rows tc_neg lr_neg true ss scale tds Hn) as E1.
  pose proof (signed_scaled_rows tc_pos lr_pos false ss scale tds Hp) as E2. cbv zeta in E1, E2.
  rewrite (map2_ext _ (fun row s => lr_neg * (Rabs scale * s * wrow true tc_neg row)
                                    + lr_pos * (Rabs scale * s * wrow false tc_pos row)))
    by (intros; rewrite rule_row_split; ring).
  rewrite tsum_map2_add, !tsum_map2_scal.
  revert E1 E2.
  generalize (tsum RN (map2 (fun row s => Rabs scale * s * wrow true tc_neg row) tds ss)).
  generalize (tsum RN (map2 (fun row s => Rabs scale * s * wrow false tc_pos row) tds ss)).
  intros B A. unfold da_mstdpd_tensor.
  set (X := scaled_rows RN (da_term RN tc_neg lr_neg true) ss scale tds).
  set (Y := scaled_rows RN (da_term RN tc_pos lr_pos false) ss scale tds).
  intros E1 E2. unfold geb in *. rn_simpl.
  destruct (Rltb'_spec lr_neg 0); destruct (Rltb'_spec lr_pos 0); tensor_cases.
Qed.

(* ================================================================== D. kernel STDP == dedicated delay-adjusted rules *)
Definition pospart (x : R) : R := if Rle_dec 0 x then x else 0.
Definition negpart (x : R) : R := if Rle_dec 0 x then 0 else x.

Lemma clamp_min_kernel (k : R -> R) lr causal tc v :
  (forall td, k td = lr * win causal tc td) ->
  clamp_min0 RN (option_map k v) = option_map (fun td => pospart lr * win causal tc td) v.
Proof.
  intros Hk. destruct v as [td|]; [|reflexivity]. cbn [option_map clamp_min0]. f_equal. rewrite Hk.
  pose proof (win_nonneg causal tc td) as Hw. unfold tmax, pospart. rn_simpl.
  destruct (Rltb'_spec (lr * win causal tc td) 0); destruct (Rle_dec 0 lr); nra.
Qed.
Lemma clamp_max_kernel (k : R -> R) lr causal tc v :
  (forall td, k td = lr * win causal tc td) ->
  clamp_max0 RN (option_map k v) = option_map (fun td => negpart lr * win causal tc td) v.
Proof.
  intros Hk. destruct v as [td|]; [|reflexivity]. cbn [option_map clamp_max0]. f_equal. rewrite Hk.
  pose proof (win_nonneg causal tc td) as Hw. unfold tmin, negpart. rn_simpl.
  destruct (Rltb'_spec 0 (lr * win causal tc td)); destruct (Rle_dec 0 lr); nra.
Qed.

Lemma rsum_scaled_win red (f : nvR -> nvR) c causal tc tds : homog red ->
  (forall v, f v = option_map (fun td => c * win causal tc td) v) ->
  rsum RN red f tds = c * wsum red causal tc tds.
Proof.
  intros Hh Hf. unfold rsum, wsum. rewrite <- Hh, map_map. f_equal. apply map_ext. intros row.
  rewrite <- nansum_scal. apply nansum_ext. exact Hf.
Qed.

(* the parts of the kernel trainers run with the shipped exponential half kernels *)
Lemma kernel_fwd_exp_parts red lr_c tc_c lr_a tc_a tds : homog red -> tc_c <> 0 -> tc_a <> 0 ->
  let k := kernel_fwd RN red (fun x => exp_stdp_post_kernel RN x lr_c tc_c)
                             (fun x => exp_stdp_pre_kernel RN x lr_a tc_a) tds in
  part_val RN (fst k) = pospart lr_c * wsum red true tc_c tds + pospart lr_a * wsum red false tc_a tds /\
  part_val RN (snd k) = - (negpart lr_c * wsum red true tc_c tds + negpart lr_a * wsum red false tc_a tds).
Proof.
  intros Hh Hc Ha. cbv zeta. unfold kernel_fwd. cbn [fst snd part_val]. rn_simpl.
  rewrite (rsum_scaled_win red _ (pospart lr_c) true tc_c), (rsum_scaled_win red _ (pospart lr_a) false tc_a),
          (rsum_scaled_win red _ (negpart lr_c) true tc_c), (rsum_scaled_win red _ (negpart lr_a) false tc_a);
    try exact Hh; try (split; reflexivity);
    intros v; (apply clamp_min_kernel || apply clamp_max_kernel); intros td;
    (apply exp_post_kernel_closed || apply exp_pre_kernel_closed); assumption.
Qed.

Ltac parts_cases :=
  unfold part_val, pospart, negpart; cbn [fst snd]; rn_unfold; rcases; cbn [fst snd]; rn_simpl;
  unfold Rabs; repeat match goal with |- context [Rcase_abs ?x] => destruct (Rcase_abs x) end;
  repeat match goal with |- context [Rle_dec ?a ?b] => destruct (Rle_dec a b) end;
  try (split; lra); try (split; ring).

(* DelayAdjustedKernelSTDP(exp_stdp_post_kernel(lr_pos, tc_pos), exp_stdp_pre_kernel(lr_neg, tc_neg)) accumulates the
   same potentiating and the same depressing part as DelayAdjustedSTDP(lr_pos, lr_neg, tc_pos, tc_neg) - a part that
   the dedicated rule omits (None) is zero in the kernel rule - for every batch reduction that commutes with scaling
   (sum, mean) *)
Theorem kernel_eq_delayadjusted red lr_pos lr_neg tc_pos tc_neg tds :
  homog red -> tc_pos <> 0 -> tc_neg <> 0 ->
  let k := kernel_fwd RN red (fun x => exp_stdp_post_kernel RN x lr_pos tc_pos)
                             (fun x => exp_stdp_pre_kernel RN x lr_neg tc_neg) tds in
  let d := da_stdp RN red lr_pos lr_neg tc_pos tc_neg tds in
  part_val RN (fst k) = part_val RN (fst d) /\ part_val RN (snd k) = part_val RN (snd d).
Proof.
  intros Hh Hp Hn. cbv zeta.
  destruct (kernel_fwd_exp_parts red lr_pos tc_pos lr_neg tc_neg tds Hh Hp Hn) as [E1 E2]. cbv zeta in E1, E2.
  rewrite E1, E2. unfold da_stdp. rewrite !rsum_da_term by assumption.
  generalize (wsum red true tc_pos tds) (wsum red false tc_neg tds); intros A B. parts_cases.
Qed.

(* the delay-learning pair: DelayAdjustedKernelSTDPD(post = (lr_neg, tc_neg), pre = (lr_pos, tc_pos)) == DelayAdjustedSTDPD *)
Theorem kernel_eq_delayadjusted_delays red lr_neg lr_pos tc_neg tc_pos tds :
  homog red -> tc_pos <> 0 -> tc_neg <> 0 ->
  let k := kernel_fwd RN red (fun x => exp_stdp_post_kernel RN x lr_neg tc_neg)
                             (fun x => exp_stdp_pre_kernel RN x lr_pos tc_pos) tds in
  let d := da_stdpd RN red lr_neg lr_pos tc_neg tc_pos tds in
  part_val RN (fst k) = part_val RN (fst d) /\ part_val RN (snd k) = part_val RN (snd d).
Proof.
  intros Hh Hp Hn. cbv zeta.
  destruct (kernel_fwd_exp_parts red lr_neg tc_neg lr_pos tc_pos tds Hh Hn Hp) as [E1 E2]. cbv zeta in E1, E2.
  rewrite E1, E2. unfold da_stdpd. rewrite !rsum_da_term by assumption.
  generalize (wsum red true tc_neg tds) (wsum red false tc_pos tds); intros A B. parts_cases.
Qed.

(* consequently kernel STDP with the shipped kernels nets to the documented rule as well *)
Corollary kernel_exp_rule red lr_c tc_c lr_a tc_a tds : linear_red red -> tc_c <> 0 -> tc_a <> 0 ->
  net RN (kernel_fwd RN red (fun x => exp_stdp_post_kernel RN x lr_c tc_c)
                            (fun x => exp_stdp_pre_kernel RN x lr_a tc_a) tds) =
  red (map (rule_row lr_c tc_c lr_a tc_a) tds).
Proof.
  intros Hl Hc Ha. rewrite <- wsum_rule by exact Hl. destruct Hl as [Hh _].
  destruct (kernel_fwd_exp_parts red lr_c tc_c lr_a tc_a tds Hh Hc Ha) as [E1 E2]. cbv zeta in E1, E2.
  unfold net. rewrite E1, E2. rn_simpl. unfold pospart, negpart.
  destruct (Rle_dec 0 lr_c); destruct (Rle_dec 0 lr_a); ring.
Qed.

(* The agreement does NOT extend to batch_reduction = torch.amax: the kernel trainers negate AFTER reducing
   (-(amax(clamp_max(.)))), so their depressing part is the batch MINIMUM of the per-sample magnitudes where the
   dedicated rule takes the maximum.  Witness: batch of two, sample 0 has t_delta = -1, sample 1 has not spiked.
   (replayed on the implementation: DelayAdjustedSTDP neg = e^-1, DelayAdjustedKernelSTDP neg = 0) *)
Theorem kernel_eq_amax_refuted :
  exists lr_pos lr_neg tc_pos tc_neg tds,
    part_val RN (snd (kernel_fwd RN (reduce RN RAmax) (fun x => exp_stdp_post_kernel RN x lr_pos tc_pos)
                                 (fun x => exp_stdp_pre_kernel RN x lr_neg tc_neg) tds)) <>
    part_val RN (snd (da_stdp RN (reduce RN RAmax) lr_pos lr_neg tc_pos tc_neg tds)).
Proof.
  exists 1, (-1), 1, 1, [[Some (-1)]; [None]].
  unfold kernel_fwd, da_stdp, rsum, da_term, clamp_max0, exp_stdp_post_kernel, exp_stdp_pre_kernel.
  cbn [map option_map nansum nan0 tsum reduce fold_left fst snd part_val]. rn_unfold.
  assert (A1 : Rabs (-1) = 1) by (rewrite Rabs_left by lra; lra).
  assert (A2 : Rabs 1 = 1) by (apply Rabs_right; lra).
  rewrite ?A1, ?A2. replace (1 / - (1)) with (-1) by field.
  pose proof (exp_pos (-1)) as He. generalize dependent (rexp (-1)). intros e He.
  rcases; cbn [fst snd part_val]; rn_simpl; rcases; lra.
Qed.

(* ---- zero delay *)
Definition zero_delays (i : stepin RN) : Prop := Forall (fun d => d = 0) (si_delay RN i).
Definition parts_eqv (p q : parts RN) : Prop :=
  part_val RN (fst p) = part_val RN (fst q) /\ part_val RN (snd p) = part_val RN (snd q).

Lemma Forall2_map2 {A B C : Type} (P : C -> C -> Prop) (f g : A -> B -> C) la lb :
  (forall a b, In b lb -> P (f a b) (g a b)) -> Forall2 P (map2 f la lb) (map2 g la lb).
Proof.
  revert lb; induction la as [|a t IH]; intros lb H; [constructor|]. destruct lb as [|b lb]; [constructor|].
  cbn. constructor; [apply H; left; reflexivity|]. apply IH. intros; apply H; right; assumption.
Qed.
Lemma map2_ext_r {A B C : Type} (f g : A -> B -> C) la lb :
  (forall a b, In b lb -> f a b = g a b) -> map2 f la lb = map2 g la lb.
Proof.
  revert lb; induction la as [|a t IH]; intros lb H; [reflexivity|]. destruct lb as [|b lb]; [reflexivity|].
  cbn. rewrite H by (left; reflexivity). rewrite IH; [reflexivity|]. intros; apply H; right; assumption.
Qed.

Lemma tds_zero_delay B npre npost syn dt (tr1 tr2 : trainer RN) pre post s :
  (forall a b, tdelta_of RN tr1 a b 0 = tdelta_of RN tr2 a b 0) ->
  tds_of RN (mkCfg RN B npre npost syn dt tr1) pre post s 0 = tds_of RN (mkCfg RN B npre npost syn dt tr2) pre post s 0.
Proof. intros H. unfold tds_of. cbn [c_B c_npre c_npost c_tr]. apply map_ext; intros b. apply map_ext; intros io. apply H. Qed.

(* DelayAdjustedKernelSTDP on a connection whose delays are all zero IS KernelSTDP: same monitors, same parts, at
   every step of every run (any kernels, any reduction) *)
Theorem zero_delay_reduces_to_kernel red B npre npost syn dt kpost kpre st is :
  Forall zero_delays is ->
  cell_run RN red (mkCfg RN B npre npost syn dt (TDaKernel RN kpost kpre)) st is =
  cell_run RN red (mkCfg RN B npre npost syn dt (TKernel RN kpost kpre)) st is.
Proof.
  revert st; induction is as [|i t IH]; intros st Hz; [reflexivity|]. inversion Hz as [|? ? Hi Ht]; subst.
  cbn [cell_run]. 
  assert (E : cell_step RN red (mkCfg RN B npre npost syn dt (TDaKernel RN kpost kpre)) st i =
              cell_step RN red (mkCfg RN B npre npost syn dt (TKernel RN kpost kpre)) st i).
  { unfold cell_step. cbn [c_dt c_syn c_tr]. f_equal. apply map2_ext_r. intros s d Hd.
    unfold zero_delays in Hi. rewrite Forall_forall in Hi. rewrite (Hi d Hd).
    rewrite (tds_zero_delay B npre npost syn dt (TDaKernel RN kpost kpre) (TKernel RN kpost kpre)).
    - destruct (si_sig RN i); reflexivity.
    - intros a b. apply tdelta_adj_zero. }
  rewrite E. f_equal. apply IH. exact Ht.
Qed.

(* ... and the dedicated rule DelayAdjustedSTDP at zero delay is KernelSTDP with the shipped exponential kernels *)
Theorem zero_delay_da_stdp_is_kernel_stdp red B npre npost syn dt lr_pos lr_neg tc_pos tc_neg st is :
  homog red -> tc_pos <> 0 -> tc_neg <> 0 -> Forall zero_delays is ->
  Forall2 (fun r1 r2 => fst r1 = fst r2 /\ Forall2 parts_eqv (snd r1) (snd r2))
    (cell_run RN red (mkCfg RN B npre npost syn dt (TDaStdp RN lr_pos lr_neg tc_pos tc_neg)) st is)
    (cell_run RN red (mkCfg RN B npre npost syn dt
                        (TKernel RN (fun x => exp_stdp_post_kernel RN x lr_pos tc_pos)
                                    (fun x => exp_stdp_pre_kernel RN x lr_neg tc_neg))) st is).
Proof.
  intros Hh Hp Hn. revert st; induction is as [|i t IH]; intros st Hz; [constructor|].
  inversion Hz as [|? ? Hi Ht]; subst. cbn [cell_run]. constructor.
  - split; [reflexivity|]. unfold cell_step. cbn [snd c_dt c_syn c_tr]. apply Forall2_map2. intros s d Hd.
    unfold zero_delays in Hi. rewrite Forall_forall in Hi. rewrite (Hi d Hd).
    rewrite (tds_zero_delay B npre npost syn dt (TDaStdp RN lr_pos lr_neg tc_pos tc_neg)
               (TKernel RN (fun x => exp_stdp_post_kernel RN x lr_pos tc_pos)
                           (fun x => exp_stdp_pre_kernel RN x lr_neg tc_neg)))
      by (intros a b; apply tdelta_adj_zero).
    unfold parts_eqv.
    destruct (kernel_eq_delayadjusted red lr_pos lr_neg tc_pos tc_neg
                (tds_of RN (mkCfg RN B npre npost syn dt
                        (TKernel RN (fun x => exp_stdp_post_kernel RN x lr_pos tc_pos)
                                    (fun x => exp_stdp_pre_kernel RN x lr_neg tc_neg)))
                        (ev_fold_t RN dt (si_pre RN i) (cs_pre RN st)) (ev_fold_t RN dt (si_post RN i) (cs_post RN st)) s 0)
                Hh Hp Hn) as [E1 E2].
    cbv zeta in E1, E2. destruct (si_sig RN i); cbn [fwd]; split; congruence.
  - apply IH. exact Ht.
Qed.

(* ================================================================== no change while either side has not spiked yet *)
Definition zero_red (red : list R -> R) : Prop := forall l, Forall (fun x => x = 0) l -> red l = 0.
Definition all_nan (tds : list (list nvR)) : Prop := Forall (Forall (fun v : nvR => v = None)) tds.

Lemma all_zero_map0 l : Forall (fun x => x = 0) l -> map (Rmult 0) l = l.
Proof. induction 1 as [|x t Hx _ IH]; [reflexivity|]. cbn. rewrite IH, Hx. f_equal. ring. Qed.
Lemma homog_zero_red red : homog red -> zero_red red.
Proof. intros Hh l Hl. rewrite <- (all_zero_map0 l Hl), Hh. ring. Qed.
Lemma amax_zero_red : zero_red (reduce RN RAmax).
Proof.
  intros l Hl. cbn [reduce]. destruct l as [|x t]; [reflexivity|]. inversion Hl as [|? ? Hx Ht]; subst.
  clear Hl. induction t as [|y t IH]; [reflexivity|]. inversion Ht as [|? ? Hy Ht']; subst. cbn [fold_left].
  unfold tmax at 2. rn_simpl. destruct (Rltb'_spec 0 0); [lra|]. apply IH. exact Ht'.
Qed.

Lemma nansum_all_nan (f : nvR -> nvR) row :
  (f None = None) -> Forall (fun v : nvR => v = None) row -> nansum RN (map f row) = 0.
Proof.
  intros Hf Hr. unfold nansum. induction Hr as [|v t Hv _ IH]; [reflexivity|]. cbn. rewrite Hv, Hf. cbn. rn_simpl.
  change (T RN) with R in *. rewrite IH. lra.
Qed.
Lemma rsum_all_nan red f tds : zero_red red -> f None = None -> all_nan tds -> rsum RN red f tds = 0.
Proof.
  intros Hz Hf Ha. unfold rsum. apply Hz. apply Forall_map. eapply Forall_impl; [|exact Ha].
  intros row Hr. apply nansum_all_nan; assumption.
Qed.
Lemma select_all_zero {A : Type} (m : list bool) (l : list R) :
  Forall (fun x => x = 0) l -> Forall (fun x => x = 0) (select m l).
Proof.
  intros Hl. revert m; induction Hl as [|x t Hx _ IH]; intros m; destruct m as [|b m]; cbn; try constructor.
  destruct b; [constructor; [exact Hx | apply IH] | apply IH].
Qed.
Lemma scaled_rows_all_nan f ss scale tds : f None = None -> all_nan tds ->
  Forall (fun x => x = 0) (scaled_rows RN f ss scale tds).
Proof.
  intros Hf Ha. unfold scaled_rows. revert ss; induction Ha as [|row t Hr _ IH]; intros ss; destruct ss; cbn; constructor.
  - rewrite nansum_all_nan by assumption. rn_simpl. ring.
  - apply IH.
Qed.
Lemma part_val_red_opt_zero red l : zero_red red -> Forall (fun x => x = 0) l -> part_val RN (red_opt RN red l) = 0.
Proof. intros Hz Hl. destruct l; [reflexivity|]. cbn. apply Hz. exact Hl. Qed.

(* for EVERY trainer (any kernels that map NaN to NaN are covered by the model's option_map), every sign mode, every
   signal: if no receptive pair of the element has t_delta defined - i.e. for each pair the presynaptic or the
   postsynaptic unit has not spiked yet - both accumulated parts are zero (or absent), so update() changes nothing *)
Theorem no_change_before_both_spiked red tr sg tds :
  zero_red red -> all_nan tds ->
  part_val RN (fst (fwd RN red tr sg tds)) = 0 /\ part_val RN (snd (fwd RN red tr sg tds)) = 0.
Proof.
  intros Hz Ha.
  assert (Hd : forall tc lr cz, rsum RN red (da_term RN tc lr cz) tds = 0)
    by (intros; apply rsum_all_nan; [exact Hz | reflexivity | exact Ha]).
  assert (Hk1 : forall k, rsum RN red (fun v => clamp_min0 RN (option_map k v)) tds = 0)
    by (intros; apply rsum_all_nan; [exact Hz | reflexivity | exact Ha]).
  assert (Hk2 : forall k, rsum RN red (fun v => clamp_max0 RN (option_map k v)) tds = 0)
    by (intros; apply rsum_all_nan; [exact Hz | reflexivity | exact Ha]).
  assert (Hs : forall tc lr cz ss sc m, Forall (fun x => x = 0) (select m (scaled_rows RN (da_term RN tc lr cz) ss sc tds)))
    by (intros; apply (@select_all_zero unit); apply scaled_rows_all_nan; [reflexivity | exact Ha]).
  assert (Hs2 : forall l1 l2, Forall (fun x => x = 0) l1 -> Forall (fun x => x = 0) l2 ->
                              part_val RN (red_opt RN red (l1 ++ l2)) = 0)
    by (intros; apply part_val_red_opt_zero; [exact Hz | apply Forall_app; split; assumption]).
  destruct tr; destruct sg; cbn [fwd fst snd part_val]; try (split; reflexivity);
    unfold da_stdp, da_stdpd, kernel_fwd, da_mstdp_scalar, da_mstdpd_scalar, da_mstdp_tensor, da_mstdpd_tensor;
    rewrite ?Hd, ?Hk1, ?Hk2;
    repeat match goal with |- context [if ?b then _ else _] => destruct b end;
    cbn [fst snd part_val]; rn_simpl; rewrite ?Hs2 by apply Hs; split; try reflexivity; try ring.
Qed.

(* with the true spike times: a pair whose presynaptic or postsynaptic unit never spiked has no t_delta *)
Lemma true_tdelta_never dt hpre hpost d : never hpre \/ never hpost -> true_tdelta dt hpre hpost d = None.
Proof.
  intros [H|H]; apply last_true_never in H; unfold true_tdelta; rewrite H; [reflexivity|].
  destruct (last_true hpre); reflexivity.
Qed.

(* ================================================================== the documented rule, all dedicated trainers at once *)
(* docstring formulas: net change of one parameter element, from its t_delta values [batch][receptive] *)
Definition documented_net (red : list R -> R) (tr : trainer RN) (sg : signal RN) (tds : list (list nvR)) : option R :=
  match tr, sg with
  | TDaStdp _ lp ln tp tn, _ => Some (red (map (rule_row lp tp ln tn) tds))
  | TDaStdpD _ ln lp tn tp, _ => Some (red (map (rule_row ln tn lp tp) tds))
  | TDaMstdp _ lp ln tp tn, SigScalar _ s sc => Some (Rabs sc * s * red (map (rule_row lp tp ln tn) tds))
  | TDaMstdpD _ ln lp tn tp, SigScalar _ s sc => Some (Rabs sc * s * red (map (rule_row ln tn lp tp) tds))
  | TDaMstdp _ lp ln tp tn, SigTensor _ ss sc =>
      Some (tsum RN (map2 (fun row s => Rabs sc * s * rule_row lp tp ln tn row) tds ss))
  | TDaMstdpD _ ln lp tn tp, SigTensor _ ss sc =>
      Some (tsum RN (map2 (fun row s => Rabs sc * s * rule_row ln tn lp tp row) tds ss))
  | _, _ => None                 (* kernel trainers: [kernel_exp_rule] *)
  end.
Definition tcs_nonzero (tr : trainer RN) : Prop :=
  match tr with
  | TDaStdp _ _ _ a b | TDaStdpD _ _ _ a b | TDaMstdp _ _ _ a b | TDaMstdpD _ _ _ a b => a <> 0 /\ b <> 0
  | _ => True
  end.
(* sum and mean for the batch-reduced forms; the per-sample signal form is stated for the sum (the trainers' default) *)
Definition red_ok (red : list R -> R) (sg : signal RN) : Prop :=
  match sg with SigTensor _ _ _ => red = reduce RN RSum | _ => linear_red red end.

Theorem rule_formula red tr sg tds v :
  documented_net red tr sg tds = Some v -> tcs_nonzero tr -> red_ok red sg ->
  net RN (fwd RN red tr sg tds) = v.
Proof.
  intros Hv Ht Hr.
  destruct tr as [lp ln tp tn|ln lp tn tp|kp kq|kp kq|lp ln tp tn|ln lp tn tp]; destruct sg as [|s sc|ss sc];
    cbn [documented_net] in Hv; inversion Hv; subst; clear Hv; cbn [tcs_nonzero] in Ht; cbn [red_ok] in Hr;
    try destruct Ht as [Ha Hb]; cbn [fwd].
  - apply da_stdp_rule; assumption.
  - apply da_stdp_rule; assumption.
  - subst red. apply da_stdp_rule; [apply sum_linear | assumption | assumption].
  - apply da_stdpd_rule; assumption.
  - apply da_stdpd_rule; assumption.
  - subst red. apply da_stdpd_rule; [apply sum_linear | assumption | assumption].
  - apply da_mstdp_scalar_rule; assumption.
  - subst red. apply da_mstdp_tensor_rule; assumption.
  - apply da_mstdpd_scalar_rule; assumption.
  - subst red. apply da_mstdpd_tensor_rule; assumption.
Qed.

Lemma map_map2 {A B C D : Type} (g : C -> D) (f : A -> B -> C) la lb :
  map g (map2 f la lb) = map2 (fun a b => g (f a b)) la lb.
Proof.
  revert lb; induction la as [|a t IH]; intros lb; [reflexivity|]. destruct lb; [reflexivity|]. cbn. rewrite IH. reflexivity.
Qed.

(* FLAGSHIP (composition): at every step of every run of a cell trained by a dedicated delay-adjusted rule, the net
   change pos - neg of every parameter element is the documented function of t_delta = t_post_last - t_pre_last - d(t)
   evaluated at the true most recent spike times of its receptive pairs *)
Theorem run_rule_formula red c n m prefix i :
  shaped n m (prefix ++ [i]) -> tcs_nonzero (c_tr RN c) -> red_ok red (si_sig RN i) ->
  (forall tds, documented_net red (c_tr RN c) (si_sig RN i) tds <> None) ->
  map (fun p => Some (net RN p)) (snd (cell_step RN red c (state_after red c (mkCS RN None None) prefix) i)) =
  map2 (fun s d => documented_net red (c_tr RN c) (si_sig RN i) (spec_tds c (prefix ++ [i]) s d))
       (c_syn RN c) (si_delay RN i).
Proof.
  intros Hs Ht Hr Hd. rewrite (cell_step_true_times red c n m prefix i Hs), map_map2. apply map2_ext. intros s d.
  destruct (documented_net red (c_tr RN c) (si_sig RN i) (spec_tds c (prefix ++ [i]) s d)) as [v|] eqn:E;
    [|exfalso; exact (Hd _ E)].
  f_equal. apply rule_formula; assumption.
Qed.

(* the same for the kernel trainers run with the generated exponential half kernels *)
Theorem run_kernel_exp_rule red c n m prefix i lr_c tc_c lr_a tc_a adjusted :
  c_tr RN c = (if adjusted : bool then TDaKernel RN else TKernel RN)
                (fun x => exp_stdp_post_kernel RN x lr_c tc_c) (fun x => exp_stdp_pre_kernel RN x lr_a tc_a) ->
  shaped n m (prefix ++ [i]) -> linear_red red -> tc_c <> 0 -> tc_a <> 0 ->
  map (net RN) (snd (cell_step RN red c (state_after red c (mkCS RN None None) prefix) i)) =
  map2 (fun s d => red (map (rule_row lr_c tc_c lr_a tc_a) (spec_tds c (prefix ++ [i]) s d)))
       (c_syn RN c) (si_delay RN i).
Proof.
  intros Hc Hs Hl Ha Hb. rewrite (cell_step_true_times red c n m prefix i Hs), map_map2. apply map2_ext. intros s d.
  rewrite Hc. destruct adjusted; destruct (si_sig RN i); cbn [fwd]; apply kernel_exp_rule; assumption.
Qed.

(* and no change while silent, at the level of the run: if for every sample and every receptive pair of the element
   the presynaptic or the postsynaptic unit has not spiked so far, both parts are zero *)
Theorem run_no_change_before_both_spiked red c n m prefix i s d :
  shaped n m (prefix ++ [i]) -> zero_red red ->
  (forall b io, In io s ->
     never (unit_hist (b * c_npre RN c + fst io) (map (si_pre RN) (prefix ++ [i]))) \/
     never (unit_hist (b * c_npost RN c + snd io) (map (si_post RN) (prefix ++ [i])))) ->
  let p := fwd RN red (c_tr RN c) (si_sig RN i) (spec_tds c (prefix ++ [i]) s d) in
  part_val RN (fst p) = 0 /\ part_val RN (snd p) = 0.
Proof.
  intros Hs Hz Hn. cbv zeta. apply no_change_before_both_spiked; [exact Hz|].
  unfold all_nan, spec_tds. apply Forall_map. apply Forall_forall. intros b _. apply Forall_map. apply Forall_forall.
  intros io Hio. unfold spec_tdelta. destruct (c_tr RN c); apply true_tdelta_never; apply Hn; exact Hio.
Qed.

(* ================================================================== parts: routing by sign, non-negativity *)
(* which half goes to which part: the potentiating part collects the halves with a non-negative learning rate *)
Theorem da_stdp_parts red lr_pos lr_neg tc_pos tc_neg tds : homog red -> tc_pos <> 0 -> tc_neg <> 0 ->
  let d := da_stdp RN red lr_pos lr_neg tc_pos tc_neg tds in
  part_val RN (fst d) = pospart lr_pos * wsum red true tc_pos tds + pospart lr_neg * wsum red false tc_neg tds /\
  part_val RN (snd d) = - (negpart lr_pos * wsum red true tc_pos tds + negpart lr_neg * wsum red false tc_neg tds).
Proof.
  intros Hh Hp Hn. cbv zeta.
  destruct (kernel_eq_delayadjusted red lr_pos lr_neg tc_pos tc_neg tds Hh Hp Hn) as [E1 E2].
  destruct (kernel_fwd_exp_parts red lr_pos tc_pos lr_neg tc_neg tds Hh Hp Hn) as [F1 F2].
  cbv zeta in *. rewrite <- E1, <- E2. split; assumption.
Qed.
Theorem da_stdpd_parts red lr_neg lr_pos tc_neg tc_pos tds : homog red -> tc_pos <> 0 -> tc_neg <> 0 ->
  let d := da_stdpd RN red lr_neg lr_pos tc_neg tc_pos tds in
  part_val RN (fst d) = pospart lr_neg * wsum red true tc_neg tds + pospart lr_pos * wsum red false tc_pos tds /\
  part_val RN (snd d) = - (negpart lr_neg * wsum red true tc_neg tds + negpart lr_pos * wsum red false tc_pos tds).
Proof.
  intros Hh Hp Hn. cbv zeta.
  destruct (kernel_eq_delayadjusted_delays red lr_neg lr_pos tc_neg tc_pos tds Hh Hp Hn) as [E1 E2].
  destruct (kernel_fwd_exp_parts red lr_neg tc_neg lr_pos tc_pos tds Hh Hn Hp) as [F1 F2].
  cbv zeta in *. rewrite <- E1, <- E2. split; assumption.
Qed.

(* both parts are non-negative for every trainer, every kernel, every signal: needs only that the batch reduction keeps
   signs (sum, mean, amax all do) *)
Definition sign_red (red : list R -> R) : Prop :=
  (forall l, Forall (fun x => 0 <= x) l -> 0 <= red l) /\ (forall l, Forall (fun x => x <= 0) l -> red l <= 0).

Lemma tsum_nonneg l : Forall (fun x => 0 <= x) l -> 0 <= tsum RN l.
Proof. induction 1 as [|x t Hx _ IH]; cbn; rn_simpl; change (T RN) with R in *; lra. Qed.
Lemma tsum_nonpos l : Forall (fun x => x <= 0) l -> tsum RN l <= 0.
Proof. induction 1 as [|x t Hx _ IH]; cbn; rn_simpl; change (T RN) with R in *; lra. Qed.
Lemma sum_sign_red : sign_red (reduce RN RSum).
Proof. split; [apply tsum_nonneg | apply tsum_nonpos]. Qed.
Lemma mean_sign_red : sign_red (reduce RN RMean).
Proof.
  split; intros l Hl; cbn [reduce]; rn_simpl; rewrite <- INR_IZR_INZ.
  - pose proof (tsum_nonneg l Hl). pose proof (pos_INR (length l)). unfold Rdiv.
    destruct (Req_dec (INR (length l)) 0) as [E|E]; [rewrite E, Rinv_0; lra|].
    apply Rmult_le_pos; [assumption|]. left. apply Rinv_0_lt_compat. lra.
  - pose proof (tsum_nonpos l Hl). pose proof (pos_INR (length l)). unfold Rdiv.
    destruct (Req_dec (INR (length l)) 0) as [E|E]; [rewrite E, Rinv_0; lra|].
    assert (0 < / INR (length l)) by (apply Rinv_0_lt_compat; lra). nra.
Qed.
Lemma amax_sign_red : sign_red (reduce RN RAmax).
Proof.
  assert (G : forall (P : R -> Prop), (forall a b, P a -> P b -> P (tmax RN a b)) ->
              forall t x, P x -> Forall P t -> P (fold_left (tmax RN) t x)).
  { intros P HP t. induction t as [|y t IH]; intros x Hx Ht; [exact Hx|]. inversion Ht; subst. cbn. apply IH; [apply HP|]; assumption. }
  split; intros l Hl; cbn [reduce]; (destruct l as [|x t]; [rn_simpl; lra|]); inversion Hl; subst.
  - apply (G (fun x => 0 <= x)); try assumption. intros a b Ha Hb. unfold tmax. rn_simpl. destruct (Rltb' a b); assumption.
  - apply (G (fun x => x <= 0)); try assumption. intros a b Ha Hb. unfold tmax. rn_simpl. destruct (Rltb' a b); assumption.
Qed.

Lemma nansum_nonneg (f : nvR -> nvR) row : (forall v x, f v = Some x -> 0 <= x) -> 0 <= nansum RN (map f row).
Proof.
  intros Hf. unfold nansum. apply tsum_nonneg. rewrite map_map. apply Forall_map. apply Forall_forall. intros v _.
  destruct (f v) as [x|] eqn:E; cbn; rn_simpl; [eapply Hf; exact E | lra].
Qed.
Lemma nansum_nonpos (f : nvR -> nvR) row : (forall v x, f v = Some x -> x <= 0) -> nansum RN (map f row) <= 0.
Proof.
  intros Hf. unfold nansum. apply tsum_nonpos. rewrite map_map. apply Forall_map. apply Forall_forall. intros v _.
  destruct (f v) as [x|] eqn:E; cbn; rn_simpl; [eapply Hf; exact E | lra].
Qed.
Lemma da_term_nonneg tc lr cz v x : da_term RN tc lr cz v = Some x -> 0 <= x.
Proof.
  destruct v as [td|]; [|discriminate]. cbn. intros H; inversion H; subst; clear H. rn_unfold.
  pose proof (exp_pos (Rabs td / - tc)). pose proof (Rabs_pos lr).
  destruct cz; [destruct (Rleb' 0 td) | destruct (Rltb' td 0)]; nra.
Qed.
Lemma rsum_nonneg red f tds : sign_red red -> (forall v x, f v = Some x -> 0 <= x) -> 0 <= rsum RN red f tds.
Proof.
  intros [Hs _] Hf. unfold rsum. apply Hs. apply Forall_map. apply Forall_forall. intros row _. apply nansum_nonneg. exact Hf.
Qed.
Lemma rsum_nonpos red f tds : sign_red red -> (forall v x, f v = Some x -> x <= 0) -> rsum RN red f tds <= 0.
Proof.
  intros [_ Hs] Hf. unfold rsum. apply Hs. apply Forall_map. apply Forall_forall. intros row _. apply nansum_nonpos. exact Hf.
Qed.
Lemma select_nonneg (m : list bool) (l : list R) : Forall (fun x => 0 <= x) l -> Forall (fun x => 0 <= x) (select m l).
Proof.
  intros Hl. revert m; induction Hl as [|x t Hx _ IH]; intros m; destruct m as [|b m]; cbn; try constructor.
  destruct b; [constructor; [exact Hx | apply IH] | apply IH].
Qed.
Lemma scaled_rows_nonneg f ss scale tds : (forall v x, f v = Some x -> 0 <= x) ->
  Forall (fun x => 0 <= x) (scaled_rows RN f ss scale tds).
Proof.
  intros Hf. unfold scaled_rows. revert ss; induction tds as [|row t IH]; intros ss; destruct ss; cbn; constructor; [|apply IH].
  rn_simpl. apply Rmult_le_pos; [apply nansum_nonneg; exact Hf | apply Rabs_pos].
Qed.
Lemma part_val_red_opt_nonneg red l : sign_red red -> Forall (fun x => 0 <= x) l -> 0 <= part_val RN (red_opt RN red l).
Proof. intros [Hs _] Hl. destruct l; [cbn; rn_simpl; lra|]. cbn. apply Hs. exact Hl. Qed.

Theorem parts_nonneg red tr sg tds : sign_red red ->
  0 <= part_val RN (fst (fwd RN red tr sg tds)) /\ 0 <= part_val RN (snd (fwd RN red tr sg tds)).
Proof.
  intros Hs.
  assert (Hd : forall tc lr cz, 0 <= rsum RN red (da_term RN tc lr cz) tds)
    by (intros; apply rsum_nonneg; [exact Hs | apply da_term_nonneg]).
  assert (Hk1 : forall k, 0 <= rsum RN red (fun v => clamp_min0 RN (option_map k v)) tds).
  { intros k. apply rsum_nonneg; [exact Hs|]. intros [td|] x; [|discriminate]. cbn. intros H; inversion H; subst.
    unfold tmax. rn_simpl. destruct (Rltb'_spec (k td) 0); lra. }
  assert (Hk2 : forall k, rsum RN red (fun v => clamp_max0 RN (option_map k v)) tds <= 0).
  { intros k. apply rsum_nonpos; [exact Hs|]. intros [td|] x; [|discriminate]. cbn. intros H; inversion H; subst.
    unfold tmin. rn_simpl. destruct (Rltb'_spec 0 (k td)); lra. }
  assert (Hsel : forall tc lr cz ss sc m l2, Forall (fun x => 0 <= x) l2 ->
            0 <= part_val RN (red_opt RN red (select m (scaled_rows RN (da_term RN tc lr cz) ss sc tds) ++ l2))).
  { intros. apply part_val_red_opt_nonneg; [exact Hs|]. apply Forall_app. split; [|assumption].
    apply select_nonneg. apply scaled_rows_nonneg. apply da_term_nonneg. }
  assert (Hsel0 : forall tc lr cz ss sc m, Forall (fun x => 0 <= x) (select m (scaled_rows RN (da_term RN tc lr cz) ss sc tds)))
    by (intros; apply select_nonneg; apply scaled_rows_nonneg; apply da_term_nonneg).
  pose proof Rabs_pos as Hab.
  destruct tr; destruct sg; cbn [fwd fst snd part_val]; rn_simpl; try (split; lra);
    unfold da_stdp, da_stdpd, kernel_fwd, da_mstdp_scalar, da_mstdpd_scalar, da_mstdp_tensor, da_mstdpd_tensor;
    repeat match goal with |- context [if ?b then _ else _] => destruct b end;
    cbn [fst snd part_val]; rn_simpl; split;
    repeat match goal with
           | |- 0 <= part_val RN (red_opt RN red (select _ _ ++ _)) => apply Hsel; apply Hsel0
           | |- 0 <= _ + _ => apply Rplus_le_le_0_compat
           | |- 0 <= _ * _ => apply Rmult_le_pos
           | |- 0 <= rsum _ _ (da_term _ _ _ _) _ => apply Hd
           | |- 0 <= rsum _ _ (fun v => clamp_min0 _ _) _ => apply Hk1
           | |- 0 <= Rabs _ => apply Rabs_pos
           | |- 0 <= 0 => lra
           end;
    try (match goal with |- 0 <= - (rsum _ _ (fun v => clamp_max0 _ (option_map ?a v)) _ + rsum _ _ (fun w => clamp_max0 _ (option_map ?b w)) _) =>
           pose proof (Hk2 a); pose proof (Hk2 b); lra end).
Qed.

(* ================================================================== kernel trainers with ARBITRARY half kernels *)
(* KernelSTDP's documented rule: the clamped +/- split loses nothing - for any two half kernels the parts net to
   K_post(t_delta) + K_pre(t_delta), summed over the receptive field (NaN entries contribute nothing) and reduced *)
Theorem kernel_fwd_net red (kpost kpre : R -> R) tds : linear_red red ->
  net RN (kernel_fwd RN red kpost kpre tds) =
  red (map (fun row => nansum RN (map (option_map (fun td => kpost td + kpre td)) row)) tds).
Proof.
  intros [Hh Ha]. unfold net, kernel_fwd. cbn [fst snd part_val]. unfold rsum. rn_simpl.
  rewrite <- !Ha. unfold Rminus. rewrite Ropp_involutive, <- Ha. f_equal. apply map_ext. intros row.
  unfold nansum. induction row as [|v t IH]; [cbn; rn_simpl; lra|].
  cbn [map tsum] in *. rn_simpl. change (T RN) with R in *.
  destruct v as [td|]; cbn [option_map clamp_min0 clamp_max0 nan0]; rn_simpl; [|lra].
  unfold tmax, tmin. rn_simpl. destruct (Rltb'_spec (kpost td) 0); destruct (Rltb'_spec 0 (kpost td));
    destruct (Rltb'_spec (kpre td) 0); destruct (Rltb'_spec 0 (kpre td)); lra.
Qed.
