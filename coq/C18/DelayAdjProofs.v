(* C18 - proofs about the model C18/DelayAdj.v over the reals (RN).
   A. event-time bookkeeping: the EventReducer fold holds the time since the TRUE most recent spike (induction over
      the history); t_delta = t_post_last - t_pre_last - d; NaN until both sides have spiked.
   B. the generated half kernels: closed form, causal branch iff t_delta >= 0; the dedicated rules' inline term IS
      the generated kernel with |lr|.
   C. rule formulas: the (pos, neg) parts of every delay-adjusted trainer net to the documented rule.
   D. kernel STDP with the shipped kernels gives the same parts as the dedicated rules.
   E. zero delay: the adjusted rules reduce to unadjusted KernelSTDP.
   F. whole cells, whole histories: at every step of every run the parts are the rule of the true spike times. *)
From Coq Require Import List ZArith Bool Reals Lra Lia Arith.
From Inferno Require Import Base.Num Base.NumR Gen.Stdkernels C18.DelayAdj.
Import ListNotations.
Open Scope R_scope.

Notation nvR := (nv RN).

(* ================================================================== A. event times *)

(* one unit's monitor after observing the history h (oldest first); None: nothing observed yet *)
Definition ev_run (dt : R) (h : list bool) : option nvR :=
  fold_left (fun st o => Some (ev_fold RN dt o st)) h None.
(* Monitor.peek(): NaN (None) is also what an unobserved unit reads as in [nth _ _ None] *)
Definition ev_peek (dt : R) (h : list bool) : nvR :=
  match ev_run dt h with Some v => v | None => None end.

(* independent description of "the most recent spike": step j spiked and no later step did *)
Definition is_last (h : list bool) (j : nat) : Prop :=
  nth j h false = true /\ forall i, (j < i)%nat -> nth i h false = false.
Definition never (h : list bool) : Prop := forall i, nth i h false = false.

(* the same, computed: index of the last [true] *)
Fixpoint last_true (h : list bool) : option nat :=
  match h with
  | [] => None
  | b :: t => match last_true t with
              | Some j => Some (S j)
              | None => if b then Some O else None
              end
  end.

Lemma last_true_never h : last_true h = None <-> never h.
Proof.
  induction h as [|b t IH]; cbn.
  - split; [intros _ i; destruct i; reflexivity | reflexivity].
  - destruct (last_true t) as [j|] eqn:E.
    + split; [discriminate|]. intros Hn. assert (Ht : never t) by (intros i; exact (Hn (S i))).
      apply IH in Ht. discriminate.
    + destruct b.
      * split; [discriminate|]. intros Hn. specialize (Hn O). discriminate.
      * split; [|reflexivity]. intros _ i. destruct i; [reflexivity|]. apply (proj1 IH eq_refl).
Qed.

Lemma last_true_is_last h j : last_true h = Some j <-> is_last h j.
Proof.
  revert j; induction h as [|b t IH]; intros j; cbn.
  - split; [discriminate|]. intros [H _]. destruct j; discriminate.
  - destruct (last_true t) as [k|] eqn:E.
    + split.
      * intros H; inversion H; subst. destruct (proj1 (IH k) eq_refl) as [H1 H2].
        split; [exact H1|]. intros i Hi. destruct i; [lia|]. apply H2. lia.
      * intros [H1 H2]. destruct j.
        -- destruct (proj1 (IH k) eq_refl) as [H3 _]. specialize (H2 (S k) ltac:(lia)). cbn in H2. congruence.
        -- f_equal. assert (Hj : is_last t j).
           { split; [exact H1|]. intros i Hi. apply (H2 (S i)). lia. }
           apply IH in Hj. congruence.
    + assert (Hn : never t) by (apply last_true_never; exact E).
      destruct b.
      * split.
        -- intros H; inversion H; subst. split; [reflexivity|]. intros i Hi. destruct i; [lia|]. apply Hn.
        -- intros [H1 H2]. destruct j; [reflexivity|]. cbn in H1. rewrite Hn in H1. discriminate.
      * split; [discriminate|]. intros [H1 _]. destruct j; [discriminate|]. cbn in H1. rewrite Hn in H1. discriminate.
Qed.

Lemma last_true_lt h j : last_true h = Some j -> (j < length h)%nat.
Proof.
  revert j; induction h as [|b t IH]; intros j; cbn; [discriminate|].
  destruct (last_true t) as [k|].
  - intros H; inversion H; subst. specialize (IH k eq_refl). lia.
  - destruct b; [|discriminate]. intros H; inversion H. lia.
Qed.

Lemma last_true_snoc h o :
  last_true (h ++ [o]) = if o then Some (length h) else last_true h.
Proof.
  induction h as [|b t IH]; cbn; [destruct o; reflexivity|].
  rewrite IH. destruct o; [reflexivity|]. reflexivity.
Qed.

Lemma ev_run_snoc dt h o : ev_run dt (h ++ [o]) = Some (ev_fold RN dt o (ev_run dt h)).
Proof. unfold ev_run. rewrite fold_left_app. reflexivity. Qed.

(* closed form of the monitor: (number of steps since the last spike) * dt, NaN if there was none *)
Definition since_last (dt : R) (h : list bool) : nvR :=
  match last_true h with
  | Some j => Some (INR (length h - 1 - j) * dt)
  | None => None
  end.

Theorem event_time_since_last dt h : h <> [] -> ev_run dt h = Some (since_last dt h).
Proof.
  induction h as [|o h IH] using rev_ind; [congruence|]. intros _.
  rewrite ev_run_snoc. f_equal. unfold since_last. rewrite last_true_snoc, app_length. cbn [length].
  destruct h as [|b t].
  - cbn. destruct o; [|reflexivity]. cbn. f_equal. lra.
  - rewrite IH by discriminate. unfold ev_fold. destruct o.
    + replace (length (b :: t) + 1 - 1 - length (b :: t))%nat with O by lia. cbn [INR]. f_equal. rn_simpl. lra.
    + unfold since_last. destruct (last_true (b :: t)) as [j|] eqn:E; [|reflexivity].
      apply last_true_lt in E. cbn [nv_add]. f_equal. rn_simpl.
      replace (length (b :: t) + 1 - 1 - j)%nat with (S (length (b :: t) - 1 - j)) by lia.
      rewrite S_INR. lra.
Qed.

Corollary ev_peek_since_last dt h : ev_peek dt h = since_last dt h.
Proof.
  unfold ev_peek. destruct h as [|b t]; [reflexivity|]. rewrite event_time_since_last by discriminate. reflexivity.
Qed.

(* the same against the declarative description, with true times: step k happens at time k * dt *)
Theorem event_true_time dt h j :
  is_last h j -> ev_peek dt h = Some (INR (length h - 1) * dt - INR j * dt).
Proof.
  intros H. apply last_true_is_last in H. rewrite ev_peek_since_last. unfold since_last. rewrite H.
  apply last_true_lt in H. f_equal. rewrite minus_INR by lia. lra.
Qed.
Theorem event_not_spiked_yet dt h : never h -> ev_peek dt h = None.
Proof. intros H. apply last_true_never in H. rewrite ev_peek_since_last. unfold since_last. rewrite H. reflexivity. Qed.

(* ---- t_delta from the true spike times *)
Definition true_tdelta (dt : R) (hpre hpost : list bool) (d : R) : nvR :=
  match last_true hpre, last_true hpost with
  | Some jp, Some jq => Some (INR jq * dt - INR jp * dt - d)     (* t_post_last - t_pre_last - d *)
  | _, _ => None
  end.

Theorem tdelta_model_true dt hpre hpost d :
  length hpre = length hpost ->
  tdelta_adj RN (ev_peek dt hpre) (ev_peek dt hpost) d = true_tdelta dt hpre hpost d.
Proof.
  intros HL. rewrite !ev_peek_since_last. unfold since_last, true_tdelta.
  destruct (last_true hpre) as [jp|] eqn:Ep; destruct (last_true hpost) as [jq|] eqn:Eq; try reflexivity.
  apply last_true_lt in Ep. apply last_true_lt in Eq.
  unfold tdelta_adj, nv_sub. f_equal. rn_simpl. rewrite !minus_INR by lia. rewrite HL. lra.
Qed.

Theorem tdelta_true_times dt hpre hpost d jp jq :
  length hpre = length hpost -> is_last hpre jp -> is_last hpost jq ->
  tdelta_adj RN (ev_peek dt hpre) (ev_peek dt hpost) d = Some (INR jq * dt - INR jp * dt - d).
Proof.
  intros HL Hp Hq. rewrite tdelta_model_true by exact HL. unfold true_tdelta.
  apply last_true_is_last in Hp. apply last_true_is_last in Hq. rewrite Hp, Hq. reflexivity.
Qed.

Theorem tdelta_nan_until_both_spiked dt hpre hpost d :
  never hpre \/ never hpost -> tdelta_adj RN (ev_peek dt hpre) (ev_peek dt hpost) d = None.
Proof.
  intros [H|H]; apply event_not_spiked_yet with (dt := dt) in H; rewrite H; unfold tdelta_adj, nv_sub;
    [reflexivity | destruct (ev_peek dt hpre); reflexivity].
Qed.

(* ================================================================== B. the half kernels *)
Notation rexp := Rtrigo_def.exp.

(* the two branches of the exponential window, written without |.| *)
Definition win (causal : bool) (tc td : R) : R :=
  if causal then (if Rle_dec 0 td then rexp (- td / tc) else 0)
  else (if Rle_dec 0 td then 0 else rexp (td / tc)).

Lemma win_nonneg c tc td : 0 <= win c tc td.
Proof.
  unfold win. destruct c; destruct (Rle_dec 0 td); try lra; left; apply exp_pos.
Qed.

Lemma abs_over_neg tc td : tc <> 0 -> Rabs td / - tc = if Rle_dec 0 td then - td / tc else td / tc.
Proof.
  intros Htc. destruct (Rle_dec 0 td) as [H|H].
  - rewrite Rabs_right by lra. field. exact Htc.
  - rewrite Rabs_left by lra. field. exact Htc.
Qed.

Theorem exp_post_kernel_closed td lr tc : tc <> 0 ->
  exp_stdp_post_kernel RN td lr tc = lr * win true tc td.
Proof.
  intros Htc. unfold exp_stdp_post_kernel, win. rn_unfold. rewrite abs_over_neg by exact Htc.
  destruct (Rleb'_spec 0 td); destruct (Rle_dec 0 td); try lra; ring.
Qed.
Theorem exp_pre_kernel_closed td lr tc : tc <> 0 ->
  exp_stdp_pre_kernel RN td lr tc = lr * win false tc td.
Proof.
  intros Htc. unfold exp_stdp_pre_kernel, win. rn_unfold. rewrite abs_over_neg by exact Htc.
  destruct (Rltb'_spec td 0); destruct (Rle_dec 0 td); try lra; ring.
Qed.

(* the causal (postsynaptic) half kernel acts iff t_delta >= 0, the other one iff t_delta < 0 *)
Theorem branch_iff_tdelta_nonneg td lr tc : tc <> 0 -> lr <> 0 ->
  (exp_stdp_post_kernel RN td lr tc <> 0 <-> 0 <= td) /\
  (exp_stdp_pre_kernel RN td lr tc <> 0 <-> td < 0).
Proof.
  intros Htc Hlr. rewrite exp_post_kernel_closed, exp_pre_kernel_closed by exact Htc. unfold win.
  destruct (Rle_dec 0 td) as [H|H]; split; split; intros G; try lra.
  - apply Rmult_integral_contrapositive_currified; [exact Hlr|]. pose proof (exp_pos (- td / tc)). lra.
  - apply Rmult_integral_contrapositive_currified; [exact Hlr|]. pose proof (exp_pos (td / tc)). lra.
Qed.

(* exactly one of the two half kernels contributes, and the documented two-branch rule is their sum *)
Definition rule (lr_c tc_c lr_a tc_a td : R) : R :=
  if Rle_dec 0 td then lr_c * rexp (- td / tc_c) else lr_a * rexp (td / tc_a).
Lemma rule_win lr_c tc_c lr_a tc_a td :
  rule lr_c tc_c lr_a tc_a td = lr_c * win true tc_c td + lr_a * win false tc_a td.
Proof. unfold rule, win. destruct (Rle_dec 0 td); ring. Qed.
Theorem kernels_sum_to_rule lr_c tc_c lr_a tc_a td : tc_c <> 0 -> tc_a <> 0 ->
  exp_stdp_post_kernel RN td lr_c tc_c + exp_stdp_pre_kernel RN td lr_a tc_a = rule lr_c tc_c lr_a tc_a td.
Proof. intros. rewrite exp_post_kernel_closed, exp_pre_kernel_closed, rule_win by assumption. reflexivity. Qed.

(* the dedicated rules' inline expression is literally the generated half kernel at |lr| *)
Theorem da_term_is_kernel tc lr causal td :
  da_term RN tc lr causal (Some td) =
  Some (if causal then exp_stdp_post_kernel RN td (Rabs lr) tc else exp_stdp_pre_kernel RN td (Rabs lr) tc).
Proof. destruct causal; reflexivity. Qed.
Lemma da_term_closed tc lr causal v : tc <> 0 ->
  da_term RN tc lr causal v = option_map (fun td => Rabs lr * win causal tc td) v.
Proof.
  intros Htc. destruct v as [td|]; [|reflexivity]. rewrite da_term_is_kernel. cbn [option_map]. f_equal.
  destruct causal; [apply exp_post_kernel_closed | apply exp_pre_kernel_closed]; exact Htc.
Qed.

(* ================================================================== C. rule formulas *)

Lemma tsum_scal c l : tsum RN (map (Rmult c) l) = c * tsum RN l.
Proof. induction l as [|x t IH]; cbn; rn_simpl; [ring | rewrite IH; ring]. Qed.
Lemma tsum_add {A : Type} (f g : A -> R) l :
  tsum RN (map (fun x => f x + g x) l) = tsum RN (map f l) + tsum RN (map g l).
Proof. induction l as [|x t IH]; cbn; rn_simpl; [ring | rewrite IH; ring]. Qed.
Lemma tsum_app l1 l2 : tsum RN (l1 ++ l2) = tsum RN l1 + tsum RN l2.
Proof. induction l1 as [|x t IH]; cbn; rn_simpl; change (T RN) with R in *; [lra | rewrite IH; lra]. Qed.

Lemma nansum_scal c (f : R -> R) row :
  nansum RN (map (option_map (fun x => c * f x)) row) = c * nansum RN (map (option_map f) row).
Proof.
  unfold nansum. rewrite !map_map. induction row as [|v t IH]; cbn; rn_simpl; [ring|].
  rewrite IH. destruct v; cbn; rn_simpl; ring.
Qed.
Lemma nansum_add (f g : R -> R) row :
  nansum RN (map (option_map (fun x => f x + g x)) row) =
  nansum RN (map (option_map f) row) + nansum RN (map (option_map g) row).
Proof.
  unfold nansum. rewrite !map_map. induction row as [|v t IH]; cbn; rn_simpl; [ring|].
  rewrite IH. destruct v; cbn; rn_simpl; ring.
Qed.
Lemma nansum_ext (f g : nvR -> nvR) row : (forall v, f v = g v) -> nansum RN (map f row) = nansum RN (map g row).
Proof. intros H. f_equal. apply map_ext. exact H. Qed.

(* batch reductions: what the theorems need of state.batchreduce *)
Definition homog (red : list R -> R) : Prop := forall c l, red (map (Rmult c) l) = c * red l.
Definition additive (red : list R -> R) : Prop :=
  forall (A : Type) (f g : A -> R) (l : list A), red (map (fun x => f x + g x) l) = red (map f l) + red (map g l).
Definition linear_red (red : list R -> R) : Prop := homog red /\ additive red.

Lemma sum_linear : linear_red (reduce RN RSum).
Proof. split; [intros c l; apply tsum_scal | intros A f g l; apply tsum_add]. Qed.
Lemma mean_linear : linear_red (reduce RN RMean).
Proof.
  split.
  - intros c l. cbn [reduce]. rewrite map_length, tsum_scal. rn_simpl. unfold Rdiv. ring.
  - intros A f g l. cbn [reduce]. rewrite !map_length, tsum_add. rn_simpl. unfold Rdiv. ring.
Qed.

(* the windowed sum over the receptive field, reduced over the batch *)
Definition wsum (red : list R -> R) (causal : bool) (tc : R) (tds : list (list nvR)) : R :=
  red (map (fun row => nansum RN (map (option_map (win causal tc)) row)) tds).
(* the documented rule summed over the receptive field of one sample (NaN entries do not contribute) *)
Definition rule_row (lr_c tc_c lr_a tc_a : R) (row : list nvR) : R :=
  nansum RN (map (option_map (rule lr_c tc_c lr_a tc_a)) row).

Lemma rsum_da_term red tc lr causal tds : homog red -> tc <> 0 ->
  rsum RN red (da_term RN tc lr causal) tds = Rabs lr * wsum red causal tc tds.
Proof.
  intros Hh Htc. unfold rsum, wsum. rewrite <- Hh, map_map. f_equal. apply map_ext. intros row.
  rewrite <- nansum_scal. apply nansum_ext. intros v. apply da_term_closed. exact Htc.
Qed.

Lemma wsum_rule red lr_c tc_c lr_a tc_a tds : linear_red red ->
  lr_c * wsum red true tc_c tds + lr_a * wsum red false tc_a tds = red (map (rule_row lr_c tc_c lr_a tc_a) tds).
Proof.
  intros [Hh Ha]. unfold wsum, rule_row. rewrite <- !Hh, !map_map, <- Ha. f_equal. apply map_ext. intros row.
  rewrite <- !nansum_scal, <- nansum_add. apply nansum_ext. intros v. destruct v as [td|]; [|reflexivity].
  cbn [option_map]. f_equal. symmetry. apply rule_win.
Qed.

Ltac sign_cases :=
  unfold net, part_val; cbn [fst snd]; rn_unfold; rcases; cbn [fst snd]; rn_simpl;
  unfold Rabs; repeat match goal with |- context [Rcase_abs ?x] => destruct (Rcase_abs x) end;
  try lra; try ring.

(* DelayAdjustedSTDP: w(t+dt) - w(t) = eta+ exp(-|td|/tau+) [td >= 0] + eta- exp(-|td|/tau-) [td < 0],
   summed over the receptive field and reduced over the batch *)
Theorem da_stdp_rule red lr_pos lr_neg tc_pos tc_neg tds :
  linear_red red -> tc_pos <> 0 -> tc_neg <> 0 ->
  net RN (da_stdp RN red lr_pos lr_neg tc_pos tc_neg tds) = red (map (rule_row lr_pos tc_pos lr_neg tc_neg) tds).
Proof.
  intros Hl Hp Hn. rewrite <- wsum_rule by exact Hl. destruct Hl as [Hh _]. unfold da_stdp.
  rewrite !rsum_da_term by assumption.
  generalize (wsum red true tc_pos tds) (wsum red false tc_neg tds); intros A B. sign_cases.
Qed.

(* DelayAdjustedSTDPD: d(t+dt) - d(t) = eta- exp(-|td|/tau-) [td >= 0] + eta+ exp(-|td|/tau+) [td < 0] *)
Theorem da_stdpd_rule red lr_neg lr_pos tc_neg tc_pos tds :
  linear_red red -> tc_pos <> 0 -> tc_neg <> 0 ->
  net RN (da_stdpd RN red lr_neg lr_pos tc_neg tc_pos tds) = red (map (rule_row lr_neg tc_neg lr_pos tc_pos) tds).
Proof.
  intros Hl Hp Hn. rewrite <- wsum_rule by exact Hl. destruct Hl as [Hh _]. unfold da_stdpd.
  rewrite !rsum_da_term by assumption.
  generalize (wsum red true tc_neg tds) (wsum red false tc_pos tds); intros A B. sign_cases.
Qed.

(* ---- three-factor rules, scalar signal: w(t+dt) - w(t) = gamma M zeta, gamma = |scale| *)
Theorem da_mstdp_scalar_rule red lr_pos lr_neg tc_pos tc_neg signal scale tds :
  linear_red red -> tc_pos <> 0 -> tc_neg <> 0 ->
  net RN (da_mstdp_scalar RN red lr_pos lr_neg tc_pos tc_neg signal scale tds) =
  Rabs scale * signal * red (map (rule_row lr_pos tc_pos lr_neg tc_neg) tds).
Proof.
  intros Hl Hp Hn. rewrite <- wsum_rule by exact Hl. destruct Hl as [Hh _]. unfold da_mstdp_scalar.
  rewrite !rsum_da_term by assumption.
  generalize (wsum red true tc_pos tds) (wsum red false tc_neg tds); intros A B. rn_simpl.
  replace (Rabs scale * signal * (lr_pos * A + lr_neg * B))
    with (Rabs scale * ((lr_pos * signal) * A + (lr_neg * signal) * B)) by ring.
  replace (Rabs lr_pos * A * Rabs (signal * scale)) with (Rabs (lr_pos * signal) * (Rabs scale * A))
    by (rewrite !Rabs_mult; ring).
  replace (Rabs lr_neg * B * Rabs (signal * scale)) with (Rabs (lr_neg * signal) * (Rabs scale * B))
    by (rewrite !Rabs_mult; ring).
  generalize (lr_pos * signal) (lr_neg * signal) (Rabs scale); intros p q s. sign_cases.
Qed.

Theorem da_mstdpd_scalar_rule red lr_neg lr_pos tc_neg tc_pos signal scale tds :
  linear_red red -> tc_pos <> 0 -> tc_neg <> 0 ->
  net RN (da_mstdpd_scalar RN red lr_neg lr_pos tc_neg tc_pos signal scale tds) =
  Rabs scale * signal * red (map (rule_row lr_neg tc_neg lr_pos tc_pos) tds).
Proof.
  intros Hl Hp Hn. rewrite <- wsum_rule by exact Hl. destruct Hl as [Hh _]. unfold da_mstdpd_scalar.
  rewrite !rsum_da_term by assumption.
  generalize (wsum red true tc_neg tds) (wsum red false tc_pos tds); intros A B. rn_simpl.
  replace (Rabs scale * signal * (lr_neg * A + lr_pos * B))
    with (Rabs scale * ((lr_neg * signal) * A + (lr_pos * signal) * B)) by ring.
  replace (Rabs lr_neg * A * Rabs (signal * scale)) with (Rabs (lr_neg * signal) * (Rabs scale * A))
    by (rewrite !Rabs_mult; ring).
  replace (Rabs lr_pos * B * Rabs (signal * scale)) with (Rabs (lr_pos * signal) * (Rabs scale * B))
    by (rewrite !Rabs_mult; ring).
  generalize (lr_neg * signal) (lr_pos * signal) (Rabs scale); intros p q s. sign_cases.
Qed.

(* ---- three-factor rules, per-sample signal, sum over the batch (the trainers' default reduction):
   w(t+dt) - w(t) = sum_b gamma M_b zeta_b *)
Definition sgn_of (s : R) : R := if Rle_dec 0 s then 1 else -1.

Lemma select_split (F : list nvR -> R -> R) tds ss :
  tsum RN (select (map (fun s => geb RN s (zero RN)) ss) (map2 F tds ss)) -
  tsum RN (select (map (fun s => ltb RN s (zero RN)) ss) (map2 F tds ss)) =
  tsum RN (map2 (fun row s => sgn_of s * F row s) tds ss).
Proof.
  revert ss; induction tds as [|row t IH]; intros ss; [destruct ss; cbn; rn_simpl; lra|].
  destruct ss as [|s ss]; [cbn; rn_simpl; lra|]. specialize (IH ss).
  cbn [map map2 select]. unfold sgn_of in *. rn_unfold.
  destruct (Rleb'_spec 0 s); destruct (Rltb'_spec s 0); destruct (Rle_dec 0 s); try lra;
    cbn [tsum]; rn_simpl; change (T RN) with R in *; lra.
Qed.

Lemma tsum_map2_add {A B : Type} (f g : A -> B -> R) la lb :
  tsum RN (map2 (fun a b => f a b + g a b) la lb) = tsum RN (map2 f la lb) + tsum RN (map2 g la lb).
Proof.
  revert lb; induction la as [|a t IH]; intros lb; [cbn; rn_simpl; lra|].
  destruct lb as [|b lb]; [cbn; rn_simpl; lra|]. cbn [map2 tsum]. rn_simpl. rewrite IH. lra.
Qed.
Lemma tsum_map2_scal {A B : Type} c (f : A -> B -> R) la lb :
  tsum RN (map2 (fun a b => c * f a b) la lb) = c * tsum RN (map2 f la lb).
Proof.
  revert lb; induction la as [|a t IH]; intros lb; [cbn; rn_simpl; lra|].
  destruct lb as [|b lb]; [cbn; rn_simpl; lra|]. cbn [map2 tsum]. rn_simpl. rewrite IH. lra.
Qed.
Lemma map2_ext {A B C : Type} (f g : A -> B -> C) la lb : (forall a b, f a b = g a b) -> map2 f la lb = map2 g la lb.
Proof.
  intros H. revert lb; induction la as [|a t IH]; intros lb; [reflexivity|]. destruct lb; [reflexivity|].
  cbn. rewrite H, IH. reflexivity.
Qed.
Lemma part_val_red_opt_sum l : part_val RN (red_opt RN (reduce RN RSum) l) = tsum RN l.
Proof. destruct l; reflexivity. Qed.

Definition wrow (causal : bool) (tc : R) (row : list nvR) : R := nansum RN (map (option_map (win causal tc)) row).
Lemma rule_row_split lr_c tc_c lr_a tc_a row :
  rule_row lr_c tc_c lr_a tc_a row = lr_c * wrow true tc_c row + lr_a * wrow false tc_a row.
Proof.
  unfold rule_row, wrow. rewrite <- !nansum_scal, <- nansum_add. apply nansum_ext. intros [td|]; [|reflexivity].
  cbn [option_map]. f_equal. apply rule_win.
Qed.

(* the signed, scaled per-sample sums of one half of the rule *)
Lemma signed_scaled_rows tc lr causal ss scale tds : tc <> 0 ->
  let X := scaled_rows RN (da_term RN tc lr causal) ss scale tds in
  tsum RN (select (map (fun s => geb RN s (zero RN)) ss) X) - tsum RN (select (map (fun s => ltb RN s (zero RN)) ss) X) =
  Rabs lr * tsum RN (map2 (fun row s => Rabs scale * s * wrow causal tc row) tds ss).
Proof.
  intros Htc X. unfold X, scaled_rows. rewrite select_split, <- tsum_map2_scal. f_equal. apply map2_ext. intros row s.
  replace (nansum RN (map (da_term RN tc lr causal) row)) with (Rabs lr * wrow causal tc row).
  2:{ unfold wrow. rewrite <- nansum_scal. apply nansum_ext. intros v. symmetry. apply da_term_closed. exact Htc. }
  rn_simpl. rewrite Rabs_mult. unfold sgn_of, Rabs at 2. destruct (Rle_dec 0 s); destruct (Rcase_abs s); try lra; ring.
Qed.

Ltac tensor_cases :=
  unfold net; cbn [fst snd]; rewrite !part_val_red_opt_sum, !tsum_app; rn_simpl; change (T RN) with R in *;
  repeat match goal with |- context [tsum RN (select ?m ?x)] => generalize dependent (tsum RN (select m x)); intros end;
  unfold Rabs in *; repeat match goal with |- context [Rcase_abs ?x] => destruct (Rcase_abs x) end;
  repeat match goal with H : context [Rcase_abs ?x] |- _ => destruct (Rcase_abs x) end; try lra; try nra.

Theorem da_mstdp_tensor_rule lr_pos lr_neg tc_pos tc_neg ss scale tds :
  tc_pos <> 0 -> tc_neg <> 0 ->
  net RN (da_mstdp_tensor RN (reduce RN RSum) lr_pos lr_neg tc_pos tc_neg ss scale tds) =
  tsum RN (map2 (fun row s => Rabs scale * s * rule_row lr_pos tc_pos lr_neg tc_neg row) tds ss).
Proof.
  intros Hp Hn.
  pose proof (signed_scaled_rows tc_pos lr_pos true ss scale tds Hp) as E1.
  pose proof (signed_scaled_rows tc_neg lr_neg false ss scale tds Hn) as E2. cbv zeta in E1, E2.
  rewrite (map2_ext _ (fun row s => lr_pos * (Rabs scale * s * wrow true tc_pos row)
                                    + lr_neg * (Rabs scale * s * wrow false tc_neg row)))
    by (intros; rewrite rule_row_split; ring).
  rewrite tsum_map2_add, !tsum_map2_scal.
  revert E1 E2.
  generalize (tsum RN (map2 (fun row s => Rabs scale * s * wrow true tc_pos row) tds ss)).
  generalize (tsum RN (map2 (fun row s => Rabs scale * s * wrow false tc_neg row) tds ss)).
  intros B A. unfold da_mstdp_tensor.
  set (X := scaled_rows RN (da_term RN tc_pos lr_pos true) ss scale tds).
  set (Y := scaled_rows RN (da_term RN tc_neg lr_neg false) ss scale tds).
  intros E1 E2. unfold geb in *. rn_simpl.
  destruct (Rleb'_spec 0 lr_pos); destruct (Rleb'_spec 0 lr_neg); tensor_cases.
Qed.

Theorem da_mstdpd_tensor_rule lr_neg lr_pos tc_neg tc_pos ss scale tds :
  tc_pos <> 0 -> tc_neg <> 0 ->
  net RN (da_mstdpd_tensor RN (reduce RN RSum) lr_neg lr_pos tc_neg tc_pos ss scale tds) =
  tsum RN (map2 (fun row s => Rabs scale * s * rule_row lr_neg tc_neg lr_pos tc_pos row) tds ss).
Proof.
  intros Hp Hn.
  pose proof (signed_scaled_rows tc_neg lr_neg true ss scale tds Hn) as E1.
  pose proof (signed_scaled_rows tc_pos lr_pos false ss scale tds Hp) as E2. cbv zeta in E1, E2.
  rewrite (map2_ext _ (fun row s => lr_neg * (Rabs scale * s * wrow true tc_neg row)
                                    + lr_pos * (Rabs scale * s * wrow false tc_pos row)))
    by (intros; rewrite rule_row_split; ring).
  rewrite tsum_map2_add, !tsum_map2_scal.
  revert E1 E2.
  generalize (tsum RN (map2 (fun row s => Rabs scale * s * wrow true tc_neg row) tds ss)).
  generalize (tsum RN (map2 (fun row s => Rabs scale * s * wrow false tc_pos row) tds ss)).
  intros B A. unfold da_mstdpd_tensor.
  set (X := scaled_rows RN (da_term RN tc_neg lr_neg true) ss scale tds).
  set (Y := scaled_rows RN (da_term RN tc_pos lr_pos false) ss scale tds).
  intros E1 E2. unfold geb in *. rn_simpl.
  destruct (Rltb'_spec lr_neg 0); destruct (Rltb'_spec lr_pos 0); tensor_cases.
Qed.

(* ================================================================== D. kernel STDP == dedicated delay-adjusted rules *)
Definition pospart (x : R) : R := if Rle_dec 0 x then x else 0.
Definition negpart (x : R) : R := if Rle_dec 0 x then 0 else x.

Lemma clamp_min_kernel (k : R -> R) lr causal tc v :
  (forall td, k td = lr * win causal tc td) ->
  clamp_min0 RN (option_map k v) = option_map (fun td => pospart lr * win causal tc td) v.
Proof.
  intros Hk. destruct v as [td|]; [|reflexivity]. cbn [option_map clamp_min0]. f_equal. rewrite Hk.
  pose proof (win_nonneg causal tc td) as Hw. unfold tmax, pospart. rn_simpl.
  destruct (Rltb'_spec (lr * win causal tc td) 0); destruct (Rle_dec 0 lr); nra.
Qed.
Lemma clamp_max_kernel (k : R -> R) lr causal tc v :
  (forall td, k td = lr * win causal tc td) ->
  clamp_max0 RN (option_map k v) = option_map (fun td => negpart lr * win causal tc td) v.
Proof.
  intros Hk. destruct v as [td|]; [|reflexivity]. cbn [option_map clamp_max0]. f_equal. rewrite Hk.
  pose proof (win_nonneg causal tc td) as Hw. unfold tmin, negpart. rn_simpl.
  destruct (Rltb'_spec 0 (lr * win causal tc td)); destruct (Rle_dec 0 lr); nra.
Qed.

Lemma rsum_scaled_win red (f : nvR -> nvR) c causal tc tds : homog red ->
  (forall v, f v = option_map (fun td => c * win causal tc td) v) ->
  rsum RN red f tds = c * wsum red causal tc tds.
Proof.
  intros Hh Hf. unfold rsum, wsum. rewrite <- Hh, map_map. f_equal. apply map_ext. intros row.
  rewrite <- nansum_scal. apply nansum_ext. exact Hf.
Qed.

(* the parts of the kernel trainers run with the shipped exponential half kernels *)
Lemma kernel_fwd_exp_parts red lr_c tc_c lr_a tc_a tds : homog red -> tc_c <> 0 -> tc_a <> 0 ->
  let k := kernel_fwd RN red (fun x => exp_stdp_post_kernel RN x lr_c tc_c)
                             (fun x => exp_stdp_pre_kernel RN x lr_a tc_a) tds in
  part_val RN (fst k) = pospart lr_c * wsum red true tc_c tds + pospart lr_a * wsum red false tc_a tds /\
  part_val RN (snd k) = - (negpart lr_c * wsum red true tc_c tds + negpart lr_a * wsum red false tc_a tds).
Proof.
  intros Hh Hc Ha. cbv zeta. unfold kernel_fwd. cbn [fst snd part_val]. rn_simpl.
  rewrite (rsum_scaled_win red _ (pospart lr_c) true tc_c), (rsum_scaled_win red _ (pospart lr_a) false tc_a),
          (rsum_scaled_win red _ (negpart lr_c) true tc_c), (rsum_scaled_win red _ (negpart lr_a) false tc_a);
    try exact Hh; try (split; reflexivity);
    intros v; (apply clamp_min_kernel || apply clamp_max_kernel); intros td;
    (apply exp_post_kernel_closed || apply exp_pre_kernel_closed); assumption.
Qed.

Ltac parts_cases :=
  unfold part_val, pospart, negpart; cbn [fst snd]; rn_unfold; rcases; cbn [fst snd]; rn_simpl;
  unfold Rabs; repeat match goal with |- context [Rcase_abs ?x] => destruct (Rcase_abs x) end;
  repeat match goal with |- context [Rle_dec ?a ?b] => destruct (Rle_dec a b) end;
  try (split; lra); try (split; ring).

(* DelayAdjustedKernelSTDP(exp_stdp_post_kernel(lr_pos, tc_pos), exp_stdp_pre_kernel(lr_neg, tc_neg)) accumulates the
   same potentiating and the same depressing part as DelayAdjustedSTDP(lr_pos, lr_neg, tc_pos, tc_neg) - a part that
   the dedicated rule omits (None) is zero in the kernel rule - for every batch reduction that commutes with scaling
   (sum, mean) *)
Theorem kernel_eq_delayadjusted red lr_pos lr_neg tc_pos tc_neg tds :
  homog red -> tc_pos <> 0 -> tc_neg <> 0 ->
  let k := kernel_fwd RN red (fun x => exp_stdp_post_kernel RN x lr_pos tc_pos)
                             (fun x => exp_stdp_pre_kernel RN x lr_neg tc_neg) tds in
  let d := da_stdp RN red lr_pos lr_neg tc_pos tc_neg tds in
  part_val RN (fst k) = part_val RN (fst d) /\ part_val RN (snd k) = part_val RN (snd d).
Proof.
  intros Hh Hp Hn. cbv zeta.
  destruct (kernel_fwd_exp_parts red lr_pos tc_pos lr_neg tc_neg tds Hh Hp Hn) as [E1 E2]. cbv zeta in E1, E2.
  rewrite E1, E2. unfold da_stdp. rewrite !rsum_da_term by assumption.
  generalize (wsum red true tc_pos tds) (wsum red false tc_neg tds); intros A B. parts_cases.
Qed.

(* the delay-learning pair: DelayAdjustedKernelSTDPD(post = (lr_neg, tc_neg), pre = (lr_pos, tc_pos)) == DelayAdjustedSTDPD *)
Theorem kernel_eq_delayadjusted_delays red lr_neg lr_pos tc_neg tc_pos tds :
  homog red -> tc_pos <> 0 -> tc_neg <> 0 ->
  let k := kernel_fwd RN red (fun x => exp_stdp_post_kernel RN x lr_neg tc_neg)
                             (fun x => exp_stdp_pre_kernel RN x lr_pos tc_pos) tds in
  let d := da_stdpd RN red lr_neg lr_pos tc_neg tc_pos tds in
  part_val RN (fst k) = part_val RN (fst d) /\ part_val RN (snd k) = part_val RN (snd d).
Proof.
  intros Hh Hp Hn. cbv zeta.
  destruct (kernel_fwd_exp_parts red lr_neg tc_neg lr_pos tc_pos tds Hh Hn Hp) as [E1 E2]. cbv zeta in E1, E2.
  rewrite E1, E2. unfold da_stdpd. rewrite !rsum_da_term by assumption.
  generalize (wsum red true tc_neg tds) (wsum red false tc_pos tds); intros A B. parts_cases.
Qed.

(* consequently kernel STDP with the shipped kernels nets to the documented rule as well *)
Corollary kernel_exp_rule red lr_c tc_c lr_a tc_a tds : linear_red red -> tc_c <> 0 -> tc_a <> 0 ->
  net RN (kernel_fwd RN red (fun x => exp_stdp_post_kernel RN x lr_c tc_c)
                            (fun x => exp_stdp_pre_kernel RN x lr_a tc_a) tds) =
  red (map (rule_row lr_c tc_c lr_a tc_a) tds).
Proof.
  intros Hl Hc Ha. rewrite <- wsum_rule by exact Hl. destruct Hl as [Hh _].
  destruct (kernel_fwd_exp_parts red lr_c tc_c lr_a tc_a tds Hh Hc Ha) as [E1 E2]. cbv zeta in E1, E2.
  unfold net. rewrite E1, E2. rn_simpl. unfold pospart, negpart.
  destruct (Rle_dec 0 lr_c); destruct (Rle_dec 0 lr_a); ring.
Qed.

(* The agreement does NOT extend to batch_reduction = torch.amax: the kernel trainers negate AFTER reducing
   (-(amax(clamp_max(.)))), so their depressing part is the batch MINIMUM of the per-sample magnitudes where the
   dedicated rule takes the maximum.  Witness: batch of two, sample 0 has t_delta = -1, sample 1 has not spiked.
   (replayed on the implementation: DelayAdjustedSTDP neg = e^-1, DelayAdjustedKernelSTDP neg = 0) *)
Theorem kernel_eq_amax_refuted :
  exists lr_pos lr_neg tc_pos tc_neg tds,
    part_val RN (snd (kernel_fwd RN (reduce RN RAmax) (fun x => exp_stdp_post_kernel RN x lr_pos tc_pos)
                                 (fun x => exp_stdp_pre_kernel RN x lr_neg tc_neg) tds)) <>
    part_val RN (snd (da_stdp RN (reduce RN RAmax) lr_pos lr_neg tc_pos tc_neg tds)).
Proof.
  exists 1, (-1), 1, 1, [[Some (-1)]; [None]].
  unfold kernel_fwd, da_stdp, rsum, da_term, clamp_max0, exp_stdp_post_kernel, exp_stdp_pre_kernel.
  cbn [map option_map nansum nan0 tsum reduce fold_left fst snd part_val]. rn_unfold.
  assert (A1 : Rabs (-1) = 1) by (rewrite Rabs_left by lra; lra).
  assert (A2 : Rabs 1 = 1) by (apply Rabs_right; lra).
  rewrite ?A1, ?A2. replace (1 / - (1)) with (-1) by field.
  pose proof (exp_pos (-1)) as He. generalize dependent (rexp (-1)). intros e He.
  rcases; cbn [fst snd part_val]; rn_simpl; rcases; lra.
Qed.

(* ================================================================== E/F. whole cells, whole histories *)

Lemma tdelta_adj_zero tpre tpost : tdelta_adj RN tpre tpost 0 = tdelta_raw RN tpre tpost.
Proof. destruct tpre, tpost; cbn; try reflexivity. f_equal. rn_simpl. lra. Qed.

(* ---- tensors of event times *)
Definition evt_from (dt : R) (st : option (list nvR)) (obs : list (list bool)) : option (list nvR) :=
  fold_left (fun s o => Some (ev_fold_t RN dt o s)) obs st.
Definition unit_hist (u : nat) (obs : list (list bool)) : list bool := map (fun o => nth u o false) obs.

Lemma nth_map2 {A B C : Type} (f : A -> B -> C) la lb da db dc u :
  length la = length lb -> f da db = dc -> nth u (map2 f la lb) dc = f (nth u la da) (nth u lb db).
Proof.
  revert lb u; induction la as [|a t IH]; intros lb u HL Hd; destruct lb as [|b lb]; try discriminate.
  - destruct u; cbn; congruence.
  - destruct u; cbn; [reflexivity|]. apply IH; [cbn in HL; lia | exact Hd].
Qed.
Lemma map2_length {A B C : Type} (f : A -> B -> C) la lb : length la = length lb -> length (map2 f la lb) = length la.
Proof.
  revert lb; induction la as [|a t IH]; intros lb HL; destruct lb; try discriminate; cbn; [reflexivity|].
  f_equal. apply IH. cbn in HL. lia.
Qed.

Lemma ev_peek_snoc dt h b : h <> [] -> ev_peek dt (h ++ [b]) = ev_fold RN dt b (Some (ev_peek dt h)).
Proof.
  intros Hh. unfold ev_peek at 1. rewrite ev_run_snoc. unfold ev_peek.
  rewrite (event_time_since_last dt h Hh). reflexivity.
Qed.

(* every entry of the monitor's tensor is the unit's own event time *)
Lemma evt_from_units dt n obs :
  obs <> [] -> Forall (fun o => length o = n) obs ->
  exists l, evt_from dt None obs = Some l /\ length l = n /\
            forall u, nth u l None = ev_peek dt (unit_hist u obs).
Proof.
  induction obs as [|o obs IH] using rev_ind; [congruence|]. intros _ Hf.
  apply Forall_app in Hf. destruct Hf as [Hf Ho]. inversion Ho as [|? ? Hlo _]; subst.
  unfold evt_from. rewrite fold_left_app. cbn [fold_left]. fold (evt_from dt None obs).
  destruct obs as [|o' obs'].
  - cbn [evt_from fold_left ev_fold_t]. eexists; split; [reflexivity|]. split; [apply map_length|].
    intros u. change (@None (T RN)) with (ev_fold RN dt false None) at 1. rewrite map_nth. reflexivity.
  - destruct (IH ltac:(discriminate) Hf) as [l [El [Ll Hl]]]. rewrite El. cbn [ev_fold_t].
    eexists; split; [reflexivity|]. split; [rewrite map2_length; lia|].
    intros u. unfold unit_hist. rewrite map_app. cbn [map]. rewrite ev_peek_snoc by discriminate.
    fold (unit_hist u (o' :: obs')). rewrite <- Hl.
    apply (nth_map2 (fun o0 s => ev_fold RN dt o0 (Some s)) o l false None None u); [lia | reflexivity].
Qed.

(* ---- the cell *)
Section Cell.
Variable red : list R -> R.
Variable c : cellcfg RN.

Definition state_after (st : cellstate RN) (is : list (stepin RN)) : cellstate RN :=
  fold_left (fun s i => fst (cell_step RN red c s i)) is st.

Lemma cell_run_app st is1 is2 :
  cell_run RN red c st (is1 ++ is2) = cell_run RN red c st is1 ++ cell_run RN red c (state_after st is1) is2.
Proof.
  revert st; induction is1 as [|i t IH]; intros st; [reflexivity|]. cbn [app cell_run]. rewrite IH. reflexivity.
Qed.
(* so the record of step k of any run is one cell_step from the state reached by the first k inputs *)
Corollary cell_run_step prefix i :
  cell_run RN red c (mkCS RN None None) (prefix ++ [i]) =
  cell_run RN red c (mkCS RN None None) prefix ++ [cell_step RN red c (state_after (mkCS RN None None) prefix) i].
Proof. rewrite cell_run_app. reflexivity. Qed.

Lemma state_after_evt st is :
  state_after st is = mkCS RN (evt_from (c_dt RN c) (cs_pre RN st) (map (si_pre RN) is))
                          (evt_from (c_dt RN c) (cs_post RN st) (map (si_post RN) is)).
Proof.
  revert st; induction is as [|i t IH]; intros st; [destruct st; reflexivity|].
  cbn [state_after fold_left map evt_from]. fold (state_after (fst (cell_step RN red c st i)) t).
  rewrite IH. reflexivity.
Qed.

(* t_delta of a receptive pair as the statement of the property has it: from the TRUE spike times of the two units *)
Definition spec_tdelta (hpre hpost : list bool) (d : R) : nvR :=
  match c_tr RN c with
  | TKernel _ _ => true_tdelta (c_dt RN c) hpre hpost 0
  | _ => true_tdelta (c_dt RN c) hpre hpost d
  end.
Definition spec_tds (is : list (stepin RN)) (s : synapse) (d : R) : list (list nvR) :=
  map (fun b => map (fun io => spec_tdelta (unit_hist (b * c_npre RN c + fst io) (map (si_pre RN) is))
                                           (unit_hist (b * c_npost RN c + snd io) (map (si_post RN) is)) d) s)
      (seq 0 (c_B RN c)).

Definition shaped (n m : nat) (is : list (stepin RN)) : Prop :=
  Forall (fun i => length (si_pre RN i) = n /\ length (si_post RN i) = m) is.

Lemma map2_ext_l {A B C : Type} (f g : A -> B -> C) la lb :
  (forall a b, In a la -> f a b = g a b) -> map2 f la lb = map2 g la lb.
Proof.
  revert lb; induction la as [|a t IH]; intros lb H; [reflexivity|]. destruct lb; [reflexivity|].
  cbn. rewrite H by (left; reflexivity). rewrite IH; [reflexivity|]. intros; apply H; right; assumption.
Qed.

(* FLAGSHIP: at every step of every run, for every parameter element, the trainer's forward is applied to the
   t_delta values t_post_last - t_pre_last - d(t) of the true most recent spike times (NaN while a side is silent) *)
Theorem cell_step_true_times n m prefix i :
  shaped n m (prefix ++ [i]) ->
  snd (cell_step RN red c (state_after (mkCS RN None None) prefix) i) =
  map2 (fun s d => fwd RN red (c_tr RN c) (si_sig RN i) (spec_tds (prefix ++ [i]) s d)) (c_syn RN c) (si_delay RN i).
Proof.
  intros Hs. unfold cell_step. cbn [snd]. rewrite state_after_evt. cbn [cs_pre cs_post].
  assert (Hpre : Forall (fun o => length o = n) (map (si_pre RN) (prefix ++ [i]))).
  { apply Forall_map. eapply Forall_impl; [|exact Hs]. intros a [H _]; exact H. }
  assert (Hpost : Forall (fun o => length o = m) (map (si_post RN) (prefix ++ [i]))).
  { apply Forall_map. eapply Forall_impl; [|exact Hs]. intros a [_ H]; exact H. }
  destruct (evt_from_units (c_dt RN c) n _ ltac:(rewrite map_app; intros E; apply app_eq_nil in E; destruct E; discriminate) Hpre)
    as [lp [Ep [_ Hp]]].
  destruct (evt_from_units (c_dt RN c) m _ ltac:(rewrite map_app; intros E; apply app_eq_nil in E; destruct E; discriminate) Hpost)
    as [lq [Eq [_ Hq]]].
  unfold evt_from in Ep, Eq. rewrite map_app, fold_left_app in Ep, Eq. cbn [map fold_left] in Ep, Eq.
  unfold evt_from. inversion Ep as [Ep']. inversion Eq as [Eq']. clear Ep Eq.
  apply map2_ext. intros s d. f_equal. unfold tds_of, spec_tds. apply map_ext. intros b. apply map_ext. intros io.
  rewrite Ep', Eq', Hp, Hq. unfold tdelta_of, spec_tdelta.
  assert (HL : forall u v, length (unit_hist u (map (si_pre RN) (prefix ++ [i]))) =
                           length (unit_hist v (map (si_post RN) (prefix ++ [i])))).
  { intros. unfold unit_hist. rewrite !map_length. reflexivity. }
  destruct (c_tr RN c); try (apply tdelta_model_true; apply HL).
  rewrite <- tdelta_adj_zero. apply tdelta_model_true. apply HL.
Qed.
End Cell.
