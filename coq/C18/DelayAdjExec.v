(* Executable (binary64) instance of the C18 model for the correspondence check: runs a whole cell history with
   vm_compute and serialises, per step, the two monitors' tensors and the (pos, neg) parts of every parameter element. *)
From Coq Require Import List ZArith Bool PrimFloat.
From Inferno Require Import Base.Num Base.NumF Gen.Stdkernels C18.DelayAdj.
Import ListNotations.

Definition fl := PrimFloat.float.

Definition redk (z : Z) : redkind :=
  if (z =? 0)%Z then RSum else if (z =? 1)%Z then RMean else if (z =? 2)%Z then RAmax else RAmin.
Definition bits (l : list Z) : list bool := map (fun z => negb (z =? 0)%Z) l.

(* the kernel trainers are always run with the shipped exponential half kernels *)
Definition exp_kernels (adjusted : bool) (lr_post tc_post lr_pre tc_pre : fl) : trainer FN :=
  (if adjusted then TDaKernel FN else TKernel FN)
    (fun x => exp_stdp_post_kernel FN x lr_post tc_post)
    (fun x => exp_stdp_pre_kernel FN x lr_pre tc_pre).

Definition step (pre post : list Z) (delays : list fl) (sg : signal FN) : stepin FN :=
  mkIn FN (bits pre) (bits post) delays sg.

Definition ser_nv (v : nv FN) : tree := match v with None => Nd [L 3; L 0; L 0]%Z | Some x => ser_float x end.
Definition ser_parts (p : parts FN) : tree := Nd [ser_option ser_float (fst p); ser_option ser_float (snd p)].
Definition ser_step (r : cellstate FN * list (parts FN)) : tree :=
  Nd [ser_option (ser_list ser_nv) (cs_pre FN (fst r)); ser_option (ser_list ser_nv) (cs_post FN (fst r));
      ser_list ser_parts (snd r)].

Definition run_case (B npre npost : nat) (syn : list (list (nat * nat))) (dt : fl) (rk : Z) (tr : trainer FN)
           (steps : list (stepin FN)) : tree :=
  ser_list ser_step
    (cell_run FN (reduce FN (redk rk)) (mkCfg FN B npre npost syn dt tr) (mkCS FN None None) steps).

(* the generated half kernels alone, against the real functions *)
Definition run_kernels (diff lr tc : fl) : tree :=
  Nd [ser_float (exp_stdp_post_kernel FN diff lr tc); ser_float (exp_stdp_pre_kernel FN diff lr tc)].

(* per-element hyperparameters (tensor-valued kernel keyword arguments): one trainer value per parameter element *)
Definition run_case_ps (B npre npost : nat) (syn : list (list (nat * nat))) (dt : fl) (rk : Z) (trs : list (trainer FN))
           (steps : list (stepin FN)) : tree :=
  ser_list ser_step
    (cell_run_ps FN (reduce FN (redk rk)) (mkCfg FN B npre npost syn dt (hd (TDaStdp FN 0 0 1 1) trs)) trs
                 (mkCS FN None None) steps).

(* hyperparameters re-assigned on the cell state between steps: reduction and per-element trainer values per step *)
Definition tv (rk : Z) (trs : list (trainer FN)) (s : stepin FN) : tvstep FN := (reduce FN (redk rk), trs, s).
Definition run_case_tv (B npre npost : nat) (syn : list (list (nat * nat))) (dt : fl) (steps : list (tvstep FN)) : tree :=
  ser_list ser_step
    (cell_run_tv FN (mkCfg FN B npre npost syn dt (TDaStdp FN 0 0 1 1)) (mkCS FN None None) steps).
