(* Proofs about the select / insert model (C02/Select.v), real-number reading.
   Independent spec: [at_ s k] = the observation k steps before the write position (C01), a time t
   is either within tolerance of a grid point k*dt (then observation off+k is read / written
   exactly) or strictly between two grid points k*dt and (k+1)*dt (then the interpolation /
   extrapolation is applied to the older sample off+k+1, the newer sample off+k and the time
   (k+1)*dt - t elapsed since the older one).  For all record sizes, pointer positions, offsets,
   shapes, 0 < dt, 0 <= tol < dt/2. *)
From Coq Require Import List ZArith Bool Arith Lia Reals Lra.
From Flocq Require Import Core.Raux Core.Generic_fmt.
From Inferno Require Import Base.Num Base.NumR Gen.Infra C01.Ring C01.RingProofs C02.Select C02.Matching.
Import ListNotations.
Ltac Zify.zify_post_hook ::= Z.div_mod_to_equations.
Local Open Scope R_scope.

(* rewrite with a fact after normalising the carrier T RN to R on both sides *)
Ltac rw H := let X := fresh "X" in pose proof H as X; rn_simpl; rewrite X; clear X.

Notation ringR := (@ring R unit).
Notation obsR := (@obs R unit).

(* ------------------------------------------------------------------ the time arithmetic *)
Section Time.
Variables dt tol : R.
Hypothesis Hdt : 0 < dt.
Hypothesis Htol : 0 <= tol < dt / 2.

Lemma shift_mul t : t / dt * dt = t.
Proof. field. lra. Qed.

(* nearest integer minimises the distance: a grid point within dt/2 of t is round(t/dt) *)
Lemma rne_of_close t k : Rabs (IZR k * dt - t) < dt / 2 -> rneZ RN (shift_of RN dt t) = k.
Proof.
  intros H. unfold shift_of. rn_simpl. apply Znearest_imp.
  pose proof (shift_mul t) as Hq. set (q := t / dt) in *.
  apply Rabs_def2 in H. apply Rabs_def1; nra.
Qed.

Lemma on_grid_k t k : Rabs (IZR k * dt - t) <= tol ->
  on_grid RN dt tol t = true /\ rneZ RN (shift_of RN dt t) = k.
Proof.
  intros H. assert (Hk : rneZ RN (shift_of RN dt t) = k) by (apply rne_of_close; lra).
  split; [|exact Hk]. unfold on_grid. rewrite Hk. rn_simpl.
  destruct (Rleb'_spec (Rabs (dt * IZR k - t)) tol) as [|Hn]; [reflexivity|].
  exfalso; apply Hn. replace (dt * IZR k) with (IZR k * dt) by ring. exact H.
Qed.

(* the coded test [abs(dt * round(t/dt) - t) <= tol] says: some grid point is within tol of t *)
Theorem on_grid_iff t : on_grid RN dt tol t = true <-> exists k, Rabs (IZR k * dt - t) <= tol.
Proof.
  split.
  - intros H. unfold on_grid in H. rn_simpl. rcases; [|discriminate].
    eexists. rewrite Rmult_comm. eassumption.
  - intros (k & Hk). apply (on_grid_k t k Hk).
Qed.

(* strictly between two grid points, further than tol from both *)
Definition between (k : Z) (t : R) : Prop := IZR k * dt + tol < t < IZR (k + 1) * dt - tol.

Lemma between_floor_ceil t k : between k t ->
  Zfloor (t / dt) = k /\ Zceil (t / dt) = (k + 1)%Z.
Proof.
  intros (H1 & H2). pose proof (shift_mul t) as Hq. set (q := t / dt) in *.
  rewrite plus_IZR in H2. change (IZR 1) with 1 in H2.
  split.
  - apply Zfloor_imp. rewrite plus_IZR. change (IZR 1) with 1. split; nra.
  - apply Zceil_imp. replace (k + 1 - 1)%Z with k by lia. rewrite plus_IZR. change (IZR 1) with 1. split; nra.
Qed.

Lemma between_off_grid t k : between k t -> on_grid RN dt tol t = false.
Proof.
  intros Hb. destruct (on_grid RN dt tol t) eqn:E; [|reflexivity]. exfalso.
  apply on_grid_iff in E. destruct E as (k' & Hk'). destruct Hb as (H1 & H2).
  rewrite plus_IZR in H2. change (IZR 1) with 1 in H2.
  apply Rabs_le_inv in Hk'.
  destruct (Z_lt_le_dec k' (k + 1)) as [Hlt|Hge].
  - assert (Hle : (k' <= k)%Z) by lia. apply IZR_le in Hle. nra.
  - apply IZR_le in Hge. rewrite plus_IZR in Hge. change (IZR 1) with 1 in Hge. nra.
Qed.

(* every time is on the grid (within tol) or between two grid points *)
Lemma grid_or_between t : (exists k, Rabs (IZR k * dt - t) <= tol) \/ (exists k, between k t).
Proof.
  pose proof (shift_mul t) as Hq. set (q := t / dt) in *.
  pose proof (Zfloor_lb q) as Hlb. pose proof (Zfloor_ub q) as Hub. set (k := Zfloor q) in *.
  destruct (Rle_lt_dec (t - IZR k * dt) tol) as [H1|H1].
  - left. exists k. apply Rabs_le. nra.
  - destruct (Rle_lt_dec (IZR (k + 1) * dt - t) tol) as [H2|H2].
    + left. exists (k + 1)%Z. rewrite plus_IZR in *. change (IZR 1) with 1 in *. apply Rabs_le. nra.
    + right. exists k. split; lra.
Qed.

(* the hypothesis of DESIGN's select_off_grid: no grid point within tolerance *)
Lemma off_grid_between t : (forall k, tol < Rabs (IZR k * dt - t)) -> between (Zfloor (t / dt)) t.
Proof.
  intros H. destruct (grid_or_between t) as [(k & Hk)|(k & Hk)].
  - specialize (H k). lra.
  - destruct (between_floor_ceil t k Hk) as (-> & _). exact Hk.
Qed.

(* the grid point within tolerance is unique *)
Lemma grid_unique t k k' : Rabs (IZR k * dt - t) <= tol -> Rabs (IZR k' * dt - t) <= tol -> k = k'.
Proof.
  intros H H'. destruct (on_grid_k t k H) as (_ & <-). destruct (on_grid_k t k' H') as (_ & <-). reflexivity.
Qed.
Lemma grid_not_between t k k' : Rabs (IZR k * dt - t) <= tol -> between k' t -> False.
Proof.
  intros H Hb. destruct (on_grid_k t k H) as (E & _). rewrite (between_off_grid t k' Hb) in E. discriminate.
Qed.

(* sample_at = dt - dt * (shift % 1) is the time elapsed since the older bracketing sample *)
Lemma sample_at_between t k : between k t -> sample_at RN dt (shift_of RN dt t) = IZR (k + 1) * dt - t.
Proof.
  intros Hb. destruct (between_floor_ceil t k Hb) as (Hf & _).
  unfold sample_at, frac1, shift_of. rn_simpl. rewrite Hf. rewrite plus_IZR. change (IZR 1) with 1.
  pose proof (shift_mul t). nra.
Qed.
Lemma sample_at_between_range t k : between k t -> 0 < IZR (k + 1) * dt - t < dt.
Proof. intros (H1 & H2). rewrite plus_IZR in *. change (IZR 1) with 1 in *. lra. Qed.

(* offset + shift: ceil is the older index, floor the newer *)
Lemma ceil_off_between t k (off : Z) : between k t ->
  ceilZ RN (add RN (ofZ RN off) (shift_of RN dt t)) = (off + k + 1)%Z /\
  floorZ RN (add RN (ofZ RN off) (shift_of RN dt t)) = (off + k)%Z.
Proof.
  intros Hb. destruct Hb as (H1 & H2). unfold shift_of. rn_simpl.
  pose proof (shift_mul t) as Hq. set (q := t / dt) in *.
  rewrite plus_IZR in H2. change (IZR 1) with 1 in H2.
  split.
  - apply Zceil_imp. replace (off + k + 1 - 1)%Z with (off + k)%Z by lia.
    rewrite !plus_IZR. change (IZR 1) with 1. split; nra.
  - apply Zfloor_imp. rewrite !plus_IZR. change (IZR 1) with 1. split; nra.
Qed.

Lemma snapped_grid t k : Rabs (IZR k * dt - t) <= tol -> snapped RN dt tol t = IZR k.
Proof. intros H. destruct (on_grid_k t k H) as (E1 & E2). unfold snapped. rewrite E1, E2. reflexivity. Qed.
Lemma snapped_between t k : between k t -> snapped RN dt tol t = shift_of RN dt t.
Proof. intros H. unfold snapped. rewrite (between_off_grid t k H). reflexivity. Qed.

Lemma ceil_floor_int (off k : Z) :
  ceilZ RN (add RN (ofZ RN off) (IZR k)) = (off + k)%Z /\ floorZ RN (add RN (ofZ RN off) (IZR k)) = (off + k)%Z.
Proof. rn_simpl. rewrite <- plus_IZR. split; [apply Zceil_IZR|apply Zfloor_IZR]. Qed.

(* range validation *)
Definition in_range (n : nat) (t : R) : Prop := - tol <= t <= dt * IZR (Z.of_nat n - 1) + tol.

Lemma out_of_range_iff n t : out_of_range RN n dt tol t = true <-> (t < - tol \/ dt * IZR (Z.of_nat n - 1) + tol < t).
Proof.
  unfold out_of_range, gtb. rn_simpl.
  destruct (Rltb'_spec t (- tol)); destruct (Rltb'_spec (dt * IZR (Z.of_nat n - 1) + tol) t); cbn [orb];
    split; intros; try tauto; try discriminate.
Qed.
Lemma in_range_ok n t : in_range n t -> out_of_range RN n dt tol t = false.
Proof.
  intros (H1 & H2). destruct (out_of_range RN n dt tol t) eqn:E; [|reflexivity].
  apply out_of_range_iff in E. lra.
Qed.
Lemma out_of_range_false n t : out_of_range RN n dt tol t = false -> in_range n t.
Proof.
  intros E. unfold in_range. destruct (Rlt_le_dec t (- tol)) as [H|H].
  - assert (X : out_of_range RN n dt tol t = true) by (apply out_of_range_iff; left; exact H). congruence.
  - destruct (Rlt_le_dec (dt * IZR (Z.of_nat n - 1) + tol) t) as [H'|H'].
    + assert (X : out_of_range RN n dt tol t = true) by (apply out_of_range_iff; right; exact H'). congruence.
    + lra.
Qed.

(* a time strictly between two grid points and in range lies between slots 0 and n-1 *)
Lemma between_in_range n t k : in_range n t -> between k t -> (0 <= k /\ k + 1 <= Z.of_nat n - 1)%Z.
Proof.
  intros (H1 & H2) (H3 & H4). rewrite plus_IZR in H4. change (IZR 1) with 1 in H4.
  split.
  - destruct (Z_lt_le_dec k 0) as [Hlt|]; [|assumption]. exfalso.
    assert (Hle : (k + 1 <= 0)%Z) by lia. apply IZR_le in Hle. rewrite plus_IZR in Hle. change (IZR 1) with 1 in Hle. nra.
  - destruct (Z_lt_le_dec (Z.of_nat n - 1) (k + 1)) as [Hlt|]; [|assumption]. exfalso.
    assert (Hle : (Z.of_nat n - 1 <= k)%Z) by lia. apply IZR_le in Hle. nra.
Qed.


(* ------------------------------------------------------------------ shapes *)
(* C01's well-formedness plus: every stored observation has the number of elements of the shape *)
Definition wfS (s : ringR) : Prop :=
  wf s /\ match st s with SFull _ sh rws => Forall (fun r => length r = nel sh) rws | _ => True end.

Lemma full_st (s : ringR) : full s -> exists d sh, st s = SFull d sh (rows s).
Proof. unfold full, rows. destruct (st s) as [| |d sh r]; try contradiction. intros _. exists d, sh. reflexivity. Qed.

Lemma l_nth_upd {X} (d : X) (l : list X) i o j : (i < length l)%nat ->
  nth j (upd l i o) d = if Nat.eqb j i then o else nth j l d.
Proof.
  revert i j; induction l as [|h t IH]; intros i j Hi; [cbn in Hi; lia|].
  destruct i as [|i], j as [|j]; cbn; auto. apply IH. cbn in Hi; lia.
Qed.
Lemma l_upd_length {X} (l : list X) i o : length (upd l i o) = length l.
Proof. revert i; induction l as [|h t IH]; intros [|i]; cbn; auto. Qed.
Lemma l_nth_map_seq {X} (d : X) (f : nat -> X) n i : (i < n)%nat -> nth i (map f (seq 0 n)) d = f i.
Proof.
  intros Hi. rewrite (nth_indep _ d (f 0%nat)) by (rewrite map_length, seq_length; lia).
  rewrite map_nth, seq_nth by lia. reflexivity.
Qed.
Lemma Forall_nth_len {X} (l : list (list X)) m i : Forall (fun r => length r = m) l -> (i < length l)%nat ->
  length (nth i l []) = m.
Proof. intros H Hi. rewrite Forall_forall in H. apply H. apply nth_In. exact Hi. Qed.

Lemma idx_ltR (s : ringR) k : wf s -> (idx s k < N s)%nat.
Proof. exact (@idx_lt R unit (castU RN) 0 s k). Qed.
Lemma idx_eq_iffR (s : ringR) k k' : wf s ->
  (idx s k = idx s k' <-> (k mod Z.of_nat (N s) = k' mod Z.of_nat (N s))%Z).
Proof. exact (@idx_eq_iff R unit (castU RN) 0 s k k'). Qed.

Lemma at_length (s : ringR) d sh k : wfS s -> st s = SFull d sh (rows s) -> length (at_ s k) = nel sh.
Proof.
  intros ((Hn & Hp & Hl) & Hs) Est. rewrite Est in Hs, Hl. unfold at_.
  apply Forall_nth_len; [exact Hs|]. rewrite Hl. apply idx_ltR. repeat split; auto. rewrite Est. exact Hl.
Qed.

Lemma zipw_length {X Y Z} (f : X -> Y -> Z) l1 l2 : length (zipw f l1 l2) = Nat.min (length l1) (length l2).
Proof. unfold zipw. rewrite map_length, combine_length. reflexivity. Qed.
Lemma nth_zipw {X Y Z} (f : X -> Y -> Z) l1 l2 dx dy dz e : (e < length l1)%nat -> length l1 = length l2 ->
  nth e (zipw f l1 l2) dz = f (nth e l1 dx) (nth e l2 dy).
Proof.
  intros H1 H2. unfold zipw.
  rewrite (nth_indep _ dz (f (fst (dx, dy)) (snd (dx, dy)))) by (rewrite map_length, combine_length; lia).
  rewrite (map_nth (fun p => f (fst p) (snd p))). rewrite combine_nth by exact H2. reflexivity.
Qed.

(* ------------------------------------------------------------------ select, scalar time *)
(* on the grid (within tolerance of k*dt): exactly the stored observation off+k steps back,
   whatever the interpolation *)
Theorem select_scalar_on_grid (s : ringR) off t k interp : wf s -> full s -> in_range (N s) t ->
  Rabs (IZR k * dt - t) <= tol ->
  exists d sh, st s = SFull d sh (rows s) /\
    select_scalar RN s dt tol off t interp = Ok s (OObs d sh (at_ s (off + k))).
Proof.
  intros Hwf Hf Hr Hk. destruct (full_st s Hf) as (d & sh & Est). exists d, sh. split; [exact Est|].
  destruct (on_grid_k t k Hk) as (Eg & Er).
  unfold select_scalar. rn_simpl. rewrite Est, (in_range_ok _ _ Hr), Eg, Er. reflexivity.
Qed.

(* strictly between k*dt and (k+1)*dt: the interpolation of the older sample (off+k+1 steps back), the
   newer sample (off+k steps back) and the time elapsed since the older one, (k+1)*dt - t *)
Theorem select_scalar_off_grid (s : ringR) off t k interp : wf s -> full s -> in_range (N s) t ->
  between k t ->
  exists d sh, st s = SFull d sh (rows s) /\
    select_scalar RN s dt tol off t interp =
    Ok s (OObs d sh (zipw (fun p n => interp p n (IZR (k + 1) * dt - t) dt) (at_ s (off + k + 1)) (at_ s (off + k)))).
Proof.
  intros Hwf Hf Hr Hb. destruct (full_st s Hf) as (d & sh & Est). exists d, sh. split; [exact Est|].
  destruct (ceil_off_between t k off Hb) as (Ec & Efl).
  unfold select_scalar. rn_simpl. rewrite Est, (in_range_ok _ _ Hr), (between_off_grid t k Hb), Ec, Efl, (sample_at_between t k Hb).
  reflexivity.
Qed.

(* the same with the hypothesis "no grid point within tolerance" and floor / ceiling of t/dt *)
Corollary select_scalar_off_grid_floor (s : ringR) off t interp : wf s -> full s -> in_range (N s) t ->
  (forall k, tol < Rabs (IZR k * dt - t)) ->
  exists d sh, st s = SFull d sh (rows s) /\
    select_scalar RN s dt tol off t interp =
    Ok s (OObs d sh (zipw (fun p n => interp p n (IZR (Zceil (t / dt)) * dt - t) dt)
                          (at_ s (off + Zceil (t / dt))) (at_ s (off + Zfloor (t / dt))))).
Proof.
  intros Hwf Hf Hr Hk. pose proof (off_grid_between t Hk) as Hb.
  destruct (between_floor_ceil t _ Hb) as (_ & Ec). rewrite Ec.
  replace (off + (Zfloor (t / dt) + 1))%Z with (off + Zfloor (t / dt) + 1)%Z by lia.
  apply select_scalar_off_grid; assumption.
Qed.

(* times outside [-tol, dt*(N-1)+tol] are rejected, and only those *)
Theorem select_scalar_range (s : ringR) off t interp : full s ->
  (select_scalar RN s dt tol off t interp = Err EValue <-> (t < - tol \/ dt * IZR (Z.of_nat (N s) - 1) + tol < t)).
Proof.
  intros Hf. destruct (full_st s Hf) as (d & sh & Est). rewrite <- out_of_range_iff.
  unfold select_scalar. rn_simpl. rewrite Est. destruct (out_of_range RN (N s) dt tol t); [tauto|].
  split; [|discriminate]. destruct (on_grid RN dt tol t); discriminate.
Qed.
Theorem select_scalar_uninit (s : ringR) off t interp : ~ full s -> select_scalar RN s dt tol off t interp = Err ERuntime.
Proof. unfold full, select_scalar. rn_simpl. destruct (st s); intros H; try reflexivity. exfalso; apply H; exact I. Qed.

(* ------------------------------------------------------------------ select, tensor time *)
Lemma existsb_in_range n (ts : list R) : Forall (in_range n) ts -> existsb (out_of_range RN n dt tol) ts = false.
Proof.
  intros Hr. apply not_true_is_false. intros E. apply existsb_exists in E. destruct E as (t & Hin & Ht).
  rewrite Forall_forall in Hr. rewrite (in_range_ok _ _ (Hr t Hin)) in Ht. discriminate.
Qed.
Lemma ndim_ok (tnd : nat) (sh : list nat) : (tnd = length sh \/ tnd = S (length sh)) ->
  (tnd =? length sh)%nat || (tnd =? S (length sh))%nat = true.
Proof. intros [->| ->]; rewrite Nat.eqb_refl; auto using orb_true_r. Qed.

Lemma sel_elem_on_grid (s : ringR) off interp e t k : Rabs (IZR k * dt - t) <= tol ->
  sel_elem RN s (rows s) dt tol off interp e t = nth e (at_ s (off + k)) 0.
Proof.
  intros Hk. unfold sel_elem. rewrite (snapped_grid t k Hk).
  destruct (ceil_floor_int off k) as (-> & ->). rewrite Z.eqb_refl. reflexivity.
Qed.
Lemma sel_elem_off_grid (s : ringR) off interp e t k : between k t ->
  sel_elem RN s (rows s) dt tol off interp e t =
  interp (nth e (at_ s (off + k + 1)) 0) (nth e (at_ s (off + k)) 0) (IZR (k + 1) * dt - t) dt.
Proof.
  intros Hb. unfold sel_elem. rewrite (snapped_between t k Hb).
  destruct (ceil_off_between t k off Hb) as (-> & ->). rewrite (sample_at_between t k Hb).
  replace (off + k + 1 =? off + k)%Z with false by (symmetry; apply Z.eqb_neq; lia). reflexivity.
Qed.

Definition sel_row (r : @result R unit) : list R :=
  match r with Ok _ (OObs _ _ row) => row | _ => [] end.

(* element e of the tensor-time result at time t is element e of the scalar-time result at time t *)
Theorem sel_elem_scalar (s : ringR) off interp e t d sh : wfS s -> st s = SFull d sh (rows s) ->
  in_range (N s) t -> (e < nel sh)%nat ->
  sel_elem RN s (rows s) dt tol off interp e t = nth e (sel_row (select_scalar RN s dt tol off t interp)) 0.
Proof.
  intros Hwf Est Hr He. assert (Hf : full s) by (unfold full; rewrite Est; exact I).
  destruct (grid_or_between t) as [(k & Hk)|(k & Hb)].
  - destruct (select_scalar_on_grid s off t k interp (proj1 Hwf) Hf Hr Hk) as (d' & sh' & _ & ->).
    cbn [sel_row]. apply sel_elem_on_grid; exact Hk.
  - destruct (select_scalar_off_grid s off t k interp (proj1 Hwf) Hf Hr Hb) as (d' & sh' & _ & ->).
    cbn [sel_row]. rewrite (sel_elem_off_grid s off interp e t k Hb).
    rewrite (nth_zipw _ _ _ 0 0 0); [reflexivity| |]; rewrite !(at_length s d sh) by assumption; auto.
Qed.

(* scalar-time and tensor-time select agree element-wise (squeezed and unsqueezed output) *)
Theorem select_tensor_scalar_agree (s : ringR) off tnd times interp d sh : wfS s -> st s = SFull d sh (rows s) ->
  (tnd = length sh \/ tnd = S (length sh)) ->
  Forall (in_range (N s)) (concat times) -> (nel sh <= length times)%nat ->
  let cols := map (fun e => map (fun t => nth e (sel_row (select_scalar RN s dt tol off t interp)) 0) (nth e times []))
                  (seq 0 (nel sh)) in
  select_tensor RN s dt tol off tnd times interp =
  if (tnd =? length sh)%nat then Ok s (OObs d sh (map (fun c => hd 0 c) cols)) else Ok s (ORng (mkRng d sh cols)).
Proof.
  intros Hwf Est Hnd Hr Hlen cols. unfold select_tensor. rn_simpl. rewrite Est.
  rewrite (ndim_ok _ _ Hnd). cbn [negb]. rw (existsb_in_range _ _ Hr).
  assert (Ecols : map (fun e => map (sel_elem RN s (rows s) dt tol off interp e) (nth e times [])) (seq 0 (nel sh)) = cols).
  { unfold cols. apply map_ext_in. intros e He. apply in_seq in He. apply map_ext_in. intros t Ht.
    apply (sel_elem_scalar s off interp e t d sh Hwf Est); [|lia].
    rewrite Forall_forall in Hr. apply Hr. apply in_concat. exists (nth e times []). split; [|exact Ht].
    apply nth_In. lia. }
  rn_simpl. rewrite Ecols. reflexivity.
Qed.

(* tensor-time select, stated directly against the spec, one element and one time at a time *)
Theorem select_tensor_spec (s : ringR) off tnd times interp d sh : wfS s -> st s = SFull d sh (rows s) ->
  (tnd = length sh \/ tnd = S (length sh)) -> Forall (in_range (N s)) (concat times) ->
  exists cols,
    select_tensor RN s dt tol off tnd times interp =
      (if (tnd =? length sh)%nat then Ok s (OObs d sh (map (fun c => hd 0 c) cols)) else Ok s (ORng (mkRng d sh cols))) /\
    length cols = nel sh /\
    forall e j, (e < nel sh)%nat -> (j < length (nth e times []))%nat ->
      let t := nth j (nth e times []) 0 in
      length (nth e cols []) = length (nth e times []) /\
      (forall k, Rabs (IZR k * dt - t) <= tol -> nth j (nth e cols []) 0 = nth e (at_ s (off + k)) 0) /\
      (forall k, between k t -> nth j (nth e cols []) 0 =
         interp (nth e (at_ s (off + k + 1)) 0) (nth e (at_ s (off + k)) 0) (IZR (k + 1) * dt - t) dt).
Proof.
  intros Hwf Est Hnd Hr.
  exists (map (fun e => map (sel_elem RN s (rows s) dt tol off interp e) (nth e times [])) (seq 0 (nel sh))).
  split; [|split].
  - unfold select_tensor. rn_simpl. rewrite Est.
    rewrite (ndim_ok _ _ Hnd). cbn [negb]. rw (existsb_in_range _ _ Hr). reflexivity.
  - rewrite map_length, seq_length. reflexivity.
  - intros e j He Hj t. rewrite (l_nth_map_seq []) by exact He. split; [apply map_length|].
    rewrite (nth_indep _ 0 (sel_elem RN s (rows s) dt tol off interp e 0)) by (rewrite map_length; exact Hj).
    rewrite map_nth. fold t. split; intros k Hk.
    + apply sel_elem_on_grid; exact Hk.
    + apply sel_elem_off_grid; exact Hk.
Qed.

Theorem select_tensor_range (s : ringR) off tnd times interp d sh : st s = SFull d sh (rows s) ->
  (tnd = length sh \/ tnd = S (length sh)) ->
  (select_tensor RN s dt tol off tnd times interp = Err EValue <->
   exists t, In t (concat times) /\ (t < - tol \/ dt * IZR (Z.of_nat (N s) - 1) + tol < t)).
Proof.
  intros Est Hnd. unfold select_tensor. rn_simpl. rewrite Est.
  rewrite (ndim_ok _ _ Hnd). cbn [negb]. match goal with |- context [if ?b then Err EValue else _] => destruct b eqn:E end.
  - split; [intros _|reflexivity]. apply existsb_exists in E. destruct E as (t & Hin & Ht).
    exists t. split; [exact Hin|]. apply out_of_range_iff; exact Ht.
  - split; [destruct (tnd =? length sh)%nat; discriminate|].
    intros (t & Hin & Ht). apply out_of_range_iff in Ht.
    assert (X : existsb (out_of_range RN (N s) dt tol) (concat times) = true) by (apply existsb_exists; eauto). rn_simpl. congruence.
Qed.

(* ------------------------------------------------------------------ helpers for insert *)
Lemma map_castU d (l : list R) : map (castU RN d) l = l.
Proof. induction l as [|a l IH]; cbn [map]; [reflexivity|]. rewrite IH. reflexivity. Qed.

Lemma if_castU (b : bool) d (l1 l2 : list R) : (if b then map (castU RN d) l1 else l2) = (if b then l1 else l2).
Proof. destruct b; [apply map_castU|reflexivity]. Qed.

Lemma nth_map_fst e (l : list (R * R)) : nth e (map fst l) 0 = fst (nth e l (0, 0)).
Proof. exact (map_nth fst l (0, 0) e). Qed.
Lemma nth_map_snd e (l : list (R * R)) : nth e (map snd l) 0 = snd (nth e l (0, 0)).
Proof. exact (map_nth snd l (0, 0) e). Qed.

Lemma nth_map_hd e (cols : list (list R)) : nth e (map (fun c => hd 0 c) cols) 0 = hd 0 (nth e cols []).
Proof. exact (map_nth (fun c : list R => hd 0 c) cols [] e). Qed.

Lemma rows_length (s : ringR) : wf s -> full s -> length (rows s) = N s.
Proof. intros (_ & _ & Hl) Hf. unfold full, rows in *. destruct (st s); try contradiction. exact Hl. Qed.

(* every stored row is the observation some number of steps back *)
Lemma rows_forall_at (s : ringR) (P : list R -> Prop) : wf s -> full s -> (forall j, P (at_ s j)) -> Forall P (rows s).
Proof.
  intros Hwf Hf H. pose proof (rows_length s Hwf Hf) as Hl. destruct Hwf as (Hn & Hp & _).
  apply Forall_forall. intros r Hin. destruct (In_nth _ _ [] Hin) as (i & Hi & <-).
  specialize (H (Z.of_nat (ptr s) - Z.of_nat i)%Z). unfold at_, idx, unwind, _unwind_ptr in H.
  replace (Z.of_nat (ptr s) - (Z.of_nat (ptr s) - Z.of_nat i))%Z with (Z.of_nat i) in H by lia.
  rewrite Z.mod_small in H by lia. rewrite Nat2Z.id in H. exact H.
Qed.

Lemma wfS_intro (s : ringR) d sh : wf s -> st s = SFull d sh (rows s) -> (forall j, length (at_ s j) = nel sh) -> wfS s.
Proof.
  intros Hwf Est H. split; [exact Hwf|]. rewrite Est.
  apply rows_forall_at; [exact Hwf| |exact H]. unfold full. rewrite Est. exact I.
Qed.

Lemma shape_refl sh : shape_eqb sh sh = true.
Proof.
  unfold shape_eqb. rewrite Nat.eqb_refl. cbn [andb].
  induction sh as [|a l IH]; cbn; [reflexivity|]. rewrite Nat.eqb_refl. exact IH.
Qed.

Lemma hit_cases (s : ringR) off j : wf s -> (2 <= N s)%nat ->
  (hit s off j = 0%nat <-> (j mod Z.of_nat (N s) = off mod Z.of_nat (N s))%Z) /\
  (hit s off j = 1%nat <-> (j mod Z.of_nat (N s) = (off - 1) mod Z.of_nat (N s))%Z).
Proof.
  intros Hwf Hn. unfold hit. set (n := Z.of_nat (N s)). assert (Hn' : (2 <= n)%Z) by (unfold n; lia).
  pose proof (Z.mod_pos_bound (off - j) n ltac:(lia)) as Hb.
  split.
  - rewrite <- (@mod_sub_cong R unit (castU RN) 0 off j off n) by lia.
    replace (off - off)%Z with 0%Z by lia. rewrite Z.mod_0_l by lia. lia.
  - rewrite <- (@mod_sub_cong R unit (castU RN) 0 off j (off - 1) n) by lia.
    replace (off - (off - 1))%Z with 1%Z by lia. rewrite Z.mod_1_l by lia. lia.
Qed.

Lemma mod_succ_neq (a n : Z) : (2 <= n)%Z -> (a mod n <> (a + 1) mod n)%Z.
Proof.
  intros Hn E. pose proof (proj2 (@mod_sub_cong R unit (castU RN) 0 (a + 1) a (a + 1) n ltac:(lia)) E) as H.
  replace (a + 1 - a)%Z with 1%Z in H by lia. replace (a + 1 - (a + 1))%Z with 0%Z in H by lia.
  rewrite Z.mod_1_l, Z.mod_0_l in H by lia. lia.
Qed.

(* ------------------------------------------------------------------ insert, scalar time *)
(* on the grid: the observation is written exactly onto slot off+k, nothing else changes;
   in-place and out-of-place alike *)
Theorem insert_scalar_on_grid (s : ringR) (o : obsR) off t k extrap inplace d sh :
  wfS s -> st s = SFull d sh (rows s) -> shape_eqb (oshape o) sh = true -> length (oel o) = nel sh ->
  in_range (N s) t -> Rabs (IZR k * dt - t) <= tol ->
  exists s', insert_scalar RN s o dt tol off t extrap inplace = Ok s' OUnit /\
    wfS s' /\ N s' = N s /\ ptr s' = ptr s /\ st s' = SFull d sh (rows s') /\
    forall j, at_ s' j = if (j mod Z.of_nat (N s) =? (off + k) mod Z.of_nat (N s))%Z then oel o else at_ s j.
Proof.
  intros Hwf Est Hsh Hlen Hr Hk. assert (Hf : full s) by (unfold full; rewrite Est; exact I).
  destruct (on_grid_k t k Hk) as (Eg & Er).
  destruct (write_spec (castU RN) promU eqbU 0 s o (off + k) inplace (proj1 Hwf) Hf) as (d0 & sh0 & Est0 & Hw).
  rn_simpl. rewrite Est in Est0. injection Est0 as <- <-. rewrite Hsh in Hw.
  destruct Hw as (s' & Hw & HN & Hp & Est' & Hl' & Hat).
  exists s'. split.
  - unfold insert_scalar. rn_simpl. rewrite Est, Hsh. cbn [negb]. rw (in_range_ok _ _ Hr). rw Eg. rw Er. exact Hw.
  - assert (Hat' : forall j, at_ s' j = if (j mod Z.of_nat (N s) =? (off + k) mod Z.of_nat (N s))%Z then oel o else at_ s j).
    { intros j. rewrite Hat, map_castU. reflexivity. }
    assert (Hwf' : wf s') by (eapply wf_write; [exact promU|exact eqbU|exact 0|exact (proj1 Hwf)|exact Hw]).
    split; [|auto].
    apply (wfS_intro s' d sh Hwf' Est'). intros j. rewrite Hat'.
    destruct (_ =? _)%Z; [exact Hlen|apply (at_length s d sh); assumption].
Qed.
(* strictly between two grid points: the two bracketing slots receive the extrapolated pair (older
   slot off+k+1 the first component, newer slot off+k the second), nothing else changes; the
   in-place path and the out-of-place path (through writerange) produce the same record *)
Theorem insert_scalar_off_grid (s : ringR) (o : obsR) off t k extrap inplace d sh :
  wfS s -> st s = SFull d sh (rows s) -> shape_eqb (oshape o) sh = true -> length (oel o) = nel sh ->
  (0 < nel sh)%nat -> in_range (N s) t -> between k t ->
  let sa := IZR (k + 1) * dt - t in
  let ex := zipw (fun x pn => extrap x sa (fst pn) (snd pn) dt) (oel o)
                 (combine (at_ s (off + k + 1)) (at_ s (off + k))) in
  exists s', insert_scalar RN s o dt tol off t extrap inplace = Ok s' OUnit /\
    wfS s' /\ N s' = N s /\ ptr s' = ptr s /\ st s' = SFull d sh (rows s') /\
    forall j, at_ s' j =
      if (j mod Z.of_nat (N s) =? (off + k) mod Z.of_nat (N s))%Z then map snd ex
      else if (j mod Z.of_nat (N s) =? (off + k + 1) mod Z.of_nat (N s))%Z then map fst ex
      else at_ s j.
Proof.
  intros Hwf Est Hsh Hlen Hnel Hr Hb sa ex. assert (Hf : full s) by (unfold full; rewrite Est; exact I).
  pose proof (proj1 Hwf) as Hwf0. pose proof Hwf0 as (Hn & Hp & Hl0). rewrite Est in Hl0.
  destruct (between_in_range (N s) t k Hr Hb) as (Hk0 & Hk1). assert (HN2 : (2 <= N s)%nat) by lia.
  destruct (ceil_off_between t k off Hb) as (Ec & Efl).
  pose proof (at_length s d sh (off + k + 1) Hwf Est) as Hlp. pose proof (at_length s d sh (off + k) Hwf Est) as Hln.
  assert (Hexl : length ex = nel sh).
  { unfold ex. rewrite zipw_length, combine_length, Hlp, Hln, Hlen. lia. }
  assert (Hneq : ((off + k) mod Z.of_nat (N s) <> (off + k + 1) mod Z.of_nat (N s))%Z) by (apply mod_succ_neq; lia).
  (* the common conclusion from a characterisation of at_ s' *)
  assert (Hfin : forall s', wf s' -> N s' = N s -> ptr s' = ptr s -> st s' = SFull d sh (rows s') ->
            (forall j, at_ s' j =
               if (j mod Z.of_nat (N s) =? (off + k) mod Z.of_nat (N s))%Z then map snd ex
               else if (j mod Z.of_nat (N s) =? (off + k + 1) mod Z.of_nat (N s))%Z then map fst ex
               else at_ s j) -> wfS s').
  { intros s' Hwf' _ _ Est' Hat. apply (wfS_intro s' d sh Hwf' Est'). intros j. rewrite Hat.
    destruct (_ =? _)%Z; [rewrite map_length; exact Hexl|].
    destruct (_ =? _)%Z; [rewrite map_length; exact Hexl|apply (at_length s d sh); assumption]. }
  unfold insert_scalar. rn_simpl. rewrite Est, Hsh. cbn [negb]. rw (in_range_ok _ _ Hr). rw (between_off_grid t k Hb).
  rw Ec. rw Efl. rw (sample_at_between t k Hb).
  change (nth (idx s (off + k + 1)) (rows s) []) with (at_ s (off + k + 1)).
  change (nth (idx s (off + k)) (rows s) []) with (at_ s (off + k)).
  fold sa. fold ex.
  destruct inplace.
  - (* in place: two indexed assignments *)
    eexists. split; [reflexivity|].
    set (s' := set_st s _).
    assert (Hat : forall j, at_ s' j =
               if (j mod Z.of_nat (N s) =? (off + k) mod Z.of_nat (N s))%Z then map snd ex
               else if (j mod Z.of_nat (N s) =? (off + k + 1) mod Z.of_nat (N s))%Z then map fst ex
               else at_ s j).
    { intros j. unfold at_ at 1. change (idx s' j) with (idx s j).
      change (rows s') with (upd (upd (rows s) (idx s (off + k + 1)) (map fst ex)) (idx s (off + k)) (map snd ex)).
      pose proof (idx_ltR s (off + k) Hwf0). pose proof (idx_ltR s (off + k + 1) Hwf0).
      rewrite l_nth_upd by (rewrite l_upd_length; lia). rewrite l_nth_upd by lia.
      pose proof (idx_eq_iffR s j (off + k) Hwf0) as I1. pose proof (idx_eq_iffR s j (off + k + 1) Hwf0) as I2.
      destruct (Nat.eqb_spec (idx s j) (idx s (off + k))) as [E1|E1];
        destruct (Z.eqb_spec (j mod Z.of_nat (N s)) ((off + k) mod Z.of_nat (N s))) as [Z1|Z1]; try tauto; try reflexivity.
      destruct (Nat.eqb_spec (idx s j) (idx s (off + k + 1))) as [E2|E2];
        destruct (Z.eqb_spec (j mod Z.of_nat (N s)) ((off + k + 1) mod Z.of_nat (N s))) as [Z2|Z2]; try tauto; try reflexivity. }
    assert (Hwf' : wf s').
    { unfold s', wf, set_st; cbn [st N ptr]. rewrite !l_upd_length. auto. }
    assert (Est' : st s' = SFull d sh (rows s')) by reflexivity.
    split; [apply Hfin; auto|]. auto.
  - (* out of place: a forward range write of the two columns at the older slot *)
    set (r := mkRng d sh (map (fun pn : R * R => [fst pn; snd pn]) ex)).
    assert (Hex : ex <> []) by (intros E; rewrite E in Hexl; cbn in Hexl; lia).
    assert (Hrl : range_len r = 2%nat).
    { unfold range_len, r; cbn [rcols]. destruct ex as [|x ex']; [congruence|reflexivity]. }
    destruct (writerange_scalar_spec (castU RN) promU eqbU 0 s r (off + k + 1) true false Hwf0 Hf) as (d0 & sh0 & Est0 & Hw).
    { rw Hrl. lia. }
    { rw Hrl. unfold r; cbn [rcols]. apply Forall_forall. intros c Hc. apply in_map_iff in Hc. destruct Hc as (pn & <- & _). reflexivity. }
    rn_simpl. rewrite Est in Est0. injection Est0 as <- <-.
    destruct (Hw (shape_refl sh)) as (s' & d' & Hw' & Hwf' & HN' & Hp' & Est' & Hd' & Hat). clear Hw.
    exists s'. split; [exact Hw'|]. assert (Ed : d' = d) by (destruct d, d'; reflexivity). rewrite Ed in Est'. clear Hd'.
    assert (Hat2 : forall j, at_ s' j =
               if (j mod Z.of_nat (N s) =? (off + k) mod Z.of_nat (N s))%Z then map snd ex
               else if (j mod Z.of_nat (N s) =? (off + k + 1) mod Z.of_nat (N s))%Z then map fst ex
               else at_ s j).
    { intros j. rewrite Hat. rewrite Hrl. unfold shift_off.
      destruct (hit_cases s (off + k + 1) j Hwf0 HN2) as (H0 & H1).
      replace (off + k + 1 - 1)%Z with (off + k)%Z in H1 by lia.
      assert (C0 : col 0 (rcols r) 0 = map fst ex) by (unfold col, r; cbn [rcols]; rewrite map_map; reflexivity).
      assert (C1 : col 0 (rcols r) 1 = map snd ex) by (unfold col, r; cbn [rcols]; rewrite map_map; reflexivity).
      assert (Hval : (if (hit s (off + k + 1) j <? 2)%nat then col 0 (rcols r) (hit s (off + k + 1) j) else at_ s j) =
               if (j mod Z.of_nat (N s) =? (off + k) mod Z.of_nat (N s))%Z then map snd ex
               else if (j mod Z.of_nat (N s) =? (off + k + 1) mod Z.of_nat (N s))%Z then map fst ex
               else at_ s j).
      { destruct (Z.eqb_spec (j mod Z.of_nat (N s)) ((off + k) mod Z.of_nat (N s))) as [Z1|Z1].
        - rewrite (proj2 H1 Z1). cbn [Nat.ltb Nat.leb]. exact C1.
        - destruct (Z.eqb_spec (j mod Z.of_nat (N s)) ((off + k + 1) mod Z.of_nat (N s))) as [Z2|Z2].
          + rewrite (proj2 H0 Z2). cbn [Nat.ltb Nat.leb]. exact C0.
          + destruct (Nat.ltb_spec (hit s (off + k + 1) j) 2) as [Hlt|]; [|reflexivity].
            exfalso. destruct (hit s (off + k + 1) j) as [|[|h]] eqn:Eh; [apply Z2; tauto|apply Z1; tauto|lia]. }
      rewrite if_castU, map_castU.
      match goal with |- (if ?b then _ else _) = _ => destruct b end; exact Hval. }
    split; [apply Hfin; auto|]. auto.
Qed.


(* insert rejects exactly the times outside [-tol, dt*(N-1)+tol] *)
Theorem insert_scalar_range (s : ringR) (o : obsR) off t extrap inplace d sh :
  wfS s -> st s = SFull d sh (rows s) -> shape_eqb (oshape o) sh = true -> length (oel o) = nel sh -> (0 < nel sh)%nat ->
  (insert_scalar RN s o dt tol off t extrap inplace = Err EValue <-> (t < - tol \/ dt * IZR (Z.of_nat (N s) - 1) + tol < t)).
Proof.
  intros Hwf Est Hsh Hlen Hnel. rewrite <- out_of_range_iff. split.
  - intros E. destruct (out_of_range RN (N s) dt tol t) eqn:Eo; [reflexivity|]. exfalso.
    apply out_of_range_false in Eo.
    destruct (grid_or_between t) as [(k & Hk)|(k & Hb)].
    + destruct (insert_scalar_on_grid s o off t k extrap inplace d sh Hwf Est Hsh Hlen Eo Hk) as (s' & E' & _). congruence.
    + destruct (insert_scalar_off_grid s o off t k extrap inplace d sh Hwf Est Hsh Hlen Hnel Eo Hb) as (s' & E' & _). congruence.
  - intros E. unfold insert_scalar. rn_simpl. rewrite Est, Hsh. cbn [negb]. rw E. reflexivity.
Qed.
Theorem insert_scalar_uninit (s : ringR) (o : obsR) off t extrap inplace : ~ full s ->
  insert_scalar RN s o dt tol off t extrap inplace = Err ERuntime.
Proof. unfold full, insert_scalar. rn_simpl. destruct (st s); intros H; try reflexivity. exfalso; apply H; exact I. Qed.

(* two well-formed records with the same size, pointer, type, shape and the same observation at every
   number of steps back are the same record *)
Lemma ring_ext (s1 s2 : ringR) d sh : wf s1 -> wf s2 -> N s1 = N s2 -> ptr s1 = ptr s2 ->
  st s1 = SFull d sh (rows s1) -> st s2 = SFull d sh (rows s2) -> (forall j, at_ s1 j = at_ s2 j) -> s1 = s2.
Proof.
  intros Hwf1 Hwf2 HN Hp E1 E2 Hat.
  assert (Hf1 : full s1) by (unfold full; rewrite E1; exact I). assert (Hf2 : full s2) by (unfold full; rewrite E2; exact I).
  pose proof (rows_length s1 Hwf1 Hf1) as L1. pose proof (rows_length s2 Hwf2 Hf2) as L2.
  assert (Hrows : rows s1 = rows s2).
  { apply nth_ext with (d := []) (d' := []); [lia|]. intros i Hi.
    specialize (Hat (Z.of_nat (ptr s1) - Z.of_nat i)%Z). unfold at_, idx, unwind, _unwind_ptr in Hat.
    rewrite <- Hp, <- HN in Hat.
    replace (Z.of_nat (ptr s1) - (Z.of_nat (ptr s1) - Z.of_nat i))%Z with (Z.of_nat i) in Hat by lia.
    rewrite Z.mod_small in Hat by lia. rewrite Nat2Z.id in Hat. exact Hat. }
  destruct s1 as [n1 p1 st1], s2 as [n2 p2 st2]. cbn [N ptr st] in *. subst n2 p2.
  rewrite E1, E2. unfold rows in Hrows. cbn [st] in Hrows. rewrite E1, E2 in Hrows. unfold rows; cbn [st]. rewrite E1, E2, Hrows.
  reflexivity.
Qed.

(* ------------------------------------------------------------------ insert, tensor time *)
Lemma scatter2_length (rws : list (list R)) w : length (scatter2 RN rws w) = length rws.
Proof. unfold scatter2. rewrite map_length, seq_length. reflexivity. Qed.
Lemma nth_scatter2_row (rws : list (list R)) w i : (i < length rws)%nat ->
  nth i (scatter2 RN rws w) [] =
  map (fun e => let '((pi, pv), (ni, nv)) := w e in
                if (i =? ni)%nat then nv else if (i =? pi)%nat then pv else nth e (nth i rws []) 0)
      (seq 0 (length (nth i rws []))).
Proof. intros Hi. unfold scatter2. rewrite (l_nth_map_seq []) by exact Hi. reflexivity. Qed.
Lemma nth_scatter2 (rws : list (list R)) w i e : (i < length rws)%nat -> (e < length (nth i rws []))%nat ->
  nth e (nth i (scatter2 RN rws w) []) 0 =
  let '((pi, pv), (ni, nv)) := w e in
  if (i =? ni)%nat then nv else if (i =? pi)%nat then pv else nth e (nth i rws []) 0.
Proof. intros Hi He. rewrite nth_scatter2_row by exact Hi. rewrite (l_nth_map_seq 0) by exact He. reflexivity. Qed.

Lemma ins_elem_on_grid (s : ringR) off extrap e x t k : Rabs (IZR k * dt - t) <= tol ->
  ins_elem RN s (rows s) dt tol off extrap e x t = ((idx s (off + k), x), (idx s (off + k), x)).
Proof.
  intros Hk. unfold ins_elem. rw (snapped_grid t k Hk).
  destruct (ceil_floor_int off k) as (E1 & E2). rw E1. rw E2. rewrite Z.eqb_refl. reflexivity.
Qed.
Lemma ins_elem_off_grid (s : ringR) off extrap e x t k : between k t ->
  let ex := extrap x (IZR (k + 1) * dt - t) (nth e (at_ s (off + k + 1)) 0) (nth e (at_ s (off + k)) 0) dt in
  ins_elem RN s (rows s) dt tol off extrap e x t = ((idx s (off + k + 1), fst ex), (idx s (off + k), snd ex)).
Proof.
  intros Hb ex. unfold ins_elem. rw (snapped_between t k Hb).
  destruct (ceil_off_between t k off Hb) as (E1 & E2). rw E1. rw E2. rw (sample_at_between t k Hb).
  replace (off + k + 1 =? off + k)%Z with false by (symmetry; apply Z.eqb_neq; lia). reflexivity.
Qed.

(* every element is written independently: on the grid its slot off+k receives the observation's
   element; between two grid points its two bracketing slots receive the extrapolated pair; no other
   (slot, element) changes.  In-place and out-of-place alike. *)
Theorem insert_tensor_spec (s : ringR) (o : obsR) off tsh times extrap inplace d sh :
  wfS s -> st s = SFull d sh (rows s) -> shape_eqb (oshape o) sh = true -> shape_eqb tsh sh = true ->
  length (oel o) = nel sh -> length times = nel sh -> Forall (in_range (N s)) times ->
  exists s', insert_tensor RN s o dt tol off tsh times extrap inplace = Ok s' OUnit /\
    wfS s' /\ N s' = N s /\ ptr s' = ptr s /\ st s' = SFull d sh (rows s') /\
    forall e, (e < nel sh)%nat ->
      let t := nth e times 0 in
      let x := nth e (oel o) 0 in
      (forall k, Rabs (IZR k * dt - t) <= tol -> forall j,
         nth e (at_ s' j) 0 =
         if (j mod Z.of_nat (N s) =? (off + k) mod Z.of_nat (N s))%Z then x else nth e (at_ s j) 0) /\
      (forall k, between k t -> forall j,
         let ex := extrap x (IZR (k + 1) * dt - t) (nth e (at_ s (off + k + 1)) 0) (nth e (at_ s (off + k)) 0) dt in
         nth e (at_ s' j) 0 =
         if (j mod Z.of_nat (N s) =? (off + k) mod Z.of_nat (N s))%Z then snd ex
         else if (j mod Z.of_nat (N s) =? (off + k + 1) mod Z.of_nat (N s))%Z then fst ex
         else nth e (at_ s j) 0).
Proof.
  intros Hwf Est Hsh Htsh Hlen Htl Hr. assert (Hf : full s) by (unfold full; rewrite Est; exact I).
  pose proof (proj1 Hwf) as Hwf0. pose proof Hwf0 as (Hn & Hp & Hl0). rewrite Est in Hl0.
  set (w := fun e => ins_elem RN s (rows s) dt tol off extrap e (nth e (oel o) 0) (nth e times 0)).
  set (s' := set_st s (SFull d sh (scatter2 RN (rows s) w))).
  assert (Hrun : insert_tensor RN s o dt tol off tsh times extrap inplace = Ok s' OUnit).
  { unfold insert_tensor. rn_simpl. rewrite Est, Hsh, Htsh. cbn [negb]. rw (existsb_in_range _ _ Hr).
    destruct inplace; reflexivity. }
  assert (Hwf' : wf s').
  { unfold s', wf, set_st; cbn [st N ptr]. rewrite scatter2_length. auto. }
  assert (Est' : st s' = SFull d sh (rows s')) by reflexivity.
  assert (Hrowlen : forall i, (i < N s)%nat -> length (nth i (rows s) []) = nel sh).
  { intros i Hi. destruct Hwf as (_ & Hs). rewrite Est in Hs. apply Forall_nth_len; [exact Hs|lia]. }
  assert (Hatl : forall j, length (at_ s' j) = nel sh).
  { intros j. unfold at_. change (idx s' j) with (idx s j). change (rows s') with (scatter2 RN (rows s) w).
    pose proof (idx_ltR s j Hwf0). rewrite nth_scatter2_row by lia. rewrite map_length, seq_length. apply Hrowlen. lia. }
  assert (Hat : forall j e, (e < nel sh)%nat -> nth e (at_ s' j) 0 =
            let '((pi, pv), (ni, nv)) := w e in
            if (idx s j =? ni)%nat then nv else if (idx s j =? pi)%nat then pv else nth e (at_ s j) 0).
  { intros j e He. unfold at_. change (idx s' j) with (idx s j). change (rows s') with (scatter2 RN (rows s) w).
    pose proof (idx_ltR s j Hwf0). apply nth_scatter2; [lia|]. rewrite Hrowlen by lia. exact He. }
  exists s'. split; [exact Hrun|]. split; [apply (wfS_intro s' d sh Hwf' Est' Hatl)|].
  split; [reflexivity|]. split; [reflexivity|]. split; [exact Est'|].
  intros e He t x. split.
  - intros k Hk j. rw (Hat j e He). unfold w. fold t. fold x. rewrite (ins_elem_on_grid s off extrap e x t k Hk).
    pose proof (idx_eq_iffR s j (off + k) Hwf0) as I1.
    destruct (Nat.eqb_spec (idx s j) (idx s (off + k))) as [E1|E1];
      destruct (Z.eqb_spec (j mod Z.of_nat (N s)) ((off + k) mod Z.of_nat (N s))) as [Z1|Z1]; try tauto; reflexivity.
  - intros k Hb j ex. rw (Hat j e He). unfold w. fold t. fold x. rewrite (ins_elem_off_grid s off extrap e x t k Hb). fold ex.
    pose proof (idx_eq_iffR s j (off + k) Hwf0) as I1. pose proof (idx_eq_iffR s j (off + k + 1) Hwf0) as I2.
    destruct (Nat.eqb_spec (idx s j) (idx s (off + k))) as [E1|E1];
      destruct (Z.eqb_spec (j mod Z.of_nat (N s)) ((off + k) mod Z.of_nat (N s))) as [Z1|Z1]; try tauto; try reflexivity.
    destruct (Nat.eqb_spec (idx s j) (idx s (off + k + 1))) as [E2|E2];
      destruct (Z.eqb_spec (j mod Z.of_nat (N s)) ((off + k + 1) mod Z.of_nat (N s))) as [Z2|Z2]; try tauto; try reflexivity.
Qed.

Theorem insert_tensor_range (s : ringR) (o : obsR) off tsh times extrap inplace d sh :
  st s = SFull d sh (rows s) -> shape_eqb (oshape o) sh = true -> shape_eqb tsh sh = true ->
  (insert_tensor RN s o dt tol off tsh times extrap inplace = Err EValue <->
   exists t, In t times /\ (t < - tol \/ dt * IZR (Z.of_nat (N s) - 1) + tol < t)).
Proof.
  intros Est Hsh Htsh. unfold insert_tensor. rn_simpl. rewrite Est, Hsh, Htsh. cbn [negb].
  match goal with |- context [if ?b then Err EValue else _] => destruct b eqn:E end.
  - split; [intros _|reflexivity]. apply existsb_exists in E. destruct E as (t & Hin & Ht).
    exists t. split; [exact Hin|]. apply out_of_range_iff; exact Ht.
  - split; [destruct inplace; discriminate|].
    intros (t & Hin & Ht). apply out_of_range_iff in Ht.
    assert (X : existsb (out_of_range RN (N s) dt tol) times = true) by (apply existsb_exists; eauto). rn_simpl. congruence.
Qed.


(* ------------------------------------------------------------------ the insert paths agree *)
(* in-place and out-of-place scalar-time insert produce the same record *)
Theorem insert_scalar_inplace_agree (s : ringR) (o : obsR) off t extrap d sh :
  wfS s -> st s = SFull d sh (rows s) -> shape_eqb (oshape o) sh = true -> length (oel o) = nel sh -> (0 < nel sh)%nat ->
  in_range (N s) t ->
  insert_scalar RN s o dt tol off t extrap true = insert_scalar RN s o dt tol off t extrap false.
Proof.
  intros Hwf Est Hsh Hlen Hnel Hr.
  destruct (grid_or_between t) as [(k & Hk)|(k & Hb)].
  - destruct (insert_scalar_on_grid s o off t k extrap true d sh Hwf Est Hsh Hlen Hr Hk) as (s1 & E1 & W1 & N1 & P1 & S1 & A1).
    destruct (insert_scalar_on_grid s o off t k extrap false d sh Hwf Est Hsh Hlen Hr Hk) as (s2 & E2 & W2 & N2 & P2 & S2 & A2).
    rn_simpl. rewrite E1, E2. f_equal. apply (ring_ext s1 s2 d sh (proj1 W1) (proj1 W2)); [rewrite N1, N2; reflexivity|rewrite P1, P2; reflexivity|exact S1|exact S2|].
    intros j. rewrite A1, A2. reflexivity.
  - destruct (insert_scalar_off_grid s o off t k extrap true d sh Hwf Est Hsh Hlen Hnel Hr Hb) as (s1 & E1 & W1 & N1 & P1 & S1 & A1).
    destruct (insert_scalar_off_grid s o off t k extrap false d sh Hwf Est Hsh Hlen Hnel Hr Hb) as (s2 & E2 & W2 & N2 & P2 & S2 & A2).
    rn_simpl. rewrite E1, E2. f_equal. apply (ring_ext s1 s2 d sh (proj1 W1) (proj1 W2)); [rewrite N1, N2; reflexivity|rewrite P1, P2; reflexivity|exact S1|exact S2|].
    intros j. rewrite A1, A2. reflexivity.
Qed.

(* a tensor of equal times inserts what the scalar time inserts *)
Theorem insert_tensor_scalar_agree (s : ringR) (o : obsR) off t times extrap ip1 ip2 d sh :
  wfS s -> st s = SFull d sh (rows s) -> shape_eqb (oshape o) sh = true -> length (oel o) = nel sh -> (0 < nel sh)%nat ->
  in_range (N s) t -> times = repeat t (nel sh) ->
  insert_tensor RN s o dt tol off sh times extrap ip1 = insert_scalar RN s o dt tol off t extrap ip2.
Proof.
  intros Hwf Est Hsh Hlen Hnel Hr Ht.
  assert (Htl : length times = nel sh) by (rewrite Ht; apply repeat_length).
  assert (Hra : Forall (in_range (N s)) times).
  { rewrite Ht. apply Forall_forall. intros x Hx. apply repeat_spec in Hx. subst x. exact Hr. }
  assert (Hnt : forall e, (e < nel sh)%nat -> nth e times 0 = t).
  { intros e He. rewrite Ht. rewrite (nth_indep _ 0 t) by (rewrite repeat_length; lia). apply nth_repeat. }
  destruct (insert_tensor_spec s o off sh times extrap ip1 d sh Hwf Est Hsh (shape_refl sh) Hlen Htl Hra)
    as (s1 & E1 & W1 & N1 & P1 & S1 & A1).
  pose proof (proj1 Hwf) as Hwf0.
  destruct (grid_or_between t) as [(k & Hk)|(k & Hb)].
  - destruct (insert_scalar_on_grid s o off t k extrap ip2 d sh Hwf Est Hsh Hlen Hr Hk) as (s2 & E2 & W2 & N2 & P2 & S2 & A2).
    rn_simpl. rewrite E1, E2. f_equal. apply (ring_ext s1 s2 d sh (proj1 W1) (proj1 W2)); [rewrite N1, N2; reflexivity|rewrite P1, P2; reflexivity|exact S1|exact S2|].
    intros j. apply nth_ext with (d := 0) (d' := 0).
    + rewrite (at_length s1 d sh j W1 S1), (at_length s2 d sh j W2 S2). reflexivity.
    + intros e He. rewrite (at_length s1 d sh j W1 S1) in He.
      destruct (A1 e He) as (G & _). rewrite (Hnt e He) in G. rewrite (G k Hk j), A2.
      destruct (_ =? _)%Z; reflexivity.
  - destruct (insert_scalar_off_grid s o off t k extrap ip2 d sh Hwf Est Hsh Hlen Hnel Hr Hb) as (s2 & E2 & W2 & N2 & P2 & S2 & A2).
    rn_simpl. rewrite E1, E2. f_equal. apply (ring_ext s1 s2 d sh (proj1 W1) (proj1 W2)); [rewrite N1, N2; reflexivity|rewrite P1, P2; reflexivity|exact S1|exact S2|].
    pose proof (at_length s d sh (off + k + 1) Hwf Est) as Hlp. pose proof (at_length s d sh (off + k) Hwf Est) as Hln.
    intros j. apply nth_ext with (d := 0) (d' := 0).
    + rewrite (at_length s1 d sh j W1 S1), (at_length s2 d sh j W2 S2). reflexivity.
    + intros e He. rewrite (at_length s1 d sh j W1 S1) in He.
      destruct (A1 e He) as (_ & G). rewrite (Hnt e He) in G. rewrite (G k Hb j), A2.
      set (ex := zipw _ (oel o) _).
      assert (Hex : nth e ex (0, 0) = extrap (nth e (oel o) 0) (IZR (k + 1) * dt - t)
                                         (nth e (at_ s (off + k + 1)) 0) (nth e (at_ s (off + k)) 0) dt).
      { unfold ex. rewrite (nth_zipw _ _ _ 0 (0, 0) (0, 0)) by (rewrite ?combine_length; lia).
        rewrite combine_nth by lia. reflexivity. }
      destruct (_ =? _)%Z.
      * rewrite nth_map_snd, Hex. reflexivity.
      * destruct (_ =? _)%Z; [|reflexivity].
        rewrite nth_map_fst, Hex. reflexivity.
Qed.

(* ------------------------------------------------------------------ insert followed by select *)
(* with a matching extrapolation / interpolation pair (C02/Matching.v; proved for the shipped kernels in C02/RoundTrip.v), selecting at the time just
   inserted (same offset, same tolerance) returns the inserted observation *)
Theorem insert_select_roundtrip_scalar (s : ringR) (o : obsR) off t interp extrap inplace d sh :
  wfS s -> st s = SFull d sh (rows s) -> shape_eqb (oshape o) sh = true -> length (oel o) = nel sh -> (0 < nel sh)%nat ->
  in_range (N s) t -> matching dt interp extrap ->
  exists s', insert_scalar RN s o dt tol off t extrap inplace = Ok s' OUnit /\
             select_scalar RN s' dt tol off t interp = Ok s' (OObs d sh (oel o)).
Proof.
  intros Hwf Est Hsh Hlen Hnel Hr Hm.
  destruct (grid_or_between t) as [(k & Hk)|(k & Hb)].
  - destruct (insert_scalar_on_grid s o off t k extrap inplace d sh Hwf Est Hsh Hlen Hr Hk) as (s' & E' & W' & N' & P' & S' & A').
    exists s'. split; [exact E'|].
    assert (Hf' : full s') by (unfold full; rewrite S'; exact I).
    assert (Hr' : in_range (N s') t) by (rn_simpl; rewrite N'; exact Hr).
    destruct (select_scalar_on_grid s' off t k interp (proj1 W') Hf' Hr' Hk) as (d' & sh' & S'' & ->).
    rn_simpl. rewrite S' in S''. injection S'' as <- <-. rewrite A', Z.eqb_refl. reflexivity.
  - destruct (insert_scalar_off_grid s o off t k extrap inplace d sh Hwf Est Hsh Hlen Hnel Hr Hb) as (s' & E' & W' & N' & P' & S' & A').
    exists s'. split; [exact E'|].
    assert (Hf' : full s') by (unfold full; rewrite S'; exact I).
    assert (Hr' : in_range (N s') t) by (rn_simpl; rewrite N'; exact Hr).
    destruct (select_scalar_off_grid s' off t k interp (proj1 W') Hf' Hr' Hb) as (d' & sh' & S'' & ->).
    rn_simpl. rewrite S' in S''. injection S'' as <- <-. do 2 f_equal.
    destruct (between_in_range (N s) t k Hr Hb) as (Hk0 & Hk1).
    assert (Hneq : ((off + k) mod Z.of_nat (N s) <> (off + k + 1) mod Z.of_nat (N s))%Z) by (apply mod_succ_neq; lia).
    rewrite !A'. rewrite Z.eqb_refl.
    replace ((off + k + 1) mod Z.of_nat (N s) =? (off + k) mod Z.of_nat (N s))%Z with false
      by (symmetry; apply Z.eqb_neq; congruence).
    rewrite Z.eqb_refl.
    pose proof (at_length s d sh (off + k + 1) Hwf Est) as Hlp. pose proof (at_length s d sh (off + k) Hwf Est) as Hln.
    set (sa := IZR (k + 1) * dt - t). set (ex := zipw _ (oel o) _).
    assert (Hexl : length ex = nel sh) by (unfold ex; rewrite zipw_length, combine_length; lia).
    apply nth_ext with (d := 0) (d' := 0).
    + rewrite zipw_length, !map_length. lia.
    + intros e He. rewrite zipw_length, !map_length, Hexl in He.
      rewrite (nth_zipw _ _ _ 0 0 0) by (rewrite ?map_length; lia).
      rewrite nth_map_fst, nth_map_snd.
      unfold ex. rewrite (nth_zipw _ _ _ 0 (0, 0) (0, 0)) by (rewrite ?combine_length; lia).
      apply Hm. apply (sample_at_between_range t k Hb).
Qed.

Theorem insert_select_roundtrip_tensor (s : ringR) (o : obsR) off times interp extrap inplace d sh :
  wfS s -> st s = SFull d sh (rows s) -> shape_eqb (oshape o) sh = true ->
  length (oel o) = nel sh -> length times = nel sh -> Forall (in_range (N s)) times -> matching dt interp extrap ->
  exists s', insert_tensor RN s o dt tol off sh times extrap inplace = Ok s' OUnit /\
             select_tensor RN s' dt tol off (length sh) (map (fun t => [t]) times) interp = Ok s' (OObs d sh (oel o)).
Proof.
  intros Hwf Est Hsh Hlen Htl Hr Hm.
  destruct (insert_tensor_spec s o off sh times extrap inplace d sh Hwf Est Hsh (shape_refl sh) Hlen Htl Hr)
    as (s' & E' & W' & N' & P' & S' & A').
  exists s'. split; [exact E'|].
  assert (Hr' : Forall (in_range (N s')) (concat (map (fun t => [t]) times))).
  { rewrite N'. replace (concat (map (fun t => [t]) times)) with times; [exact Hr|].
    clear. induction times as [|a l IH]; cbn; [reflexivity|]. rewrite <- IH. reflexivity. }
  destruct (select_tensor_spec s' off (length sh) (map (fun t => [t]) times) interp d sh W' S' (or_introl eq_refl) Hr')
    as (cols & -> & Hcl & Hc).
  rewrite Nat.eqb_refl. rn_simpl. do 2 f_equal.
  apply nth_ext with (d := 0) (d' := 0); [rewrite map_length; lia|].
  intros e He. rewrite map_length, Hcl in He.
  rewrite nth_map_hd.
  assert (Hte : nth e (map (fun t => [t]) times) [] = [nth e times 0]).
  { rewrite (nth_indep _ [] ((fun t : R => [t]) 0)) by (rewrite map_length; lia). apply (map_nth (fun t : R => [t])). }
  specialize (Hc e 0%nat He). rewrite Hte in Hc. specialize (Hc ltac:(cbn; lia)). cbn zeta in Hc. cbn [nth length] in Hc.
  destruct Hc as (Hl1 & Hg & Hb).
  assert (Hhd : hd 0 (nth e cols []) = nth 0 (nth e cols []) 0).
  { destruct (nth e cols []); reflexivity. }
  rewrite Hhd. destruct (A' e He) as (Ag & Ab). cbn zeta in Ag, Ab.
  destruct (grid_or_between (nth e times 0)) as [(k & Hk)|(k & Hbt)].
  - rewrite (Hg k Hk), (Ag k Hk). rewrite Z.eqb_refl. reflexivity.
  - assert (Hre : in_range (N s) (nth e times 0)).
    { rewrite Forall_forall in Hr. apply Hr. apply nth_In. lia. }
    destruct (between_in_range (N s) _ k Hre Hbt) as (Hk0 & Hk1).
    assert (Hneq : ((off + k) mod Z.of_nat (N s) <> (off + k + 1) mod Z.of_nat (N s))%Z) by (apply mod_succ_neq; lia).
    rewrite (Hb k Hbt), !(Ab k Hbt). rewrite Z.eqb_refl.
    replace ((off + k + 1) mod Z.of_nat (N s) =? (off + k) mod Z.of_nat (N s))%Z with false
      by (symmetry; apply Z.eqb_neq; congruence).
    rewrite Z.eqb_refl. apply Hm. apply (sample_at_between_range _ k Hbt).
Qed.


(* ------------------------------------------------------------------ in terms of the history (C01's [hist]) *)
(* with the default offset 1, [hist s] = [at_ s 1; ...; at_ s N] is the list of stored observations,
   newest first; an in-range time never wraps around the record *)
Lemma at_hist (s : ringR) k : (0 <= k < Z.of_nat (N s))%Z -> at_ s (1 + k) = nth (Z.to_nat k) (hist s) [].
Proof.
  intros Hk. unfold hist. rewrite (l_nth_map_seq []) by lia. f_equal. lia.
Qed.

Lemma grid_in_range n t k : in_range n t -> Rabs (IZR k * dt - t) <= tol -> (0 < n)%nat -> (0 <= k < Z.of_nat n)%Z.
Proof.
  intros (H1 & H2) Hk Hn. apply Rabs_le_inv in Hk. split.
  - destruct (Z_lt_le_dec k 0) as [Hlt|]; [|assumption]. exfalso.
    assert (Hle : (k <= -1)%Z) by lia. apply IZR_le in Hle. nra.
  - destruct (Z_lt_le_dec k (Z.of_nat n)) as [|Hge]; [assumption|]. exfalso.
    assert (Hle : (Z.of_nat n - 1 + 1 <= k)%Z) by lia. apply IZR_le in Hle. rewrite plus_IZR in Hle. change (IZR 1) with 1 in Hle. nra.
Qed.

(* select with the default offset: within tolerance of k*dt it is the observation recorded k steps
   before the newest one; strictly between k*dt and (k+1)*dt it interpolates history entries k+1 (older)
   and k (newer) - both genuine entries of the history, 0 <= k and k+1 <= N-1 *)
Theorem select_scalar_hist (s : ringR) t interp : wf s -> full s -> in_range (N s) t ->
  exists d sh, st s = SFull d sh (rows s) /\
    (forall k, Rabs (IZR k * dt - t) <= tol ->
       (0 <= k < Z.of_nat (N s))%Z /\
       select_scalar RN s dt tol 1 t interp = Ok s (OObs d sh (nth (Z.to_nat k) (hist s) []))) /\
    (forall k, between k t ->
       (0 <= k /\ k + 1 < Z.of_nat (N s))%Z /\
       select_scalar RN s dt tol 1 t interp =
       Ok s (OObs d sh (zipw (fun p n => interp p n (IZR (k + 1) * dt - t) dt)
                             (nth (Z.to_nat (k + 1)) (hist s) []) (nth (Z.to_nat k) (hist s) [])))).
Proof.
  intros Hwf Hf Hr. destruct (full_st s Hf) as (d & sh & Est). exists d, sh. split; [exact Est|]. split.
  - intros k Hk. pose proof (grid_in_range _ _ _ Hr Hk (proj1 Hwf)) as Hkr. split; [exact Hkr|].
    destruct (select_scalar_on_grid s 1 t k interp Hwf Hf Hr Hk) as (d' & sh' & Est' & ->).
    rewrite Est in Est'. injection Est' as <- <-. rewrite at_hist by exact Hkr. reflexivity.
  - intros k Hb. destruct (between_in_range _ _ _ Hr Hb) as (Hk0 & Hk1). split; [lia|].
    destruct (select_scalar_off_grid s 1 t k interp Hwf Hf Hr Hb) as (d' & sh' & Est' & ->).
    rewrite Est in Est'. injection Est' as <- <-.
    rewrite at_hist by lia. replace (1 + k + 1)%Z with (1 + (k + 1))%Z by lia. rewrite at_hist by lia. reflexivity.
Qed.

End Time.

(* ------------------------------------------------------------------ every history *)
(* Runs of pushes, pointer moves, selects and inserts (each with its own tolerance, offset, times,
   interpolation / extrapolation): the hypotheses of the theorems above (wfS, full, fixed size,
   type and shape) hold in every reachable state, so the theorems apply after every history. *)
Inductive rop :=
| RPush (o : obsR) (inplace : bool)
| RIncr (k : Z)
| RSelS (tol : R) (off : Z) (t : R) (interp : interp_fn RN)
| RSelT (tol : R) (off : Z) (tnd : nat) (times : list (list R)) (interp : interp_fn RN)
| RInsS (o : obsR) (tol : R) (off : Z) (t : R) (extrap : extrap_fn RN) (inplace : bool)
| RInsT (o : obsR) (tol : R) (off : Z) (tsh : list nat) (times : list R) (extrap : extrap_fn RN) (inplace : bool).

Definition rstep (dt : R) (s : ringR) (op : rop) : @result R unit :=
  match op with
  | RPush o ip => push (castU RN) 0 s o ip
  | RIncr k => incr s k
  | RSelS tol off t i => select_scalar RN s dt tol off t i
  | RSelT tol off tnd times i => select_tensor RN s dt tol off tnd times i
  | RInsS o tol off t e ip => insert_scalar RN s o dt tol off t e ip
  | RInsT o tol off tsh times e ip => insert_tensor RN s o dt tol off tsh times e ip
  end.

(* an operation that raises leaves the record unchanged *)
Fixpoint rrun (dt : R) (s : ringR) (ops : list rop) : ringR :=
  match ops with
  | [] => s
  | op :: tl => match rstep dt s op with Ok s' _ => rrun dt s' tl | Err _ => rrun dt s tl end
  end.

(* tensors passed in have as many elements as their shape says; tolerances are in [0, dt/2) *)
Definition rop_ok (dt : R) (op : rop) : Prop :=
  match op with
  | RPush o _ => length (oel o) = nel (oshape o)
  | RInsS o tol _ _ _ _ => 0 <= tol < dt / 2 /\ length (oel o) = nel (oshape o)
  | RInsT o tol _ tsh times _ _ => 0 <= tol < dt / 2 /\ length (oel o) = nel (oshape o) /\ length times = nel tsh
  | _ => True
  end.

Lemma shape_eqb_eq a b : shape_eqb a b = true -> a = b.
Proof.
  unfold shape_eqb. intros H. apply andb_prop in H. destruct H as (Hl & Hf). apply Nat.eqb_eq in Hl.
  revert b Hl Hf. induction a as [|x a IH]; intros [|y b] Hl Hf; cbn in *; try lia; [reflexivity|].
  apply andb_prop in Hf. destruct Hf as (Hxy & Hf). apply Nat.eqb_eq in Hxy. subst y. f_equal. apply IH; [lia|exact Hf].
Qed.

Lemma In_removelast {X} (x : X) l : In x (removelast l) -> In x l.
Proof.
  induction l as [|a l IH]; cbn; [tauto|]. destruct l as [|b l]; [cbn; tauto|].
  intros [->|H]; [left; reflexivity|right; apply IH; exact H].
Qed.

Lemma wfS_of_hist (s' : ringR) d sh : wf s' -> st s' = SFull d sh (rows s') ->
  Forall (fun r => length r = nel sh) (hist s') -> wfS s'.
Proof.
  intros Hwf' Est' Hall. apply (wfS_intro s' d sh Hwf' Est'). intros j.
  pose proof Hwf' as (Hn' & _).
  set (m := ((j - 1) mod Z.of_nat (N s'))%Z).
  assert (Hm : (0 <= m < Z.of_nat (N s'))%Z) by (apply Z.mod_pos_bound; lia).
  assert (Ej : at_ s' j = at_ s' (1 + m)).
  { unfold at_. f_equal. apply (idx_eq_iffR s' j (1 + m) Hwf'). unfold m.
    rewrite Zplus_mod_idemp_r. f_equal. lia. }
  rewrite Ej, (at_hist s' m Hm).
  rewrite Forall_forall in Hall. apply Hall. apply nth_In. unfold hist. rewrite map_length, seq_length. lia.
Qed.

Lemma push_wfS (s : ringR) (o : obsR) inplace d sh : wfS s -> st s = SFull d sh (rows s) ->
  shape_eqb (oshape o) sh = true -> length (oel o) = nel sh ->
  exists s', push (castU RN) 0 s o inplace = Ok s' OUnit /\ wfS s' /\ N s' = N s /\ st s' = SFull d sh (rows s') /\
             hist s' = oel o :: removelast (hist s).
Proof.
  intros Hwf Est Hsh Hlen. assert (Hf : full s) by (unfold full; rewrite Est; exact I).
  destruct (hist_push (castU RN) promU eqbU 0 s o inplace (proj1 Hwf) Hf) as (d0 & sh0 & Est0 & Hp).
  rn_simpl. rewrite Est in Est0. injection Est0 as <- <-.
  destruct (Hp Hsh) as (s' & Ep & Hwf' & HN & Est' & Hh). clear Hp. rewrite map_castU in Hh.
  exists s'. split; [exact Ep|]. split; [|auto].
  apply (wfS_of_hist s' d sh Hwf' Est'). rewrite Hh.
  constructor; [exact Hlen|]. apply Forall_forall. intros r Hr. apply In_removelast in Hr.
  unfold hist in Hr. apply in_map_iff in Hr. destruct Hr as (k & <- & _). apply (at_length s d sh); assumption.
Qed.

(* the first push into an uninitialised record creates a well-formed, initialised record of the
   observation's shape: the base case of every history *)
Lemma first_push_wfS (s : ringR) (o : obsR) inplace : (0 < N s)%nat -> ~ full s -> length (oel o) = nel (oshape o) ->
  exists s', push (castU RN) 0 s o inplace = Ok s' OUnit /\ wfS s' /\ full s' /\ N s' = N s /\
             st s' = SFull tt (oshape o) (rows s') /\
             hist s' = oel o :: repeat (repeat 0 (nel (oshape o))) (N s - 1).
Proof.
  intros Hn Hnf Hlen.
  destruct (push_creates_storage (castU RN) promU eqbU 0 s o inplace Hn Hnf) as (s' & Ep & Hwf' & HN & Est' & Hh).
  cbn zeta in Est', Hh. rewrite map_castU in Hh.
  match type of Est' with _ = SFull ?dd _ _ => assert (Edd : dd = tt) by (destruct dd; reflexivity); rewrite Edd in Est'; clear Edd end.
  exists s'. split; [exact Ep|].
  assert (W : wfS s').
  { apply (wfS_of_hist s' tt (oshape o) Hwf' Est'). rn_simpl. rewrite Hh. constructor; [exact Hlen|].
    apply Forall_forall. intros r Hr. apply repeat_spec in Hr. subst r. apply repeat_length. }
  split; [exact W|]. split; [unfold full; rewrite Est'; exact I|]. auto.
Qed.

Lemma select_scalar_state (s s' : ringR) dt tol off t interp out :
  select_scalar RN s dt tol off t interp = Ok s' out -> s' = s.
Proof.
  unfold select_scalar. rn_simpl. destruct (st s); try discriminate.
  destruct (out_of_range RN (N s) dt tol t); try discriminate.
  destruct (on_grid RN dt tol t); intros H; injection H as <- _; reflexivity.
Qed.
Lemma select_tensor_state (s s' : ringR) dt tol off tnd times interp out :
  select_tensor RN s dt tol off tnd times interp = Ok s' out -> s' = s.
Proof.
  unfold select_tensor. rn_simpl. destruct (st s); try discriminate.
  destruct (negb _); try discriminate. destruct (existsb _ _); try discriminate.
  destruct (tnd =? _)%nat; intros H; injection H as <- _; reflexivity.
Qed.

Section Runs.
Variable dt : R.
Hypothesis Hdt : 0 < dt.

Theorem rstep_wfS (s s' : ringR) op out d sh : wfS s -> st s = SFull d sh (rows s) -> (0 < nel sh)%nat ->
  rop_ok dt op -> rstep dt s op = Ok s' out ->
  wfS s' /\ N s' = N s /\ st s' = SFull d sh (rows s').
Proof.
  intros Hwf Est Hnel Hok Hs. assert (Hf : full s) by (unfold full; rewrite Est; exact I).
  destruct op as [o ip|k|tol off t i|tol off tnd times i|o tol off t e ip|o tol off tsh times e ip]; cbn [rstep rop_ok] in *.
  - (* push *)
    destruct (shape_eqb (oshape o) sh) eqn:Esh.
    + pose proof (shape_eqb_eq _ _ Esh) as Eq. rewrite Eq in Hok.
      destruct (push_wfS s o ip d sh Hwf Est Esh Hok) as (s2 & Ep & W & HN & Est2 & _).
      rn_simpl. rewrite Ep in Hs. injection Hs as <- _. auto.
    + exfalso. unfold push in Hs. rn_simpl. rewrite Est in Hs. unfold write in Hs. rn_simpl. rewrite Est, Esh in Hs.
      cbn [negb] in Hs. discriminate.
  - (* incr *)
    destruct (incr_spec (castU RN) promU eqbU 0 s k (proj1 Hwf) Hf) as (s2 & Ei & W & HN & Est2 & _).
    rn_simpl. rewrite Ei in Hs. injection Hs as <- _.
    assert (Hr : rows s2 = rows s) by (unfold rows; rewrite Est2; reflexivity).
    split; [|split; [exact HN|rewrite Est2, Hr; exact Est]].
    split; [exact W|]. rewrite Est2. exact (proj2 Hwf).
  - apply select_scalar_state in Hs. subst s'. auto.
  - apply select_tensor_state in Hs. subst s'. auto.
  - (* insert, scalar time *)
    destruct Hok as (Htol & Hlen).
    destruct (shape_eqb (oshape o) sh) eqn:Esh.
    2:{ exfalso. unfold insert_scalar in Hs. rn_simpl. rewrite Est, Esh in Hs. discriminate. }
    pose proof (shape_eqb_eq _ _ Esh) as Eq. rewrite Eq in Hlen.
    destruct (out_of_range RN (N s) dt tol t) eqn:Eo.
    { exfalso. unfold insert_scalar in Hs. rn_simpl. rewrite Est, Esh in Hs. cbn [negb] in Hs.
      rn_simpl. rewrite Eo in Hs. discriminate. }
    apply (out_of_range_false dt tol Htol) in Eo.
    destruct (grid_or_between dt tol Hdt Htol t) as [(k & Hk)|(k & Hb)].
    + destruct (insert_scalar_on_grid dt tol Hdt Htol s o off t k e ip d sh Hwf Est Esh Hlen Eo Hk) as (s2 & E2 & W & HN & _ & Est2 & _).
      rn_simpl. rewrite E2 in Hs. injection Hs as <- _. auto.
    + destruct (insert_scalar_off_grid dt tol Hdt Htol s o off t k e ip d sh Hwf Est Esh Hlen Hnel Eo Hb) as (s2 & E2 & W & HN & _ & Est2 & _).
      rn_simpl. rewrite E2 in Hs. injection Hs as <- _. auto.
  - (* insert, tensor time *)
    destruct Hok as (Htol & Hlen & Htl).
    destruct (shape_eqb (oshape o) sh) eqn:Esh.
    2:{ exfalso. unfold insert_tensor in Hs. rn_simpl. rewrite Est, Esh in Hs. discriminate. }
    destruct (shape_eqb tsh sh) eqn:Etsh.
    2:{ exfalso. unfold insert_tensor in Hs. rn_simpl. rewrite Est, Esh, Etsh in Hs. discriminate. }
    pose proof (shape_eqb_eq _ _ Esh) as Eq. rewrite Eq in Hlen.
    pose proof (shape_eqb_eq _ _ Etsh) as Eq'. rewrite Eq' in Htl.
    destruct (existsb (out_of_range RN (N s) dt tol) times) eqn:Eo.
    { exfalso. unfold insert_tensor in Hs. rn_simpl. rewrite Est, Esh, Etsh in Hs. cbn [negb] in Hs.
      rn_simpl. rewrite Eo in Hs. discriminate. }
    assert (Hr : Forall (in_range dt tol (N s)) times).
    { apply Forall_forall. intros t Ht. apply (out_of_range_false dt tol Htol).
      destruct (out_of_range RN (N s) dt tol t) eqn:E; [|reflexivity].
      assert (X : existsb (out_of_range RN (N s) dt tol) times = true) by (apply existsb_exists; eauto).
      rn_simpl. congruence. }
    destruct (insert_tensor_spec dt tol Hdt Htol s o off tsh times e ip d sh Hwf Est Esh Etsh Hlen Htl Hr) as (s2 & E2 & W & HN & _ & Est2 & _).
    rn_simpl. rewrite E2 in Hs. injection Hs as <- _. auto.
Qed.

(* the invariant over every run: well-formed, initialised, same size / type / shape *)
Theorem rrun_wfS : forall ops (s : ringR) d sh, wfS s -> st s = SFull d sh (rows s) -> (0 < nel sh)%nat ->
  Forall (rop_ok dt) ops ->
  let s' := rrun dt s ops in
  wfS s' /\ full s' /\ N s' = N s /\ st s' = SFull d sh (rows s').
Proof.
  induction ops as [|op ops IH]; intros s d sh Hwf Est Hnel Hok; cbn [rrun].
  - cbn zeta. repeat split; try apply Hwf; auto. unfold full. rewrite Est. exact I.
  - inversion Hok as [|? ? Hop Hops]; subst. destruct (rstep dt s op) as [s1 out|er] eqn:Es.
    + destruct (rstep_wfS s s1 op out d sh Hwf Est Hnel Hop Es) as (W1 & HN1 & Est1).
      destruct (IH s1 d sh W1 Est1 Hnel Hops) as (A & B & C & D). cbn zeta in *. repeat split; try apply A; auto. congruence.
    + apply IH; assumption.
Qed.

End Runs.

(* ------------------------------------------------------------------ any tolerance *)
(* Without the bound tol < dt/2 the grid point within tolerance need not be unique, but the coded
   test still says exactly "some grid point is within tolerance", and the observation returned is
   the one at the NEAREST grid point round(t/dt), which is then itself within tolerance.
   (Strictly between two grid points, [between] already forces 2*tol < dt.) *)
Section AnyTol.
Variables dt tol : R.
Hypothesis Hdt : 0 < dt.
Hypothesis Htol0 : 0 <= tol.

Lemma rne_minimises t k : Rabs (IZR (rneZ RN (shift_of RN dt t)) * dt - t) <= Rabs (IZR k * dt - t).
Proof.
  unfold shift_of. rn_simpl. set (q := t / dt). assert (Hq : q * dt = t) by (unfold q; field; lra).
  set (r := Znearest (fun z => negb (Z.even z)) q).
  assert (E : forall z, Rabs (IZR z * dt - t) = Rabs (q - IZR z) * dt).
  { intros z. rewrite <- Hq. replace (IZR z * dt - q * dt) with (- ((q - IZR z) * dt)) by ring.
    rewrite Rabs_Ropp, Rabs_mult, (Rabs_pos_eq dt) by lra. reflexivity. }
  rewrite !E. apply Rmult_le_compat_r; [lra|].
  destruct (Rlt_le_dec (Rabs (q - IZR k)) (/ 2)) as [Hlt|Hge].
  - unfold r. rewrite (Znearest_imp _ q k Hlt). lra.
  - pose proof (Znearest_half (fun z => negb (Z.even z)) q). fold r in H. lra.
Qed.

Theorem on_grid_iff_any_tol t : on_grid RN dt tol t = true <-> exists k, Rabs (IZR k * dt - t) <= tol.
Proof.
  split.
  - intros H. unfold on_grid in H. rn_simpl. rcases; [|discriminate]. eexists. rewrite Rmult_comm. eassumption.
  - intros (k & Hk). pose proof (rne_minimises t k) as Hm. unfold on_grid. rn_simpl.
    rcases; [reflexivity|]. exfalso. match goal with Hn : ~ _ |- _ => apply Hn end. rewrite (Rmult_comm dt). lra.
Qed.

Theorem select_scalar_on_grid_any_tol (s : ringR) off t interp : wf s -> full s -> in_range dt tol (N s) t ->
  (exists k, Rabs (IZR k * dt - t) <= tol) ->
  let r := rneZ RN (shift_of RN dt t) in
  Rabs (IZR r * dt - t) <= tol /\ (forall k, Rabs (IZR r * dt - t) <= Rabs (IZR k * dt - t)) /\
  exists d sh, st s = SFull d sh (rows s) /\
    select_scalar RN s dt tol off t interp = Ok s (OObs d sh (at_ s (off + r))).
Proof.
  intros Hwf Hf Hr (k & Hk) r. pose proof (rne_minimises t k) as Hm. fold r in Hm.
  split; [lra|]. split; [intros k'; apply rne_minimises|].
  destruct (full_st s Hf) as (d & sh & Est). exists d, sh. split; [exact Est|].
  assert (Eg : on_grid RN dt tol t = true) by (apply on_grid_iff_any_tol; eauto).
  assert (Eo : out_of_range RN (N s) dt tol t = false).
  { destruct (out_of_range RN (N s) dt tol t) eqn:E; [|reflexivity]. exfalso. destruct Hr as (H1 & H2).
    unfold out_of_range, gtb in E. rn_simpl. rcases; cbn [orb] in E; try discriminate; lra. }
  unfold select_scalar. rn_simpl. rewrite Est. rw Eo. rw Eg. reflexivity.
Qed.
End AnyTol.
