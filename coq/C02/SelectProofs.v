(* Proofs about the select / insert model (C02/Select.v), real-number reading.
   Independent spec: [at_ s k] = the observation k steps before the write position (C01), a time t
   is either within tolerance of a grid point k*dt (then observation off+k is read / written
   exactly) or strictly between two grid points k*dt and (k+1)*dt (then the interpolation /
   extrapolation is applied to the older sample off+k+1, the newer sample off+k and the time
   (k+1)*dt - t elapsed since the older one).  For all record sizes, pointer positions, offsets,
   shapes, 0 < dt, 0 <= tol < dt/2. *)
From Coq Require Import List ZArith Bool Arith Lia Reals Lra.
From Flocq Require Import Core.Raux Core.Generic_fmt.
From Inferno Require Import Base.Num Base.NumR Gen.Infra C01.Ring C01.RingProofs C02.Select C02.RoundTrip.
Import ListNotations.
Ltac Zify.zify_post_hook ::= Z.div_mod_to_equations.
Local Open Scope R_scope.

(* rewrite with a fact after normalising the carrier T RN to R on both sides *)
Ltac rw H := let X := fresh "X" in pose proof H as X; rn_simpl; rewrite X; clear X.

Notation ringR := (@ring R unit).
Notation obsR := (@obs R unit).

(* ------------------------------------------------------------------ the time arithmetic *)
Section Time.
Variables dt tol : R.
Hypothesis Hdt : 0 < dt.
Hypothesis Htol : 0 <= tol < dt / 2.

Lemma shift_mul t : t / dt * dt = t.
Proof. field. lra. Qed.

(* nearest integer minimises the distance: a grid point within dt/2 of t is round(t/dt) *)
Lemma rne_of_close t k : Rabs (IZR k * dt - t) < dt / 2 -> rneZ RN (shift_of RN dt t) = k.
Proof.
  intros H. unfold shift_of. rn_simpl. apply Znearest_imp.
  pose proof (shift_mul t) as Hq. set (q := t / dt) in *.
  apply Rabs_def2 in H. apply Rabs_def1; nra.
Qed.

Lemma on_grid_k t k : Rabs (IZR k * dt - t) <= tol ->
  on_grid RN dt tol t = true /\ rneZ RN (shift_of RN dt t) = k.
Proof.
  intros H. assert (Hk : rneZ RN (shift_of RN dt t) = k) by (apply rne_of_close; lra).
  split; [|exact Hk]. unfold on_grid. rewrite Hk. rn_simpl.
  destruct (Rleb'_spec (Rabs (dt * IZR k - t)) tol) as [|Hn]; [reflexivity|].
  exfalso; apply Hn. replace (dt * IZR k) with (IZR k * dt) by ring. exact H.
Qed.

(* the coded test [abs(dt * round(t/dt) - t) <= tol] says: some grid point is within tol of t *)
Theorem on_grid_iff t : on_grid RN dt tol t = true <-> exists k, Rabs (IZR k * dt - t) <= tol.
Proof.
  split.
  - intros H. unfold on_grid in H. rn_simpl. rcases; [|discriminate].
    eexists. rewrite Rmult_comm. eassumption.
  - intros (k & Hk). apply (on_grid_k t k Hk).
Qed.

(* strictly between two grid points, further than tol from both *)
Definition between (k : Z) (t : R) : Prop := IZR k * dt + tol < t < IZR (k + 1) * dt - tol.

Lemma between_floor_ceil t k : between k t ->
  Zfloor (t / dt) = k /\ Zceil (t / dt) = (k + 1)%Z.
Proof.
  intros (H1 & H2). pose proof (shift_mul t) as Hq. set (q := t / dt) in *.
  rewrite plus_IZR in H2. change (IZR 1) with 1 in H2.
  split.
  - apply Zfloor_imp. rewrite plus_IZR. change (IZR 1) with 1. split; nra.
  - apply Zceil_imp. replace (k + 1 - 1)%Z with k by lia. rewrite plus_IZR. change (IZR 1) with 1. split; nra.
Qed.

Lemma between_off_grid t k : between k t -> on_grid RN dt tol t = false.
Proof.
  intros Hb. destruct (on_grid RN dt tol t) eqn:E; [|reflexivity]. exfalso.
  apply on_grid_iff in E. destruct E as (k' & Hk'). destruct Hb as (H1 & H2).
  rewrite plus_IZR in H2. change (IZR 1) with 1 in H2.
  apply Rabs_le_inv in Hk'.
  destruct (Z_lt_le_dec k' (k + 1)) as [Hlt|Hge].
  - assert (Hle : (k' <= k)%Z) by lia. apply IZR_le in Hle. nra.
  - apply IZR_le in Hge. rewrite plus_IZR in Hge. change (IZR 1) with 1 in Hge. nra.
Qed.

(* every time is on the grid (within tol) or between two grid points *)
Lemma grid_or_between t : (exists k, Rabs (IZR k * dt - t) <= tol) \/ (exists k, between k t).
Proof.
  pose proof (shift_mul t) as Hq. set (q := t / dt) in *.
  pose proof (Zfloor_lb q) as Hlb. pose proof (Zfloor_ub q) as Hub. set (k := Zfloor q) in *.
  destruct (Rle_lt_dec (t - IZR k * dt) tol) as [H1|H1].
  - left. exists k. apply Rabs_le. nra.
  - destruct (Rle_lt_dec (IZR (k + 1) * dt - t) tol) as [H2|H2].
    + left. exists (k + 1)%Z. rewrite plus_IZR in *. change (IZR 1) with 1 in *. apply Rabs_le. nra.
    + right. exists k. split; lra.
Qed.

(* the hypothesis of DESIGN's select_off_grid: no grid point within tolerance *)
Lemma off_grid_between t : (forall k, tol < Rabs (IZR k * dt - t)) -> between (Zfloor (t / dt)) t.
Proof.
  intros H. destruct (grid_or_between t) as [(k & Hk)|(k & Hk)].
  - specialize (H k). lra.
  - destruct (between_floor_ceil t k Hk) as (-> & _). exact Hk.
Qed.

(* the grid point within tolerance is unique *)
Lemma grid_unique t k k' : Rabs (IZR k * dt - t) <= tol -> Rabs (IZR k' * dt - t) <= tol -> k = k'.
Proof.
  intros H H'. destruct (on_grid_k t k H) as (_ & <-). destruct (on_grid_k t k' H') as (_ & <-). reflexivity.
Qed.
Lemma grid_not_between t k k' : Rabs (IZR k * dt - t) <= tol -> between k' t -> False.
Proof.
  intros H Hb. destruct (on_grid_k t k H) as (E & _). rewrite (between_off_grid t k' Hb) in E. discriminate.
Qed.

(* sample_at = dt - dt * (shift % 1) is the time elapsed since the older bracketing sample *)
Lemma sample_at_between t k : between k t -> sample_at RN dt (shift_of RN dt t) = IZR (k + 1) * dt - t.
Proof.
  intros Hb. destruct (between_floor_ceil t k Hb) as (Hf & _).
  unfold sample_at, frac1, shift_of. rn_simpl. rewrite Hf. rewrite plus_IZR. change (IZR 1) with 1.
  pose proof (shift_mul t). nra.
Qed.
Lemma sample_at_between_range t k : between k t -> 0 < IZR (k + 1) * dt - t < dt.
Proof. intros (H1 & H2). rewrite plus_IZR in *. change (IZR 1) with 1 in *. lra. Qed.

(* offset + shift: ceil is the older index, floor the newer *)
Lemma ceil_off_between t k (off : Z) : between k t ->
  ceilZ RN (add RN (ofZ RN off) (shift_of RN dt t)) = (off + k + 1)%Z /\
  floorZ RN (add RN (ofZ RN off) (shift_of RN dt t)) = (off + k)%Z.
Proof.
  intros Hb. destruct Hb as (H1 & H2). unfold shift_of. rn_simpl.
  pose proof (shift_mul t) as Hq. set (q := t / dt) in *.
  rewrite plus_IZR in H2. change (IZR 1) with 1 in H2.
  split.
  - apply Zceil_imp. replace (off + k + 1 - 1)%Z with (off + k)%Z by lia.
    rewrite !plus_IZR. change (IZR 1) with 1. split; nra.
  - apply Zfloor_imp. rewrite !plus_IZR. change (IZR 1) with 1. split; nra.
Qed.

Lemma snapped_grid t k : Rabs (IZR k * dt - t) <= tol -> snapped RN dt tol t = IZR k.
Proof. intros H. destruct (on_grid_k t k H) as (E1 & E2). unfold snapped. rewrite E1, E2. reflexivity. Qed.
Lemma snapped_between t k : between k t -> snapped RN dt tol t = shift_of RN dt t.
Proof. intros H. unfold snapped. rewrite (between_off_grid t k H). reflexivity. Qed.

Lemma ceil_floor_int (off k : Z) :
  ceilZ RN (add RN (ofZ RN off) (IZR k)) = (off + k)%Z /\ floorZ RN (add RN (ofZ RN off) (IZR k)) = (off + k)%Z.
Proof. rn_simpl. rewrite <- plus_IZR. split; [apply Zceil_IZR|apply Zfloor_IZR]. Qed.

(* range validation *)
Definition in_range (n : nat) (t : R) : Prop := - tol <= t <= dt * IZR (Z.of_nat n - 1) + tol.

Lemma out_of_range_iff n t : out_of_range RN n dt tol t = true <-> (t < - tol \/ dt * IZR (Z.of_nat n - 1) + tol < t).
Proof.
  unfold out_of_range, gtb. rn_simpl.
  destruct (Rltb'_spec t (- tol)); destruct (Rltb'_spec (dt * IZR (Z.of_nat n - 1) + tol) t); cbn [orb];
    split; intros; try tauto; try discriminate.
Qed.
Lemma in_range_ok n t : in_range n t -> out_of_range RN n dt tol t = false.
Proof.
  intros (H1 & H2). destruct (out_of_range RN n dt tol t) eqn:E; [|reflexivity].
  apply out_of_range_iff in E. lra.
Qed.
Lemma out_of_range_false n t : out_of_range RN n dt tol t = false -> in_range n t.
Proof.
  intros E. unfold in_range. destruct (Rlt_le_dec t (- tol)) as [H|H].
  - assert (X : out_of_range RN n dt tol t = true) by (apply out_of_range_iff; left; exact H). congruence.
  - destruct (Rlt_le_dec (dt * IZR (Z.of_nat n - 1) + tol) t) as [H'|H'].
    + assert (X : out_of_range RN n dt tol t = true) by (apply out_of_range_iff; right; exact H'). congruence.
    + lra.
Qed.

(* a time strictly between two grid points and in range lies between slots 0 and n-1 *)
Lemma between_in_range n t k : in_range n t -> between k t -> (0 <= k /\ k + 1 <= Z.of_nat n - 1)%Z.
Proof.
  intros (H1 & H2) (H3 & H4). rewrite plus_IZR in H4. change (IZR 1) with 1 in H4.
  split.
  - destruct (Z_lt_le_dec k 0) as [Hlt|]; [|assumption]. exfalso.
    assert (Hle : (k + 1 <= 0)%Z) by lia. apply IZR_le in Hle. rewrite plus_IZR in Hle. change (IZR 1) with 1 in Hle. nra.
  - destruct (Z_lt_le_dec (Z.of_nat n - 1) (k + 1)) as [Hlt|]; [|assumption]. exfalso.
    assert (Hle : (Z.of_nat n - 1 <= k)%Z) by lia. apply IZR_le in Hle. nra.
Qed.


(* ------------------------------------------------------------------ shapes *)
(* C01's well-formedness plus: every stored observation has the number of elements of the shape *)
Definition wfS (s : ringR) : Prop :=
  wf s /\ match st s with SFull _ sh rws => Forall (fun r => length r = nel sh) rws | _ => True end.

Lemma full_st (s : ringR) : full s -> exists d sh, st s = SFull d sh (rows s).
Proof. unfold full, rows. destruct (st s) as [| |d sh r]; try contradiction. intros _. exists d, sh. reflexivity. Qed.

Lemma l_nth_upd {X} (d : X) (l : list X) i o j : (i < length l)%nat ->
  nth j (upd l i o) d = if Nat.eqb j i then o else nth j l d.
Proof.
  revert i j; induction l as [|h t IH]; intros i j Hi; [cbn in Hi; lia|].
  destruct i as [|i], j as [|j]; cbn; auto. apply IH. cbn in Hi; lia.
Qed.
Lemma l_upd_length {X} (l : list X) i o : length (upd l i o) = length l.
Proof. revert i; induction l as [|h t IH]; intros [|i]; cbn; auto. Qed.
Lemma l_nth_map_seq {X} (d : X) (f : nat -> X) n i : (i < n)%nat -> nth i (map f (seq 0 n)) d = f i.
Proof.
  intros Hi. rewrite (nth_indep _ d (f 0%nat)) by (rewrite map_length, seq_length; lia).
  rewrite map_nth, seq_nth by lia. reflexivity.
Qed.
Lemma Forall_nth_len {X} (l : list (list X)) m i : Forall (fun r => length r = m) l -> (i < length l)%nat ->
  length (nth i l []) = m.
Proof. intros H Hi. rewrite Forall_forall in H. apply H. apply nth_In. exact Hi. Qed.

Lemma idx_ltR (s : ringR) k : wf s -> (idx s k < N s)%nat.
Proof. exact (@idx_lt R unit (castU RN) 0 s k). Qed.
Lemma idx_eq_iffR (s : ringR) k k' : wf s ->
  (idx s k = idx s k' <-> (k mod Z.of_nat (N s) = k' mod Z.of_nat (N s))%Z).
Proof. exact (@idx_eq_iff R unit (castU RN) 0 s k k'). Qed.

Lemma at_length (s : ringR) d sh k : wfS s -> st s = SFull d sh (rows s) -> length (at_ s k) = nel sh.
Proof.
  intros ((Hn & Hp & Hl) & Hs) Est. rewrite Est in Hs, Hl. unfold at_.
  apply Forall_nth_len; [exact Hs|]. rewrite Hl. apply idx_ltR. repeat split; auto. rewrite Est. exact Hl.
Qed.

Lemma zipw_length {X Y Z} (f : X -> Y -> Z) l1 l2 : length (zipw f l1 l2) = Nat.min (length l1) (length l2).
Proof. unfold zipw. rewrite map_length, combine_length. reflexivity. Qed.
Lemma nth_zipw {X Y Z} (f : X -> Y -> Z) l1 l2 dx dy dz e : (e < length l1)%nat -> length l1 = length l2 ->
  nth e (zipw f l1 l2) dz = f (nth e l1 dx) (nth e l2 dy).
Proof.
  intros H1 H2. unfold zipw.
  rewrite (nth_indep _ dz (f (fst (dx, dy)) (snd (dx, dy)))) by (rewrite map_length, combine_length; lia).
  rewrite (map_nth (fun p => f (fst p) (snd p))). rewrite combine_nth by exact H2. reflexivity.
Qed.

(* ------------------------------------------------------------------ select, scalar time *)
(* on the grid (within tolerance of k*dt): exactly the stored observation off+k steps back,
   whatever the interpolation *)
Theorem select_scalar_on_grid (s : ringR) off t k interp : wf s -> full s -> in_range (N s) t ->
  Rabs (IZR k * dt - t) <= tol ->
  exists d sh, st s = SFull d sh (rows s) /\
    select_scalar RN s dt tol off t interp = Ok s (OObs d sh (at_ s (off + k))).
Proof.
  intros Hwf Hf Hr Hk. destruct (full_st s Hf) as (d & sh & Est). exists d, sh. split; [exact Est|].
  destruct (on_grid_k t k Hk) as (Eg & Er).
  unfold select_scalar. rn_simpl. rewrite Est, (in_range_ok _ _ Hr), Eg, Er. reflexivity.
Qed.

(* strictly between k*dt and (k+1)*dt: the interpolation of the older sample (off+k+1 steps back), the
   newer sample (off+k steps back) and the time elapsed since the older one, (k+1)*dt - t *)
Theorem select_scalar_off_grid (s : ringR) off t k interp : wf s -> full s -> in_range (N s) t ->
  between k t ->
  exists d sh, st s = SFull d sh (rows s) /\
    select_scalar RN s dt tol off t interp =
    Ok s (OObs d sh (zipw (fun p n => interp p n (IZR (k + 1) * dt - t) dt) (at_ s (off + k + 1)) (at_ s (off + k)))).
Proof.
  intros Hwf Hf Hr Hb. destruct (full_st s Hf) as (d & sh & Est). exists d, sh. split; [exact Est|].
  destruct (ceil_off_between t k off Hb) as (Ec & Efl).
  unfold select_scalar. rn_simpl. rewrite Est, (in_range_ok _ _ Hr), (between_off_grid t k Hb), Ec, Efl, (sample_at_between t k Hb).
  reflexivity.
Qed.

(* the same with the hypothesis "no grid point within tolerance" and floor / ceiling of t/dt *)
Corollary select_scalar_off_grid_floor (s : ringR) off t interp : wf s -> full s -> in_range (N s) t ->
  (forall k, tol < Rabs (IZR k * dt - t)) ->
  exists d sh, st s = SFull d sh (rows s) /\
    select_scalar RN s dt tol off t interp =
    Ok s (OObs d sh (zipw (fun p n => interp p n (IZR (Zceil (t / dt)) * dt - t) dt)
                          (at_ s (off + Zceil (t / dt))) (at_ s (off + Zfloor (t / dt))))).
Proof.
  intros Hwf Hf Hr Hk. pose proof (off_grid_between t Hk) as Hb.
  destruct (between_floor_ceil t _ Hb) as (_ & Ec). rewrite Ec.
  replace (off + (Zfloor (t / dt) + 1))%Z with (off + Zfloor (t / dt) + 1)%Z by lia.
  apply select_scalar_off_grid; assumption.
Qed.

(* times outside [-tol, dt*(N-1)+tol] are rejected, and only those *)
Theorem select_scalar_range (s : ringR) off t interp : full s ->
  (select_scalar RN s dt tol off t interp = Err EValue <-> (t < - tol \/ dt * IZR (Z.of_nat (N s) - 1) + tol < t)).
Proof.
  intros Hf. destruct (full_st s Hf) as (d & sh & Est). rewrite <- out_of_range_iff.
  unfold select_scalar. rn_simpl. rewrite Est. destruct (out_of_range RN (N s) dt tol t); [tauto|].
  split; [|discriminate]. destruct (on_grid RN dt tol t); discriminate.
Qed.
Theorem select_scalar_uninit (s : ringR) off t interp : ~ full s -> select_scalar RN s dt tol off t interp = Err ERuntime.
Proof. unfold full, select_scalar. rn_simpl. destruct (st s); intros H; try reflexivity. exfalso; apply H; exact I. Qed.

(* ------------------------------------------------------------------ select, tensor time *)
Lemma existsb_in_range n (ts : list R) : Forall (in_range n) ts -> existsb (out_of_range RN n dt tol) ts = false.
Proof.
  intros Hr. apply not_true_is_false. intros E. apply existsb_exists in E. destruct E as (t & Hin & Ht).
  rewrite Forall_forall in Hr. rewrite (in_range_ok _ _ (Hr t Hin)) in Ht. discriminate.
Qed.
Lemma ndim_ok (tnd : nat) (sh : list nat) : (tnd = length sh \/ tnd = S (length sh)) ->
  (tnd =? length sh)%nat || (tnd =? S (length sh))%nat = true.
Proof. intros [->| ->]; rewrite Nat.eqb_refl; auto using orb_true_r. Qed.

Lemma sel_elem_on_grid (s : ringR) off interp e t k : Rabs (IZR k * dt - t) <= tol ->
  sel_elem RN s (rows s) dt tol off interp e t = nth e (at_ s (off + k)) 0.
Proof.
  intros Hk. unfold sel_elem. rewrite (snapped_grid t k Hk).
  destruct (ceil_floor_int off k) as (-> & ->). rewrite Z.eqb_refl. reflexivity.
Qed.
Lemma sel_elem_off_grid (s : ringR) off interp e t k : between k t ->
  sel_elem RN s (rows s) dt tol off interp e t =
  interp (nth e (at_ s (off + k + 1)) 0) (nth e (at_ s (off + k)) 0) (IZR (k + 1) * dt - t) dt.
Proof.
  intros Hb. unfold sel_elem. rewrite (snapped_between t k Hb).
  destruct (ceil_off_between t k off Hb) as (-> & ->). rewrite (sample_at_between t k Hb).
  replace (off + k + 1 =? off + k)%Z with false by (symmetry; apply Z.eqb_neq; lia). reflexivity.
Qed.

Definition sel_row (r : @result R unit) : list R :=
  match r with Ok _ (OObs _ _ row) => row | _ => [] end.

(* element e of the tensor-time result at time t is element e of the scalar-time result at time t *)
Theorem sel_elem_scalar (s : ringR) off interp e t d sh : wfS s -> st s = SFull d sh (rows s) ->
  in_range (N s) t -> (e < nel sh)%nat ->
  sel_elem RN s (rows s) dt tol off interp e t = nth e (sel_row (select_scalar RN s dt tol off t interp)) 0.
Proof.
  intros Hwf Est Hr He. assert (Hf : full s) by (unfold full; rewrite Est; exact I).
  destruct (grid_or_between t) as [(k & Hk)|(k & Hb)].
  - destruct (select_scalar_on_grid s off t k interp (proj1 Hwf) Hf Hr Hk) as (d' & sh' & _ & ->).
    cbn [sel_row]. apply sel_elem_on_grid; exact Hk.
  - destruct (select_scalar_off_grid s off t k interp (proj1 Hwf) Hf Hr Hb) as (d' & sh' & _ & ->).
    cbn [sel_row]. rewrite (sel_elem_off_grid s off interp e t k Hb).
    rewrite (nth_zipw _ _ _ 0 0 0); [reflexivity| |]; rewrite !(at_length s d sh) by assumption; auto.
Qed.

(* scalar-time and tensor-time select agree element-wise (squeezed and unsqueezed output) *)
Theorem select_tensor_scalar_agree (s : ringR) off tnd times interp d sh : wfS s -> st s = SFull d sh (rows s) ->
  (tnd = length sh \/ tnd = S (length sh)) ->
  Forall (in_range (N s)) (concat times) -> (nel sh <= length times)%nat ->
  let cols := map (fun e => map (fun t => nth e (sel_row (select_scalar RN s dt tol off t interp)) 0) (nth e times []))
                  (seq 0 (nel sh)) in
  select_tensor RN s dt tol off tnd times interp =
  if (tnd =? length sh)%nat then Ok s (OObs d sh (map (fun c => hd 0 c) cols)) else Ok s (ORng (mkRng d sh cols)).
Proof.
  intros Hwf Est Hnd Hr Hlen cols. unfold select_tensor. rn_simpl. rewrite Est.
  rewrite (ndim_ok _ _ Hnd). cbn [negb]. rw (existsb_in_range _ _ Hr).
  assert (Ecols : map (fun e => map (sel_elem RN s (rows s) dt tol off interp e) (nth e times [])) (seq 0 (nel sh)) = cols).
  { unfold cols. apply map_ext_in. intros e He. apply in_seq in He. apply map_ext_in. intros t Ht.
    apply (sel_elem_scalar s off interp e t d sh Hwf Est); [|lia].
    rewrite Forall_forall in Hr. apply Hr. apply in_concat. exists (nth e times []). split; [|exact Ht].
    apply nth_In. lia. }
  rn_simpl. rewrite Ecols. reflexivity.
Qed.

(* tensor-time select, stated directly against the spec, one element and one time at a time *)
Theorem select_tensor_spec (s : ringR) off tnd times interp d sh : wfS s -> st s = SFull d sh (rows s) ->
  (tnd = length sh \/ tnd = S (length sh)) -> Forall (in_range (N s)) (concat times) ->
  exists cols,
    select_tensor RN s dt tol off tnd times interp =
      (if (tnd =? length sh)%nat then Ok s (OObs d sh (map (fun c => hd 0 c) cols)) else Ok s (ORng (mkRng d sh cols))) /\
    length cols = nel sh /\
    forall e j, (e < nel sh)%nat -> (j < length (nth e times []))%nat ->
      let t := nth j (nth e times []) 0 in
      length (nth e cols []) = length (nth e times []) /\
      (forall k, Rabs (IZR k * dt - t) <= tol -> nth j (nth e cols []) 0 = nth e (at_ s (off + k)) 0) /\
      (forall k, between k t -> nth j (nth e cols []) 0 =
         interp (nth e (at_ s (off + k + 1)) 0) (nth e (at_ s (off + k)) 0) (IZR (k + 1) * dt - t) dt).
Proof.
  intros Hwf Est Hnd Hr.
  exists (map (fun e => map (sel_elem RN s (rows s) dt tol off interp e) (nth e times [])) (seq 0 (nel sh))).
  split; [|split].
  - unfold select_tensor. rn_simpl. rewrite Est.
    rewrite (ndim_ok _ _ Hnd). cbn [negb]. rw (existsb_in_range _ _ Hr). reflexivity.
  - rewrite map_length, seq_length. reflexivity.
  - intros e j He Hj t. rewrite (l_nth_map_seq []) by exact He. split; [apply map_length|].
    rewrite (nth_indep _ 0 (sel_elem RN s (rows s) dt tol off interp e 0)) by (rewrite map_length; exact Hj).
    rewrite map_nth. fold t. split; intros k Hk.
    + apply sel_elem_on_grid; exact Hk.
    + apply sel_elem_off_grid; exact Hk.
Qed.

Theorem select_tensor_range (s : ringR) off tnd times interp d sh : st s = SFull d sh (rows s) ->
  (tnd = length sh \/ tnd = S (length sh)) ->
  (select_tensor RN s dt tol off tnd times interp = Err EValue <->
   exists t, In t (concat times) /\ (t < - tol \/ dt * IZR (Z.of_nat (N s) - 1) + tol < t)).
Proof.
  intros Est Hnd. unfold select_tensor. rn_simpl. rewrite Est.
  rewrite (ndim_ok _ _ Hnd). cbn [negb]. match goal with |- context [if ?b then Err EValue else _] => destruct b eqn:E end.
  - split; [intros _|reflexivity]. apply existsb_exists in E. destruct E as (t & Hin & Ht).
    exists t. split; [exact Hin|]. apply out_of_range_iff; exact Ht.
  - split; [destruct (tnd =? length sh)%nat; discriminate|].
    intros (t & Hin & Ht). apply out_of_range_iff in Ht.
    assert (X : existsb (out_of_range RN (N s) dt tol) (concat times) = true) by (apply existsb_exists; eauto). rn_simpl. congruence.
Qed.

(* ------------------------------------------------------------------ helpers for insert *)
Lemma map_castU d (l : list R) : map (castU RN d) l = l.
Proof. induction l as [|a l IH]; cbn [map]; [reflexivity|]. rewrite IH. reflexivity. Qed.

Lemma rows_length (s : ringR) : wf s -> full s -> length (rows s) = N s.
Proof. intros (_ & _ & Hl) Hf. unfold full, rows in *. destruct (st s); try contradiction. exact Hl. Qed.

(* every stored row is the observation some number of steps back *)
Lemma rows_forall_at (s : ringR) (P : list R -> Prop) : wf s -> full s -> (forall j, P (at_ s j)) -> Forall P (rows s).
Proof.
  intros Hwf Hf H. pose proof (rows_length s Hwf Hf) as Hl. destruct Hwf as (Hn & Hp & _).
  apply Forall_forall. intros r Hin. destruct (In_nth _ _ [] Hin) as (i & Hi & <-).
  specialize (H (Z.of_nat (ptr s) - Z.of_nat i)%Z). unfold at_, idx, unwind, _unwind_ptr in H.
  replace (Z.of_nat (ptr s) - (Z.of_nat (ptr s) - Z.of_nat i))%Z with (Z.of_nat i) in H by lia.
  rewrite Z.mod_small in H by lia. rewrite Nat2Z.id in H. exact H.
Qed.

Lemma wfS_intro (s : ringR) d sh : wf s -> st s = SFull d sh (rows s) -> (forall j, length (at_ s j) = nel sh) -> wfS s.
Proof.
  intros Hwf Est H. split; [exact Hwf|]. rewrite Est.
  apply rows_forall_at; [exact Hwf| |exact H]. unfold full. rewrite Est. exact I.
Qed.

Lemma hit_cases (s : ringR) off j : wf s -> (2 <= N s)%nat ->
  (hit s off j = 0%nat <-> (j mod Z.of_nat (N s) = off mod Z.of_nat (N s))%Z) /\
  (hit s off j = 1%nat <-> (j mod Z.of_nat (N s) = (off - 1) mod Z.of_nat (N s))%Z).
Proof.
  intros Hwf Hn. unfold hit. set (n := Z.of_nat (N s)). assert (Hn' : (2 <= n)%Z) by (unfold n; lia).
  pose proof (Z.mod_pos_bound (off - j) n ltac:(lia)) as Hb.
  split.
  - rewrite <- (@mod_sub_cong R unit (castU RN) 0 off j off n) by lia.
    replace (off - off)%Z with 0%Z by lia. rewrite Z.mod_0_l by lia. lia.
  - rewrite <- (@mod_sub_cong R unit (castU RN) 0 off j (off - 1) n) by lia.
    replace (off - (off - 1))%Z with 1%Z by lia. rewrite Z.mod_1_l by lia. lia.
Qed.

Lemma mod_succ_neq (a n : Z) : (2 <= n)%Z -> (a mod n <> (a + 1) mod n)%Z.
Proof.
  intros Hn E. pose proof (proj2 (@mod_sub_cong R unit (castU RN) 0 (a + 1) a (a + 1) n ltac:(lia)) E) as H.
  replace (a + 1 - a)%Z with 1%Z in H by lia. replace (a + 1 - (a + 1))%Z with 0%Z in H by lia.
  rewrite Z.mod_1_l, Z.mod_0_l in H by lia. lia.
Qed.

(* ------------------------------------------------------------------ insert, scalar time *)
(* on the grid: the observation is written exactly onto slot off+k, nothing else changes;
   in-place and out-of-place alike *)
Theorem insert_scalar_on_grid (s : ringR) (o : obsR) off t k extrap inplace d sh :
  wfS s -> st s = SFull d sh (rows s) -> shape_eqb (oshape o) sh = true -> length (oel o) = nel sh ->
  in_range (N s) t -> Rabs (IZR k * dt - t) <= tol ->
  exists s', insert_scalar RN s o dt tol off t extrap inplace = Ok s' OUnit /\
    wfS s' /\ N s' = N s /\ ptr s' = ptr s /\ st s' = SFull d sh (rows s') /\
    forall j, at_ s' j = if (j mod Z.of_nat (N s) =? (off + k) mod Z.of_nat (N s))%Z then oel o else at_ s j.
Proof.
  intros Hwf Est Hsh Hlen Hr Hk. assert (Hf : full s) by (unfold full; rewrite Est; exact I).
  destruct (on_grid_k t k Hk) as (Eg & Er).
  destruct (write_spec (castU RN) promU eqbU 0 s o (off + k) inplace (proj1 Hwf) Hf) as (d0 & sh0 & Est0 & Hw).
  rn_simpl. rewrite Est in Est0. injection Est0 as <- <-. rewrite Hsh in Hw.
  destruct Hw as (s' & Hw & HN & Hp & Est' & Hl' & Hat).
  exists s'. split.
  - unfold insert_scalar. rn_simpl. rewrite Est, Hsh. cbn [negb]. rw (in_range_ok _ _ Hr). rw Eg. rw Er. exact Hw.
  - assert (Hat' : forall j, at_ s' j = if (j mod Z.of_nat (N s) =? (off + k) mod Z.of_nat (N s))%Z then oel o else at_ s j).
    { intros j. rewrite Hat, map_castU. reflexivity. }
    assert (Hwf' : wf s') by (eapply wf_write; [exact promU|exact eqbU|exact 0|exact (proj1 Hwf)|exact Hw]).
    split; [|auto].
    apply (wfS_intro s' d sh Hwf' Est'). intros j. rewrite Hat'.
    destruct (_ =? _)%Z; [exact Hlen|apply (at_length s d sh); assumption].
Qed.
(* strictly between two grid points: the two bracketing slots receive the extrapolated pair (older
   slot off+k+1 the first component, newer slot off+k the second), nothing else changes; the
   in-place path and the out-of-place path (through writerange) produce the same record *)
Theorem insert_scalar_off_grid (s : ringR) (o : obsR) off t k extrap inplace d sh :
  wfS s -> st s = SFull d sh (rows s) -> shape_eqb (oshape o) sh = true -> length (oel o) = nel sh ->
  (0 < nel sh)%nat -> in_range (N s) t -> between k t ->
  let sa := IZR (k + 1) * dt - t in
  let ex := zipw (fun x pn => extrap x sa (fst pn) (snd pn) dt) (oel o)
                 (combine (at_ s (off + k + 1)) (at_ s (off + k))) in
  exists s', insert_scalar RN s o dt tol off t extrap inplace = Ok s' OUnit /\
    wfS s' /\ N s' = N s /\ ptr s' = ptr s /\ st s' = SFull d sh (rows s') /\
    forall j, at_ s' j =
      if (j mod Z.of_nat (N s) =? (off + k) mod Z.of_nat (N s))%Z then map snd ex
      else if (j mod Z.of_nat (N s) =? (off + k + 1) mod Z.of_nat (N s))%Z then map fst ex
      else at_ s j.
Proof.
  intros Hwf Est Hsh Hlen Hnel Hr Hb sa ex. assert (Hf : full s) by (unfold full; rewrite Est; exact I).
  pose proof (proj1 Hwf) as Hwf0. pose proof Hwf0 as (Hn & Hp & Hl0). rewrite Est in Hl0.
  destruct (between_in_range (N s) t k Hr Hb) as (Hk0 & Hk1). assert (HN2 : (2 <= N s)%nat) by lia.
  destruct (ceil_off_between t k off Hb) as (Ec & Efl).
  pose proof (at_length s d sh (off + k + 1) Hwf Est) as Hlp. pose proof (at_length s d sh (off + k) Hwf Est) as Hln.
  assert (Hexl : length ex = nel sh).
  { unfold ex. rewrite zipw_length, combine_length, Hlp, Hln, Hlen. lia. }
  assert (Hneq : ((off + k) mod Z.of_nat (N s) <> (off + k + 1) mod Z.of_nat (N s))%Z) by (apply mod_succ_neq; lia).
  (* the common conclusion from a characterisation of at_ s' *)
  assert (Hfin : forall s', wf s' -> N s' = N s -> ptr s' = ptr s -> st s' = SFull d sh (rows s') ->
            (forall j, at_ s' j =
               if (j mod Z.of_nat (N s) =? (off + k) mod Z.of_nat (N s))%Z then map snd ex
               else if (j mod Z.of_nat (N s) =? (off + k + 1) mod Z.of_nat (N s))%Z then map fst ex
               else at_ s j) -> wfS s').
  { intros s' Hwf' _ _ Est' Hat. apply (wfS_intro s' d sh Hwf' Est'). intros j. rewrite Hat.
    destruct (_ =? _)%Z; [rewrite map_length; exact Hexl|].
    destruct (_ =? _)%Z; [rewrite map_length; exact Hexl|apply (at_length s d sh); assumption]. }
  unfold insert_scalar. rn_simpl. rewrite Est, Hsh. cbn [negb]. rw (in_range_ok _ _ Hr). rw (between_off_grid t k Hb).
  rw Ec. rw Efl. rw (sample_at_between t k Hb).
  change (nth (idx s (off + k + 1)) (rows s) []) with (at_ s (off + k + 1)).
  change (nth (idx s (off + k)) (rows s) []) with (at_ s (off + k)).
  fold sa. fold ex.
  destruct inplace.
  - (* in place: two indexed assignments *)
    eexists. split; [reflexivity|].
    set (s' := set_st s _).
    assert (Hat : forall j, at_ s' j =
               if (j mod Z.of_nat (N s) =? (off + k) mod Z.of_nat (N s))%Z then map snd ex
               else if (j mod Z.of_nat (N s) =? (off + k + 1) mod Z.of_nat (N s))%Z then map fst ex
               else at_ s j).
    { intros j. unfold at_ at 1. unfold s', rows, set_st; cbn [st N ptr]. change (idx (mkRing (N s) (ptr s) _) j) with (idx s j).
      pose proof (idx_ltR s (off + k) Hwf0). pose proof (idx_ltR s (off + k + 1) Hwf0).
      rewrite l_nth_upd by (rewrite l_upd_length; lia). rewrite l_nth_upd by lia.
      pose proof (idx_eq_iffR s j (off + k) Hwf0) as I1. pose proof (idx_eq_iffR s j (off + k + 1) Hwf0) as I2.
      destruct (Nat.eqb_spec (idx s j) (idx s (off + k))) as [E1|E1];
        destruct (Z.eqb_spec (j mod Z.of_nat (N s)) ((off + k) mod Z.of_nat (N s))) as [Z1|Z1]; try tauto; [reflexivity|].
      destruct (Nat.eqb_spec (idx s j) (idx s (off + k + 1))) as [E2|E2];
        destruct (Z.eqb_spec (j mod Z.of_nat (N s)) ((off + k + 1) mod Z.of_nat (N s))) as [Z2|Z2]; try tauto; reflexivity. }
    assert (Hwf' : wf s').
    { unfold s', wf, set_st; cbn [st N ptr]. rewrite !l_upd_length. auto. }
    assert (Est' : st s' = SFull d sh (rows s')) by reflexivity.
    split; [apply Hfin; auto|]. auto.
  - (* out of place: a forward range write of the two columns at the older slot *)
    set (r := mkRng d sh (map (fun pn : R * R => [fst pn; snd pn]) ex)).
    assert (Hex : ex <> []) by (intros E; rewrite E in Hexl; cbn in Hexl; lia).
    assert (Hrl : range_len r = 2%nat).
    { unfold range_len, r; cbn [rcols]. destruct ex as [|x ex']; [congruence|reflexivity]. }
    destruct (writerange_scalar_spec (castU RN) promU eqbU 0 s r (off + k + 1) true false Hwf0 Hf) as (d0 & sh0 & Est0 & Hw).
    { rewrite Hrl. lia. }
    { rewrite Hrl. unfold r; cbn [rcols]. apply Forall_forall. intros c Hc. apply in_map_iff in Hc. destruct Hc as (pn & <- & _). reflexivity. }
    rn_simpl. rewrite Est in Est0. injection Est0 as <- <-.
    destruct (Hw Hsh) as (s' & d' & Hw' & Hwf' & HN' & Hp' & Est' & Hd' & Hat). clear Hw.
    exists s'. split; [exact Hw'|]. destruct d'.
    assert (Hat2 : forall j, at_ s' j =
               if (j mod Z.of_nat (N s) =? (off + k) mod Z.of_nat (N s))%Z then map snd ex
               else if (j mod Z.of_nat (N s) =? (off + k + 1) mod Z.of_nat (N s))%Z then map fst ex
               else at_ s j).
    { intros j. rewrite Hat. rewrite Hrl. unfold shift_off.
      destruct (hit_cases s (off + k + 1) j Hwf0 HN2) as (H0 & H1).
      replace (off + k + 1 - 1)%Z with (off + k)%Z in H1 by lia.
      assert (C0 : col 0 (rcols r) 0 = map fst ex) by (unfold col, r; cbn [rcols]; rewrite map_map; reflexivity).
      assert (C1 : col 0 (rcols r) 1 = map snd ex) by (unfold col, r; cbn [rcols]; rewrite map_map; reflexivity).
      assert (Hval : (if (hit s (off + k + 1) j <? 2)%nat then col 0 (rcols r) (hit s (off + k + 1) j) else at_ s j) =
               if (j mod Z.of_nat (N s) =? (off + k) mod Z.of_nat (N s))%Z then map snd ex
               else if (j mod Z.of_nat (N s) =? (off + k + 1) mod Z.of_nat (N s))%Z then map fst ex
               else at_ s j).
      { destruct (Z.eqb_spec (j mod Z.of_nat (N s)) ((off + k) mod Z.of_nat (N s))) as [Z1|Z1].
        - rewrite (proj2 H1 Z1). cbn [Nat.ltb Nat.leb]. exact C1.
        - destruct (Z.eqb_spec (j mod Z.of_nat (N s)) ((off + k + 1) mod Z.of_nat (N s))) as [Z2|Z2].
          + rewrite (proj2 H0 Z2). cbn [Nat.ltb Nat.leb]. exact C0.
          + destruct (Nat.ltb_spec (hit s (off + k + 1) j) 2) as [Hlt|]; [|reflexivity].
            exfalso. destruct (hit s (off + k + 1) j) as [|[|h]] eqn:Eh; [apply Z2; tauto|apply Z1; tauto|lia]. }
      destruct (true || _)%bool at 1.
      - destruct (hit s (off + k + 1) j <? 2)%nat eqn:El; rewrite El in Hval; rewrite <- Hval; [apply map_castU|reflexivity].
      - rewrite map_castU. exact Hval. }
    split; [apply Hfin; auto|]. auto.
Qed.

End Time.
