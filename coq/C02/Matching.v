(* The round-trip law relating an extrapolation (used by RecordTensor.insert) to an interpolation (used
   by RecordTensor.select), real-number reading.  Definitions only; the law is proved for the shipped
   kernels in C02/RoundTrip.v and used by C02/SelectProofs.v.

   Reading: [extrap sample sample_at prev next dt] returns the pair (X(0), X(dt)) written onto the two
   bracketing slots, [interp X(0) X(dt) sample_at dt] reads the value back at the same sample time. *)
From Coq Require Import Reals.
Open Scope R_scope.

Definition interp_t := R -> R -> R -> R -> R.          (* prev next sample_at step_time *)
Definition extrap_t := R -> R -> R -> R -> R -> R * R. (* sample sample_at prev next step_time *)

(* the round-trip law, for sample times strictly inside the step *)
Definition matching (dt : R) (interp : interp_t) (extrap : extrap_t) : Prop :=
  forall x sa p n, 0 < sa < dt ->
    interp (fst (extrap x sa p n dt)) (snd (extrap x sa p n dt)) sa dt = x.

