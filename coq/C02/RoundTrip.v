(* Algebraic round trips  interp (extrap sample) = sample  for every shipped matching pair of
   inferno.functional.extrapolation / inferno.functional.interpolation, stated about the GENERATED
   kernels (Gen/Interpolation.v, Gen/Extrapolation.v), real-number instance.
   Shared by C02 (insert followed by select at the same time) and C20 (first clause).

   Reading: [extrap sample sample_at prev next dt] returns the pair (X(0), X(dt)) written onto the two
   bracketing slots, [interp X(0) X(dt) sample_at dt] reads the value back at the same sample time.
   [matching dt interp extrap] is the round-trip law for 0 < sample_at < dt. *)
From Coq Require Import ZArith Reals Bool Lra Lia.
From Inferno Require Import Base.Num Base.NumR Gen.Interpolation Gen.Extrapolation.
From Inferno Require Export C02.Matching.
Open Scope R_scope.

(* ------------------------------------------------------------------ previous / next / nearest *)
Lemma rt_previous_previous dt : matching dt (interp_previous RN) (extrap_previous RN).
Proof. intros x sa p n _. reflexivity. Qed.

Lemma rt_next_next dt : matching dt (interp_next RN) (extrap_next RN).
Proof. intros x sa p n _. reflexivity. Qed.

Lemma rt_nearest_nearest dt : 0 < dt -> matching dt (interp_nearest RN) (extrap_nearest RN).
Proof.
  intros Hdt x sa p n Hsa. unfold interp_nearest, extrap_nearest. rn_unfold. cbn [fst snd].
  assert (E : sa / dt - / 2 = (sa - dt / 2) / dt) by (field; lra).
  assert (Hiff : / 2 < sa / dt <-> dt / 2 < sa).
  { split; intros H.
    - assert (0 < (sa - dt / 2) / dt) by lra.
      assert (0 < (sa - dt / 2) / dt * dt) by (apply Rmult_lt_0_compat; lra).
      replace ((sa - dt / 2) / dt * dt) with (sa - dt / 2) in * by (field; lra). lra.
    - assert (0 < (sa - dt / 2) / dt) by (apply Rdiv_lt_0_compat; lra). lra. }
  change (IZR 2) with 2.
  destruct (Rltb'_spec (dt / 2) sa) as [H1|H1]; destruct (Rltb'_spec (/ 2) (sa / dt)) as [H2|H2];
    try reflexivity; exfalso; tauto.
Qed.

(* ------------------------------------------------------------------ neighbors with any value-preserving interpolation *)
Lemma rt_previous_neighbors dt : matching dt (interp_previous RN) (extrap_neighbors RN).
Proof. intros x sa p n _. reflexivity. Qed.
Lemma rt_next_neighbors dt : matching dt (interp_next RN) (extrap_neighbors RN).
Proof. intros x sa p n _. reflexivity. Qed.
Lemma rt_nearest_neighbors dt : matching dt (interp_nearest RN) (extrap_neighbors RN).
Proof.
  intros x sa p n _. unfold interp_nearest, extrap_neighbors. cbn [fst snd].
  destruct (gtb RN (div RN sa dt) (half RN)); reflexivity.
Qed.
Lemma rt_linear_neighbors dt : 0 < dt -> matching dt (interp_linear RN) (extrap_neighbors RN).
Proof.
  intros Hdt x sa p n _. unfold interp_linear, extrap_neighbors. rn_simpl. cbn [fst snd]. field. lra.
Qed.
(* any interpolation that returns the common value when both neighbours are equal *)
Lemma rt_any_neighbors dt (interp : interp_t) :
  (forall v sa, 0 < sa < dt -> interp v v sa dt = v) -> matching dt interp (extrap_neighbors RN).
Proof. intros H x sa p n Hsa. unfold extrap_neighbors. cbn [fst snd]. apply H; exact Hsa. Qed.

(* ------------------------------------------------------------------ linear *)
Lemma rt_linear_forward dt adjust : 0 < dt ->
  matching dt (interp_linear RN) (fun x sa p n st => extrap_linear_forward RN x sa p n st adjust).
Proof.
  intros Hdt x sa p n Hsa. unfold interp_linear, extrap_linear_forward. rn_simpl.
  destruct adjust as [f|]; cbn [fst snd]; field; lra.
Qed.

Lemma rt_linear_backward dt adjust : 0 < dt ->
  matching dt (interp_linear RN) (fun x sa p n st => extrap_linear_backward RN x sa p n st adjust).
Proof.
  intros Hdt x sa p n Hsa. unfold interp_linear, extrap_linear_backward. rn_simpl.
  destruct adjust as [f|]; cbn [fst snd]; field; lra.
Qed.

(* ------------------------------------------------------------------ exponential decay *)
Lemma exp_cancel a : Rtrigo_def.exp a * Rtrigo_def.exp (- a) = 1.
Proof. rewrite <- exp_plus. replace (a + - a) with 0 by ring. apply exp_0. Qed.

Lemma rt_expdecay dt tc :
  matching dt (fun p n sa st => interp_expdecay RN p n sa st tc)
              (fun x sa p n st => extrap_expdecay RN x sa p n st tc).
Proof.
  intros x sa p n _. unfold interp_expdecay, extrap_expdecay. rn_simpl. cbn [fst snd].
  replace (- sa / tc) with (- (sa / tc)) by (unfold Rdiv; ring).
  rewrite Rmult_assoc, exp_cancel. ring.
Qed.

Lemma rt_expratedecay dt rc :
  matching dt (fun p n sa st => interp_expratedecay RN p n sa st rc)
              (fun x sa p n st => extrap_expratedecay RN x sa p n st rc).
Proof.
  intros x sa p n _. unfold interp_expratedecay, extrap_expratedecay. rn_simpl. cbn [fst snd].
  replace (- sa * rc) with (- (sa * rc)) by ring.
  rewrite Rmult_assoc, exp_cancel. ring.
Qed.

(* ------------------------------------------------------------------ the other halves of the pairs:
   what extrapolation writes onto the slot it does NOT derive from the sample *)
Lemma extrap_previous_keeps_next x sa p n dt : snd (extrap_previous RN x sa p n dt) = n.
Proof. reflexivity. Qed.
Lemma extrap_next_keeps_prev x sa p n dt : fst (extrap_next RN x sa p n dt) = p.
Proof. reflexivity. Qed.
Lemma extrap_nearest_keeps_far x sa p n dt :
  (dt / 2 < sa -> fst (extrap_nearest RN x sa p n dt) = p) /\
  (sa <= dt / 2 -> snd (extrap_nearest RN x sa p n dt) = n).
Proof.
  unfold extrap_nearest. rn_unfold. change (IZR 2) with 2. cbn [fst snd].
  destruct (Rltb'_spec (dt / 2) sa); split; intros; try reflexivity; lra.
Qed.

(* ------------------------------------------------------------------ mismatched pairs do NOT round-trip
   (so [matching] is not a vacuous or trivially true predicate) *)
Lemma mismatch_previous_next_no_roundtrip : ~ matching 1 (interp_previous RN) (extrap_next RN).
Proof.
  intros H. specialize (H 1 (/ 2) 0 0 ltac:(lra)). unfold interp_previous, extrap_next in H. cbn [fst snd] in H. lra.
Qed.
Lemma mismatch_expdecay_neighbors_no_roundtrip : ~ matching 1 (fun p n sa st => interp_expdecay RN p n sa st 1) (extrap_neighbors RN).
Proof.
  intros H. specialize (H 1 (/ 2) 0 0 ltac:(lra)).
  unfold interp_expdecay, extrap_neighbors in H. rn_simpl. cbn [fst snd] in H.
  assert (Hlt : Rtrigo_def.exp (- / 2 / 1) < Rtrigo_def.exp 0) by (apply exp_increasing; lra).
  rewrite exp_0 in Hlt. lra.
Qed.

(* ------------------------------------------------------------------ all shipped matching pairs at once *)
Theorem shipped_pairs_matching (dt tc rc : R) (adjust : option (R -> R)) : 0 < dt ->
  matching dt (interp_previous RN) (extrap_previous RN) /\
  matching dt (interp_next RN) (extrap_next RN) /\
  matching dt (interp_nearest RN) (extrap_nearest RN) /\
  matching dt (interp_previous RN) (extrap_neighbors RN) /\
  matching dt (interp_next RN) (extrap_neighbors RN) /\
  matching dt (interp_nearest RN) (extrap_neighbors RN) /\
  matching dt (interp_linear RN) (extrap_neighbors RN) /\
  matching dt (interp_linear RN) (fun x sa p n st => extrap_linear_forward RN x sa p n st adjust) /\
  matching dt (interp_linear RN) (fun x sa p n st => extrap_linear_backward RN x sa p n st adjust) /\
  matching dt (fun p n sa st => interp_expdecay RN p n sa st tc) (fun x sa p n st => extrap_expdecay RN x sa p n st tc) /\
  matching dt (fun p n sa st => interp_expratedecay RN p n sa st rc) (fun x sa p n st => extrap_expratedecay RN x sa p n st rc).
Proof.
  intros Hdt. repeat match goal with |- _ /\ _ => split end.
  - apply rt_previous_previous.
  - apply rt_next_next.
  - apply rt_nearest_nearest; exact Hdt.
  - apply rt_previous_neighbors.
  - apply rt_next_neighbors.
  - apply rt_nearest_neighbors.
  - apply rt_linear_neighbors; exact Hdt.
  - apply rt_linear_forward; exact Hdt.
  - apply rt_linear_backward; exact Hdt.
  - apply rt_expdecay.
  - apply rt_expratedecay.
Qed.
