(* Executable (binary64) instance of the select/insert model for the correspondence check: the
   shipped interpolation / extrapolation kernels (GENERATED definitions) selected by a code,
   operations as data, exact serialisation of every output and of the whole state. *)
From Coq Require Import List ZArith Bool PrimFloat.
From Inferno Require Import Base.Num Base.NumF Gen.Infra Gen.Interpolation Gen.Extrapolation C01.Ring C02.Select.
Import ListNotations.

Definition ringF := @ring float unit.
Definition obsF := @obs float unit.

(* interpolation codes: 0 previous 1 next 2 nearest 3 linear 4 expdecay(par) 5 expratedecay(par);
   6, 7: probe interpolations of the harness (not shipped kernels) that make the decision observable:
   6 returns the older sample + 100, 7 the newer sample + 300 (an exact read returns the bare sample) *)
Definition interp_of (code : Z) (par : float) : interp_fn FN :=
  match code with
  | 0%Z => interp_previous FN
  | 1%Z => interp_next FN
  | 2%Z => interp_nearest FN
  | 3%Z => interp_linear FN
  | 4%Z => fun p n sa st => interp_expdecay FN p n sa st par
  | 5%Z => fun p n sa st => interp_expratedecay FN p n sa st par
  | 6%Z => fun p n sa st => (p + 100)%float
  | _ => fun p n sa st => (n + 300)%float
  end.
(* extrapolation codes: 0 previous 1 next 2 neighbors 3 nearest 4 linear_forward 5 linear_backward
   6 expdecay(par) 7 expratedecay(par); for 4/5: par = 0 -> adjust None, otherwise adjust = (x |-> x * par) *)
Definition adjust_of (par : float) : option (float -> float) :=
  if (par =? 0)%float then None else Some (fun x => (x * par)%float).
Definition extrap_of (code : Z) (par : float) : extrap_fn FN :=
  match code with
  | 0%Z => extrap_previous FN
  | 1%Z => extrap_next FN
  | 2%Z => extrap_neighbors FN
  | 3%Z => extrap_nearest FN
  | 4%Z => fun x sa p n st => extrap_linear_forward FN x sa p n st (adjust_of par)
  | 5%Z => fun x sa p n st => extrap_linear_backward FN x sa p n st (adjust_of par)
  | 6%Z => fun x sa p n st => extrap_expdecay FN x sa p n st par
  | _ => fun x sa p n st => extrap_expratedecay FN x sa p n st par
  end.

Inductive sop :=
| SPush (el : list float)
| SFill (rows : list (list float))      (* many pushes, one trace entry *)
| SIncr (k : Z)
| SSelS (tol : float) (off : Z) (t : float) (ic : Z) (par : float)
| SSelT (tol : float) (off : Z) (tnd : nat) (times : list (list float)) (ic : Z) (par : float)
| SInsS (sh : list nat) (el : list float) (tol : float) (off : Z) (t : float) (ec : Z) (par : float) (inplace : bool)
| SInsT (sh : list nat) (el : list float) (tol : float) (off : Z) (tsh : list nat) (times : list float)
        (ec : Z) (par : float) (inplace : bool).

Definition sstep (dt : float) (shape : list nat) (s : ringF) (o : sop) : @result float unit :=
  match o with
  | SPush el => push (castU FN) 0%float s (mkObs tt shape el) true
  | SFill rows =>
      fold_left (fun r el => match r with
                             | Ok s' _ => push (castU FN) 0%float s' (mkObs tt shape el) true
                             | Err e => Err e
                             end) rows (Ok s OUnit)
  | SIncr k => incr s k
  | SSelS tol off t ic par => select_scalar FN s dt tol off t (interp_of ic par)
  | SSelT tol off tnd times ic par => select_tensor FN s dt tol off tnd times (interp_of ic par)
  | SInsS sh el tol off t ec par ip => insert_scalar FN s (mkObs tt sh el) dt tol off t (extrap_of ec par) ip
  | SInsT sh el tol off tsh times ec par ip =>
      insert_tensor FN s (mkObs tt sh el) dt tol off tsh times (extrap_of ec par) ip
  end.

Definition ser_err (e : err) : tree := match e with ERuntime => L 1 | EValue => L 2 | EIndex => L 3 end%Z.
Definition ser_shape (s : list nat) : tree := ser_list ser_nat s.
Definition ser_out (o : @output float unit) : tree :=
  match o with
  | ONone => Nd [L 0]
  | OUnit => Nd [L 1]
  | OInt z => Nd [L 2; L z]
  | OObs _ sh el => Nd [L 3; ser_shape sh; ser_list ser_float el]
  | ORng r => Nd [L 4; ser_shape (rshape r); ser_list (ser_list ser_float) (rcols r)]
  end%Z.
Definition ser_state (s : ringF) : tree :=
  match st s with
  | SNone => Nd [ser_nat (N s); ser_nat (ptr s); L 0]
  | SEmpty _ => Nd [ser_nat (N s); ser_nat (ptr s); L 1]
  | SFull _ sh rows => Nd [ser_nat (N s); ser_nat (ptr s); L 2; ser_shape sh; ser_list (ser_list ser_float) rows]
  end%Z.

Fixpoint trace (dt : float) (shape : list nat) (s : ringF) (ops : list sop) : list tree :=
  match ops with
  | [] => []
  | o :: tl =>
      match sstep dt shape s o with
      | Ok s' out => Nd [Nd [L 0; ser_out out]; ser_state s'] :: trace dt shape s' tl
      | Err e => Nd [Nd [L 1; ser_err e]; ser_state s] :: trace dt shape s tl
      end
  end%Z.
Definition run_case (n : nat) (dt : float) (shape : list nat) (ops : list sop) : tree :=
  Nd (trace dt shape (mkRing n 0 SNone) ops).

(* long records: the state is serialised only after the operations that can change it (a select returns
   the record it was given, by construction of the model) *)
Definition changes (o : sop) : bool :=
  match o with SSelS _ _ _ _ _ | SSelT _ _ _ _ _ _ => false | _ => true end.
Fixpoint trace_lite (dt : float) (shape : list nat) (s : ringF) (ops : list sop) : list tree :=
  match ops with
  | [] => []
  | o :: tl =>
      match sstep dt shape s o with
      | Ok s' out => Nd [Nd [L 0; ser_out out]; if changes o then ser_state s' else Nd []] :: trace_lite dt shape s' tl
      | Err e => Nd [Nd [L 1; ser_err e]; Nd []] :: trace_lite dt shape s tl
      end
  end%Z.
Definition run_case_lite (n : nat) (dt : float) (shape : list nat) (ops : list sop) : tree :=
  Nd (trace_lite dt shape (mkRing n 0 SNone) ops).
