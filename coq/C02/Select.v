(* Model of RecordTensor.select / RecordTensor.insert (inferno/core/infrastructure.py), on top of the
   C01 ring model, mirroring the code branch by branch: scalar-time and tensor-time are different
   functions, in-place and out-of-place scalar inserts are different paths (the latter goes through
   C01's writerange_scalar, as the code goes through self.writerange).
   Definitions only (no proofs): this file must keep running for the correspondence check when a
   proof elsewhere is broken.  Written once, polymorphic in the numeric reading NM : Num.

   Elements are T NM; a single floating-point data type is fixed (D := unit, casts are the identity).
   The interpolation / extrapolation function is a parameter (element-wise reading of the tensor
   function, as in Gen/Interpolation.v, Gen/Extrapolation.v).

   Index arithmetic uses the GENERATED _unwind_ptr through C01's [idx]; _unwind_tensor_ptr
   (infrastructure.py:849-850) is the same formula element-wise. *)
From Coq Require Import List ZArith Bool Arith.
From Inferno Require Import Base.Num Gen.Infra C01.Ring.
Import ListNotations.

Section Select.
Variable NM : Num.
Notation A := (T NM).

(* the single data type *)
Definition castU (_ : unit) (x : A) : A := x.
Definition promU (_ _ : unit) : unit := tt.
Definition eqbU (_ _ : unit) : bool := true.

Notation ring := (@ring A unit).
Notation obs := (@obs A unit).
Notation result := (@result A unit).

Definition interp_fn := A -> A -> A -> A -> A.              (* prev next sample_at step_time *)
Definition extrap_fn := A -> A -> A -> A -> A -> A * A.     (* sample sample_at prev next step_time *)

(* element-wise application of a two-argument tensor function *)
Definition zipw {X Y Z} (f : X -> Y -> Z) (l1 : list X) (l2 : list Y) : list Z :=
  map (fun p => f (fst p) (snd p)) (combine l1 l2).

(* ---------- the time arithmetic shared (textually repeated in the code) by all four paths ---------- *)
(* range validation: time < -tolerance or time > dt * (recordsz - 1) + tolerance
   (infrastructure.py:2090, 2142, 2263, 2331) *)
Definition out_of_range (n : nat) (dt tol t : A) : bool :=
  ltb NM t (opp NM tol) || gtb NM t (add NM (mul NM dt (ofZ NM (Z.of_nat n - 1))) tol).

Definition shift_of (dt t : A) : A := div NM t dt.                       (* shift = time / dt *)
(* abs(dt * round(shift) - time) <= tolerance  (round = half to even, python round / torch.round) *)
Definition on_grid (dt tol t : A) : bool :=
  leb NM (abs NM (sub NM (mul NM dt (ofZ NM (rneZ NM (shift_of dt t)))) t)) tol.
(* x % 1 for a float: x - floor(x)   (hand-written reading of python/torch remainder by 1) *)
Definition frac1 (x : A) : A := sub NM x (ofZ NM (floorZ NM x)).
(* dt - dt * (shift % 1) *)
Definition sample_at (dt shift : A) : A := sub NM dt (mul NM dt (frac1 shift)).
(* tensor paths: torch.where(abs(dt * shiftr - time) <= tolerance, shiftr, shift) *)
Definition snapped (dt tol t : A) : A :=
  if on_grid dt tol t then ofZ NM (rneZ NM (shift_of dt t)) else shift_of dt t.

(* ---------- select, scalar time (infrastructure.py:2138-2167) ---------- *)
Definition select_scalar (s : ring) (dt tol : A) (off : Z) (t : A) (interp : interp_fn) : result :=
  match st s with
  | SFull d sh rows =>
      if out_of_range (N s) dt tol t then Err EValue
      else
        let shift := shift_of dt t in
        if on_grid dt tol t then
          Ok s (OObs d sh (nth (idx s (off + rneZ NM shift)) rows []))
        else
          let o := add NM (ofZ NM off) shift in
          let prev := nth (idx s (ceilZ NM o)) rows [] in
          let next := nth (idx s (floorZ NM o)) rows [] in
          let sa := sample_at dt shift in
          Ok s (OObs d sh (zipw (fun p n => interp p n sa dt) prev next))
  | _ => Err ERuntime
  end.

(* ---------- select, tensor time (infrastructure.py:2075-2136) ----------
   one value of the result: element e, time t *)
Definition sel_elem (s : ring) (rows : list (list A)) (dt tol : A) (off : Z) (interp : interp_fn)
           (e : nat) (t : A) : A :=
  let shift := snapped dt tol t in
  let o := add NM (ofZ NM off) shift in
  let pk := ceilZ NM o in
  let nk := floorZ NM o in
  let p := nth e (nth (idx s pk) rows []) (zero NM) in          (* torch.gather *)
  let n := nth e (nth (idx s nk) rows []) (zero NM) in
  let res := interp p n (sample_at dt shift) dt in
  if Z.eqb pk nk then p else res.                                 (* bypass for exact indices *)

(* [tnd] is time.ndim; [times] is element-major: for each element of an observation the list of its
   D times (D = 1 when the output is squeezed).  Only the number of dimensions of the time tensor
   is validated by the code; a time tensor with the right number of dimensions is assumed to have
   the observation's shape (plus the trailing D). *)
Definition select_tensor (s : ring) (dt tol : A) (off : Z) (tnd : nat) (times : list (list A))
           (interp : interp_fn) : result :=
  match st s with
  | SFull d sh rows =>
      if negb ((tnd =? length sh) || (tnd =? S (length sh))) then Err EValue
      else if existsb (out_of_range (N s) dt tol) (concat times) then Err EValue
      else
        let cols := map (fun e => map (sel_elem s rows dt tol off interp e) (nth e times []))
                        (seq 0 (nel sh)) in
        if tnd =? length sh then Ok s (OObs d sh (map (fun c => hd (zero NM) c) cols))
        else Ok s (ORng (mkRng d sh cols))
  | _ => Err ERuntime
  end.

(* ---------- insert, scalar time (infrastructure.py:2327-2377) ---------- *)
Definition insert_scalar (s : ring) (o : obs) (dt tol : A) (off : Z) (t : A) (extrap : extrap_fn)
           (inplace : bool) : result :=
  match st s with
  | SFull d sh rows =>
      if negb (shape_eqb (oshape o) sh) then Err EValue
      else if out_of_range (N s) dt tol t then Err EValue
      else
        let shift := shift_of dt t in
        if on_grid dt tol t then write castU s o (off + rneZ NM shift) inplace
        else
          let ofs := add NM (ofZ NM off) shift in
          let pk := ceilZ NM ofs in
          let pi := idx s pk in
          let ni := idx s (floorZ NM ofs) in
          let sa := sample_at dt shift in
          let ex := zipw (fun x pn => extrap x sa (fst pn) (snd pn) dt) (oel o)
                         (combine (nth pi rows []) (nth ni rows [])) in
          if inplace then
            (* data[prev_idx] = prev_exobs; data[next_idx] = next_exobs *)
            Ok (set_st s (SFull d sh (upd (upd rows pi (map fst ex)) ni (map snd ex)))) OUnit
          else
            (* self.writerange(stack((prev_exobs, next_exobs), -1), ceil(offset), forward=True, inplace=False) *)
            writerange_scalar castU promU (zero NM) s
              (mkRng d sh (map (fun pn => [fst pn; snd pn]) ex)) pk true false
  | _ => Err ERuntime
  end.

(* ---------- insert, tensor time (infrastructure.py:2252-2325) ----------
   what one element contributes: (prev slot, value for it, next slot, value for it) *)
Definition ins_elem (s : ring) (rows : list (list A)) (dt tol : A) (off : Z) (extrap : extrap_fn)
           (e : nat) (x t : A) : (nat * A) * (nat * A) :=
  let shift := snapped dt tol t in
  let o := add NM (ofZ NM off) shift in
  let pk := ceilZ NM o in
  let nk := floorZ NM o in
  let p := nth e (nth (idx s pk) rows []) (zero NM) in
  let n := nth e (nth (idx s nk) rows []) (zero NM) in
  let ex := extrap x (sample_at dt shift) p n dt in
  let bypass := Z.eqb pk nk in
  ((idx s pk, if bypass then x else fst ex), (idx s nk, if bypass then x else snd ex)).

(* torch.scatter(data, 0, stacked_idx, cat((prev_exobs, next_exobs))): for every element e,
   data[prev_idx_e][e] = prev value, then data[next_idx_e][e] = next value (the two coincide only
   on the bypass, where both values are the observation itself).  The in-place (scatter_) and the
   out-of-place (torch.scatter) branch are the same function of the storage. *)
Definition scatter2 (rows : list (list A)) (w : nat -> (nat * A) * (nat * A)) : list (list A) :=
  map (fun i =>
         let row := nth i rows [] in
         map (fun e =>
                let '((pi, pv), (ni, nv)) := w e in
                if i =? ni then nv else if i =? pi then pv else nth e row (zero NM))
             (seq 0 (length row)))
      (seq 0 (length rows)).

Definition insert_tensor (s : ring) (o : obs) (dt tol : A) (off : Z) (tshape : list nat) (times : list A)
           (extrap : extrap_fn) (inplace : bool) : result :=
  match st s with
  | SFull d sh rows =>
      if negb (shape_eqb (oshape o) sh) then Err EValue
      else if negb (shape_eqb tshape sh) then Err EValue
      else if existsb (out_of_range (N s) dt tol) times then Err EValue
      else
        let w := fun e => ins_elem s rows dt tol off extrap e (nth e (oel o) (zero NM)) (nth e times (zero NM)) in
        if inplace then Ok (set_st s (SFull d sh (scatter2 rows w))) OUnit
        else Ok (set_st s (SFull d sh (scatter2 rows w))) OUnit
  | _ => Err ERuntime
  end.

End Select.
