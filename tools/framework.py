"""Shared machinery: Coq build, obligation checking, model evaluation (vm_compute), tree parsing,
evidence / replay / known-findings plumbing."""
from __future__ import annotations
import concurrent.futures as cf
import fcntl, glob, hashlib, json, math, os, re, shutil, subprocess, sys, threading, time

VERIF = os.path.abspath(os.path.join(os.path.dirname(__file__), ".."))
COQ = os.path.join(VERIF, "coq")
BUILD = os.path.join(VERIF, "build")
REPO = os.environ.get("INFERNO_REPO", "/repo")
PY = "/venv/bin/python"
JOBS = int(os.environ.get("VERIF_JOBS", "16"))

sys.path.insert(0, os.path.dirname(__file__))
import translate  # noqa: E402


# --------------------------------------------------------------------------- build
class BuildLock:
    def __enter__(self):
        os.makedirs(BUILD, exist_ok=True)
        self.fh = open(os.path.join(BUILD, ".lock"), "w")
        fcntl.flock(self.fh, fcntl.LOCK_EX)
        return self

    def __exit__(self, *a):
        fcntl.flock(self.fh, fcntl.LOCK_UN)
        self.fh.close()


def write_coqproject():
    files = []
    for root, _, names in os.walk(COQ):
        for n in sorted(names):
            if n.endswith(".v") and re.fullmatch(r"[A-Za-z_][A-Za-z0-9_]*\.v", n):
                files.append(os.path.relpath(os.path.join(root, n), COQ))
    files.sort()
    txt = "-Q . Inferno\n-arg -w -arg -inexact-float,-deprecated-syntactic-definition,-deprecated-instance-without-locality\n" + "\n".join(files) + "\n"
    p = os.path.join(COQ, "_CoqProject")
    if not os.path.exists(p) or open(p).read() != txt:
        open(p, "w").write(txt)
        subprocess.run(["coq_makefile", "-f", "_CoqProject", "-o", "Makefile"], cwd=COQ, check=True,
                       stdout=subprocess.DEVNULL, stderr=subprocess.DEVNULL)
    elif not os.path.exists(os.path.join(COQ, "Makefile")):
        subprocess.run(["coq_makefile", "-f", "_CoqProject", "-o", "Makefile"], cwd=COQ, check=True,
                       stdout=subprocess.DEVNULL, stderr=subprocess.DEVNULL)


def regenerate(modules: list[str] | None):
    """Re-translate kernels from the current /repo tree into coq/Gen. Returns (manifest, errors)."""
    man, errs = translate.generate(os.path.join(COQ, "Gen"), modules, REPO)
    return man, errs


COQ_ERROR_RE = re.compile(r"^Error", re.M)       # every failure of Coq itself prints a line starting with "Error"
_SERIAL = threading.Lock()
TRANSIENT = []                                    # log of retried commands (reported in the evidence)


def transient(rc: int, output: str) -> bool:
    """A coqc / make run that failed WITHOUT a Coq error message was killed from outside (out-of-memory killer or the
    shell timeout on an overloaded machine): it says nothing about the development and is retried."""
    return rc != 0 and not COQ_ERROR_RE.search(output or "")


def run_coqc(cmd: list[str], cwd: str, merge_stderr=True):
    """Run one coqc command; a run that dies without a Coq error is repeated (up to 3 more times, one at a time)."""
    kw = dict(cwd=cwd, stdout=subprocess.PIPE, stderr=subprocess.STDOUT if merge_stderr else subprocess.PIPE, text=True)
    r = subprocess.run(cmd, **kw)
    for attempt in range(3):
        if not transient(r.returncode, (r.stdout or "") + (r.stderr or "" if not merge_stderr else "")):
            break
        TRANSIENT.append({"cmd": " ".join(cmd[-2:]), "rc": r.returncode, "attempt": attempt + 1})
        if r.returncode == 124 and attempt >= 1:      # the shell timeout fired twice: not a transient condition
            break
        time.sleep(5 * (attempt + 1))
        with _SERIAL:
            r = subprocess.run(cmd, **kw)
    return r


def make(targets: list[str], timeout=1500):
    """make the given .vo targets (relative to coq/).  Returns (ok, output)."""
    write_coqproject()
    jobs = JOBS
    for attempt in range(3):
        cmd = ["timeout", str(timeout), "make", "-k", f"-j{jobs}"] + targets
        r = subprocess.run(cmd, cwd=COQ, stdout=subprocess.PIPE, stderr=subprocess.STDOUT, text=True)
        if not transient(r.returncode, r.stdout):
            break
        TRANSIENT.append({"cmd": "make", "rc": r.returncode, "attempt": attempt + 1})
        jobs = max(2, jobs // 2)          # killed without a Coq error (memory pressure / overload): again, with fewer jobs
        time.sleep(5)
    return r.returncode == 0, r.stdout


def prop_files(pid: str) -> list[str]:
    return sorted(glob.glob(os.path.join(COQ, "Props", pid, "*.v")))


AX_RE = re.compile(r"^(Axioms:|Closed under the global context)", re.M)


def check_obligations(pid: str, timeout=900):
    """Compile every obligation file of a property.  Returns list of dicts
    {name, ok, assumptions:[...], error}."""
    files = prop_files(pid)
    rel = [os.path.relpath(f, COQ) for f in files]
    # first make their dependencies (everything they import) by asking make for the .vo files;
    # then re-run coqc on each obligation file to capture Print Assumptions output.
    ok_all, out = make([r[:-2] + ".vo" for r in rel], timeout=timeout)
    res = []

    def one(f):
        r = run_coqc(["timeout", "600", "coqc", "-Q", ".", "Inferno", "-w",
                      "-inexact-float,-deprecated-syntactic-definition,-deprecated-instance-without-locality",
                      os.path.relpath(f, COQ)], COQ)
        name = os.path.basename(f)[:-2]
        ass = []
        if r.returncode == 0:
            # parse the Print Assumptions blocks
            blocks = re.split(r"\n(?=Axioms:|Closed under the global context)", "\n" + r.stdout)
            for b in blocks:
                if b.startswith("Axioms:"):
                    for m in re.finditer(r"^([A-Za-z_][\w.']*)\s*:", b[len("Axioms:"):], re.M):
                        ass.append(m.group(1))
            return {"name": name, "ok": True, "assumptions": sorted(set(ass)), "error": None}
        return {"name": name, "ok": False, "assumptions": [], "error": r.stdout[-1500:]}

    with cf.ThreadPoolExecutor(JOBS) as ex:
        res = list(ex.map(one, files))
    return res, out


def coqchk(pid: str, timeout=1800):
    """independent re-check of the compiled obligations with coqchk (thorough tier); returns (ok, axioms-text)"""
    mods = ["Inferno.Props.%s.%s" % (pid, os.path.basename(f)[:-2]) for f in prop_files(pid)]
    if not mods:
        return True, ""
    r = subprocess.run(["timeout", str(timeout), "coqchk", "-silent", "-o", "-Q", ".", "Inferno"] + mods, cwd=COQ,
                       stdout=subprocess.PIPE, stderr=subprocess.STDOUT, text=True)
    txt = r.stdout
    i = txt.find("CONTEXT SUMMARY")
    return r.returncode == 0, (txt[i:] if i >= 0 else txt[-3000:])[:6000]


FORBIDDEN = re.compile(r"\b(Admitted|admit|Axiom|Axioms|Parameter|Parameters|Conjecture|Abort All|bypass_check|"
                       r"Unset Guard Checking|Unset Positivity Checking|Unset Universe Checking|Admit Obligations|"
                       r"native_compute)\b")


def audit_sources():
    """grep the development for anything that would declare an axiom or switch off a kernel check"""
    bad = []
    for root, _, names in os.walk(COQ):
        for n in names:
            if not n.endswith(".v"):
                continue
            p = os.path.join(root, n)
            txt = re.sub(r"\(\*.*?\*\)", "", open(p).read(), flags=re.S)
            for i, line in enumerate(txt.split("\n"), 1):
                if FORBIDDEN.search(line):
                    bad.append(f"{os.path.relpath(p, VERIF)}:{i}: {line.strip()[:100]}")
            # Variable/Hypothesis outside a section
            depth = 0
            for i, line in enumerate(txt.split("\n"), 1):
                s = line.strip()
                if re.match(r"Section\s+\w+", s):
                    depth += 1
                elif re.match(r"End\s+\w+\s*\.", s) and depth > 0:
                    depth -= 1
                elif re.match(r"(Variables?|Hypothes[ie]s|Context)\b", s) and depth == 0:
                    bad.append(f"{os.path.relpath(p, VERIF)}:{i}: {s[:80]} (outside section)")
    return bad


# --------------------------------------------------------------------------- model evaluation
TOK = re.compile(r"Nd|L|\[|\]|;|-?\d+")


def parse_tree(txt: str):
    toks = TOK.findall(txt.replace("%Z", ""))
    pos = 0

    def p():
        nonlocal pos
        t = toks[pos]
        if t == "L":
            pos += 1
            v = int(toks[pos]); pos += 1
            return v
        if t == "Nd":
            pos += 1
            assert toks[pos] == "[", toks[pos:pos + 5]
            pos += 1
            out = []
            while toks[pos] != "]":
                if toks[pos] == ";":
                    pos += 1
                    continue
                out.append(p())
            pos += 1
            return out
        raise ValueError(f"unexpected token {t} at {pos}")
    v = p()
    return v


def eval_terms(pid: str, header: str, terms: list[str], shard=150, tag="cases"):
    """Evaluate Coq terms of type `tree` with vm_compute (parallel coqc over shards).
    Returns list of parsed trees (or an Exception object per failing shard element)."""
    d = os.path.join(BUILD, pid)
    os.makedirs(d, exist_ok=True)
    files = []
    for k in range(0, len(terms), shard):
        p = os.path.join(d, f"{tag}_{k // shard}.v")
        with open(p, "w") as fh:
            fh.write(header + "\n")
            for i, t in enumerate(terms[k:k + shard]):
                fh.write(f"Definition c{i} : tree := {t}.\nEval vm_compute in c{i}.\n")
        files.append((p, len(terms[k:k + shard])))

    def run(a):
        p, n = a
        r = run_coqc(["timeout", "900", "coqc", "-Q", COQ, "Inferno", "-w", "-inexact-float", p], d, merge_stderr=False)
        if r.returncode != 0:
            return [RuntimeError(f"coqc failed on {p}: {r.stderr[-800:]}")] * n
        chunks = re.split(r"\n\s*: tree\s*", r.stdout)
        outs = []
        for c in chunks:
            i = c.find("=")
            if i < 0:
                continue
            outs.append(parse_tree(c[i + 1:]))
        if len(outs) != n:
            return [RuntimeError(f"expected {n} results from {p}, got {len(outs)}")] * n
        return outs
    res = []
    with cf.ThreadPoolExecutor(JOBS) as ex:
        for r in ex.map(run, files):
            res += r
    for p, _ in files:
        for ext in ("", "o", "ok", "os"):
            try:
                os.remove(p + ext)
            except OSError:
                pass
        for q in (p[:-2] + ".glob", os.path.join(d, "." + os.path.basename(p)[:-2] + ".aux")):
            try:
                os.remove(q)
            except OSError:
                pass
    return res


# ---- encoding values as Coq literals / decoding results
def coq_float(x: float) -> str:
    if x != x:
        return "nan"
    if x == math.inf:
        return "infinity"
    if x == -math.inf:
        return "neg_infinity"
    if x == 0:
        return "(-0)%float" if math.copysign(1, x) < 0 else "0%float"
    h = float(x).hex()
    return f"({h})%float"


def coq_Z(z: int) -> str:
    return f"({int(z)})%Z"


def coq_bool(b) -> str:
    return "true" if b else "false"


def coq_list(items) -> str:
    return "[" + "; ".join(items) + "]"


def coq_option(x) -> str:
    return "None" if x is None else f"(Some {x})"


def dec_float(t):
    """tree [kind, mantissa, exponent] -> python float"""
    k, m, e = t
    if k == 1:
        return math.inf
    if k == 2:
        return -math.inf
    if k == 3:
        return math.nan
    return math.ldexp(m, e)


def close(a: float, b: float, rel=1e-9, ab=1e-12) -> bool:
    if a != a or b != b:
        return a != a and b != b
    if math.isinf(a) or math.isinf(b):
        return a == b
    return abs(a - b) <= ab + rel * max(abs(a), abs(b))


# --------------------------------------------------------------------------- findings / evidence
def load_known():
    p = os.path.join(VERIF, "known_findings.json")
    if not os.path.exists(p):
        return {"findings": [], "fixed": []}
    return json.load(open(p))


def write_replay(pid: str, payload: dict) -> str:
    d = os.path.join(VERIF, "replays")
    os.makedirs(d, exist_ok=True)
    h = hashlib.sha256(json.dumps(payload, sort_keys=True, default=str).encode()).hexdigest()[:12]
    p = os.path.join(d, f"{pid}-{h}.json")
    json.dump(payload, open(p, "w"), indent=1, default=str)
    return p


def write_evidence(pid: str, ev: dict):
    os.makedirs(os.path.join(VERIF, "evidence"), exist_ok=True)
    p = os.path.join(VERIF, "evidence", f"{pid}.json")
    json.dump(ev, open(p, "w"), indent=1, default=str)
    return p


def run_impl(script: str, payload, timeout=1800):
    """Run an implementation-side harness script in a fresh interpreter of the repo's venv.
    payload (JSON) on stdin, JSON on stdout."""
    env = dict(os.environ)
    env.update({"PYTHONPATH": REPO + os.pathsep + os.path.join(VERIF, "tools"), "PYTHONHASHSEED": "0",
                "INFERNO_VERIF": "1", "OMP_NUM_THREADS": "1", "MKL_NUM_THREADS": "1"})
    data = json.dumps(payload)
    for attempt in range(3):
        r = subprocess.run([PY, script], input=data, stdout=subprocess.PIPE, stderr=subprocess.PIPE,
                           text=True, env=env, cwd=VERIF, timeout=timeout)
        # a python process that dies by a signal (negative status) without writing a traceback was killed from outside
        # (out-of-memory killer on an overloaded machine): that says nothing about the code under test - run it again
        if not (r.returncode < 0 and not r.stderr.strip()):
            break
        TRANSIENT.append({"cmd": os.path.basename(script), "rc": r.returncode, "attempt": attempt + 1})
        time.sleep(10 * (attempt + 1))
    if r.returncode != 0:
        raise RuntimeError(f"implementation harness {script} failed:\n{r.stderr[-3000:]}")
    return json.loads(r.stdout)
