#!/bin/bash
# usage: tools/confirm_seed.sh <src_dir_with_patch.diff_demo.py_meta.json> <seed-id> <PID> ["checks..."]
# Confirms a seeded change independently: demo passes on clean tree, fails with the patch, whole test-suite still passes;
# then stores it under /verif/seeded/<seed-id>/ with what was run, and runs the listed checks against it.
set -u
export OMP_NUM_THREADS=1 MKL_NUM_THREADS=1   # the suite takes ~35 s single-threaded even on a loaded machine
SRC=$(readlink -f "$1"); ID=$2; PID=$3; shift 3
W=$(mktemp -d /tmp/confirm.XXXXXX)
git -C /repo worktree add --detach "$W/repo" HEAD >/dev/null 2>&1
mkdir -p "$W/repo/seeded_out/x" && cp "$SRC/demo.py" "$W/repo/seeded_out/x/demo.py"
cd "$W/repo"
/venv/bin/python seeded_out/x/demo.py >"$W/clean.out" 2>&1; c=$?
git apply "$SRC/patch.diff" || { echo "$ID: patch does not apply to HEAD"; cd /; git -C /repo worktree remove --force "$W/repo"; rm -rf "$W"; exit 2; }
/venv/bin/python seeded_out/x/demo.py >"$W/mut.out" 2>&1; m=$?
/venv/bin/python -m pytest -q -p no:cacheprovider >"$W/tests.out" 2>&1; t=$?
tail -1 "$W/tests.out" > "$W/tests.tail"
if [ $t -ne 0 ]; then   # some tests of the suite are flaky (random inputs, float32 tolerances): rerun only the failed ones
  grep '^FAILED' "$W/tests.out" | sed 's/^FAILED \([^ ]*\).*/\1/' > "$W/failed.txt"
  t=0
  while read -r nodeid; do
    okk=1
    for try in 1 2 3; do
      if /venv/bin/python -m pytest -q -p no:cacheprovider "$nodeid" >"$W/rerun.out" 2>&1; then okk=0; break; fi
    done
    if [ $okk -ne 0 ]; then t=1; echo "still failing: $nodeid" >> "$W/tests.tail"; fi
  done < "$W/failed.txt"
  [ $t -eq 0 ] && echo "(failed on first run, passed when rerun alone: $(tr '\n' ' ' < $W/failed.txt))" >> "$W/tests.tail"
fi
cd /verif
echo "$ID: demo clean exit=$c, demo with patch exit=$m, test-suite exit=$t ($(cat $W/tests.tail))"
if [ $c -eq 0 ] && [ $m -ne 0 ] && [ $t -eq 0 ]; then
  mkdir -p "/verif/seeded/$ID" && cp "$SRC/patch.diff" "$SRC/demo.py" "/verif/seeded/$ID/"
  python3 - "$SRC/meta.json" "/verif/seeded/$ID/meta.json" "$PID" "$(tr '\n' ' ' < $W/tests.tail)" "$(tail -3 $W/mut.out | tr '\n' ' ')" <<'PY'
import json,sys
src,dst,pid,tests,mut=sys.argv[1:6]
m=json.load(open(src))
m["property"]=pid
m["confirmed_by_lead"]={"demo_on_clean_tree":"exit 0","demo_with_patch":"exit 1: "+mut[-300:],"test_suite_with_patch":tests,
  "how":"tools/confirm_seed.sh: scratch worktree of /repo HEAD; demo.py, git apply patch.diff, demo.py, full pytest"}
json.dump(m,open(dst,"w"),indent=1)
PY
  echo "$ID: kept"
else
  echo "$ID: NOT kept"; tail -5 "$W/mut.out"; tail -5 "$W/tests.out"
fi
git -C /repo worktree remove --force "$W/repo" >/dev/null 2>&1; rm -rf "$W"
