#!/usr/bin/env python3
"""Entry point of every check.

  tools/check.py --setup                     build the whole Coq development from /repo's tree
  tools/check.py Cxx --tier quick|thorough   decide one property (exit 0 / exit 1 + VIOLATION line)
  tools/check.py --replay <file>             re-run the failing case recorded in a replay file

Order of work for a property (DESIGN.md section 2):
 1. re-translate the kernels the property depends on from /repo's current working tree;
 2. compile every obligation file coq/Props/Cxx/*.v (full .vo build, Print Assumptions captured);
 3. correspondence: run the hand-written model (vm_compute inside Coq) and the implementation on the
    same seeded cases and diff; 4. direct oracle: the property's own statement evaluated on the
    implementation (this is also the failing-input search when 1-3 break);
 5. replay the known findings; 6. write evidence; print VIOLATION / KNOWN-FINDING lines.
"""
from __future__ import annotations
import argparse, importlib, json, os, sys, time, traceback

sys.path.insert(0, os.path.dirname(os.path.abspath(__file__)))
sys.path.insert(0, os.path.join(os.path.dirname(os.path.abspath(__file__)), "props"))
import framework as F  # noqa: E402

TRUSTED_COMMON = [
    "Coq 8.16.1 kernel (coqc, full .vo build); vm_compute used to execute models and for witness-style proofs; no native_compute",
    "tools/translate.py: reading of the Python kernel subset and of PyTorch element-wise semantics (re-run on every check; also cross-checked by running the generated kernels against the real functions)",
    "correspondence check (tools/props/*.py, tools/impl/*.py): differential testing of the hand-written model against the implementation, bounded by generator coverage",
    "PyTorch, einops and CPython themselves (modelled by their mathematical meaning, exercised through the correspondence, not verified)",
    "binary64 exp/ln of the float instance (Base/NumF.v) and the 1e-9 relative comparison tolerance for continuous observables",
]


def setup():
    t = time.time()
    man, errs = F.regenerate(None)
    json.dump(man, open(os.path.join(F.COQ, "Gen", "manifest.json"), "w"), indent=1)
    for m, e in errs.items():
        print(f"translation of {m} failed: {e}")
    with F.BuildLock():
        F.write_coqproject()
        ok, out = F.make([], timeout=3000)
    print(out[-3000:])
    bad = F.audit_sources()
    for b in bad:
        print("AUDIT:", b)
    print(f"setup {'ok' if ok and not bad and not errs else 'FAILED'} in {time.time() - t:.0f}s")
    return 0 if ok and not bad and not errs else 1


def finding_matches(finding, failure) -> bool:
    """A failure is an instance of a listed finding iff every key of the finding's `match` dict is
    present in the failure's `signature` with the same value."""
    sig = failure.get("signature") or {}
    return all(sig.get(k) == v for k, v in finding.get("match", {}).items()) and bool(finding.get("match"))


def run_property(pid: str, tier: str, seed: int) -> int:
    t0 = time.time()
    mod = importlib.import_module(pid.lower())
    broken = []          # obligations / correspondences that no longer check
    failures = []        # concrete failing inputs (each: dict with 'kind', 'case', 'detail', 'signature')
    # 1. translation
    man, terrs = F.regenerate(mod.GEN) if mod.GEN else ([], {})
    for m, e in terrs.items():
        broken.append({"what": f"translation of Gen/{m}", "detail": e})
    # 2. obligations
    with F.BuildLock():
        obl, mkout = F.check_obligations(pid)
    for o in obl:
        if not o["ok"]:
            broken.append({"what": f"obligation Props/{pid}/{o['name']}.v", "detail": o["error"]})
    chk = None
    if tier == "thorough" and all(o["ok"] for o in obl):
        with F.BuildLock():
            ok_chk, chk = F.coqchk(pid)
        if not ok_chk:
            broken.append({"what": "coqchk re-check of the obligations", "detail": chk[-1500:]})
    audit = F.audit_sources()
    for a in audit:
        broken.append({"what": "source audit", "detail": a})
    # executable instances are not dependencies of the obligation files: rebuild them explicitly so that the
    # correspondence always runs the model as regenerated from the current source
    import glob as _glob
    execs = [os.path.relpath(f, F.COQ)[:-2] + ".vo" for f in _glob.glob(os.path.join(F.COQ, pid, "*Exec*.v"))]
    if execs:
        with F.BuildLock():
            ok_e, out_e = F.make(execs)
        if not ok_e:
            broken.append({"what": "executable model " + ", ".join(execs), "detail": out_e[-1500:]})
    # 3/4. correspondence and direct oracle (also the failing-input search)
    ctx = {"seed": seed, "tier": tier, "broken": broken}
    try:
        res = mod.run(ctx)
    except Exception:
        res = {"evaluations": 0, "distinct_nontrivial": 0, "samples": [], "mismatches": [],
               "oracle_failures": [], "rule": "harness crashed"}
        broken.append({"what": "correspondence harness", "detail": traceback.format_exc()[-3000:]})
    for m in res.get("mismatches", []):
        broken.append({"what": "correspondence (model vs implementation)", "detail": m.get("detail"),
                       "case": m.get("case")})
    for f in res.get("oracle_failures", []):
        failures.append({"kind": "oracle", "case": f.get("case"), "detail": f.get("detail"),
                         "signature": f.get("signature")})
    # 5. known findings
    known = [k for k in F.load_known().get("findings", []) if k["property"] == pid]
    unlisted = []
    hit = set()
    for f in failures:
        k = next((k for k in known if finding_matches(k, f)), None)
        if k is None:
            unlisted.append(f)
        else:
            hit.add(k["id"])
    for k in known:
        if k["id"] in hit:
            print(f"KNOWN-FINDING: property={pid} {k['what']}")
    # 6. evidence + verdict
    assumptions = sorted({a for o in obl for a in o["assumptions"]})
    n_obl = len(obl)
    n_ok = sum(1 for o in obl if o["ok"])
    level = getattr(mod, "LEVEL", "proof")
    cov = {
        "obligations": n_obl, "discharged": n_ok,
        "checker_cmd": f"coqc 8.16.1 (make -C coq Props/{pid}/*.vo; Print Assumptions under every theorem)",
        "trusted_base": TRUSTED_COMMON + getattr(mod, "TRUSTED", []) +
        [("axioms reported by Print Assumptions: " + ", ".join(assumptions)) if assumptions
         else "Print Assumptions: every obligation is closed under the global context"],
        "obligation_list": [{"name": o["name"], "ok": o["ok"], "assumptions": o["assumptions"]} for o in obl],
        "translated_kernels": [{k: m[k] for k in ("function", "source", "lines", "sha256")} for m in man],
        "evaluations": res.get("evaluations", 0),
        "distinct_nontrivial": res.get("distinct_nontrivial", 0),
        "rule": res.get("rule", ""),
        "samples": res.get("samples", []) or [o["name"] for o in obl][:3],
        "traces_validated_against_impl": res.get("traces_validated_against_impl", 0),
        "explanation": getattr(mod, "EXPLANATION", ""),
    }
    if chk is not None:
        cov["coqchk_context_summary"] = chk
    if F.TRANSIENT:   # coqc / make runs killed from outside (no Coq error message) and repeated
        cov["retried_after_external_kill"] = F.TRANSIENT[:50]
    for k, v in res.items():
        if k not in cov and k not in ("mismatches", "oracle_failures"):
            cov[k] = v
    viol = 0
    lines = []
    if unlisted:
        for n_f, f in enumerate(unlisted[:3]):
            if hasattr(mod, "minimise") and n_f == 0:
                try:
                    c2, d2 = mod.minimise(f["case"])
                    if d2 is not None:
                        f = dict(f, case=c2, detail=d2)
                except Exception:
                    pass
            p = F.write_replay(pid, {"property": pid, "kind": "failing-input", "case": f["case"],
                                     "detail": f["detail"], "broken": sorted({b["what"] for b in broken}), "seed": seed})
            lines.append(f"VIOLATION property={pid} replay={p}")
        viol = len(unlisted)
    elif broken:
        p = F.write_replay(pid, {"property": pid, "kind": "no-failing-input-found",
                                 "no_longer_checks": broken[:20], "seed": seed,
                                 "searched": res.get("rule", "")})
        lines.append(f"VIOLATION property={pid} replay={p} no-failing-input-found")
        viol = 1
    ev = {
        "property_id": pid, "tier": tier, "seed": seed, "level": level, "coverage": cov,
        "assumptions": TRUSTED_COMMON[:1] + getattr(mod, "ASSUMES", []),
        "wall_s": round(time.time() - t0, 1), "violations": viol,
        "known_findings_reproduced": sorted(hit),
    }
    F.write_evidence(pid, ev)
    for ln in lines:
        print(ln)
    print(f"{pid} {tier}: obligations {n_ok}/{n_obl}, cases {res.get('evaluations', 0)}, "
          f"mismatches {len(res.get('mismatches', []))}, oracle failures {len(failures)} "
          f"(known {len(failures) - len(unlisted)}), {time.time() - t0:.0f}s")
    return 1 if viol else 0


def replay(path: str) -> int:
    r = json.load(open(path))
    pid = r["property"]
    mod = importlib.import_module(pid.lower())
    if r.get("kind") == "failing-input" and hasattr(mod, "replay"):
        ok, msg = mod.replay(r["case"])
        print(msg)
        return 0 if ok else 1
    print(json.dumps(r, indent=1)[:4000])
    return 1


if __name__ == "__main__":
    ap = argparse.ArgumentParser()
    ap.add_argument("pid", nargs="?")
    ap.add_argument("--tier", default=os.environ.get("VERIF_TIER", "quick"))
    ap.add_argument("--setup", action="store_true")
    ap.add_argument("--replay")
    a = ap.parse_args()
    if a.setup:
        sys.exit(setup())
    if a.replay:
        sys.exit(replay(a.replay))
    seed = int(os.environ.get("VERIF_SEED", "20260930"))
    sys.exit(run_property(a.pid, a.tier, seed))
