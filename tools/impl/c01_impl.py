"""Runs RecordTensor operation sequences on the real implementation; canonical traces out."""
import torch
from common import main, DT, DTR, exc_code
from inferno.core.infrastructure import Module, RecordTensor

KEEP = []  # RecordTensor only weak-references its owner

# integer dtype of a tensor offset (extra, implementation-only last field of the 'rrt' / 'wrt' operations; the Coq model
# and the oracle see the same integer offsets whatever the dtype; absent = int64)
ODT = {"int64": torch.int64, "int32": torch.int32, "int16": torch.int16, "uint8": torch.uint8, "int8": torch.int8}


def mk_offs(vals, shape, name):
    dt = ODT[name]
    t = torch.tensor(vals, dtype=torch.int64).reshape(shape)
    if t.numel() and (int(t.min()) < torch.iinfo(dt).min or int(t.max()) > torch.iinfo(dt).max):
        raise AssertionError(f"harness: offsets {vals} not representable as {name}")
    return t.to(dt)


# ---------------------------------------------------------------- aliasing: what the caller does with ITS tensors
# case["alias"] (implementation-only, the Coq model and the oracle get the values at call time):
#   "obs":  every tensor handed to the record as an observation (constructor value, push, latest=, write, writerange)
#           is overwritten in place with a sentinel right after the call returned - the record must hold its own copy;
#   "ret":  every tensor RETURNED by a tensor-offset readrange (a gather result, never a view of the storage) is
#           overwritten in place after it was encoded.  pop / peek / read / scalar-offset readrange return VIEWS of the
#           storage on the unchanged code (documented aliases of the stored observation), those are left alone;
#   "pool": tensor offsets are not fresh tensors: one tensor OBJECT per (shape, dtype) is kept for the whole case and
#           updated in place (copy_, add_, index assignment, fill_+add_) to the values of the next use.
def scribble(t):
    """in-place overwrite with values no case contains"""
    if t is None or t.numel() == 0:
        return
    with torch.no_grad():
        if t.dtype == torch.bool:
            t.logical_not_()
        else:
            t.fill_(-77)


class Caller:
    def __init__(self, case):
        a = case.get("alias") or {}
        self.obs, self.ret, self.pool = bool(a.get("obs")), bool(a.get("ret")), bool(a.get("pool"))
        self.offsets = {}
        self.uses = 0

    def gave(self, t):
        if self.obs:
            scribble(t)

    def got(self, t):
        if self.ret:
            scribble(t)

    def offs(self, vals, shape, name):
        new = mk_offs(vals, shape, name)
        if not self.pool:
            return new
        key = (tuple(shape), name)
        t = self.offsets.get(key)
        if t is None or t.shape != new.shape:
            self.offsets[key] = new
            return new
        self.uses += 1
        how = self.uses % 4
        if how == 0:
            t.copy_(new)
        elif how == 1:
            t.add_(new - t)
        elif how == 2:
            t[...] = new
        else:
            t.fill_(0)
            t.add_(new)
        return t


def enc(t):
    """tensor -> [dtype code, shape, flat values *2]"""
    return [DTR[t.dtype], list(t.shape), [int(round(2 * float(v))) for v in t.reshape(-1).tolist()]]


def mk(d, shape, els):
    return (torch.tensor(els, dtype=torch.float64) / 2).reshape(shape).to(DT[d])


def snapshot(rt):
    v = rt.value
    if v is None:
        return [rt.recordsz, rt.pointer, 0]
    if v.numel() == 0 and v.ndim <= 1:
        return [rt.recordsz, rt.pointer, 1, DTR[v.dtype]]
    n = v.shape[0]
    return [rt.recordsz, rt.pointer, 2, DTR[v.dtype], list(v.shape[1:]),
            [[int(round(2 * float(x))) for x in v[i].reshape(-1).tolist()] for i in range(n)]]


def build(case):
    owner = Module()
    KEEP.append(owner)
    init = case["init"]
    if init[0] == "none":
        value = None
    elif init[0] == "empty":
        value = torch.empty(0, dtype=DT[init[1]])
    else:
        value = mk(init[1], init[2], init[3])
    RecordTensor.create(owner, "rec", 1.0, float(case["N"] - 1), value, inclusive=True)
    if (case.get("alias") or {}).get("obs"):
        scribble(value)          # the caller reuses the tensor it constructed the record with
    return owner.rec


def kws(omit, **given):
    """keyword arguments of a call, without the ones the case says the caller leaves out (the library's own default
    applies; the Coq model / oracle use the DOCUMENTED default, hard-coded in tools/props/c01.py OPTIONAL)"""
    return {k: v for k, v in given.items() if k not in omit}


def apply(rt, op, who):
    omit = ()
    if isinstance(op[-1], dict):
        omit, op = tuple(op[-1].get("omit", ())), op[:-1]
    k = op[0]
    if k == "push":
        obs = mk(op[1], op[2], op[3])
        try:
            if len(op) > 5 and op[5] == "latest" and not op[4]:
                rt.latest = obs          # documented alias of push(obs, inplace=False)
            else:
                rt.push(obs, **kws(omit, inplace=op[4]))
        finally:
            who.gave(obs)
        return [1]
    if k == "pop":
        r = rt.pop(); return [0] if r is None else [3] + enc(r)
    if k == "peek":
        r = rt.latest if (len(op) > 1 and op[1] == "latest") else rt.peek(); return [0] if r is None else [3] + enc(r)
    if k == "read":
        return [3] + enc(rt.read(**kws(omit, offset=op[1])))
    if k == "write":
        obs = mk(op[1], op[2], op[3])
        try:
            rt.write(obs, **kws(omit, offset=op[4], inplace=op[5]))
        finally:
            who.gave(obs)
        return [1]
    if k == "incr":
        return [2, rt.incr(**kws(omit, pos=op[1]))]
    if k == "decr":
        return [2, rt.decr(**kws(omit, pos=op[1]))]
    if k == "align":
        rt.align(**kws(omit, index=op[1])); return [1]
    if k == "reset":
        rt.reset(**kws(omit, fill=None if op[1] is None else op[1] / 2)); return [1]
    if k == "rrs":
        r = rt.readrange(op[1], **kws(omit, offset=op[2], forward=op[3]))
        L = r.shape[-1]
        return [4, DTR[r.dtype], list(r.shape[:-1]), [[int(round(2 * float(x))) for x in row] for row in r.reshape(-1, L).tolist()]]
    if k == "rrt":
        offs = who.offs(op[2], op[3], op[5] if len(op) > 5 else "int64")
        keep = offs.clone()
        r = rt.readrange(op[1], offs, **kws(omit, forward=op[4]))
        if not torch.equal(offs, keep):
            raise AssertionError("harness: readrange changed the caller's offset tensor")
        L = r.shape[-1]
        out = [4, DTR[r.dtype], list(r.shape[:-1]), [[int(round(2 * float(x))) for x in row] for row in r.reshape(-1, L).tolist()]]
        who.got(r)
        return out
    if k == "wrs":
        d, shape, cols = op[1], op[2], op[3]
        L = len(cols[0]) if cols else 0
        obs = (torch.tensor(cols, dtype=torch.float64) / 2).reshape(list(shape) + [L]).to(DT[d])
        try:
            rt.writerange(obs, **kws(omit, offset=op[4], forward=op[5], inplace=op[6]))
        finally:
            who.gave(obs)
        return [1]
    if k == "wrt":
        d, shape, cols = op[1], op[2], op[3]
        L = len(cols[0]) if cols else 0
        obs = (torch.tensor(cols, dtype=torch.float64) / 2).reshape(list(shape) + [L]).to(DT[d])
        offs = who.offs(op[4], op[5], op[8] if len(op) > 8 else "int64")
        keep = offs.clone()
        try:
            rt.writerange(obs, offs, **kws(omit, forward=op[6], inplace=op[7]))
        finally:
            who.gave(obs)
        if not torch.equal(offs, keep):
            raise AssertionError("harness: writerange changed the caller's offset tensor")
        return [1]
    raise AssertionError(k)


def run_case(case):
    rt = build(case)
    who = Caller(case)
    tr = []
    for op in case["ops"]:
        try:
            out = [0, apply(rt, op, who)]
        except Exception as e:  # noqa
            c = exc_code(e)
            out = [1, c] if c != 9 else [1, 9, f"{type(e).__name__}: {e}"[:200]]
        tr.append([out, snapshot(rt)])
    return tr


def handler(payload):
    return [run_case(c) for c in payload["cases"]]


if __name__ == "__main__":
    main(handler)
