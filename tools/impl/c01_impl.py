"""Runs RecordTensor operation sequences on the real implementation; canonical traces out."""
import torch
from common import main, DT, DTR, exc_code
from inferno.core.infrastructure import Module, RecordTensor

KEEP = []  # RecordTensor only weak-references its owner

# integer dtype of a tensor offset (extra, implementation-only last field of the 'rrt' / 'wrt' operations; the Coq model
# and the oracle see the same integer offsets whatever the dtype; absent = int64)
ODT = {"int64": torch.int64, "int32": torch.int32, "int16": torch.int16, "uint8": torch.uint8, "int8": torch.int8}


def mk_offs(vals, shape, name):
    dt = ODT[name]
    t = torch.tensor(vals, dtype=torch.int64).reshape(shape)
    if t.numel() and (int(t.min()) < torch.iinfo(dt).min or int(t.max()) > torch.iinfo(dt).max):
        raise AssertionError(f"harness: offsets {vals} not representable as {name}")
    return t.to(dt)


def enc(t):
    """tensor -> [dtype code, shape, flat values *2]"""
    return [DTR[t.dtype], list(t.shape), [int(round(2 * float(v))) for v in t.reshape(-1).tolist()]]


def mk(d, shape, els):
    return (torch.tensor(els, dtype=torch.float64) / 2).reshape(shape).to(DT[d])


def snapshot(rt):
    v = rt.value
    if v is None:
        return [rt.recordsz, rt.pointer, 0]
    if v.numel() == 0 and v.ndim <= 1:
        return [rt.recordsz, rt.pointer, 1, DTR[v.dtype]]
    n = v.shape[0]
    return [rt.recordsz, rt.pointer, 2, DTR[v.dtype], list(v.shape[1:]),
            [[int(round(2 * float(x))) for x in v[i].reshape(-1).tolist()] for i in range(n)]]


def build(case):
    owner = Module()
    KEEP.append(owner)
    init = case["init"]
    if init[0] == "none":
        value = None
    elif init[0] == "empty":
        value = torch.empty(0, dtype=DT[init[1]])
    else:
        value = mk(init[1], init[2], init[3])
    RecordTensor.create(owner, "rec", 1.0, float(case["N"] - 1), value, inclusive=True)
    return owner.rec


def apply(rt, op):
    k = op[0]
    if k == "push":
        rt.push(mk(op[1], op[2], op[3]), inplace=op[4]); return [1]
    if k == "pop":
        r = rt.pop(); return [0] if r is None else [3] + enc(r)
    if k == "peek":
        r = rt.peek(); return [0] if r is None else [3] + enc(r)
    if k == "read":
        return [3] + enc(rt.read(op[1]))
    if k == "write":
        rt.write(mk(op[1], op[2], op[3]), offset=op[4], inplace=op[5]); return [1]
    if k == "incr":
        return [2, rt.incr(op[1])]
    if k == "decr":
        return [2, rt.decr(op[1])]
    if k == "align":
        rt.align(op[1]); return [1]
    if k == "reset":
        rt.reset(None if op[1] is None else op[1] / 2); return [1]
    if k == "rrs":
        r = rt.readrange(op[1], op[2], forward=op[3])
        L = r.shape[-1]
        return [4, DTR[r.dtype], list(r.shape[:-1]), [[int(round(2 * float(x))) for x in row] for row in r.reshape(-1, L).tolist()]]
    if k == "rrt":
        offs = mk_offs(op[2], op[3], op[5] if len(op) > 5 else "int64")
        r = rt.readrange(op[1], offs, forward=op[4])
        L = r.shape[-1]
        return [4, DTR[r.dtype], list(r.shape[:-1]), [[int(round(2 * float(x))) for x in row] for row in r.reshape(-1, L).tolist()]]
    if k == "wrs":
        d, shape, cols = op[1], op[2], op[3]
        L = len(cols[0]) if cols else 0
        obs = (torch.tensor(cols, dtype=torch.float64) / 2).reshape(list(shape) + [L]).to(DT[d])
        rt.writerange(obs, op[4], forward=op[5], inplace=op[6]); return [1]
    if k == "wrt":
        d, shape, cols = op[1], op[2], op[3]
        L = len(cols[0]) if cols else 0
        obs = (torch.tensor(cols, dtype=torch.float64) / 2).reshape(list(shape) + [L]).to(DT[d])
        offs = mk_offs(op[4], op[5], op[8] if len(op) > 8 else "int64")
        rt.writerange(obs, offs, forward=op[6], inplace=op[7]); return [1]
    raise AssertionError(k)


def run_case(case):
    rt = build(case)
    tr = []
    for op in case["ops"]:
        try:
            out = [0, apply(rt, op)]
        except Exception as e:  # noqa
            c = exc_code(e)
            out = [1, c] if c != 9 else [1, 9, f"{type(e).__name__}: {e}"[:200]]
        tr.append([out, snapshot(rt)])
    return tr


def handler(payload):
    return [run_case(c) for c in payload["cases"]]


if __name__ == "__main__":
    main(handler)
