"""C05 implementation side: builds real inferno connections (LinearDense, LinearDirect, LinearLateral, Conv2D),
runs forward / setters / updater / reshaping helpers and reports every observable as plain JSON.
Floats travel as Python floats (json round-trips binary64 exactly); NaN is reported as None."""
import math
import torch
import torch.nn.functional as TF
from common import main, exc_code
from inferno.neural import LinearDense, LinearDirect, LinearLateral, Conv2D, DeltaCurrent, DeltaPlusCurrent

KEEP = []


def flat(t):
    out = []
    for v in t.detach().reshape(-1).tolist():
        v = float(v)
        out.append(None if v != v else v)
    return out


def shp(t):
    return [int(s) for s in t.shape]


def tens(data, shape=None):
    t = torch.tensor(data, dtype=torch.float64)
    return t if shape is None else t.reshape(shape)


def mksyn(s):
    if s["t"] == "dplus":
        return DeltaPlusCurrent.partialconstructor(1.0)
    return DeltaCurrent.partialconstructor(float(s["Q"]), "previous", 0.0)


def syn_input(s, x):
    """what is fed to the connection: real-valued tensor for DeltaPlus (Q = dt = 1, current = input), 0/1 spikes for Delta"""
    if s["t"] == "dplus":
        return x
    return x != 0


def err(stage, e):
    c = exc_code(e)
    return {"ok": 0, "stage": stage, "err": c, "msg": f"{type(e).__name__}: {e}"[:200]}


def const_init(data, shape=None):
    if data is None:
        return None
    return lambda w: tens(data, shape)


def common_views(conn, x, out, res):
    res["inshape"] = [int(v) for v in conn.inshape]
    res["outshape"] = [int(v) for v in conn.outshape]
    res["binshape"] = [int(v) for v in conn.batched_inshape]
    res["boutshape"] = [int(v) for v in conn.batched_outshape]
    res["biased"] = bool(conn.biased)
    res["delayedby"] = conn.delayedby
    cur = conn.synapse.current
    res["cur"], res["cur_shape"] = flat(cur), shp(cur)
    res["out"], res["out_shape"] = flat(out), shp(out)
    sc = conn.syncurrent
    res["syncur"], res["syncur_shape"] = flat(sc), shp(sc)
    ls = conn.like_synaptic(x)
    res["ls"], res["ls_shape"] = flat(ls), shp(ls)
    li = conn.like_input(ls)
    res["li"], res["li_shape"] = flat(li), shp(li)
    res["li_cur"] = flat(conn.like_input(cur))
    post = conn.postsyn_receptive(out)
    res["post"], res["post_shape"] = flat(post), shp(post)
    pre = conn.presyn_receptive(cur)
    res["pre"], res["pre_shape"] = flat(pre), shp(pre)
    res["bc_shape"] = shp(post * pre)          # how the two receptive views broadcast against each other
    res["w"], res["w_shape"] = flat(conn.weight), shp(conn.weight)
    res["b"] = None if conn.bias is None else flat(conn.bias)
    sel = conn.selector
    res["sel_shape"] = shp(sel)


def run_dense(c):
    sdt = float(c["syn"].get("dt", 1.0))
    try:
        conn = LinearDense(tuple(c["inshape"]) if c.get("tuple_shapes", True) else c["inshape"][0],
                           tuple(c["outshape"]) if c.get("tuple_shapes", True) else c["outshape"][0],
                           sdt, synapse=mksyn(c["syn"]), bias=c["bias"], delay=c["delay"], batch_size=c["B"],
                           weight_init=const_init(c["W"]), bias_init=const_init(c["b"]))
    except Exception as e:  # noqa
        return err("ctor", e)
    KEEP.append(conn)
    x = syn_input(c["syn"], tens(c["x"], c["xshape"]))
    try:
        out = conn(x)
    except Exception as e:  # noqa
        return err("fwd", e)
    res = {"ok": 1}
    common_views(conn, x.to(torch.float64), out, res)
    I, O = math.prod(c["inshape"]), math.prod(c["outshape"])
    r3 = tens(c["r3"], [c["B"], I, O])
    p3 = conn.presyn_receptive(r3)
    res["pre3"], res["pre3_shape"] = flat(p3), shp(p3)
    lb = conn.like_bias(tens(c["lb"], [O, 1]))
    res["lb"], res["lb_shape"] = flat(lb), shp(lb)
    return res


def run_direct(c):
    sdt = float(c["syn"].get("dt", 1.0))
    try:
        conn = LinearDirect(tuple(c["shape"]) if c.get("tuple_shapes", True) else c["shape"][0], sdt,
                            synapse=mksyn(c["syn"]), bias=c["bias"], delay=c["delay"], batch_size=c["B"],
                            weight_init=const_init(c["W"]), bias_init=const_init(c["b"]))
    except Exception as e:  # noqa
        return err("ctor", e)
    KEEP.append(conn)
    x = syn_input(c["syn"], tens(c["x"], c["xshape"]))
    try:
        out = conn(x)
    except Exception as e:  # noqa
        return err("fwd", e)
    res = {"ok": 1}
    common_views(conn, x.to(torch.float64), out, res)
    n = math.prod(c["shape"])
    p3 = conn.presyn_receptive(tens(c["r3"], [c["B"], n, 1]))
    res["pre3"], res["pre3_shape"] = flat(p3), shp(p3)
    lb = conn.like_bias(tens(c["lb"], [n]))
    res["lb"], res["lb_shape"] = flat(lb), shp(lb)
    return res


def bval(v, n):
    """value assigned through a setter: ["mat", n x n] | ["scalar", v] | ["row", n] | ["col", n]"""
    k = v[0]
    if k == "mat":
        return tens(v[1], [n, n])
    if k == "scalar":
        return torch.tensor(float(v[1]), dtype=torch.float64)
    if k == "row":
        return tens(v[1], [1, n])
    if k == "col":
        return tens(v[1], [n, 1])
    raise AssertionError(k)


def lat_snapshot(conn):
    return {"w": flat(conn.weight), "w_shape": shp(conn.weight),
            "d": None if conn.delay is None else flat(conn.delay),
            "d_shape": None if conn.delay is None else shp(conn.delay),
            "b": None if conn.bias is None else flat(conn.bias)}


def run_lateral(c):
    n = math.prod(c["shape"])
    try:
        conn = LinearLateral(tuple(c["shape"]), float(c["syn"].get("dt", 1.0)), synapse=mksyn(c["syn"]), bias=c["bias"], delay=c["delay"],
                             batch_size=c["B"], weight_init=const_init(c["winit"], [n, n]),
                             bias_init=const_init(c["binit"]), delay_init=const_init(c["dinit"], [n, n]))
    except Exception as e:  # noqa
        return err("ctor", e)
    KEEP.append(conn)
    conn.updater = conn.defaultupdater()
    res = {"ok": 1, "names": list(conn.updater.names), "init": lat_snapshot(conn), "mask": flat(conn.mask), "steps": []}
    for op in c["ops"]:
        k = op[0]
        st = {}
        try:
            if k == "setw":
                conn.weight = bval(op[1], n)
            elif k == "setd":
                conn.delay = bval(op[1], n)
            elif k == "setb":
                conn.bias = tens(op[1], [n])
            elif k == "upd":
                # trainer-style update: accumulate positive / negative parts, then apply through Updatable.update
                for p in op[1]:
                    conn.updater.weight.pos = tens(p, [n, n])
                for q in op[2]:
                    conn.updater.weight.neg = tens(q, [n, n])
                for p in op[3]:
                    conn.updater.delay.pos = tens(p, [n, n])
                for q in op[4]:
                    conn.updater.delay.neg = tens(q, [n, n])
                conn.update()
            elif k == "fwd":
                x = syn_input(c["syn"], tens(op[1], [c["B"]] + list(c["shape"])))
                out = conn(x)
                st["out"], st["out_shape"] = flat(out), shp(out)
                st["cur"] = flat(conn.synapse.current)
            else:
                raise AssertionError(k)
            st["ok"] = 1
        except Exception as e:  # noqa
            st = err("op", e)
        st.update(lat_snapshot(conn))
        res["steps"].append(st)
    return res


def run_conv(c):
    sdt = float(c["syn"].get("dt", 1.0))
    try:
        conn = Conv2D(c["H"], c["W"], c["C"], c["F"], sdt, tuple(c["k"]) if c.get("tuple_geom", True) else c["k"][0],
                      stride=tuple(c["s"]) if c.get("tuple_geom", True) else c["s"][0],
                      padding=tuple(c["p"]) if c.get("tuple_geom", True) else c["p"][0],
                      dilation=tuple(c["d"]) if c.get("tuple_geom", True) else c["d"][0],
                      synapse=mksyn(c["syn"]), bias=c["bias"], delay=c["delay"], batch_size=c["B"],
                      weight_init=const_init(c["Wt"]), bias_init=const_init(c["b"]))
    except Exception as e:  # noqa
        return err("ctor", e)
    KEEP.append(conn)
    res = {"ok": 1, "outshape": [int(v) for v in conn.outshape], "inshape": [int(v) for v in conn.inshape]}
    x = syn_input(c["syn"], tens(c["x"], c["xshape"]))
    try:
        out = conn(x)
    except Exception as e:  # noqa
        r = err("fwd", e)
        r["outshape"] = res["outshape"]
        return r
    common_views(conn, x.to(torch.float64), out, res)
    # independent reference operator on the effective input (current = unfold(input * Q/dt), unfold is linear)
    scale = 1.0 if c["syn"]["t"] == "dplus" else float(c["syn"]["Q"]) / sdt
    ref = TF.conv2d(x.to(torch.float64) * scale, conn.weight, conn.bias, stride=tuple(c["s"]), padding=tuple(c["p"]),
                    dilation=tuple(c["d"]))
    res["ref"], res["ref_shape"] = flat(ref), shp(ref)
    N = c["C"] * c["k"][0] * c["k"][1]
    L = conn.outshape[1] * conn.outshape[2]
    r4 = tens(c["r4"], [c["B"], N, L, c["F"]])
    p4 = conn.presyn_receptive(r4)
    res["pre4"], res["pre4_shape"] = flat(p4), shp(p4)
    lb = conn.like_bias(tens(c["lb"], [c["F"], 1, 1, 1]))
    res["lb"], res["lb_shape"] = flat(lb), shp(lb)
    # fold of arbitrary synaptic-layout data (not only of an unfolded image)
    li2 = conn.like_input(tens(c["r3"], [c["B"], N, L]))
    res["li2"], res["li2_shape"] = flat(li2), shp(li2)
    return res


# ---------------------------------------------------------------- sequences: forward / re-parameterise / forward ...
def build_seq(c, W, b):
    """a connection of kind c["conn"] with the given flat weights / bias (twin construction uses other values)"""
    k = c["conn"]
    sdt = float(c["syn"].get("dt", 1.0))
    kw = dict(synapse=mksyn(c["syn"]), bias=c["bias"], delay=c["delay"], batch_size=c["B"])
    if k == "dense":
        I, O = math.prod(c["inshape"]), math.prod(c["outshape"])
        return LinearDense(tuple(c["inshape"]), tuple(c["outshape"]), sdt, weight_init=const_init(W, [O, I]),
                           bias_init=const_init(b), **kw)
    if k == "direct":
        return LinearDirect(tuple(c["shape"]), sdt, weight_init=const_init(W), bias_init=const_init(b), **kw)
    if k == "lateral":
        n = math.prod(c["shape"])
        return LinearLateral(tuple(c["shape"]), sdt, weight_init=const_init(W, [n, n]), bias_init=const_init(b), **kw)
    return Conv2D(c["H"], c["W"], c["C"], c["F"], sdt, tuple(c["k"]), stride=tuple(c["s"]), padding=tuple(c["p"]),
                  dilation=tuple(c["d"]), weight_init=const_init(W, [c["F"], c["C"]] + list(c["k"])), bias_init=const_init(b), **kw)


def seq_op(c, conn, op):
    """one re-parameterisation through a public route"""
    k = op[0]
    if k == "none":
        return
    if k == "set":          # property setter
        p = getattr(conn, op[1])
        setattr(conn, op[1], tens(op[2], list(p.shape)))
    elif k == "upd":        # trainer-style: accumulate on the Updater, apply through Updatable.update
        p = getattr(conn, op[1])
        acc = getattr(conn.updater, op[1])
        if op[2] is not None:
            acc.pos = tens(op[2], list(p.shape))
        if op[3] is not None:
            acc.neg = tens(op[3], list(p.shape))
        conn.update()
    elif k == "inplace_add":
        p = getattr(conn, op[1])
        with torch.no_grad():
            p.add_(tens(op[2], list(p.shape)))
    elif k == "inplace_copy":
        p = getattr(conn, op[1])
        with torch.no_grad():
            p.copy_(tens(op[2], list(p.shape)))
    elif k == "data_index":  # conn.weight.data[...] = v  (element-wise write into the storage)
        p = getattr(conn, op[1])
        p.data.view(-1)[int(op[2])] = float(op[3])
    elif k == "load":       # load_state_dict from a twin built with other parameter values
        twin = build_seq(c, op[1], op[2])
        twin.updater = twin.defaultupdater()
        KEEP.append(twin)
        conn.load_state_dict(twin.state_dict())
    elif k == "to":
        if op[1] == "f64":
            conn.to(torch.float64)
        elif op[1] == "cpu":
            conn.to("cpu")
        elif op[1] == "double":
            conn.double()
        else:                # float32 and back: parameters are rounded to binary32
            conn.to(torch.float32)
            conn.to(torch.float64)
    else:
        raise AssertionError(k)


def run_seq(c):
    try:
        conn = build_seq(c, c["Wf"], c["b"])
    except Exception as e:  # noqa
        return err("ctor", e)
    KEEP.append(conn)
    conn.updater = conn.defaultupdater()
    res = {"ok": 1, "outshape": [int(v) for v in conn.outshape], "rounds": []}
    for rd in c["rounds"]:
        st = {}
        try:
            seq_op(c, conn, rd["op"])
        except Exception as e:  # noqa
            st = err("op", e)
            res["rounds"].append(st)
            continue
        st["w"], st["w_shape"] = flat(conn.weight), shp(conn.weight)
        st["b"] = None if conn.bias is None else flat(conn.bias)
        st["d"] = None if conn.delay is None else flat(conn.delay)
        x = syn_input(c["syn"], tens(rd["x"], c["xshape"]))
        try:
            out = conn(x)
        except Exception as e:  # noqa
            st.update(err("fwd", e))
            res["rounds"].append(st)
            continue
        st["ok"] = 1
        st["out"], st["out_shape"] = flat(out), shp(out)
        cur = conn.synapse.current
        st["cur"], st["cur_shape"] = flat(cur), shp(cur)
        # the parameters the connection reports AFTER the step as well (forward must not change them)
        st["w_after"] = flat(conn.weight)
        if c["conn"] == "conv":
            sdt = float(c["syn"].get("dt", 1.0))
            scale = 1.0 if c["syn"]["t"] == "dplus" else float(c["syn"]["Q"]) / sdt
            ref = TF.conv2d(x.to(torch.float64) * scale, conn.weight, conn.bias, stride=tuple(c["s"]),
                            padding=tuple(c["p"]), dilation=tuple(c["d"]))
            st["ref"] = flat(ref)
        res["rounds"].append(st)
    return res


RUN = {"seq": run_seq, "dense": run_dense, "direct": run_direct, "lateral": run_lateral, "conv": run_conv}


def handler(payload):
    out = []
    for c in payload["cases"]:
        try:
            out.append(RUN[c["kind"]](c))
        except Exception as e:  # noqa  (harness-level failure: report, never hide)
            out.append({"ok": -1, "msg": f"{type(e).__name__}: {e}"[:300]})
    return out


if __name__ == "__main__":
    main(handler)
