"""Implementation-side helpers (run inside /venv python with PYTHONPATH=/repo)."""
import json, sys, math
import torch

torch.set_default_dtype(torch.float64)
torch.manual_seed(0)

DT = {0: torch.bool, 1: torch.int64, 2: torch.float64}
DTR = {v: k for k, v in DT.items()}


def exc_code(e: BaseException) -> int:
    if isinstance(e, RuntimeError) and not isinstance(e, NotImplementedError):
        return 1
    if isinstance(e, ValueError):
        return 2
    if isinstance(e, IndexError):
        return 3
    if isinstance(e, TypeError):
        return 4
    if isinstance(e, AttributeError):
        return 5
    if isinstance(e, KeyError):
        return 6
    return 9


def main(handler):
    payload = json.load(sys.stdin)
    out = handler(payload)
    json.dump(out, sys.stdout)


def fhex(x: float):
    """exact float -> [kind, mantissa, exponent] (same convention as Base/NumF.ser_float)"""
    x = float(x)
    if x != x:
        return [3, 0, 0]
    if x == math.inf:
        return [1, 0, 0]
    if x == -math.inf:
        return [2, 0, 0]
    if x == 0:
        return [0, 0, 0]
    m, e = math.frexp(x)
    mi = int(m * (1 << 53))
    e -= 53
    while mi % 2 == 0 and mi != 0:
        mi //= 2
        e += 1
    return [0, mi, e]
