"""Runs operation sequences on the REAL neuron classes (inferno.neural.{LIF,ALIF,GLIF1,GLIF2,QIF,Izhikevich,EIF,AdEx});
canonical traces out.  Layout of every matrix in the trace: neuron-major, [neuron][batch] (adaptations [neuron][k]);
floats as exact [kind, mantissa, exponent] triples."""
import torch
from common import main, fhex, exc_code
from inferno import neural

KEEP = []
NAMES = ["LIF", "ALIF", "GLIF1", "GLIF2", "QIF", "Izhikevich", "EIF", "AdEx"]


def build(case):
    p, c, shape, B = case["p"], case["cls"], tuple(case["shape"]), case["batch"]
    dt = p["step_time"]
    if c in (0, 2):
        n = getattr(neural, NAMES[c])(shape, dt, rest_v=p["rest_v"], reset_v=p["reset_v"], thresh_v=p["thresh_v"],
                                      refrac_t=p["refrac_t"], time_constant=p["time_constant"],
                                      resistance=p["resistance"], batch_size=B)
    elif c == 1:
        n = neural.ALIF(shape, dt, rest_v=p["rest_v"], reset_v=p["reset_v"], thresh_eq_v=p["thresh_v"],
                        refrac_t=p["refrac_t"], tc_membrane=p["time_constant"],
                        tc_adaptation=tuple(p["tc_adaptation"]), spike_increment=tuple(p["adapt_increment"]),
                        resistance=p["resistance"], batch_size=B)
    elif c == 3:
        n = neural.GLIF2(shape, dt, rest_v=p["rest_v"], reset_v_add=p["reset_v_add"], reset_v_mul=p["reset_v_mul"],
                         thresh_eq_v=p["thresh_v"], refrac_t=p["refrac_t"], tc_membrane=p["time_constant"],
                         rc_adaptation=tuple(p["tc_adaptation"]), spike_increment=tuple(p["adapt_increment"]),
                         resistance=p["resistance"], batch_size=B)
    elif c == 4:
        n = neural.QIF(shape, dt, rest_v=p["rest_v"], crit_v=p["crit_v"], affinity=p["affinity"],
                       reset_v=p["reset_v"], thresh_v=p["thresh_v"], refrac_t=p["refrac_t"],
                       time_constant=p["time_constant"], resistance=p["resistance"], batch_size=B)
    elif c == 5:
        n = neural.Izhikevich(shape, dt, rest_v=p["rest_v"], crit_v=p["crit_v"], affinity=p["affinity"],
                              reset_v=p["reset_v"], thresh_v=p["thresh_v"], refrac_t=p["refrac_t"],
                              tc_membrane=p["time_constant"], tc_adaptation=tuple(p["tc_adaptation"]),
                              voltage_coupling=tuple(p["adapt_vc_coupling"]),
                              spike_increment=tuple(p["adapt_increment"]), resistance=p["resistance"], batch_size=B)
    elif c == 6:
        n = neural.EIF(shape, dt, rest_v=p["rest_v"], rheobase_v=p["rheobase_v"], sharpness=p["sharpness"],
                       reset_v=p["reset_v"], thresh_v=p["thresh_v"], refrac_t=p["refrac_t"],
                       time_constant=p["time_constant"], resistance=p["resistance"], batch_size=B)
    else:
        n = neural.AdEx(shape, dt, rest_v=p["rest_v"], rheobase_v=p["rheobase_v"], sharpness=p["sharpness"],
                        reset_v=p["reset_v"], thresh_v=p["thresh_v"], refrac_t=p["refrac_t"],
                        tc_membrane=p["time_constant"], tc_adaptation=tuple(p["tc_adaptation"]),
                        voltage_coupling=tuple(p["adapt_vc_coupling"]),
                        spike_increment=tuple(p["adapt_increment"]), resistance=p["resistance"], batch_size=B)
    KEEP.append(n)
    return n


def to_batch_major(mat, shape, B):
    """[neuron][batch] -> tensor B x shape"""
    t = torch.tensor(mat, dtype=torch.float64)          # n x B
    return t.t().contiguous().reshape((B,) + tuple(shape))


def nm(t, B):
    """tensor B x shape -> [neuron][batch] python lists"""
    return t.reshape(B, -1).t().tolist()


def adapt_of(n, c):
    if c in (1, 3):
        a = n.threshold_adaptation
    elif c in (5, 7):
        a = n.current_adaptation
    else:
        return None
    return a.reshape(-1, a.shape[-1]).tolist()


def adapt_tensor(mat, shape):
    """[neuron][k] -> tensor shape x K"""
    t = torch.tensor(mat, dtype=torch.float64)
    return t.reshape(tuple(shape) + (t.shape[-1],))


def set_adapt(n, c, t):
    if c in (1, 3):
        n.threshold_adaptation = t
    else:
        n.current_adaptation = t


def snapshot(n, c, B, nneur, ret):
    ad = adapt_of(n, c)
    return [
        [] if ret is None else [[[int(bool(x)) for x in row] for row in nm(ret, B)]],
        [[int(bool(x)) for x in row] for row in nm(n.spike, B)],
        [[fhex(x) for x in row] for row in nm(n.voltage, B)],
        [[fhex(x) for x in row] for row in nm(n.refrac, B)],
        [[] for _ in range(nneur)] if ad is None else [[fhex(x) for x in row] for row in ad],
    ]


def run_case(case):
    try:
        n = build(case)
    except Exception as e:  # constructor rejected the hyperparameters
        return {"ctor_error": [exc_code(e), f"{type(e).__name__}: {e}"[:200]]}
    c, shape, B = case["cls"], case["shape"], case["batch"]
    nneur = 1
    for s in shape:
        nneur *= s
    if case.get("v0") is not None:
        n.voltage = to_batch_major(case["v0"], shape, B)
    tr = []
    for op in case["ops"]:
        try:
            if op[0] == "fwd":
                x = to_batch_major(op[3], shape, B)
                if c in (0, 2, 4, 6):
                    if op[1] is None:
                        ret = n(x, refrac_lock=op[2])
                    else:
                        ret = n(x, refrac_lock=op[2], adapt=op[1])     # swallowed by **kwargs
                else:
                    ret = n(x, adapt=op[1], refrac_lock=op[2])
                tr.append([0] + snapshot(n, c, B, nneur, ret))
            elif op[0] == "clear":
                n.clear(keep_adaptations=op[1])
                tr.append([0] + snapshot(n, c, B, nneur, None))
            elif op[0] == "train":
                n.train(op[1])
                tr.append([0] + snapshot(n, c, B, nneur, None))
            elif op[0] == "set_adapt":          # public setter
                set_adapt(n, c, adapt_tensor(op[1], shape))
                tr.append([0] + snapshot(n, c, B, nneur, None))
            elif op[0] == "add_adapt":          # in-place edit of the state tensor (no setter involved)
                (n.threshold_adaptation if c in (1, 3) else n.current_adaptation).add_(adapt_tensor(op[1], shape))
                tr.append([0] + snapshot(n, c, B, nneur, None))
            elif op[0] == "set_v":
                n.voltage = to_batch_major(op[1], shape, B)
                tr.append([0] + snapshot(n, c, B, nneur, None))
            elif op[0] == "set_r":
                n.refrac = to_batch_major(op[1], shape, B)
                tr.append([0] + snapshot(n, c, B, nneur, None))
            elif op[0] == "load":               # checkpoint restore from a twin built with the same hyperparameters
                tw = build(case)
                tw.voltage = to_batch_major(op[1], shape, B)
                tw.refrac = to_batch_major(op[2], shape, B)
                if c in (1, 3, 5, 7):
                    set_adapt(tw, c, adapt_tensor(op[3], shape))
                n.load_state_dict(tw.state_dict())
                tr.append([0] + snapshot(n, c, B, nneur, None))
            else:
                raise AssertionError(op[0])
        except Exception as e:  # noqa
            tr.append([1, exc_code(e), f"{type(e).__name__}: {e}"[:200]])
    return {"trace": tr, "dtype": str(n.voltage.dtype), "shape_v": list(n.voltage.shape)}


def handler(payload):
    return [run_case(c) for c in payload["cases"]]


if __name__ == "__main__":
    main(handler)
