"""C17 implementation side: builds REAL inferno layers (Serial / Biclique / RecurrentSerial over LinearDense +
DeltaCurrent connections and LIF / ALIF neurons), runs operation sequences on them and returns

  trace  : per operation [0, output, full state snapshot] (or [1, exception code], which ends the trace),
           in exactly the structure the Coq model serialises (floats as exact [kind, mantissa, exponent]);
  oracle : violations of the PROPERTY STATEMENT found by an independent reference built from standalone
           components (never inside a layer): output = neuron(transform(connection(input))) etc., shapes equal
           the neuron group's batched shape, clear() succeeds and leaves exactly the state of a freshly
           constructed component carrying the same learned parameters.
"""
import copy
import torch
from common import main, fhex, exc_code
from inferno import neural as _neural
from inferno.neural import LIF, ALIF, DeltaCurrent, LinearDense, Serial, Biclique, RecurrentSerial

KEEP = []


# ------------------------------------------------------------------ building
def nm(k):
    return "serial" if k == 0 else f"m{k}"     # name 0 = Serial's default names


def fdt():
    return torch.get_default_dtype()


def build_conn(spec, B, dt):
    d = spec.get("delay")
    syn = spec.get("syn")
    if syn:     # any synapse class of inferno.neural (oracle-only stream)
        ctor = getattr(_neural, syn["cls"]).partialconstructor(**syn["kw"])
    else:
        ctor = DeltaCurrent.partialconstructor(spec["charge"])
    c = LinearDense(tuple(spec["in"]), tuple(spec["out"]), dt, synapse=ctor,
                    bias=spec.get("bias") is not None,
                    delay=(None if d is None else d["max"] * dt), batch_size=B)
    c.weight = torch.tensor(spec["W"], dtype=fdt())
    if spec.get("bias") is not None:
        c.bias = torch.tensor(spec["bias"], dtype=fdt())
    if d is not None:
        c.delay = torch.tensor(d["D"], dtype=fdt()) * dt
    return c


RECORDS = ("spike_", "current_", "pos_current_", "neg_current_")


def records(syn):
    """the synapse's stored histories (RecordTensors), by attribute name"""
    from inferno import RecordTensor
    out = {}
    for a in RECORDS:
        r = getattr(syn, a, None)
        if isinstance(r, RecordTensor):
            out[a] = r
    return out


def adapt_attr(n):
    """name of the neuron group's learned-adaptation attribute, if it has one"""
    for a in ("threshold_adaptation", "current_adaptation"):
        if hasattr(n, a):
            return a
    return None


def get_adapt(n):
    a = adapt_attr(n)
    return None if a is None else getattr(n, a)


def set_adapt(n, t):
    setattr(n, adapt_attr(n), t)


def build_neuron(spec, B, dt):
    if spec.get("cls"):
        # any neuron class of inferno.neural, keyword arguments as given (oracle-only stream: these classes have no
        # Coq model in C17; the layer theorems are generic in them)
        kw = {k: (tuple(v) if isinstance(v, list) else v) for k, v in spec["kw"].items()}
        return getattr(_neural, spec["cls"])(tuple(spec["shape"]), dt, batch_size=B, **kw)
    if spec.get("acfg") is None:
        return LIF(tuple(spec["shape"]), dt, rest_v=spec["rest"], reset_v=spec["reset"], thresh_v=spec["thresh"],
                   refrac_t=spec["refrac_t"], time_constant=spec["tc"], resistance=spec["res"], batch_size=B)
    return ALIF(tuple(spec["shape"]), dt, rest_v=spec["rest"], reset_v=spec["reset"], thresh_eq_v=spec["thresh"],
                refrac_t=spec["refrac_t"], tc_membrane=spec["tc"], tc_adaptation=tuple(a[0] for a in spec["acfg"]),
                spike_increment=tuple(a[1] for a in spec["acfg"]), resistance=spec["res"], batch_size=B)


def mk_tr(t):
    if t is None:
        return None
    k = t[0]
    if k == "id":
        return lambda x, **kw: x
    if k == "scale":
        return lambda x, c=t[1], **kw: c * x
    if k == "add":
        return lambda x, c=t[1], **kw: x + c
    if k == "neg":
        return lambda x, **kw: -x
    raise AssertionError(k)


def mk_itr(t):
    if t is None:
        return None
    if t == "wrap":
        return lambda s, **kw: (s,)
    if t == "not":
        return lambda s, **kw: (~s,)
    if t == "dup":
        return lambda s, **kw: (s, s)
    raise AssertionError(t)


def custom_combine(tensors, **kwargs):
    return 2 * list(tensors.values())[0]


class Parallel(_neural.Layer):
    """hand-written Layer subclass: independent connection -> neuron lanes sharing a name; wiring() is the identity
    and hands back the very dict it received (a valid wiring)"""

    def __init__(self, lanes):
        _neural.Layer.__init__(self)
        for name, conn, neur in lanes:
            self.add_connection(name, conn)
            self.add_neuron(name, neur)
            self.add_cell(name, name)

    def wiring(self, inputs, **kwargs):
        return inputs


def build_layer(case, conns, neurs):
    kind = case["kind"]
    if kind == "parallel":
        return Parallel([(nm(s["name"]), c, n) for s, c, n in zip(case["conns"], conns, neurs)])
    if kind == "serial":
        if case.get("names_default"):
            return Serial(conns[0], neurs[0], mk_tr(case.get("tr")))
        return Serial(conns[0], neurs[0], mk_tr(case.get("tr")),
                      connection_name=nm(case["conns"][0]["name"]), neuron_name=nm(case["neurs"][0]["name"]))
    if kind == "biclique":
        cl = []
        for s, c in zip(case["conns"], conns):
            cl.append((nm(s["name"]), c) if s.get("tr") is None else (nm(s["name"]), c, mk_tr(s["tr"])))
        nl = []
        for s, n in zip(case["neurs"], neurs):
            nl.append((nm(s["name"]), n) if s.get("tr") is None else (nm(s["name"]), n, mk_tr(s["tr"])))
        cmbn = case["combine"]
        return Biclique(cl, nl, combine=(custom_combine if cmbn == "custom" else cmbn))
    if kind == "recurrent":
        t, it = case["tr"], case["itr"]
        cn, nn = [nm(s["name"]) for s in case["conns"]], [nm(s["name"]) for s in case["neurs"]]
        return RecurrentSerial(conns[0], conns[1], conns[2], neurs[0], neurs[1],
                               feedfwd_out_transform=mk_tr(t[0]), lateral_out_transform=mk_tr(t[1]),
                               feedback_out_transform=mk_tr(t[2]), lateral_in_transform=mk_itr(it[0]),
                               feedback_in_transform=mk_itr(it[1]),
                               feedfwd_connection_name=cn[0], lateral_connection_name=cn[1],
                               feedback_connection_name=cn[2], feedfwd_neuron_name=nn[0], feedback_neuron_name=nn[1],
                               trainable_feedback=bool(case.get("trainable", False)))
    raise AssertionError(kind)


# ------------------------------------------------------------------ encoding
def enc_t(t):
    return [list(t.shape), [fhex(v) for v in t.detach().to(torch.float64).reshape(-1).tolist()]]


def enc_dict(d, names):
    inv = {nm(k): k for k in names}
    return [[inv[k], enc_t(v)] for k, v in d.items()]


def snap_conn(c):
    v = c.synapse.spike_.value
    rows = [[int(bool(x)) for x in v[i].reshape(-1).tolist()] for i in range(v.shape[0])]
    W = [[fhex(x) for x in r] for r in c.weight.detach().tolist()]
    b = [] if c.bias is None else [[fhex(x) for x in c.bias.detach().tolist()]]
    return [W, b, rows, int(c.synapse.spike_.pointer)]


def snap_neuron(n):
    a = []
    if adapt_attr(n):
        ta = get_adapt(n).detach()
        a = [[fhex(x) for x in r] for r in ta.reshape(-1, ta.shape[-1]).tolist()]
    return [[fhex(x) for x in n.voltage.reshape(-1).tolist()], [fhex(x) for x in n.refrac.reshape(-1).tolist()],
            a, enc_t(n.spike)]


def snap_layer(case, layer):
    cs = [[s["name"], snap_conn(layer.get_connection(nm(s["name"])))] for s in case["conns"]]
    ns = [[s["name"], snap_neuron(layer.get_neuron(nm(s["name"])))] for s in case["neurs"]]
    lay = [cs, ns]
    if case["kind"] == "recurrent":
        fb = layer.feedback_spikes
        return [lay, [] if fb is None else [enc_t(fb)]]
    return lay


def T(js):
    return torch.tensor(js["el"], dtype=fdt()).reshape(js["sh"])


def nkw_of(k):
    if k is None:
        return None
    d = {"refrac_lock": bool(k["lock"])}
    if k.get("adapt") is not None:
        d["adapt"] = bool(k["adapt"])
    return d


# ------------------------------------------------------------------ reference (direct oracle)
class Twin:
    """The property's own description of a layer, over standalone components: nothing here touches
    inferno.neural.network.  Components are real (their own behaviour is the business of C03-C06)."""

    def __init__(self, case, use_attr=False):
        # use_attr=False: the DOCUMENTED reading (lateral input / stored feedback = the spikes the groups returned);
        # use_attr=True: the reading of the known finding (they are the groups' .spike attribute, refrac == refrac_t),
        # used only to decide whether a disagreement on a refrac_t == 0 layer really is an instance of that finding
        self.use_attr = use_attr
        self.case = case
        self.B, self.dt = case["B"], case["dt"]
        self.cspec = [copy.deepcopy(s) for s in case["conns"]]
        self.nspec = [copy.deepcopy(s) for s in case["neurs"]]
        self.cast = cast_of(case)
        self.conns = [self.casted(build_conn(s, self.B, self.dt)) for s in self.cspec]
        self.neurs = [self.casted(build_neuron(s, self.B, self.dt)) for s in self.nspec]
        self.prev_fb = None
        KEEP.extend(self.conns + self.neurs)

    def casted(self, m):
        return m if self.cast is None else m.to(self.cast)

    def cidx(self, name):
        return next(i for i, s in enumerate(self.cspec) if s["name"] == name)

    def nidx(self, name):
        return next(i for i, s in enumerate(self.nspec) if s["name"] == name)

    def fresh_like(self, keep_adapt):
        """replace every component by a newly CONSTRUCTED one carrying the learned parameters"""
        nc = []
        for s, c in zip(self.cspec, self.conns):
            f = build_conn(s, self.B, self.dt)
            f.weight = c.weight.detach().clone()
            if c.bias is not None:
                f.bias = c.bias.detach().clone()
            if c.delay is not None:
                f.delay = c.delay.detach().clone()
            nc.append(self.casted(f))
        nn_ = []
        for s, n in zip(self.nspec, self.neurs):
            f = build_neuron(s, self.B, self.dt)
            f.train(n.training)
            if adapt_attr(n) and keep_adapt:
                set_adapt(f, get_adapt(n).detach().clone())
            nn_.append(self.casted(f))
        self.conns, self.neurs = nc, nn_
        KEEP.extend(nc + nn_)

    def combine(self, ts):
        m = self.case["combine"]
        if m == "custom":
            return 2 * ts[0]
        st = torch.stack(ts, 0)
        if m == "sum":
            out = ts[0].clone()
            for t in ts[1:]:
                out = out + t
            return out
        if m == "mean":
            out = ts[0].clone()
            for t in ts[1:]:
                out = out + t
            return out / len(ts)
        if m == "prod":
            out = ts[0].clone()
            for t in ts[1:]:
                out = out * t
            return out
        if m == "min":
            return st.min(0).values
        if m == "max":
            return st.max(0).values
        raise AssertionError(m)

    def forward(self, op):
        """expected outputs: dict with 'out' (neuron outputs by name) and 'mid' (connection outputs by name)"""
        kind = self.case["kind"]
        idt = (lambda x: x)
        if kind == "serial":
            x = [T(t) for t in op[1]]
            y = self.conns[0](*x)
            tr = mk_tr(self.case.get("tr")) or idt
            z = self.neurs[0](tr(y), **(nkw_of(op[2]) or {}))
            return {"out": {self.nspec[0]["name"]: z}, "mid": {self.cspec[0]["name"]: y}}
        if kind == "parallel":
            mid, out = {}, {}
            nkw = {k: nkw_of(v) for k, v in op[2]}
            for name, xs in op[1]:
                y = self.conns[self.cidx(name)](*[T(t) for t in xs])
                mid[name] = y
                out[name] = self.neurs[self.nidx(name)](y, **(nkw.get(name) or {}))
            return {"out": out, "mid": mid}
        if kind == "biclique":
            mid = {}
            for name, xs in op[1]:
                mid[name] = self.conns[self.cidx(name)](*[T(t) for t in xs])
            ts = [(mk_tr(self.cspec[self.cidx(k)].get("tr")) or idt)(v) for k, v in mid.items()]
            u = self.combine(ts)
            nkw = {k: nkw_of(v) for k, v in op[2]}
            out = {}
            for s, n in zip(self.nspec, self.neurs):
                out[s["name"]] = n((mk_tr(s.get("tr")) or idt)(u), **(nkw.get(s["name"]) or {}))
            return {"out": out, "mid": mid}
        if kind == "recurrent":
            t, it = self.case["tr"], self.case["itr"]
            xs = [T(a) for a in op[1]]
            la = tuple(T(a) for a in op[2])
            fa = tuple(T(a) for a in op[3])
            nff, nfb = self.neurs
            cff, clat, cfb = self.conns
            prev = self.prev_fb
            if prev is None:    # "no spikes on the first"
                prev = torch.zeros((self.B,) + tuple(self.nspec[1]["shape"]), dtype=torch.bool)
            ifb = mk_itr(it[1]) or (lambda s: (s,))
            ilat = mk_itr(it[0]) or (lambda s: (s,))
            yff = cff(*xs)
            yfb = cfb(*(ifb(prev) + fa))
            zff = nff((mk_tr(t[0]) or idt)(yff) + (mk_tr(t[2]) or idt)(yfb), **(nkw_of(op[4]) or {}))
            ylat = clat(*(ilat(nff.spike if self.use_attr else zff) + la))
            zfb = nfb((mk_tr(t[1]) or idt)(ylat), **(nkw_of(op[5]) or {}))
            self.prev_fb = nfb.spike if self.use_attr else zfb
            n = [s["name"] for s in self.cspec]
            return {"out": {self.nspec[0]["name"]: zff, self.nspec[1]["name"]: zfb},
                    "mid": {n[0]: yff, n[2]: yfb, n[1]: ylat}}
        raise AssertionError(kind)


DTYPES = {"float32": torch.float32, "float64": torch.float64}


def cast_of(case):
    d = case.get("dtype") or {}
    return DTYPES[d["cast"]] if d.get("cast") else None


def teq(a, b):
    if tuple(a.shape) != tuple(b.shape) or a.dtype != b.dtype:
        return False
    return bool(torch.allclose(a.to(torch.float64), b.to(torch.float64), rtol=1e-9, atol=1e-12, equal_nan=True))


def sig(case, kind, **kw):
    # refrac_t_zero is the marker of the known finding C17-recurrent-spike-attr-refrac0; it is set to True ONLY by
    # classify() below, after the observed behaviour has been confirmed to be what the all-True attribute predicts
    s = {"kind": kind, "layer": case["kind"]}
    kw.pop("refrac_t_zero", None)
    s.update(kw)
    if case["kind"] == "recurrent":
        s["refrac_t_zero"] = False
    return s


def refrac0(case):
    return any(s["refrac_t"] == 0 for s in case["neurs"])


def check_fwd(case, layer, twin, op, got_out, got_mid, i, fails):
    exp = twin.forward(op)
    for k, v in exp["out"].items():
        n = layer.get_neuron(nm(k))
        g = got_out.get(nm(k))
        if g is None:
            fails.append({"step": i, "what": f"no output for neuron group {k}", "signature": sig(case, "missing_output")})
            continue
        if tuple(g.shape) != tuple(n.batchedshape):
            fails.append({"step": i, "what": f"output of neuron group {k} has shape {tuple(g.shape)}, the group's batched "
                          f"shape is {tuple(n.batchedshape)}", "signature": sig(case, "output_shape")})
        elif not teq(g, v):
            fails.append({"step": i, "what": f"output of neuron group {k} differs from the documented composition of "
                          "standalone components", "expected": enc_t(v), "got": enc_t(g),
                          "signature": sig(case, "forward_value", refrac_t_zero=refrac0(case))})
        for nmv, t in (("voltage", n.voltage), ("refrac", n.refrac)):
            if tuple(t.shape) != tuple(n.batchedshape):
                fails.append({"step": i, "what": f"{nmv} of neuron group {k} has shape {tuple(t.shape)} after forward",
                              "signature": sig(case, "state_shape")})
    if set(got_out) != {nm(k) for k in exp["out"]}:
        fails.append({"step": i, "what": f"output keys {sorted(got_out)}", "signature": sig(case, "output_keys")})
    if got_mid is not None:
        for k, v in exp["mid"].items():
            g = got_mid.get(nm(k))
            if g is None or not teq(g, v):
                fails.append({"step": i, "what": f"captured output of connection {k} differs from the standalone connection",
                              "signature": sig(case, "intermediate_value", refrac_t_zero=refrac0(case))})
        if set(got_mid) != {nm(k) for k in exp["mid"]}:
            fails.append({"step": i, "what": f"captured keys {sorted(got_mid)}", "signature": sig(case, "intermediate_keys")})


def check_state(case, layer, twin, i, fails, after):
    """every state variable of the layer's components equals that of the reference's components"""
    for s, c in zip(twin.cspec, twin.conns):
        lc = layer.get_connection(nm(s["name"]))
        ra, rb = records(lc.synapse), records(c.synapse)
        for rn in rb:
            a, b = ra.get(rn), rb[rn]
            if a is None or tuple(a.value.shape) != tuple(b.value.shape) or a.value.dtype != b.value.dtype or \
                    a.value.device != b.value.device or not torch.equal(a.value, b.value) or a.pointer != b.pointer:
                fails.append({"step": i, "what": f"record {rn} (history / pointer / dtype) of the synapse of connection "
                              f"{s['name']} {after} differs from the reference "
                              f"({'freshly built' if after.startswith('after clear') else 'standalone'} component)",
                              "signature": sig(case, "clear_synapse" if after.startswith("after clear") else "state_synapse",
                                               record=rn)})
        if not torch.equal(lc.weight, c.weight) or (c.bias is not None and not torch.equal(lc.bias, c.bias)) or \
                (c.delay is not None and not torch.equal(lc.delay, c.delay)):
            fails.append({"step": i, "what": f"learned parameters of connection {s['name']} changed {after}",
                          "signature": sig(case, "params_changed")})
    for s, n in zip(twin.nspec, twin.neurs):
        ln = layer.get_neuron(nm(s["name"]))
        for nmv in ("voltage", "refrac"):
            a, b = getattr(ln, nmv), getattr(n, nmv)
            if tuple(a.shape) != tuple(b.shape) or not teq(a, b):
                why = (f"shape {tuple(a.shape)}, expected {tuple(b.shape)}" if tuple(a.shape) != tuple(b.shape) else
                       f"dtype {a.dtype}, expected {b.dtype}" if a.dtype != b.dtype else
                       f"values {a.reshape(-1).tolist()[:6]}, expected {b.reshape(-1).tolist()[:6]}")
                fails.append({"step": i, "what": f"{nmv} of neuron group {s['name']} {after} differs from the reference "
                              f"({'freshly built' if after.startswith('after clear') else 'standalone'} component): {why}",
                              "signature": sig(case, "clear_neuron" if after.startswith("after clear")
                                               else "state_neuron", refrac_t_zero=refrac0(case))})
        if adapt_attr(n) and not teq(get_adapt(ln), get_adapt(n)):
            fails.append({"step": i, "what": f"adaptations of neuron group {s['name']} {after}",
                          "signature": sig(case, "adaptations")})
    if case["kind"] == "recurrent" and after == "after forward":
        fb = layer.feedback_spikes
        if fb is None or twin.prev_fb is None or not teq(fb, twin.prev_fb):
            fails.append({"step": i, "what": "stored feedback_spikes differ from the feedback group's output of this step",
                          "signature": sig(case, "stored_feedback")})
    if case["kind"] == "recurrent" and after.startswith("after clear(feedback"):
        if layer.feedback_spikes is not None:
            fails.append({"step": i, "what": "feedback_spikes not None after clear",
                          "signature": sig(case, "clear_feedback")})


# ------------------------------------------------------------------ running
def apply_learn(case, layer_or_twin, op, is_twin):
    """learn operations, applied identically to the layer's modules and to the reference's"""
    k = op[0]
    if is_twin:
        getc = lambda name: layer_or_twin.conns[layer_or_twin.cidx(name)]
        getn = lambda name: layer_or_twin.neurs[layer_or_twin.nidx(name)]
    else:
        getc = lambda name: layer_or_twin.get_connection(nm(name))
        getn = lambda name: layer_or_twin.get_neuron(nm(name))
    if k == "learnc":
        c = getc(op[1])
        c.weight = torch.tensor(op[2], dtype=c.weight.dtype)
        if op[3] is not None:
            c.bias = torch.tensor(op[3], dtype=c.weight.dtype)
    elif k == "train":
        getn(op[1]).train(bool(op[2]))
    elif k == "adapt":
        n = getn(op[1])
        set_adapt(n, torch.tensor(op[2], dtype=get_adapt(n).dtype).reshape(get_adapt(n).shape))
    else:
        raise AssertionError(k)


def expected_constructor_error(case):
    """the documented reasons for a layer constructor to raise, decided from the case alone"""
    cn = [c["name"] for c in case["conns"]]
    nn = [n["name"] for n in case["neurs"]]
    if not cn or not nn or len(set(cn)) != len(cn) or len(set(nn)) != len(nn):
        return True
    kind = case["kind"]
    if kind == "serial":
        pairs = [(0, 0)]
    elif kind == "biclique":
        pairs = [(i, j) for i in range(len(cn)) for j in range(len(nn))]
    elif kind == "parallel":
        pairs = [(i, i) for i in range(len(cn))]
    else:
        pairs = [(0, 0)] + ([(1, 1), (2, 0)] if case.get("trainable") else [])
    return any(list(case["conns"][i]["out"]) != list(case["neurs"][j]["shape"]) for i, j in pairs)


def classify(case, fails_doc, fails_attr):
    """A disagreement with the documented reading is an instance of the known finding only if the layer has a
    refrac_t == 0 group AND its behaviour is exactly what the all-True spike attribute predicts (no disagreement with
    the attribute reading).  Everything else keeps its own signature."""
    if fails_doc and fails_attr is not None and not fails_attr:
        for f in fails_doc:
            f["signature"] = {"kind": "spike_attr_refrac0", "layer": "recurrent", "refrac_t_zero": True,
                              "was": f["signature"].get("kind")}
        return fails_doc
    out = list(fails_doc)
    for f in (fails_attr or []):
        f["what"] = "(also against the all-True spike-attribute reading) " + f["what"]
        out.append(f)
    return out


def run_case(case):
    """torch's default dtype is float64 (common.py) unless the case asks for another one ("dtype": {"default": ...,
    "cast": ...}: build everything under that default, then cast the layer - and the references - with .to(cast))"""
    old = torch.get_default_dtype()
    d = (case.get("dtype") or {}).get("default")
    try:
        if d:
            torch.set_default_dtype(DTYPES[d])
        return _run_case(case)
    finally:
        torch.set_default_dtype(old)


def state_dtypes(case, layer):
    out = {}
    for sp in case["neurs"]:
        n = layer.get_neuron(nm(sp["name"]))
        out[("neuron", sp["name"], "voltage")] = (n.voltage.dtype, n.voltage.device)
        out[("neuron", sp["name"], "refrac")] = (n.refrac.dtype, n.refrac.device)
    for sp in case["conns"]:
        for rn, r in records(layer.get_connection(nm(sp["name"])).synapse).items():
            out[("connection", sp["name"], rn)] = (r.value.dtype, r.value.device)
    return out


def _run_case(case):
    B, dt = case["B"], case["dt"]
    fails = []
    try:
        conns = [build_conn(s, B, dt) for s in case["conns"]]
        neurs = [build_neuron(s, B, dt) for s in case["neurs"]]
        KEEP.extend(conns + neurs)
        layer = build_layer(case, conns, neurs)
        if cast_of(case) is not None:
            layer = layer.to(cast_of(case))
        KEEP.append(layer)
    except Exception as e:  # noqa
        c = exc_code(e)
        if not expected_constructor_error(case):
            fails.append({"step": -1, "what": f"constructor raised {type(e).__name__}: {e}"[:300],
                          "signature": sig(case, "constructor_raised")})
        return {"trace": [[1, c] if c != 9 else [1, 9, f"{type(e).__name__}: {e}"[:200]]], "oracle": fails}
    stats = {"adaptive_clears": []}
    twin = Twin(case)
    # second reference, only for recurrent layers with a refrac_t == 0 group: the attribute reading of the finding
    twinA = Twin(case, use_attr=True) if (case["kind"] == "recurrent" and refrac0(case)) else None
    refs = [twin] + ([twinA] if twinA else [])
    trace = [[0, [], snap_layer(case, layer)]]
    cn = [s["name"] for s in case["conns"]]
    nn = [s["name"] for s in case["neurs"]]
    kind = case["kind"]

    def against(tw, fn):
        fl = []
        try:
            fn(tw, fl)
        except Exception as e:  # noqa
            fl.append({"step": i, "what": f"reference raised {type(e).__name__}: {e}"[:300],
                       "signature": sig(case, "reference_raised")})
        return fl

    for i, op in enumerate(case["ops"]):
        k = op[0]
        try:
            if k == "fwd":
                try:
                    if kind == "serial":
                        cap = op[3]
                        r = layer(*[T(t) for t in op[1]], neuron_kwargs=nkw_of(op[2]), capture_intermediate=cap)
                        z, y = (r if cap else (r, None))
                        out = [enc_t(z), enc_t(y)] if cap else [enc_t(z)]
                        g_out, g_mid = {nm(nn[0]): z}, ({nm(cn[0]): y} if cap else None)
                    elif kind in ("biclique", "parallel"):
                        cap = op[3]
                        ins = {nm(name): tuple(T(t) for t in xs) for name, xs in op[1]}
                        nkw = {nm(name): nkw_of(v) for name, v in op[2] if v is not None}
                        r = layer(ins, neuron_kwargs=nkw, capture_intermediate=cap)
                        zs, ys = (r if cap else (r, None))
                        out = [enc_dict(zs, nn), enc_dict(ys, cn)] if cap else [enc_dict(zs, nn)]
                        g_out, g_mid = zs, ys
                    else:
                        cap = op[6]
                        r = layer(*[T(t) for t in op[1]],
                                  lateral_connection_args=[T(t) for t in op[2]] or None,
                                  feedback_connection_args=[T(t) for t in op[3]] or None,
                                  feedfwd_neuron_kwargs=nkw_of(op[4]), feedback_neuron_kwargs=nkw_of(op[5]),
                                  capture_intermediate=cap)
                        (z1, z2), ys = (r if cap else (r, None))
                        out = [enc_t(z1), enc_t(z2)] + ([enc_dict(ys, cn)] if cap else [])
                        g_out, g_mid = {nm(nn[0]): z1, nm(nn[1]): z2}, ys
                except Exception as e:  # noqa
                    # the layer raised: legitimate only if the documented composition of standalone components raises too
                    # (judged against the reference that has tracked the layer so far)
                    ref = twinA or twin
                    try:
                        ref.forward(op)
                        fails.append({"step": i, "what": f"forward raised {type(e).__name__}: {e}"[:300] +
                                      " although the documented composition of standalone components succeeds on this input",
                                      "signature": sig(case, "forward_raised")})
                    except Exception:  # noqa
                        pass
                    raise

                if g_mid is not None and isinstance(g_mid, dict) and any(g_mid is o for o in (g_out,)):
                    fails.append({"step": i, "what": "capture_intermediate: the captured connection outputs ARE the dict of "
                                  "neuron outputs (same object)", "signature": sig(case, "captured_is_outputs")})

                def chk(tw, fl):
                    check_fwd(case, layer, tw, op, g_out, g_mid, i, fl)
                    check_state(case, layer, tw, i, fl, "after forward")
                fd = against(twin, chk)
                fa = against(twinA, chk) if twinA else None
                fails += classify(case, fd, fa)
            elif k == "clear":
                if kind == "recurrent":
                    cf, sub, keep = op[1], op[2], op[3]
                else:
                    cf, sub, keep = None, op[1], op[2]
                kw = {} if keep is None else {"keep_adaptations": bool(keep)}
                # the learned state as the layer itself holds it right before clear()
                before = {}
                for sp in case["neurs"]:
                    ln = layer.get_neuron(nm(sp["name"]))
                    if adapt_attr(ln):
                        before[sp["name"]] = get_adapt(ln).detach().clone()
                wbefore = {sp["name"]: layer.get_connection(nm(sp["name"])).weight.detach().clone() for sp in case["conns"]}
                dbefore = state_dtypes(case, layer)
                try:
                    if kind == "recurrent":
                        layer.clear(clear_feedback=cf, submodules=sub, **kw)
                    else:
                        layer.clear(submodules=sub, **kw)
                except Exception as e:  # noqa
                    fails.append({"step": i, "what": f"clear() raised {type(e).__name__}: {e}"[:300],
                                  "signature": sig(case, "clear_raised")})
                    raise
                # "learned parameters and adaptations are kept" stated directly on the layer: unchanged by clear()
                # (default arguments or keep_adaptations=True), zeroed only on an explicit keep_adaptations=False
                for name, a0 in before.items():
                    ln = layer.get_neuron(nm(name))
                    a1 = get_adapt(ln)
                    cls = type(ln).__name__
                    kept = (keep is None or bool(keep)) or not sub
                    nonzero = bool(a0.abs().sum() > 0)
                    stats["adaptive_clears"].append([cls, "default" if keep is None else str(bool(keep)), bool(sub), nonzero])
                    if kept and not teq(a1, a0):
                        fails.append({"step": i, "what": f"clear({'keep_adaptations=True' if keep else 'default arguments'}) "
                                      f"changed the learned adaptations of the {cls} group {name}: before "
                                      f"{a0.reshape(-1).tolist()[:6]} after {a1.reshape(-1).tolist()[:6]}",
                                      "signature": sig(case, "clear_lost_adaptations", neuron=cls)})
                    if not kept and bool(a1.abs().sum() > 0):
                        fails.append({"step": i, "what": f"clear(keep_adaptations=False) left adaptations of the {cls} group {name}",
                                      "signature": sig(case, "clear_kept_adaptations", neuron=cls)})
                for key, dd in state_dtypes(case, layer).items():
                    if dd != dbefore.get(key):
                        fails.append({"step": i, "what": f"clear() changed dtype/device of {key[2]} of {key[0]} {key[1]}: "
                                      f"{dbefore.get(key)} -> {dd}", "signature": sig(case, "clear_changed_dtype", what=key[2])})
                for name, w0 in wbefore.items():
                    if not torch.equal(layer.get_connection(nm(name)).weight, w0):
                        fails.append({"step": i, "what": f"clear() changed the weights of connection {name}",
                                      "signature": sig(case, "clear_changed_weights")})
                for tw in refs:
                    if sub:
                        tw.fresh_like(keep_adapt=(keep is None or bool(keep)))
                    if cf:
                        tw.prev_fb = None
                after = "after clear(feedback)" if cf else ("after clear" if sub else "after clear(submodules=False)")
                fd = against(twin, lambda tw, fl: check_state(case, layer, tw, i, fl, after))
                fa = against(twinA, lambda tw, fl: check_state(case, layer, tw, i, fl, after)) if twinA else None
                fails += classify(case, fd, fa)
                out = []
            else:
                apply_learn(case, layer, op, False)
                for tw in refs:
                    apply_learn(case, tw, op, True)
                out = []
            trace.append([0, out, snap_layer(case, layer)])
        except Exception as e:  # noqa
            c = exc_code(e)
            trace.append([1, c] if c != 9 else [1, 9, f"{type(e).__name__}: {e}"[:200]])
            break
    return {"trace": trace, "oracle": fails, "stats": stats}


def handler(payload):
    return [run_case(c) for c in payload["cases"]]


if __name__ == "__main__":
    main(handler)
