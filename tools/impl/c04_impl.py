"""Runs synapse operation sequences on the real implementation (inferno.neural synapses); canonical traces out.

Every case is run twice, with inplace=False and inplace=True (the property says both modes give identical
results); the trace of the case's own `inplace` setting is compared with the Coq model by the harness.
"""
import torch
from common import main, fhex, exc_code
from inferno import neural

KEEP = []  # RecordTensor only weak-references its owner
CLS = ["DeltaCurrent", "DeltaPlusCurrent", "SingleExponentialCurrent", "DoubleExponentialCurrent"]


def ctor_kwargs(case, inplace):
    """keyword arguments of the constructor / partialconstructor; the names listed in case["omit"] are LEFT OUT
    (the harness then expects the documented defaults)"""
    k = case["cls"]
    omit = set(case.get("omit", []))
    kw = dict(spike_charge=case["Q"])
    if "tol" not in omit:
        kw["interp_tol"] = case["tol"]
    if "cur_ob" not in omit:
        kw["current_overbound"] = case["cur_ob"]
    if "spk_ob" not in omit:
        kw["spike_overbound"] = case["spk_ob"]
    if "inplace" not in omit:
        kw["inplace"] = inplace
    if "mode" not in omit:
        kw["interp_mode" if k in (0, 1) else "spike_interp_mode"] = ["previous", "nearest"][case["mode"]]
    if k == 2:
        kw["time_constant"] = case["tau"]
    if k == 3:
        kw["tc_decay"] = case["tau"]
        kw["tc_rise"] = case["tr"]
    return kw


def build(case, inplace):
    """the synapse, built directly / through Class.partialconstructor(...) / by a connection's constructor from the
    partial constructor (how layers build them); returns (synapse, connection or None)"""
    cls = getattr(neural, CLS[case["cls"]])
    kw = ctor_kwargs(case, inplace)
    omit = set(case.get("omit", []))
    how = case.get("build", "direct")
    conn = None
    if how == "direct":
        extra = {}
        if "delay" not in omit:
            extra["delay"] = case["delay"]
        if "batch" not in omit:
            extra["batch_size"] = case["batch"]
        s = cls(tuple(case["shape"]), case["dt"], **extra, **kw)
    elif how == "partial":
        s = cls.partialconstructor(**kw)(tuple(case["shape"]), case["dt"], case["delay"], case["batch"])
    else:
        extra = {}
        if "delay" not in omit:
            extra["delay"] = case["delay"] if case["delay"] > 0 else None
        if "batch" not in omit:
            extra["batch_size"] = case["batch"]
        conn = neural.LinearDense(tuple(case["shape"]), (2,), case["dt"], synapse=cls.partialconstructor(**kw), **extra)
        s = conn.synapse
        KEEP.append(conn)
    if "inplace" in omit and inplace:
        s.inplace = True        # only the twin run (opposite write mode) gets here: the case itself expects the default
    KEEP.append(s)
    return s, conn


def report(s, k):
    """what the synapse reports about its configuration"""
    return [float(s.dt), float(s.delay), bool(s.inplace), int(s.batchsz), [int(x) for x in s.shape],
            float(s.spike_charge),
            float(s.time_constant) if k == 2 else (float(s.tc_decay) if k == 3 else None),
            float(s.tc_rise) if k == 3 else None,
            int(s.spike_.recordsz)]


def enc_f(t):
    t = t.detach().clone()
    return [1, list(t.shape), [fhex(v) for v in t.to(torch.float64).reshape(-1).tolist()]]


def enc_b(t):
    t = t.detach().clone()
    if t.dtype != torch.bool:
        return [9, str(t.dtype), list(t.shape)]
    return [2, list(t.shape), [int(v) for v in t.reshape(-1).tolist()]]


def enc_rec(rt):
    v = rt.value
    n = v.shape[0]
    return [rt.recordsz, rt.pointer, list(v.shape[1:]),
            [[fhex(x) for x in v[i].to(torch.float64).reshape(-1).tolist()] for i in range(n)]]


def snapshot(s, k):
    out = [enc_rec(s.spike_)]
    if k in (1, 2):
        out.append(enc_rec(s.current_))
    elif k == 3:
        out.append(enc_rec(s.pos_current_))
        out.append(enc_rec(s.neg_current_))
    return out


def tensor_in(case, shape, vals):
    if case.get("float_in"):
        return torch.tensor(vals, dtype=torch.float64).reshape(shape)
    return torch.tensor([bool(v) for v in vals], dtype=torch.bool).reshape(shape)


def apply(s, conn, case, op, flip=False):
    k = op[0]
    if k.startswith("set_"):
        v = op[1]
        if k == "set_inplace":
            v = bool(v) != flip
        if k == "set_dt":
            if conn is not None:
                conn.dt = v          # Connection.dt forwards to the synapse
            else:
                s.dt = v
        elif k == "set_delay":
            s.delay = v
        elif k == "set_inplace":
            s.inplace = v
        elif k == "set_batch":
            s.batchsz = v
        elif k == "set_Q":
            s.spike_charge = float(v)
        elif k == "set_tau":
            if case["cls"] == 2:
                s.time_constant = float(v)
            else:
                s.tc_decay = float(v)
        elif k == "set_tr":
            s.tc_rise = float(v)
        else:
            raise AssertionError(k)
        r = report(s, case["cls"])
        r[2] = r[2] != flip
        return [4, r]
    if k == "step":
        x = tensor_in(case, op[1], op[2])
        inj = [torch.tensor(i, dtype=torch.float64).reshape(op[1]) for i in op[3]]
        return enc_f(s(x, *inj))
    if k == "cur":
        return enc_f(s.current)
    if k == "spk":
        return enc_b(s.spike)
    sel = None
    if k in ("cur_at", "spk_at", "pos_at", "neg_at"):
        sel = torch.tensor(op[2], dtype=torch.float64).reshape(op[1])
    if k == "cur_at":
        r = s.current_at(sel)
        if r.dtype != torch.float64:
            return [9, str(r.dtype), list(r.shape)]
        return enc_f(r)
    if k == "spk_at":
        return enc_b(s.spike_at(sel))
    if k == "pos_at":
        return enc_f(s.pos_current_at(sel))
    if k == "neg_at":
        return enc_f(s.neg_current_at(sel))
    if k == "clear":
        s.clear()
        return [0]
    raise AssertionError(k)


def run_one(case, flip):
    s, conn = build(case, bool(case["inplace"]) != flip)
    r0 = report(s, case["cls"])
    r0[2] = r0[2] != flip
    tr = [[s.spike_.recordsz, r0]]
    for op in case["ops"]:
        try:
            out = [0, apply(s, conn, case, op, flip)]
        except Exception as e:  # noqa
            c = exc_code(e)
            out = [1, c] if c != 9 else [1, 9, f"{type(e).__name__}: {e}"[:200]]
        tr.append([out, snapshot(s, case["cls"])])
    return tr


def run_case(case):
    own = run_one(case, False)
    twin = run_one(case, True)
    return {"own": own, "twin": twin}


def handler(payload):
    out = []
    for c in payload["cases"]:
        try:
            out.append(run_case(c))
        except Exception as e:  # constructor failure etc.
            out.append({"crash": f"{type(e).__name__}: {e}"[:300]})
    return out


if __name__ == "__main__":
    main(handler)
