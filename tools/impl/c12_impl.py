"""C12: checkpoint at step k, restore into other instances, compare the future with the uninterrupted run (real code).

One protocol for every component kind (`protocol`):
  * the source runs T steps; after EVERY step all read-only observers are evaluated (every public property of every
    submodule + peek / dump / view of reducers, current_at / spike_at of synapses, classifier inference, record reads);
  * at step k the state is serialised ONCE (bytes) and deserialised ONCE: that one checkpoint OBJECT is restored into a target
    that has run on other data (with its own train/eval and adapt schedule, every observer exercised after each of its steps),
    then - after that target has run - the SAME object is restored a second time (rewinding the same target, or into a third
    instance); after every run the object is deep-compared with a fresh torch.load of the same bytes (must not be mutated);
  * right after each restore (before the next step): the target's state dict equals the checkpoint and ALL observers equal the
    source's at step k; after every later step: outputs and ALL observers equal the source's; at the end the state dicts agree;
  * optionally (transfer="live") the live state_dict() of the source is loaded into a target at step k (no serialisation) and
    both are stepped side by side;
  * train / eval mode, adapt and refrac_lock flags follow a per-step schedule (eval-mode futures included).
"""
import copy, io, math, re
import torch
from common import main
import factory
from c11_impl import mk_trainer, with_batch, scale_weights, rand_spikes, layer_io
from inferno import neural, learn, observe
from inferno.core.infrastructure import Module, RecordTensor
import torch.nn as nn


def sd_copy(mod):
    """serialise through torch.save / torch.load (what a user does), not a live reference"""
    buf = io.BytesIO()
    torch.save(mod.state_dict(), buf)
    buf.seek(0)
    return torch.load(buf, weights_only=False)


def sd_equal(a, b, path=""):
    """exact equality of two state dicts (tensors bit-equal, NaN==NaN, extras compared structurally)"""
    if isinstance(a, dict) and isinstance(b, dict):
        if set(a) != set(b):
            return f"{path}: key sets differ: only-left {sorted(set(a) - set(b))[:5]} only-right {sorted(set(b) - set(a))[:5]}"
        for k in a:
            r = sd_equal(a[k], b[k], f"{path}/{k}")
            if r:
                return r
        return None
    if torch.is_tensor(a) and torch.is_tensor(b):
        if a.shape != b.shape or a.dtype != b.dtype:
            return f"{path}: shape/dtype {tuple(a.shape)} {a.dtype} vs {tuple(b.shape)} {b.dtype}"
        if a.numel() and not torch.equal(torch.nan_to_num(a.double(), nan=12345.0), torch.nan_to_num(b.double(), nan=12345.0)):
            return f"{path}: tensors differ (max abs {float((a.double() - b.double()).abs().nan_to_num().max())})"
        return None
    if isinstance(a, (list, tuple)) and isinstance(b, (list, tuple)):
        if len(a) != len(b):
            return f"{path}: lengths differ"
        for i, (x, y) in enumerate(zip(a, b)):
            r = sd_equal(x, y, f"{path}[{i}]")
            if r:
                return r
        return None
    if isinstance(a, float) and isinstance(b, float) and math.isnan(a) and math.isnan(b):
        return None
    if torch.is_tensor(a) or torch.is_tensor(b) or isinstance(a, (dict, list, tuple)) or isinstance(b, (dict, list, tuple)):
        return f"{path}: {type(a).__name__} vs {type(b).__name__}"
    return None if (type(a) is type(b) or isinstance(a, (int, float)) and isinstance(b, (int, float))) and a == b else f"{path}: {a!r} != {b!r}"


def out_equal(a, b):
    if isinstance(a, dict):
        return all(out_equal(a[k], b[k]) for k in a) and set(a) == set(b)
    if isinstance(a, (tuple, list)):
        return len(a) == len(b) and all(out_equal(x, y) for x, y in zip(a, b))
    if a is None or b is None:
        return a is b
    return (a.shape == b.shape and a.dtype == b.dtype
            and torch.equal(torch.nan_to_num(a.double(), nan=12345.0), torch.nan_to_num(b.double(), nan=12345.0)))



# ---------------------------------------------------------------- observers
class _Skip:
    pass


SKIP = _Skip()


def _conv(v, depth=0):
    if torch.is_tensor(v):
        return v.detach().clone()
    if v is None or isinstance(v, (bool, int, float, str)):
        return v
    if isinstance(v, (tuple, list)) and depth < 3:
        r = [_conv(x, depth + 1) for x in v]
        return SKIP if any(x is SKIP for x in r) else r
    if isinstance(v, dict) and depth < 3:
        r = {str(k): _conv(x, depth + 1) for k, x in v.items()}
        return SKIP if any(x is SKIP for x in r.values()) else r
    return SKIP


def _try(f):
    try:
        return _conv(f())
    except Exception as e:  # noqa
        return "EXC:" + type(e).__name__


def _selector(shape, delay):
    n = 1
    for d in shape:
        n *= d
    return ((torch.arange(n * 2, dtype=torch.float64) * 0.37) % 1.0).reshape(*shape, 2) * delay


def observers(mods):
    """every public getter (property) of every submodule, plus the read-only methods of reducers, synapses and records"""
    out = {}
    for i, mod in enumerate(mods):
        for mname, m in mod.named_modules():
            pre = f"{i}:{mname}."
            for name in dir(type(m)):
                if name.startswith("_") or not isinstance(getattr(type(m), name, None), property):
                    continue
                v = _try(lambda: getattr(m, name))
                if v is not SKIP:
                    out[pre + name] = v
            if isinstance(m, observe.Reducer):
                out[pre + "peek()"] = _try(m.peek)
                out[pre + "dump()"] = _try(m.dump)
                dur = getattr(m, "duration", 0.0) or 0.0
                out[pre + "view(0)"] = _try(lambda: m.view(0.0))
                if dur > 0:
                    out[pre + "view(dur/3)"] = _try(lambda: m.view(dur / 3.0))
                    out[pre + "view(dur)"] = _try(lambda: m.view(float(dur)))
                out[pre + "dump() again"] = _try(m.dump)
            if isinstance(m, neural.Synapse) and hasattr(m, "current_at"):
                sel = _selector(tuple(m.batchedshape), float(m.delay))
                out[pre + "current_at(sel)"] = _try(lambda: m.current_at(sel))
                out[pre + "spike_at(sel)"] = _try(lambda: m.spike_at(sel))
            for aname, attr in list(vars(m).items()):
                if isinstance(attr, RecordTensor):
                    out[pre + aname + ".peek()"] = _try(attr.peek)
                    out[pre + aname + ".pointer"] = _try(lambda: attr.pointer)
                    out[pre + aname + ".readrange"] = _try(lambda: attr.readrange(attr.recordsz, 1))
    return out


def freeze(state):
    """serialise (what a user does with torch.save); the bytes are the reference copy of the checkpoint"""
    buf = io.BytesIO()
    torch.save(state, buf)
    return buf.getvalue()


def thaw(blob):
    return torch.load(io.BytesIO(blob), weights_only=False)


class record_dtype:
    """construct a component whose records / buffers have the given (narrower) floating dtype; the source is then driven with
    float64 observations (wider than the record), targets with observations of the record's own dtype"""

    def __init__(self, case):
        self.dt = {"float32": torch.float32}.get(case.get("record_dtype"))

    def __enter__(self):
        if self.dt is not None:
            torch.set_default_dtype(self.dt)

    def __exit__(self, *a):
        torch.set_default_dtype(torch.float64)


def narrow(case, src, x):
    """inputs of targets (not the source) in the record's own dtype"""
    if src or case.get("record_dtype") != "float32":
        return x
    if isinstance(x, (tuple, list)):
        return type(x)(narrow(case, src, v) for v in x)
    return x.float() if torch.is_tensor(x) and x.dtype == torch.float64 else x


# ---------------------------------------------------------------- rigs: one per component kind
class Rig:
    lazy = True          # has lazily shaped state: k = 0 checkpoints go into fresh targets, later ones into stepped targets
    cls = None           # class name for the persistent-field tie (None: no table entry)

    def mods(self):
        raise NotImplementedError

    def gen_inputs(self, g, n):
        raise NotImplementedError

    def step(self, t, inp, mode):
        raise NotImplementedError

    def event(self, t):          # scheduled non-step operations (clears) before step t
        pass

    def clear(self):
        pass

    def probe(self):             # observers that are not reachable through mods()
        return {}

    # ---- checkpointing: either every module on its own, or nested in a container through the ROOT's state_dict() /
    # load_state_dict() (torch calls those only on the root; submodules are reached through _save_to_state_dict /
    # _load_from_state_dict, hooks and get/set_extra_state)
    def root(self):
        nest = self.case.get("nest")
        if not nest:
            return None
        if getattr(self, "_root", None) is None:
            mods = self.mods()
            if nest == "moduledict":
                self._root, self._prefix = nn.ModuleDict({f"m{i}": m for i, m in enumerate(mods)}), "m{}."
            elif nest == "attr":            # a user nn.Module holding the component(s) next to another stateful module
                self._root, self._prefix = Holder(mods, getattr(self, "_j", 0)), "m{}."
            elif nest == "deep":            # ModuleDict inside a user module inside a Sequential
                self._root = nn.Sequential(nn.Identity(), Holder([nn.ModuleDict({f"m{i}": m for i, m in enumerate(mods)})], getattr(self, "_j", 0)))
                self._prefix = "1.m0.m{}."
            else:
                raise ValueError(nest)
        return self._root

    def state(self):
        r = self.root()
        if r is not None:
            return {"root": r.state_dict()}
        return {str(i): m.state_dict() for i, m in enumerate(self.mods())}

    def load(self, ck, strict=True):
        r = self.root()
        if r is not None:
            r.load_state_dict(ck["root"], strict=strict)
            return
        for i, m in enumerate(self.mods()):
            m.load_state_dict(ck[str(i)], strict=strict)

    def component_sd(self, ck, i=0):
        """the state dict of module i inside a checkpoint (prefix stripped when nested)"""
        if self.root() is None:
            return ck[str(i)]
        pre = self._prefix.format(i)
        return {k[len(pre):]: v for k, v in ck["root"].items() if k.startswith(pre)}

    def observe(self):
        o = observers(self.mods())
        o.update(self.probe())
        return o


class Holder(nn.Module):
    """a plain user module: the components as attributes m0, m1, ... next to an unrelated stateful sibling"""

    def __init__(self, mods, j=0):
        nn.Module.__init__(self)
        self.sibling = nn.Linear(2, 2)
        with torch.no_grad():              # deterministic per role: sources agree, targets differ from the source until loaded
            self.sibling.weight.fill_(0.25 * (1 + j))
            self.sibling.bias.fill_(-0.5 * (1 + j))
        for i, m in enumerate(mods):
            setattr(self, f"m{i}", m)


class LayerRig(Rig):
    """a layer, optionally with a trainer; one `step` = layer step [+ trainer step [+ update]]"""

    def __init__(self, case, seed_offset):
        torch.manual_seed(case["seed"] + seed_offset)
        self.case = case
        self.spec = case["spec"]
        self.layer = factory.build_layer(with_batch(self.spec, case["B"]))
        scale_weights(self.layer, 300.0)
        self.trainer = None
        self.needs = None
        if case.get("trainer"):
            self.trainer, self.needs = mk_trainer(case["trainer"], None)
            conn = self.layer.connection
            conn.updater = conn.defaultupdater()
            self.trainer.register_cell("c", self.layer.cell)

    def mods(self):
        return [self.layer] + ([self.trainer] if self.trainer is not None else [])

    def gen_inputs(self, g, n):
        B, ishape = self.case["B"], tuple(self.case["in"])
        xs = [rand_spikes(g, (B, *ishape), 0.5) for _ in range(n)]
        sigs = [((torch.rand(B, generator=g) * 4 - 2) * 4).round() / 4 for _ in range(n)]
        return list(zip(xs, sigs))

    def event(self, t):
        if t == self.case.get("layer_clear_at"):
            # end of an episode: layer.clear() and trainer.clear(keepshape=...) (monitors' reducers)
            self.layer.clear()
            if self.trainer is not None:
                self.trainer.clear(keepshape=bool(self.case.get("clear_keepshape", True)))

    def unshaped_after_event(self, k):
        if k != self.case.get("layer_clear_at"):
            return False
        # RecurrentSerial.clear() releases the lazily created feedback_spikes buffer; trainer.clear(keepshape=False) the reducers' storage
        return self.spec["cls"] == "RecurrentSerial" or (self.trainer is not None and not self.case.get("clear_keepshape", True))

    def step(self, t, inp, mode):
        x, sig = inp
        self.layer.train(mode.get("train", True))
        out = layer_io(self.layer, self.spec, x)
        if self.trainer is not None:
            self.trainer(sig) if self.needs else self.trainer()
            sched = self.case.get("schedule", "every")
            if sched == "every" or (sched == "every3" and t % 3 == 2):
                self.layer.connection.update()
        return out

    def state(self):
        if self.root() is not None:
            return Rig.state(self)
        s = {"layer": self.layer.state_dict()}
        if self.trainer is not None:
            s["trainer"] = self.trainer.state_dict()
        return s

    def load(self, s, strict=True):
        if self.root() is not None:
            return Rig.load(self, s, strict)
        self.layer.load_state_dict(s["layer"], strict=strict)
        if self.trainer is not None:
            self.trainer.load_state_dict(s["trainer"], strict=strict)


def mk_reducer(spec):
    cls = spec["cls"]
    dt, dur = spec["dt"], spec.get("duration", 0.0)
    kw = dict(duration=dur, inclusive=spec.get("inclusive", False), inplace=spec.get("inplace", False))
    if cls == "NearestTraceReducer":
        return observe.NearestTraceReducer(dt, 20.0, 1.0, 1, **kw)
    if cls == "CumulativeTraceReducer":
        return observe.CumulativeTraceReducer(dt, 20.0, 1.0, 1, **kw)
    if cls == "ScaledNearestTraceReducer":
        return observe.ScaledNearestTraceReducer(dt, 20.0, 1.0, 0.5, lambda x: x != 0, **kw)
    if cls == "ScaledCumulativeTraceReducer":
        return observe.ScaledCumulativeTraceReducer(dt, 20.0, 1.0, 0.5, lambda x: x != 0, **kw)
    if cls == "ConditionalNearestTraceReducer":
        return observe.ConditionalNearestTraceReducer(dt, 20.0, 1.0, 0.5, **kw)
    if cls == "ConditionalCumulativeTraceReducer":
        return observe.ConditionalCumulativeTraceReducer(dt, 20.0, 1.0, 0.5, **kw)
    if cls == "PassthroughReducer":
        return observe.PassthroughReducer(dt, **kw)
    if cls == "EventReducer":
        return observe.EventReducer(dt, lambda x: x != 0, initial=spec.get("initial", "inf"), **kw)
    if cls == "EMAReducer":
        return observe.EMAReducer(dt, 0.25, **kw)
    if cls == "CAReducer":
        return observe.CAReducer(dt, **kw)
    raise ValueError(cls)


# Persistent fields each component MODEL declares (coq/C12/Components.v: red_keys / syn_keys / nrn_keys, proved there to be
# the key set of the model's `save`; tools/props/c12.py checks on every run that this table is what Coq computes).
# Tensor keys as in state_dict(); an extra x of Module._extras is written "_extra_state.x".
_RED = ["_data__data", "_extra_state._data__pointer", "_extra_state._initial"]
_REC = lambda name: [f"_{name}_data", f"_extra_state._{name}_pointer"]   # noqa: E731   (a RecordTensor named `name`)
_NRN = ["_voltage__data", "_refrac__data"]
DECLARED_FIELDS = {
    "NearestTraceReducer": _RED, "CumulativeTraceReducer": _RED, "ScaledNearestTraceReducer": _RED,
    "ScaledCumulativeTraceReducer": _RED, "ConditionalNearestTraceReducer": _RED, "ConditionalCumulativeTraceReducer": _RED,
    "EventReducer": _RED, "PassthroughReducer": _RED, "EMAReducer": _RED,
    "CAReducer": _RED + ["_extra_state._count"],
    "DeltaCurrent": _REC("spike_"),
    "DeltaPlusCurrent": _REC("spike_") + _REC("current_"),
    "SingleExponentialCurrent": _REC("spike_") + _REC("current_"),
    "DoubleExponentialCurrent": _REC("spike_") + _REC("pos_current_") + _REC("neg_current_"),
    "LIF": _NRN, "GLIF1": _NRN, "QIF": _NRN, "EIF": _NRN,
    "ALIF": _NRN + ["threshold_adaptation_"], "GLIF2": _NRN + ["threshold_adaptation_"],
    "Izhikevich": _NRN + ["current_adaptation_"], "AdEx": _NRN + ["current_adaptation_"],
}
CONDITIONAL = ("ConditionalNearestTraceReducer", "ConditionalCumulativeTraceReducer")


def real_fields(sd):
    """key set of a real state dict in the model's naming: tensor keys + '_extra_state.<extra>'"""
    ex = sd.get("_extra_state", {})
    return {k for k in sd if k != "_extra_state"} | {"_extra_state." + k for k in (ex if isinstance(ex, dict) else {})}


def fields_failure(cls, sd, when=""):
    got, want = real_fields(sd), set(DECLARED_FIELDS[cls])
    if got == want:
        return None
    return {"ok": False, "what": "persistent_fields_differ", "cls": cls,
            "detail": f"state_dict of {cls}{when}: only in the real class {sorted(got - want)}, only in the model {sorted(want - got)}"}


def feed(red, cls, x):
    """one forward of a reducer (the conditional classes take (observation, condition))"""
    return red(x, x > 1) if cls in CONDITIONAL else red(x)



class ReducerRig(Rig):
    def __init__(self, case, j):
        self.case = case
        self.cls = case["spec"]["cls"]
        with record_dtype(case):
            self.red = mk_reducer(case["spec"])
        self.src = j == 0

    def mods(self):
        return [self.red]

    def gen_inputs(self, g, n):
        if self.src:
            # 0.1 is not representable: a float64 observation stored in a float32 record is rounded
            return [(torch.rand(self.case["shape"], generator=g) < 0.4).double() * (1.1 + (t % 3)) for t in range(n)]
        return [narrow(self.case, False, (torch.rand(self.case["shape"], generator=g) < 0.4).double() * 0.7) for _ in range(n)]

    def event(self, t):
        if t == self.case.get("src_clear_at"):
            # a source that was cleared (shape kept, or storage released) and keeps running
            self.red.clear(keepshape=bool(self.case.get("clear_keepshape", True)))

    def unshaped_after_event(self, k):
        return k == self.case.get("src_clear_at") and not self.case.get("clear_keepshape", True)

    def clear(self):
        self.red.clear(keepshape=True)             # target run on other data, then cleared (lazily shaped storage kept)

    def step(self, t, inp, mode):
        feed(self.red, self.cls, inp)
        return None if self.red.peek() is None else self.red.peek().clone()


class RecordRig(Rig):
    """a bare RecordTensor buffer in a Module: contents and pointer are both persisted"""
    lazy = False

    def __init__(self, case, j):
        self.case = case
        self.N = case["N"]
        self.m = Module()
        with record_dtype(case):
            RecordTensor.create(self.m, "rec", 1.0, float(self.N - 1), torch.zeros(case["shape"]), inclusive=True)
        self.src = j == 0

    def mods(self):
        return [self.m]

    def gen_inputs(self, g, n):
        return [narrow(self.case, self.src, torch.rand(self.case["shape"], generator=g)) for _ in range(n)]

    def step(self, t, inp, mode):
        self.m.rec.push(inp, inplace=self.case.get("inplace", False))
        return self.m.rec.readrange(self.N, 1).clone()

    def probe(self):
        return {"rec.pointer": self.m.rec.pointer, "rec.peek": _try(self.m.rec.peek),
                "rec.read": _try(lambda: self.m.rec.readrange(self.N, 1))}

    def fields_failure(self, ck):
        keys = real_fields(self.component_sd(ck))
        # tie to the model's declared persistent fields (C12/Checkpoint.v: rsave = storage + write position)
        if keys != {"_rec_data", "_extra_state._rec_pointer"}:
            return {"ok": False, "what": "persistent_fields_differ", "cls": "RecordTensor", "detail": f"state_dict fields {sorted(keys)}"}
        return None


class ClassifierRig(Rig):
    def __init__(self, case, j):
        self.case = case
        self.shape, self.K, self.B = tuple(case["shape"]), case["classes"], case["B"]
        self.clf = learn.MaxRateClassifier(self.shape, self.K, decay=case.get("decay", 0.0))
        self.px = ((torch.arange(3 * int(torch.tensor(self.shape).prod()), dtype=torch.float64) * 0.61) % 1.0).reshape(3, *self.shape).float()

    def mods(self):
        return [self.clf]

    def gen_inputs(self, g, n):
        return [(torch.rand((self.B, *self.shape), generator=g).float(), torch.randint(0, self.K, (self.B,), generator=g))
                for _ in range(n)]

    def step(self, t, inp, mode):
        return self.clf(inp[0], inp[1], logits=True)

    def probe(self):
        # inference only (labels=None does not update the classifier)
        return {"infer(logits)": _try(lambda: self.clf(self.px, None, logits=True)),
                "infer": _try(lambda: self.clf(self.px, None, logits=False))}


# ---------------------------------------------------------------- bare components (the models of coq/C12/Components.v)
def mk_component(cls, dt=1.0, delay=2.0, shape=(3,), batch=2, inplace=False):
    if cls in factory.SYNAPSE_DEFAULTS:
        return factory.build_synapse({"cls": cls, "shape": list(shape), "dt": dt, "batch": batch,
                                      "kw": {"delay": delay, "inplace": inplace}})
    if cls in factory.NEURON_DEFAULTS:
        return factory.build_neuron({"cls": cls, "shape": list(shape), "dt": dt, "batch": batch})
    return mk_reducer({"cls": cls, "dt": dt, "duration": delay, "inplace": inplace})



class ComponentRig(Rig):
    """a bare synapse / neuron (model: synapse_resume / neuron_resume of coq/C12/ComponentsProofs.v)"""
    lazy = False

    def __init__(self, case, j):
        self.case = case
        self.cls = case["cls"]
        self.shape, self.batch = tuple(case["shape"]), case["B"]
        self.issyn = self.cls in factory.SYNAPSE_DEFAULTS
        with record_dtype(case):
            self.comp = mk_component(self.cls, case["dt"], case.get("delay", 0.0), self.shape, self.batch, case.get("inplace", False))
        self.src = j == 0

    def mods(self):
        return [self.comp]

    def gen_inputs(self, g, n):
        full = (self.batch, *self.shape)
        if self.issyn:
            return [(torch.rand(full, generator=g) < 0.5, narrow(self.case, self.src, torch.rand(full, generator=g))) for _ in range(n)]
        return [narrow(self.case, self.src, torch.rand(full, generator=g) * 300.0 - 20.0) for _ in range(n)]

    def event(self, t):
        if t == self.case.get("clear_at"):
            self.comp.clear()

    def clear(self):
        self.comp.clear()

    def step(self, t, inp, mode):
        c = self.comp
        if self.issyn:
            out = c(inp[0], inp[1]) if self.cls == "DeltaPlusCurrent" else c(inp[0])
            return [out.clone(), c.spike.clone(), c.current.clone()]
        c.train(mode.get("train", True))
        out = c(inp, adapt=mode.get("adapt"), refrac_lock=mode.get("lock", True))
        return [out.clone(), c.voltage.clone(), c.refrac.clone()]


def drive(comp, cls, g, shape, batch):
    """one step of a bare component on fresh random input; returns what the caller observes"""
    if cls in factory.SYNAPSE_DEFAULTS:
        x = torch.rand((batch, *shape), generator=g) < 0.5
        if cls == "DeltaPlusCurrent":
            out = comp(x, torch.rand((batch, *shape), generator=g))
        else:
            out = comp(x)
        return [out.clone(), comp.spike.clone(), comp.current.clone()]
    if cls in factory.NEURON_DEFAULTS:
        out = comp(torch.rand((batch, *shape), generator=g) * 300.0 - 20.0)
        return [out.clone(), comp.voltage.clone(), comp.refrac.clone()]
    feed(comp, cls, (torch.rand(shape, generator=g) < 0.4).double() * 2)
    return [None if comp.peek() is None else comp.peek().clone()]


def run_fields(case):
    """key set of the REAL class's state dict (fresh, stepped, cleared) vs the model's declared persistent fields"""
    cls = case["cls"]
    g = torch.Generator().manual_seed(case.get("seed", 0))
    shape, batch = (3,), 2
    isred = cls not in factory.SYNAPSE_DEFAULTS and cls not in factory.NEURON_DEFAULTS
    m = mk_component(cls, delay=case.get("delay", 2.0))
    stages = [("fresh", lambda: None), ("stepped", lambda: drive(m, cls, g, shape, batch)),
              ("cleared", lambda: m.clear(keepshape=True) if isred else m.clear()),
              ("stepped again", lambda: drive(m, cls, g, shape, batch))]
    if cls in factory.NEURON_DEFAULTS:
        stages.append(("eval mode", lambda: m.eval()))
    for when, act in stages:
        act()
        ff = fields_failure(cls, sd_copy(m), f" ({when})")
        if ff:
            return ff
    return {"ok": True, "events": 1, "keys": len(DECLARED_FIELDS[cls])}



# ---------------------------------------------------------------- schedules
def gen_modes(case, n, salt, freeze_last=False):
    """per-step train / eval mode and (bare neurons) adapt / refrac_lock flags"""
    g = torch.Generator().manual_seed(case["seed"] * 7 + salt)
    kind = case.get("modes", "train")
    k = case.get("k", 0)
    out = []
    for t in range(n):
        r = torch.rand(3, generator=g).tolist()
        if kind == "train":
            m = {"train": True}
        elif kind == "eval_after_k":       # train, checkpoint, continue (or restore) for inference
            m = {"train": (t < k) if salt == 0 else True}
        else:                                # mixed
            m = {"train": r[0] < 0.6, "adapt": [None, None, True, False][int(r[1] * 4)], "lock": r[2] < 0.8}
        out.append(m)
    if freeze_last and len(out) >= 2:
        out[-1] = {"train": False, "adapt": False} if kind == "mixed" else {"train": False}
    if out:
        out[0]["train"] = True       # monitors do not record in eval mode: the first step shapes the lazily shaped reducers
    return out


def _fail(what, detail, **kw):
    return dict({"ok": False, "what": what, "detail": detail}, **kw)


def deepcopy_sound(case, mk, j):
    """is copy.deepcopy of this component a usable independent instance?  (probe on a throw-away pair: stepping the replica must
    change the replica and must not change the original)"""
    try:
        o = mk(j)
        r = copy.deepcopy(o)
        before, ob = thaw(freeze(o.state())), o.observe()
        rb = thaw(freeze(r.state()))
        ys = r.gen_inputs(torch.Generator().manual_seed(case["seed"] + 99), 2)
        for t in range(2):
            r.step(t, ys[t], {"train": True})
        if sd_equal(before, thaw(freeze(o.state()))) or sd_equal(ob, o.observe()):
            return "stepping the replica changes the ORIGINAL"
        if sd_equal(rb, thaw(freeze(r.state()))) is None:
            return "stepping the replica does not change the replica"
        return None
    except Exception as e:  # noqa
        return f"{type(e).__name__}: {str(e)[:120]}"


def make_target(case, mk, j):
    """same configuration, different random parameters, already run on other data; every observer exercised after every step.
    target_copy: the target is a copy.deepcopy REPLICA of a constructed instance (which is kept: loading into the replica
    must not touch the original)"""
    rig = mk(j)
    if case.get("target_copy"):
        why = deepcopy_sound(case, mk, j)
        if why is None:
            orig = rig
            if case.get("target_copy") == "after_step" and not case.get("_fresh"):
                y0 = orig.gen_inputs(torch.Generator().manual_seed(case["seed"] + 55 + j), 1)
                orig.step(0, y0[0], {"train": True})
                orig.observe()
            rig = copy.deepcopy(orig)
            rig._orig = orig
            rig._j = j
        else:
            case["_notes"].append(f"copy.deepcopy of {type(rig).__name__}/{getattr(rig, 'cls', None) or case.get('cls') or case['kind']} is not an independent instance: {why}")
    prior = case.get("prior", 1) if j == 1 else case.get("prior2", (case.get("prior", 1) + 2) if case.get("prior", 1) or not rig.lazy else 0)
    if case.get("_fresh"):
        prior = 0        # the checkpoint holds unshaped lazily shaped state: only a fresh instance can take it
    ys = rig.gen_inputs(torch.Generator().manual_seed(case["seed"] + 7 * j), prior)
    pm = gen_modes(case, prior, 100 + j, freeze_last=bool(case.get("target_frozen_last")))
    rig.observe()
    for t in range(prior):
        rig.step(t, ys[t], pm[t])
        rig.observe()
    if case.get("target_cleared"):
        rig.clear()
        rig.observe()
    return rig


ACC_KEY = re.compile(r"^\d+:(.*updater_\.updates_\.\w+)\.(pos|neg)$")


def stale_accumulator_evidence(keys, obs_k, ob, pre, ck, pre_state):
    """Is the difference exactly the known finding C12-accumulator-cache-stale-after-load?  Every differing observer must be an
    Accumulator.pos / .neg getter such that (i) the checkpoint and the target before the load hold the SAME non-zero number of
    pending parts for it, (ii) the target's getter was read before the load while those parts were pending (a tensor, not None),
    (iii) the value observed after the load EQUALS the target's own pre-load reduction (the memo), not the checkpoint's."""
    if pre is None or not keys:
        return None
    ev = []
    for key in keys:
        m = ACC_KEY.match(key)
        if not m:
            return None
        prefix = f"{m.group(1)}._{m.group(2)}."
        n_ck = sum(1 for sd in ck.values() for kk in sd if ("." + kk).find("." + prefix) >= 0)
        n_tg = sum(1 for sd in pre_state.values() for kk in sd if ("." + kk).find("." + prefix) >= 0)
        if n_ck == 0 or n_ck != n_tg:
            return None
        if not torch.is_tensor(pre.get(key)) or sd_equal(pre[key], ob.get(key)) is not None:
            return None
        ev.append({"getter": key, "pending_parts": n_ck})
    return ev


def compare_restored(rig, obs_k, case, label, pre=None, ck=None, pre_state=None):
    """ALL observers right after a restore, before the next step"""
    k = case["_k"]
    ob = rig.observe()
    keys = sorted(set(obs_k) | set(ob))
    diff = [a for a in keys if a not in obs_k or a not in ob or sd_equal(obs_k[a], ob[a], a) is not None]
    if not diff:
        return None
    a = diff[0]
    d = (sd_equal(obs_k[a], ob[a], a) if a in obs_k and a in ob else f"{a}: present on one side only")
    r = _fail("restored_observer_differs", f"{label}: observer right after the restore (checkpoint at {k}, before the next step) differs: /{d}"
              + (f" (+{len(diff) - 1} more)" if len(diff) > 1 else ""))
    ev = stale_accumulator_evidence(diff, obs_k, ob, pre, ck or {}, pre_state or {})
    if ev:
        r["stale_accumulator"] = ev
    return r


def restore_and_compare(rig, ck, ck_ref, case, xs, modes, recs, obs_k, upto, label, final_ref=None):
    k = case["_k"]
    pre, pre_state = rig.observe(), {a: list(b.keys()) for a, b in rig.state().items()}     # the target just before the load
    orig = getattr(rig, "_orig", None)
    if orig is not None:
        orig_obs, orig_state = orig.observe(), thaw(freeze(orig.state()))
    try:
        rig.load(ck, strict=case.get("strict", True))
    except Exception as e:  # noqa
        return _fail("load_failed", f"{label}: {type(e).__name__}: {str(e)[:400]}")
    if orig is not None:
        d = sd_equal(orig_state, thaw(freeze(orig.state()))) or sd_equal(orig_obs, orig.observe())
        if d:
            return _fail("original_changed_by_load", f"{label}: loading into a copy.deepcopy replica changed the ORIGINAL: {d}")
    d = sd_equal(ck_ref, thaw(freeze(rig.state())))
    if d:
        return _fail("restored_state_differs", f"{label}: state dict right after load_state_dict differs from the checkpoint: {d}")
    r = compare_restored(rig, obs_k, case, label, pre, ck_ref, pre_state)
    if r:
        return r
    for t in range(k, upto):
        if t > k:
            rig.event(t)         # the events of step k happened before the state was saved
        o = rig.step(t, xs[t], modes[t])
        if not out_equal(o, recs[t][0]):
            return _fail("future_output_differs", f"{label}: output at step {t} (checkpoint at {k}) differs")
        d = sd_equal(recs[t][1], rig.observe())
        if d:
            return _fail("future_observer_differs", f"{label}: observer after step {t} (checkpoint at {k}) differs: {d}")
    if final_ref is not None:
        d = sd_equal(final_ref, thaw(freeze(rig.state())))
        if d:
            return _fail("final_state_differs", f"{label}: {d}")
    return None


def run_source(case, A, xs, modes, T, k, quiet, on_k):
    """run the source; observers after every step (quiet: only from step k on, and at step k only AFTER on_k, i.e. after the
    state has been saved, so that nothing an observer does - dump() aligns the record - can tidy the state before it is saved)"""
    recs, obs_k = [], None
    if not quiet:
        A.observe()
    for t in range(T + 1):
        if t < T or t == k:
            A.event(t)               # scheduled clears happen BEFORE the save of the same step (checkpoint 0 steps after a clear)
        if t == k:
            r = on_k()
            if r:
                return r, None, None
            obs_k = A.observe()
        if t == T:
            break
        out = A.step(t, xs[t], modes[t])
        recs.append((out, A.observe() if (not quiet or t >= k) else None))
    return None, recs, obs_k


def protocol(case, mk0, T):
    k = min(case["k"], T)
    case = dict(case, _k=k, _notes=[])

    def mk(j):
        r = mk0(j)
        r._j = j
        return r
    quiet = bool(case.get("quiet_source"))
    A = mk(0)
    xs = A.gen_inputs(torch.Generator().manual_seed(case["seed"]), T)
    modes = gen_modes(case, T, 0)
    for key in ("layer_clear_at", "src_clear_at"):
        if case.get(key) is not None and case[key] < T:
            modes[case[key]]["train"] = True       # the first step after a clear shapes the lazily shaped reducers again
    case["_fresh"] = bool(A.lazy and (k == 0 or getattr(A, "unshaped_after_event", lambda k: False)(k)))
    box = {}

    def save():
        # the FIRST thing done at step k is state_dict(); then once more: saving must be idempotent
        box["blob"] = freeze(A.state())
        box["blob2"] = freeze(A.state())
        return None
    r, recsA, obs_k = run_source(case, A, xs, modes, T, k, quiet, save)
    blob = box["blob"]
    d = sd_equal(thaw(blob), thaw(box["blob2"]))
    if d:
        return _fail("state_dict_not_idempotent", f"two consecutive state_dict() calls at step {k} differ: {d}")
    final_ref = thaw(freeze(A.state()))
    # a twin that ran the same inputs and observers but never saved: taking a checkpoint must not change the source's future
    if quiet or case.get("twin"):
        W = mk(0)
        _, recsW, obs_kW = run_source(case, W, xs, modes, T, k, quiet, lambda: None)
        d = sd_equal(obs_kW, obs_k)
        if d:
            return _fail("saving_changed_source", f"observer at step {k} right after state_dict() differs from a twin that did not save: {d}")
        for t in range(k, T):
            if not out_equal(recsW[t][0], recsA[t][0]):
                return _fail("saving_changed_source", f"output at step {t} of the source that saved at step {k} differs from a twin that did not save")
            d = sd_equal(recsW[t][1], recsA[t][1])
            if d:
                return _fail("saving_changed_source", f"observer after step {t} of the source that saved at step {k} differs from a twin that did not: {d}")
        d = sd_equal(thaw(freeze(W.state())), final_ref)
        if d:
            return _fail("saving_changed_source", f"final state of the source that saved at step {k} differs from a twin that did not: {d}")
    recs = recsA
    # the live state_dict() of a source at step k, not serialised, loaded into a target; both keep running (source re-run)
    if case.get("transfer") == "live":
        L = mk(0)
        follower_box = {}

        def transfer():
            fo = make_target(case, mk, 3)
            pre, pre_state = fo.observe(), {a: list(b.keys()) for a, b in fo.state().items()}
            try:
                fo.load(L.state(), strict=case.get("strict", True))
            except Exception as e:  # noqa
                return _fail("load_failed", f"live transfer: {type(e).__name__}: {str(e)[:400]}")
            follower_box["f"] = fo
            follower_box["args"] = (pre, pre_state)
            return None
        r, recsL, obs_kL = run_source(case, L, xs, modes, k, k, quiet, transfer)     # the prefix only
        if r:
            return r
        fo = follower_box["f"]
        r = compare_restored(fo, obs_kL, case, "live transfer", follower_box["args"][0], thaw(blob), follower_box["args"][1])
        if r:
            return r
        for t in range(k, T):
            for rig in (L, fo):
                if t > k:
                    rig.event(t)
            oL, oF = L.step(t, xs[t], modes[t]), fo.step(t, xs[t], modes[t])
            if not out_equal(oF, recs[t][0]) or not out_equal(oL, recs[t][0]):
                return _fail("future_output_differs", f"live transfer at step {k}: output at step {t} differs (source and target share state?)")
            for nm, rig in (("source", L), ("target", fo)):
                d = sd_equal(recs[t][1], rig.observe())
                if d:
                    return _fail("future_observer_differs", f"live transfer at step {k}: observer of the {nm} after step {t} differs: {d}")
        d = sd_equal(final_ref, thaw(freeze(fo.state())))
        if d:
            return _fail("final_state_differs", f"live transfer: {d}")
    ck_ref = thaw(blob)
    ff = None
    if A.cls in DECLARED_FIELDS:
        ff = fields_failure(A.cls, A.component_sd(ck_ref), f" at step {k}")
    elif hasattr(A, "fields_failure"):
        ff = A.fields_failure(ck_ref)
    if ff:
        return ff
    ck = thaw(blob)                       # the ONE checkpoint object used for every restore below
    B = make_target(case, mk, 1)
    r = restore_and_compare(B, ck, ck_ref, case, xs, modes, recs, obs_k, T, "first restore", final_ref)
    if r:
        return r
    d = sd_equal(ck_ref, ck)
    if d:
        return _fail("checkpoint_mutated", f"running the restored instance changed the deserialised checkpoint object: {d}")
    upto = T if case.get("second_full") else min(T, k + 3)
    if case.get("second", "rewind") == "rewind" and not case["_fresh"]:
        r = restore_and_compare(B, ck, ck_ref, case, xs, modes, recs, obs_k, upto, "second restore of the same checkpoint object (rewind)",
                                final_ref if upto == T else None)
    else:
        C = make_target(case, mk, 2)
        r = restore_and_compare(C, ck, ck_ref, case, xs, modes, recs, obs_k, upto,
                                "second restore of the same checkpoint object (into a third instance)", final_ref if upto == T else None)
    if r:
        r["what"] = "second_" + r["what"] if not r["what"].startswith("load") else r["what"]
        return r
    d = sd_equal(ck_ref, ck)
    if d:
        return _fail("checkpoint_mutated", f"after the second restore: {d}")
    ev = 0
    for o, _ in recs:
        for v in (o.values() if isinstance(o, dict) else (o if isinstance(o, (list, tuple)) else [o])):
            if torch.is_tensor(v):
                ev += int(v.double().abs().sum() > 0)
    return {"ok": True, "events": ev, "keys": sum(len(v) for v in ck_ref.values()), "observers": len(obs_k), "notes": case["_notes"]}


def run_layer(case):
    return protocol(case, lambda j: LayerRig(case, j), case["T"])


def run_reducer(case):
    return protocol(case, lambda j: ReducerRig(case, j), case["T"] + 3)      # steps beyond T as well


def run_record(case):
    return protocol(case, lambda j: RecordRig(case, j), case["T"])


def run_classifier(case):
    return protocol(case, lambda j: ClassifierRig(case, j), case["T"])


def run_component(case):
    return protocol(case, lambda j: ComponentRig(case, j), case["T"])


RUN = {"layer": run_layer, "reducer": run_reducer, "record": run_record, "classifier": run_classifier,
       "fields": run_fields, "synapse": run_component, "neuron": run_component}


def handler(payload):
    out = []
    for c in payload["cases"]:
        try:
            out.append(RUN[c["kind"]](c))
        except Exception as e:  # noqa
            import traceback
            out.append({"ok": False, "what": "exception", "detail": f"{type(e).__name__}: {str(e)[:300]}",
                        "trace": traceback.format_exc()[-1500:]})
    return out


if __name__ == "__main__":
    main(handler)
