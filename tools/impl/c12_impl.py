"""C12: checkpoint at step k, restore into another instance, compare the future with the uninterrupted run (real code)."""
import copy, io, math
import torch
from common import main
import factory
from c11_impl import mk_trainer, with_batch, scale_weights, rand_spikes, layer_io
from inferno import neural, learn, observe
from inferno.core.infrastructure import Module, RecordTensor


def sd_copy(mod):
    """serialise through torch.save / torch.load (what a user does), not a live reference"""
    buf = io.BytesIO()
    torch.save(mod.state_dict(), buf)
    buf.seek(0)
    return torch.load(buf, weights_only=False)


def sd_equal(a, b, path=""):
    """exact equality of two state dicts (tensors bit-equal, NaN==NaN, extras compared structurally)"""
    if isinstance(a, dict) and isinstance(b, dict):
        if set(a) != set(b):
            return f"{path}: key sets differ: only-left {sorted(set(a) - set(b))[:5]} only-right {sorted(set(b) - set(a))[:5]}"
        for k in a:
            r = sd_equal(a[k], b[k], f"{path}/{k}")
            if r:
                return r
        return None
    if torch.is_tensor(a) and torch.is_tensor(b):
        if a.shape != b.shape or a.dtype != b.dtype:
            return f"{path}: shape/dtype {tuple(a.shape)} {a.dtype} vs {tuple(b.shape)} {b.dtype}"
        if a.numel() and not torch.equal(torch.nan_to_num(a.double(), nan=12345.0), torch.nan_to_num(b.double(), nan=12345.0)):
            return f"{path}: tensors differ (max abs {float((a.double() - b.double()).abs().nan_to_num().max())})"
        return None
    if isinstance(a, (list, tuple)) and isinstance(b, (list, tuple)):
        if len(a) != len(b):
            return f"{path}: lengths differ"
        for i, (x, y) in enumerate(zip(a, b)):
            r = sd_equal(x, y, f"{path}[{i}]")
            if r:
                return r
        return None
    if isinstance(a, float) and isinstance(b, float) and math.isnan(a) and math.isnan(b):
        return None
    return None if a == b else f"{path}: {a!r} != {b!r}"


def out_equal(a, b):
    if isinstance(a, dict):
        return all(out_equal(a[k], b[k]) for k in a) and set(a) == set(b)
    if isinstance(a, (tuple, list)):
        return len(a) == len(b) and all(out_equal(x, y) for x, y in zip(a, b))
    if a is None or b is None:
        return a is b
    return a.shape == b.shape and torch.equal(torch.nan_to_num(a.double(), nan=12345.0), torch.nan_to_num(b.double(), nan=12345.0))


class LayerRig:
    """a layer, optionally with a trainer; one `step` = layer step [+ trainer step [+ update]]"""

    def __init__(self, case, seed_offset):
        torch.manual_seed(case["seed"] + seed_offset)
        self.case = case
        self.spec = case["spec"]
        self.layer = factory.build_layer(with_batch(self.spec, case["B"]))
        scale_weights(self.layer, 300.0)
        self.trainer = None
        self.needs = None
        if case.get("trainer"):
            self.trainer, self.needs = mk_trainer(case["trainer"], None)
            conn = self.layer.connection
            conn.updater = conn.defaultupdater()
            self.trainer.register_cell("c", self.layer.cell)

    def step(self, x, sig, t):
        out = layer_io(self.layer, self.spec, x)
        if self.trainer is not None:
            self.trainer(sig) if self.needs else self.trainer()
            sched = self.case.get("schedule", "every")
            if sched == "every" or (sched == "every3" and t % 3 == 2):
                self.layer.connection.update()
        return out

    def state(self):
        s = {"layer": sd_copy(self.layer)}
        if self.trainer is not None:
            s["trainer"] = sd_copy(self.trainer)
        return s

    def load(self, s, strict=True):
        self.layer.load_state_dict(s["layer"], strict=strict)
        if self.trainer is not None:
            self.trainer.load_state_dict(s["trainer"], strict=strict)


def gen_inputs(case, g, T):
    B, ishape = case["B"], tuple(case["in"])
    xs = [rand_spikes(g, (B, *ishape), 0.5) for _ in range(T)]
    sigs = [((torch.rand(B, generator=g) * 4 - 2) * 4).round() / 4 for _ in range(T)]
    return xs, sigs


def run_layer(case):
    T, k = case["T"], case["k"]
    g = torch.Generator().manual_seed(case["seed"])
    xs, sigs = gen_inputs(case, g, T)
    A = LayerRig(case, 0)
    outsA = []
    ckpt = None
    for t in range(T):
        if t == k:
            ckpt = A.state()
        outsA.append(A.step(xs[t], sigs[t], t))
    if k == T:
        ckpt = A.state()
    finalA = A.state()
    # the target: same configuration, different random parameters, already run on other data
    Bm = LayerRig(case, 1)
    g2 = torch.Generator().manual_seed(case["seed"] + 7)
    ys, ysig = gen_inputs(case, g2, case.get("prior", 1))
    for t in range(case.get("prior", 1)):
        Bm.step(ys[t], ysig[t], t)
    try:
        Bm.load(ckpt, strict=case.get("strict", True))
    except Exception as e:  # noqa
        return {"ok": False, "what": "load_failed", "detail": f"{type(e).__name__}: {str(e)[:400]}"}
    for t in range(k, T):
        o = Bm.step(xs[t], sigs[t], t)
        if not out_equal(o, outsA[t]):
            return {"ok": False, "what": "future_output_differs", "detail": f"output at step {t} (checkpoint at {k}) differs"}
    d = sd_equal(finalA, Bm.state())
    if d:
        return {"ok": False, "what": "final_state_differs", "detail": d}
    nsp = sum(int(v.sum()) for o in outsA for v in (o.values() if isinstance(o, dict) else [o]) if torch.is_tensor(v))
    return {"ok": True, "events": nsp, "keys": len(ckpt["layer"]) + len(ckpt.get("trainer", {}))}


def mk_reducer(spec):
    cls = spec["cls"]
    dt, dur = spec["dt"], spec.get("duration", 0.0)
    kw = dict(duration=dur, inclusive=spec.get("inclusive", False), inplace=spec.get("inplace", False))
    if cls == "NearestTraceReducer":
        return observe.NearestTraceReducer(dt, 20.0, 1.0, 1, **kw)
    if cls == "CumulativeTraceReducer":
        return observe.CumulativeTraceReducer(dt, 20.0, 1.0, 1, **kw)
    if cls == "ScaledNearestTraceReducer":
        return observe.ScaledNearestTraceReducer(dt, 20.0, 1.0, 0.5, lambda x: x != 0, **kw)
    if cls == "ScaledCumulativeTraceReducer":
        return observe.ScaledCumulativeTraceReducer(dt, 20.0, 1.0, 0.5, lambda x: x != 0, **kw)
    if cls == "ConditionalNearestTraceReducer":
        return observe.ConditionalNearestTraceReducer(dt, 20.0, 1.0, 0.5, **kw)
    if cls == "ConditionalCumulativeTraceReducer":
        return observe.ConditionalCumulativeTraceReducer(dt, 20.0, 1.0, 0.5, **kw)
    if cls == "PassthroughReducer":
        return observe.PassthroughReducer(dt, **kw)
    if cls == "EventReducer":
        return observe.EventReducer(dt, lambda x: x != 0, initial=spec.get("initial", "inf"), **kw)
    if cls == "EMAReducer":
        return observe.EMAReducer(dt, 0.25, **kw)
    if cls == "CAReducer":
        return observe.CAReducer(dt, **kw)
    raise ValueError(cls)


# Persistent fields each component MODEL declares (coq/C12/Components.v: red_keys / syn_keys / nrn_keys, proved there to be
# the key set of the model's `save`; tools/props/c12.py checks on every run that this table is what Coq computes).
# Tensor keys as in state_dict(); an extra x of Module._extras is written "_extra_state.x".
_RED = ["_data__data", "_extra_state._data__pointer", "_extra_state._initial"]
_REC = lambda name: [f"_{name}_data", f"_extra_state._{name}_pointer"]   # noqa: E731   (a RecordTensor named `name`)
_NRN = ["_voltage__data", "_refrac__data"]
DECLARED_FIELDS = {
    "NearestTraceReducer": _RED, "CumulativeTraceReducer": _RED, "ScaledNearestTraceReducer": _RED,
    "ScaledCumulativeTraceReducer": _RED, "ConditionalNearestTraceReducer": _RED, "ConditionalCumulativeTraceReducer": _RED,
    "EventReducer": _RED, "PassthroughReducer": _RED, "EMAReducer": _RED,
    "CAReducer": _RED + ["_extra_state._count"],
    "DeltaCurrent": _REC("spike_"),
    "DeltaPlusCurrent": _REC("spike_") + _REC("current_"),
    "SingleExponentialCurrent": _REC("spike_") + _REC("current_"),
    "DoubleExponentialCurrent": _REC("spike_") + _REC("pos_current_") + _REC("neg_current_"),
    "LIF": _NRN, "GLIF1": _NRN, "QIF": _NRN, "EIF": _NRN,
    "ALIF": _NRN + ["threshold_adaptation_"], "GLIF2": _NRN + ["threshold_adaptation_"],
    "Izhikevich": _NRN + ["current_adaptation_"], "AdEx": _NRN + ["current_adaptation_"],
}
CONDITIONAL = ("ConditionalNearestTraceReducer", "ConditionalCumulativeTraceReducer")


def real_fields(sd):
    """key set of a real state dict in the model's naming: tensor keys + '_extra_state.<extra>'"""
    ex = sd.get("_extra_state", {})
    return {k for k in sd if k != "_extra_state"} | {"_extra_state." + k for k in (ex if isinstance(ex, dict) else {})}


def fields_failure(cls, sd, when=""):
    got, want = real_fields(sd), set(DECLARED_FIELDS[cls])
    if got == want:
        return None
    return {"ok": False, "what": "persistent_fields_differ", "cls": cls,
            "detail": f"state_dict of {cls}{when}: only in the real class {sorted(got - want)}, only in the model {sorted(want - got)}"}


def feed(red, cls, x):
    """one forward of a reducer (the conditional classes take (observation, condition))"""
    return red(x, x > 1) if cls in CONDITIONAL else red(x)


def run_reducer(case):
    T, k = case["T"], case["k"]
    rcls = case["spec"]["cls"]
    extra = 3
    g = torch.Generator().manual_seed(case["seed"])
    xs = [(torch.rand(case["shape"], generator=g) < 0.4).double() * (1 + (t % 3)) for t in range(T + extra)]
    A = mk_reducer(case["spec"])
    outs, ck = [], None
    for t in range(T + extra):
        if t == k:
            ck = sd_copy(A)
        if t == case.get("src_clear_at"):
            A.clear(keepshape=True)        # a source that was cleared (shape kept) and keeps running
        feed(A, rcls, xs[t])
        outs.append(None if A.peek() is None else A.peek().clone())
    finalA = sd_copy(A)
    ff = fields_failure(rcls, ck, f" at step {k}")
    if ff:
        return ff
    Bm = mk_reducer(case["spec"])
    g2 = torch.Generator().manual_seed(case["seed"] + 3)
    for _ in range(case.get("prior", 1)):
        feed(Bm, rcls, (torch.rand(case["shape"], generator=g2) < 0.4).double())
    if case.get("target_cleared"):
        Bm.clear(keepshape=True)           # target run on other data, then cleared (lazily shaped storage kept)
    try:
        Bm.load_state_dict(ck, strict=True)
    except Exception as e:  # noqa
        return {"ok": False, "what": "load_failed", "detail": f"{type(e).__name__}: {str(e)[:400]}"}
    if k >= 1:
        pa, pb = (outs[k - 1] if case.get("src_clear_at") != k else None), Bm.peek()
        if case.get("src_clear_at") is None and not out_equal(pb, pa):
            return {"ok": False, "what": "restored_value_differs", "detail": f"value right after loading the step-{k} checkpoint differs from the source's"}
    for t in range(k, T + extra):
        if t == case.get("src_clear_at"):
            Bm.clear(keepshape=True)
        feed(Bm, rcls, xs[t])
        if not out_equal(Bm.peek(), outs[t]):
            return {"ok": False, "what": "future_output_differs", "detail": f"reducer value at step {t} (checkpoint at {k}) differs"}
    d = sd_equal(finalA, sd_copy(Bm))
    if d:
        return {"ok": False, "what": "final_state_differs", "detail": d}
    return {"ok": True, "events": int(sum(x.sum() for x in xs)), "keys": len(ck)}


def run_record(case):
    """a bare RecordTensor buffer in a Module: contents and pointer are both persisted"""
    N, T, k = case["N"], case["T"], case["k"]
    g = torch.Generator().manual_seed(case["seed"])

    def mk():
        m = Module()
        RecordTensor.create(m, "rec", 1.0, float(N - 1), torch.zeros(case["shape"]), inclusive=True)
        return m
    A = mk()
    xs = [torch.rand(case["shape"], generator=g) for _ in range(T)]
    ck = None
    reads = []
    for t in range(T):
        if t == k:
            ck = sd_copy(A)
        A.rec.push(xs[t], inplace=case.get("inplace", False))
        reads.append(A.rec.readrange(N, 1).clone())
    if k == T:
        ck = sd_copy(A)
    Bm = mk()
    for _ in range(case.get("prior", 2)):
        Bm.rec.push(torch.rand(case["shape"], generator=g))
    try:
        Bm.load_state_dict(ck, strict=True)
    except Exception as e:  # noqa
        return {"ok": False, "what": "load_failed", "detail": f"{type(e).__name__}: {str(e)[:300]}"}
    for t in range(k, T):
        Bm.rec.push(xs[t], inplace=case.get("inplace", False))
        if not torch.equal(Bm.rec.readrange(N, 1), reads[t]):
            return {"ok": False, "what": "future_output_differs", "detail": f"history after step {t} differs (checkpoint {k})"}
    if Bm.rec.pointer != A.rec.pointer:
        return {"ok": False, "what": "final_state_differs", "detail": "pointer differs"}
    # tie to the model's declared persistent fields (C12/Checkpoint.v: rsave = storage + write position)
    keys = set(ck) | {"extra:" + k for k in ck.get("_extra_state", {})}
    if keys != {"_rec_data", "_extra_state", "extra:_rec_pointer"}:
        return {"ok": False, "what": "persistent_fields_differ", "detail": f"state_dict fields {sorted(keys)}"}
    return {"ok": True, "events": T, "keys": len(ck)}


def run_classifier(case):
    T, k = case["T"], case["k"]
    g = torch.Generator().manual_seed(case["seed"])
    shape, K, B = tuple(case["shape"]), case["classes"], case["B"]
    mk = lambda: learn.MaxRateClassifier(shape, K, decay=case.get("decay", 0.0))
    xs = [torch.rand((B, *shape), generator=g).float() for _ in range(T)]
    ls = [torch.randint(0, K, (B,), generator=g) for _ in range(T)]
    A = mk()
    outs, ck = [], None
    for t in range(T):
        if t == k:
            ck = sd_copy(A)
        outs.append(A(xs[t], ls[t], logits=True))
    if k == T:
        ck = sd_copy(A)
    Bm = mk()
    for _ in range(case.get("prior", 1)):
        Bm(torch.rand((B, *shape), generator=g).float(), torch.randint(0, K, (B,), generator=g))
    try:
        Bm.load_state_dict(ck, strict=True)
    except Exception as e:  # noqa
        return {"ok": False, "what": "load_failed", "detail": f"{type(e).__name__}: {str(e)[:300]}"}
    for nm in ("assignments", "occurrences", "proportions", "rates"):
        pass
    for t in range(k, T):
        o = Bm(xs[t], ls[t], logits=True)
        if not out_equal(o, outs[t]):
            return {"ok": False, "what": "future_output_differs", "detail": f"classifier inference at step {t} differs (checkpoint {k})"}
    for nm in ("assignments", "occurrences", "proportions", "rates"):
        if not torch.equal(getattr(A, nm), getattr(Bm, nm)):
            return {"ok": False, "what": "final_state_differs", "detail": f"derived buffer {nm} differs"}
    return {"ok": True, "events": T, "keys": len(ck)}


# ---------------------------------------------------------------- bare components (the models of coq/C12/Components.v)
def mk_component(cls, dt=1.0, delay=2.0, shape=(3,), batch=2, inplace=False):
    if cls in factory.SYNAPSE_DEFAULTS:
        return factory.build_synapse({"cls": cls, "shape": list(shape), "dt": dt, "batch": batch,
                                      "kw": {"delay": delay, "inplace": inplace}})
    if cls in factory.NEURON_DEFAULTS:
        return factory.build_neuron({"cls": cls, "shape": list(shape), "dt": dt, "batch": batch})
    return mk_reducer({"cls": cls, "dt": dt, "duration": delay, "inplace": inplace})


def drive(comp, cls, g, shape, batch):
    """one step of a bare component on fresh random input; returns what the caller observes"""
    if cls in factory.SYNAPSE_DEFAULTS:
        x = torch.rand((batch, *shape), generator=g) < 0.5
        if cls == "DeltaPlusCurrent":
            out = comp(x, torch.rand((batch, *shape), generator=g))
        else:
            out = comp(x)
        return [out.clone(), comp.spike.clone(), comp.current.clone()]
    if cls in factory.NEURON_DEFAULTS:
        out = comp(torch.rand((batch, *shape), generator=g) * 300.0 - 20.0)
        return [out.clone(), comp.voltage.clone(), comp.refrac.clone()]
    feed(comp, cls, (torch.rand(shape, generator=g) < 0.4).double() * 2)
    return [None if comp.peek() is None else comp.peek().clone()]


def run_fields(case):
    """key set of the REAL class's state dict (fresh, stepped, cleared) vs the model's declared persistent fields"""
    cls = case["cls"]
    g = torch.Generator().manual_seed(case.get("seed", 0))
    shape, batch = (3,), 2
    isred = cls not in factory.SYNAPSE_DEFAULTS and cls not in factory.NEURON_DEFAULTS
    m = mk_component(cls, delay=case.get("delay", 2.0))
    stages = [("fresh", lambda: None), ("stepped", lambda: drive(m, cls, g, shape, batch)),
              ("cleared", lambda: m.clear(keepshape=True) if isred else m.clear()),
              ("stepped again", lambda: drive(m, cls, g, shape, batch))]
    if cls in factory.NEURON_DEFAULTS:
        stages.append(("eval mode", lambda: m.eval()))
    for when, act in stages:
        act()
        ff = fields_failure(cls, sd_copy(m), f" ({when})")
        if ff:
            return ff
    return {"ok": True, "events": 1, "keys": len(DECLARED_FIELDS[cls])}


def run_component(case):
    """a bare synapse / neuron: checkpoint at step k, strict load into another instance of the same configuration that has
    run `prior` steps on other data, compare every later observation and the final state dict (model: synapse_resume /
    neuron_resume of coq/C12/ComponentsProofs.v)"""
    cls, T, k = case["cls"], case["T"], case["k"]
    shape, batch = tuple(case["shape"]), case["B"]
    mk = lambda: mk_component(cls, case["dt"], case.get("delay", 0.0), shape, batch, case.get("inplace", False))  # noqa: E731
    issyn = cls in factory.SYNAPSE_DEFAULTS
    sel = None
    if issyn and case.get("delay", 0.0) > 0:
        gs = torch.Generator().manual_seed(case["seed"] + 5)
        sel = torch.rand((batch, *shape, 2), generator=gs) * case["delay"]

    def observe_at(m):
        if sel is None:
            return []
        return [m.current_at(sel).clone(), m.spike_at(sel).clone()]
    A = mk()
    gA = torch.Generator().manual_seed(case["seed"])
    gB = torch.Generator().manual_seed(case["seed"])
    outs, ck = [], None
    for t in range(T):
        if t == k:
            ck = sd_copy(A)
            gB.set_state(gA.get_state())
        if t == case.get("clear_at"):
            A.clear()
        outs.append(drive(A, cls, gA, shape, batch) + observe_at(A))
    if k == T:
        ck = sd_copy(A)
    finalA = sd_copy(A)
    ff = fields_failure(cls, ck, f" at step {k}")
    if ff:
        return ff
    Bm = mk()
    g2 = torch.Generator().manual_seed(case["seed"] + 7)
    for _ in range(case.get("prior", 0)):
        drive(Bm, cls, g2, shape, batch)
    if case.get("target_cleared"):
        Bm.clear()
    try:
        Bm.load_state_dict(ck, strict=True)
    except Exception as e:  # noqa
        return {"ok": False, "what": "load_failed", "detail": f"{type(e).__name__}: {str(e)[:400]}"}
    for t in range(k, T):
        if t == case.get("clear_at"):
            Bm.clear()
        o = drive(Bm, cls, gB, shape, batch) + observe_at(Bm)
        if not out_equal(o, outs[t]):
            return {"ok": False, "what": "future_output_differs", "detail": f"{cls}: observation at step {t} (checkpoint at {k}) differs"}
    d = sd_equal(finalA, sd_copy(Bm))
    if d:
        return {"ok": False, "what": "final_state_differs", "detail": d}
    return {"ok": True, "events": int(sum(float(o[0].sum()) for o in outs)), "keys": len(ck)}


RUN = {"layer": run_layer, "reducer": run_reducer, "record": run_record, "classifier": run_classifier,
       "fields": run_fields, "synapse": run_component, "neuron": run_component}


def handler(payload):
    out = []
    for c in payload["cases"]:
        try:
            out.append(RUN[c["kind"]](c))
        except Exception as e:  # noqa
            import traceback
            out.append({"ok": False, "what": "exception", "detail": f"{type(e).__name__}: {str(e)[:300]}",
                        "trace": traceback.format_exc()[-1500:]})
    return out


if __name__ == "__main__":
    main(handler)
