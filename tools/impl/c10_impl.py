"""Runs Updater / Accumulator operation sequences on the real implementation (inferno.neural.modeling,
inferno.functional.bounding); canonical traces out.

Case: {"host": "double"|"dense", "params": [[id, shape, [values]]...], "ops": [[kind, ...]...],
       "trainer": {"primary": k, "extra": bool, "none": bool}   (dense hosts only, optional)}
With "trainer" the connection is put in a Biclique layer and a CellTrainer gets k cells of THIS connection
(two different cells c0-n0 / c0-n1 and, for k = 3, the first one again under another name: all share the one
updater), optionally a cell of a second connection with its own updater ("extra") and a cell of a third connection
whose updater is deleted after registration ("none").  Operation ["tupdate", kw] is trainer.update(**kwargs).
Trace: per operation [[0, output] | [1, exception code], snapshot]; floats are ["F", kind, mantissa, exponent]."""
import torch
import torch.nn as nn
from common import main, exc_code, fhex
import inferno
import inferno.functional as IF
from inferno import Module
from inferno.neural import Updater, Updatable, LinearDense, DeltaCurrent, LIF, Biclique
from inferno.learn import CellTrainer

KEEP = []  # the Updater only weak-references its parent

NAMES = {"double": {0: "a", 1: "b", 2: "c", 9: "zzz"}, "dense": {0: "weight", 1: "bias", 9: "zzz"}}


def _prop(nm):
    def fget(self):
        return getattr(self, nm + "_")

    def fset(self, value):
        getattr(self, nm + "_").data = value
    return property(fget, fset)


class Double(Module, Updatable):
    """minimal Updatable module: parameters behind properties whose setter assigns the data
    (the pattern of inferno.neural.connections.mixins.WeightMixin)"""
    a = _prop("a")
    b = _prop("b")
    c = _prop("c")

    def __init__(self, params):
        Module.__init__(self)
        Updatable.__init__(self)
        for nm, t in params:
            self.register_parameter(nm + "_", nn.Parameter(t, False))

    def defaultupdater(self, *includes, **kwargs):
        return Updater(self, *includes)


REDS = {
    None: None, "sum": torch.sum, "mean": torch.mean, "amax": torch.amax, "amin": torch.amin,
    "first": lambda x, d: x.select(d, 0),
    "l2": lambda x, d: (x * x).sum(d).sqrt(),
}
HALF = {
    "powU": (IF.bound_upper_power, ["power"]), "powL": (IF.bound_lower_power, ["power"]),
    "spowU": (IF.bound_upper_scaled_power, ["power", "range"]), "spowL": (IF.bound_lower_scaled_power, ["power", "range"]),
    "mulU": (IF.bound_upper_multiplicative, []), "mulL": (IF.bound_lower_multiplicative, []),
    "smulU": (IF.bound_upper_scaled_multiplicative, ["range"]), "smulL": (IF.bound_lower_scaled_multiplicative, ["range"]),
    "sharpU": (IF.bound_upper_sharp, []), "sharpL": (IF.bound_lower_sharp, []),
}
FULL = {
    "pow": (IF.bound_power, ["upper_power", "lower_power"]),
    "spow": (IF.bound_scaled_power, ["upper_power", "lower_power"]),
    "mul": (IF.bound_multiplicative, []), "smul": (IF.bound_scaled_multiplicative, []),
    "sharp": (IF.bound_sharp, []),
}


def encf(x):
    return ["F"] + fhex(x)


def enc(t):
    return [encf(v) for v in t.detach().reshape(-1).tolist()]


class Runner:
    def __init__(self, case):
        self.kind = case["host"]
        self.names = NAMES[self.kind]
        self.shapes = {}
        self.ids = [p[0] for p in case["params"]]
        ts = {}
        for pid, shape, vals in case["params"]:
            self.shapes[pid] = list(shape)
            ts[pid] = torch.tensor(vals, dtype=torch.float64).reshape(shape)
        if self.kind == "double":
            self.h = Double([(self.names[i], ts[i]) for i in self.ids])
        else:
            out_, in_ = self.shapes[0]
            self.h = LinearDense((in_,), (out_,), 1.0, synapse=DeltaCurrent.partialconstructor(1.0),
                                 bias=(1 in self.ids))
            self.h.weight = ts[0]
            if 1 in self.ids:
                self.h.bias = ts[1]
        KEEP.append(self.h)
        self.trainer = self.x = self.z = None
        t = case.get("trainer")
        if t and self.kind == "dense":
            self.mk_trainer(t)

    def mk_trainer(self, t):
        out_, in_ = self.shapes[0]

        def conn():
            c = LinearDense((in_,), (out_,), 1.0, synapse=DeltaCurrent.partialconstructor(1.0), bias=False)
            c.weight = torch.zeros(out_, in_)
            c.updater = c.defaultupdater()
            return c

        def lif():
            return LIF((out_,), 1.0, rest_v=-60.0, reset_v=-65.0, thresh_v=-50.0, refrac_t=0.0, time_constant=20.0)
        conns = [("c0", self.h)]
        if t.get("extra"):
            self.x = conn()
            conns.append(("c1", self.x))
        if t.get("none"):
            self.z = conn()
            conns.append(("c2", self.z))
        # CellTrainer.add_cell demands an updater at registration time; the module starts without one (as in the model)
        self.h.updater = self.h.defaultupdater()
        self.layer = Biclique(conns, [("n0", lif()), ("n1", lif())])
        self.trainer = CellTrainer()
        for i in range(int(t.get("primary", 0))):
            self.trainer.add_cell(f"p{i}", self.layer.get_cell("c0", f"n{i % 2}"))
        if self.x is not None:
            self.trainer.add_cell("x", self.layer.get_cell("c1", "n0"))
        if self.z is not None:
            self.trainer.add_cell("z", self.layer.get_cell("c2", "n1"))
            del self.z.updater
        del self.h.updater
        KEEP.append((self.layer, self.trainer, self.x, self.z))

    def part(self, nm, vals):
        if vals is None:
            return None
        t = torch.tensor(vals, dtype=torch.float64)
        sh = self.shapes.get(nm)
        if sh is not None:
            n = 1
            for s in sh:
                n *= s
            if n == len(vals):
                return t.reshape(sh)
        return t

    def acc(self, nm):
        return getattr(self.h.updater, self.names[nm])

    def apply(self, op):
        k = op[0]
        h, N = self.h, self.names
        if k == "add":
            setattr(h.updater, N[op[1]], (self.part(op[1], op[2]), self.part(op[1], op[3]))); return [0]
        if k == "addT":
            setattr(h.updater, N[op[1]], self.part(op[1], op[2])); return [0]
        if k == "addpos":
            self.acc(op[1]).pos = self.part(op[1], op[2]); return [0]
        if k == "addneg":
            self.acc(op[1]).neg = self.part(op[1], op[2]); return [0]
        if k == "del":
            delattr(h.updater, N[op[1]]); return [0]
        if k == "delpos":
            del self.acc(op[1]).pos; return [0]
        if k == "delneg":
            del self.acc(op[1]).neg; return [0]
        if k == "getpos":
            r = self.acc(op[1]).pos
            return [1] if r is None else [2, enc(r)]
        if k == "getneg":
            r = self.acc(op[1]).neg
            return [1] if r is None else [2, enc(r)]
        if k == "accupdate":
            r = self.acc(op[1]).update(getattr(h, N[op[1]]))
            return [1] if r is None else [2, enc(r)]
        if k == "accforward":
            r = self.acc(op[1])(getattr(h, N[op[1]]))
            return [2, enc(r)]
        if k == "reduction":
            self.acc(op[1]).reduction(REDS[op[2]]); return [0]
        if k in ("upper", "lower"):
            a = self.acc(op[1])
            fn = a.upperbound if k == "upper" else a.lowerbound
            if op[2] is None:
                fn(None, op[3])
            else:
                kern, kws = HALF[op[2][0]]
                fn(kern, op[3], **dict(zip(kws, op[2][1:])))
            return [0]
        if k == "full":
            a = self.acc(op[1])
            if op[2] is None:
                a.fullbound(None, op[3], op[4])
            else:
                kern, kws = FULL[op[2][0]]
                a.fullbound(kern, op[3], op[4], **dict(zip(kws, op[2][1:])))
            return [0]
        if k == "update":
            h.update(clear=op[1]); return [0]
        if k == "updatesome":
            h.updatesome(*[N[i] for i in op[1]], clear=op[2]); return [0]
        if k == "clear":
            Updatable.clear(h); return [0]
        if k == "apply":
            h.updater(*[N[i] for i in op[1]]); return [0]
        if k == "setparam":
            setattr(h, N[op[1]], torch.tensor(op[2], dtype=torch.float64).reshape(self.shapes[op[1]])); return [0]
        if k == "newupdater":
            h.updater = Updater(h, *[N[i] for i in op[1]], reduction=REDS[op[2]]); return [0]
        if k == "delupdater":
            del h.updater; return [0]
        if k == "tupdate":
            # trainer.update(**kwargs); returns [3, n] with n = how often the SECOND connection's updater was applied
            # (-1: the trainer has no cell of a second connection)
            kws = {} if op[1] is None else {"clear": bool(op[1])}
            napp = -1
            if self.x is not None:
                before = self.x.weight.detach().clone()
                self.x.updater.weight = torch.full_like(before, 0.25)
            try:
                self.trainer.update(**kws)
                if self.x is not None:
                    d = ((self.x.weight.detach() - before) / 0.25).reshape(-1)
                    napp = int(round(float(d[0])))
                    if not bool(torch.all(d == float(napp))):
                        napp = -2
            finally:
                if self.x is not None:
                    self.x.updater.clear()
            return [3, napp]
        raise AssertionError(k)

    def snapshot(self):
        h = self.h
        ps = [[i, enc(getattr(h, self.names[i]))] for i in self.ids]
        u = h.updater
        if u is None:
            return [ps, []]
        inv = {v: k for k, v in self.names.items()}
        accs = []
        for nm in u.names:
            a = u.updates_[nm]
            accs.append([inv[nm], [enc(t) for t in a._pos], [enc(t) for t in a._neg],
                         a._pos_cache.cache_info().currsize, a._neg_cache.cache_info().currsize])
        return [ps, [accs]]


def run_case(case):
    r = Runner(case)
    tr = []
    for op in case["ops"]:
        try:
            out = [0, r.apply(op)]
        except Exception as e:  # noqa
            c = exc_code(e)
            out = [1, c] if c != 9 else [1, 9, f"{type(e).__name__}: {e}"[:200]]
        tr.append([out, r.snapshot()])
    return tr


def handler(payload):
    return [run_case(c) for c in payload["cases"]]


if __name__ == "__main__":
    main(handler)
