"""C14: configuration by setters vs configuration by constructor, on the real code.

case = {"family": neuron|synapse|connection|reducer, "specA": {...}, "target": {attr: value, ...}, "order": [attr, ...],
        "T": steps, "seed": int}
X = build(specA); assign target[attr] in `order` (after every assignment: the frame - every other getter unchanged);
getters must report the target; X.clear(); Y = build(specA with target); same parameters; internal record sizes equal;
same inputs -> same outputs for T steps.
"""
import copy, math
import torch
from common import main
import factory
from c11_impl import copy_params, rand_spikes, maxdiff, scale_weights
from inferno import neural, observe
from inferno.core.infrastructure import RecordTensor, ShapedTensor, Module

GETTERS = {
    "neuron": ["dt", "batchsz", "shape"],
    "synapse": ["dt", "delay", "batchsz", "inplace", "shape"],
    "connection": ["dt", "batchsz", "inshape", "outshape", "biased", "delayedby"],
    "reducer": ["dt", "duration", "inplace"],
    "record": ["dt", "duration", "inclusive"],
}


def mk_reducer(spec):
    cls, dt = spec["cls"], spec["dt"]
    kw = dict(duration=spec.get("duration", 0.0), inclusive=spec.get("inclusive", False), inplace=spec.get("inplace", False))
    if cls in ("NearestTraceReducer", "CumulativeTraceReducer"):
        return getattr(observe, cls)(dt, spec.get("tc", 20.0), 1.0, 1, **kw)
    if cls == "PassthroughReducer":
        return observe.PassthroughReducer(dt, **kw)
    if cls == "EventReducer":
        return observe.EventReducer(dt, lambda x: x != 0, **kw)
    if cls == "EMAReducer":
        return observe.EMAReducer(dt, 0.25, **kw)
    if cls == "CAReducer":
        return observe.CAReducer(dt, **kw)
    raise ValueError(cls)


class RecOwner:
    """a bare RecordTensor exercised through its own temporal setters"""

    def __init__(self, spec):
        from inferno.core.infrastructure import Module
        self.m = Module()
        val = None if spec.get("uninit") else torch.zeros(spec["shape"], dtype={"float": torch.float64, "bool": torch.bool, "int": torch.int64}[spec.get("dtype", "float")])
        RecordTensor.create(self.m, "rec", spec["dt"], spec["duration"], val, inclusive=spec.get("inclusive", False))
        self.spec = spec

    dt = property(lambda s: s.m.rec.dt, lambda s, v: setattr(s.m.rec, "dt", v))
    duration = property(lambda s: s.m.rec.duration, lambda s, v: setattr(s.m.rec, "duration", v))
    inclusive = property(lambda s: s.m.rec.inclusive, lambda s, v: setattr(s.m.rec, "inclusive", v))

    def named_modules(self):
        return self.m.named_modules()

    def clear(self):
        self.m.rec.reset(0)


def build(family, spec):
    if family == "record":
        return RecOwner(spec)
    if family == "neuron":
        return factory.build_neuron(spec)
    if family == "synapse":
        return factory.build_synapse(spec)
    if family == "connection":
        return factory.build_connection(spec)
    if family == "reducer":
        return mk_reducer(spec)
    raise ValueError(family)


def apply_target(family, spec, target):
    """the constructor-side configuration equal to spec + target"""
    s = copy.deepcopy(spec)
    for a, v in target.items():
        if family == "neuron":
            s[{"dt": "dt", "batchsz": "batch"}[a]] = v
        elif family == "synapse":
            if a == "dt":
                s["dt"] = v
            elif a == "batchsz":
                s["batch"] = v
            else:
                s.setdefault("kw", {})[a] = v
        elif family == "connection":
            if a == "dt":
                s["dt"] = v
            elif a == "batchsz":
                s["batch"] = v
            elif a == "synapse":
                s["synapse"] = v
        elif family in ("reducer", "record"):
            s[a] = v
    return s


def getters(family, obj):
    out = {}
    for g in GETTERS[family]:
        if hasattr(obj, g):
            v = getattr(obj, g)
            out[g] = list(v) if isinstance(v, (tuple, torch.Size)) else v
    if family == "connection":
        out["synapse.cls"] = type(obj.synapse).__name__
        out["synapse.dt"] = obj.synapse.dt
        out["synapse.delay"] = obj.synapse.delay
        out["synapse.batchsz"] = obj.synapse.batchsz
    return out


def records(obj):
    """sizes of every internal history (RecordTensor) and shape constraint, recursively over submodules"""
    out = {}
    for name, mod in obj.named_modules():
        for k, v in vars(mod).items():
            if isinstance(v, RecordTensor):
                out[f"{name}.{k}"] = [v.recordsz, v.dt, v.duration, v.inclusive,
                                      None if v.shape is None else list(v.shape),
                                      None if v.value is None else str(v.value.dtype)]
            elif isinstance(v, ShapedTensor):
                out[f"{name}.{k}"] = [None if v.value is None else list(v.value.shape),
                                      None if v.value is None else str(v.value.dtype)]
    return out


def set_attr(family, obj, a, v, spec):
    if family == "connection" and a == "synapse":
        kw = dict(factory.SYNAPSE_DEFAULTS[v["cls"]])
        kw.update(v.get("kw", {}))
        new = getattr(neural, v["cls"])(obj.synapse.shape, obj.dt, batch_size=obj.batchsz,
                                        **dict(kw, delay=obj.synapse.delay))
        obj.synapse = new
    else:
        setattr(obj, a, v)


def drive(family, obj, spec, T, seed):
    g = torch.Generator().manual_seed(seed)
    outs = []
    for t in range(T):
        if family == "neuron":
            x = ((torch.rand((obj.batchsz, *obj.shape), generator=g) * 80.0 - 10.0) * 8).round() / 8
            kw = {"adapt": False} if spec["cls"] in factory.ADAPTIVE else {}
            outs.append([obj(x, **kw).clone(), obj.voltage.clone(), obj.refrac.clone()])
        elif family == "synapse":
            x = rand_spikes(g, (obj.batchsz, *obj.shape), 0.4)
            extra = ((torch.rand((obj.batchsz, *obj.shape), generator=g) * 16).round() / 8,) if spec["cls"] == "DeltaPlusCurrent" else ()
            o = obj(x, *extra)
            sel = torch.rand((obj.batchsz, *obj.shape), generator=g) * obj.delay
            outs.append([o.clone(), obj.current.clone(), obj.spike.clone(), obj.current_at(sel).clone()])
        elif family == "connection":
            x = rand_spikes(g, (obj.batchsz, *obj.inshape), 0.4)
            outs.append([obj(x).clone()])
        elif family == "reducer":
            x = (torch.rand((2, 3), generator=g) < 0.4).double()
            obj(x)
            outs.append([obj.peek().clone()])
        elif family == "record":
            rec = obj.m.rec
            x = (torch.rand(spec["shape"], generator=g) < 0.5)
            x = x if spec.get("dtype") == "bool" else (x.long() * (t + 1) if spec.get("dtype") == "int" else x.double() * (t + 1))
            rec.push(x)
            outs.append([rec.readrange(rec.recordsz, 1).clone(), torch.tensor(rec.recordsz), torch.tensor(rec.pointer)])
    return outs


def run_case(case):
    fam, specA, target, order, T, seed = case["family"], case["specA"], case["target"], case["order"], case["T"], case["seed"]
    torch.manual_seed(seed)
    X = build(fam, specA)
    if case.get("warm"):
        drive(fam, X, specA, case["warm"], seed + 1)     # setters applied to a component that has already run
    before = getters(fam, X)
    for a in order:
        v = target[a]
        try:
            set_attr(fam, X, a, v, specA)
        except Exception as e:  # noqa
            return {"ok": False, "what": "setter_raised", "attr": a, "detail": f"{a}={v!r}: {type(e).__name__}: {str(e)[:300]}"}
        after = getters(fam, X)
        for g, old in before.items():
            touched = {a} | ({"delayedby"} if a == "delay" else set())
            if a == "synapse":
                touched |= {k for k in before if k.startswith("synapse.")}
            if a in ("dt", "batchsz", "delay"):
                touched |= {"synapse." + a}
            if g in touched:
                continue
            if after[g] != old:
                return {"ok": False, "what": "frame", "attr": a, "detail": f"assigning {a}={v!r} changed {g}: {old!r} -> {after[g]!r}"}
        before = after
    specB = apply_target(fam, specA, target)
    rep = getters(fam, X)
    for a in order:
        if a == "synapse":
            if rep["synapse.cls"] != target[a]["cls"]:
                return {"ok": False, "what": "getter", "attr": a, "detail": f"synapse replaced by {target[a]['cls']} but connection reports {rep['synapse.cls']}"}
        elif rep[a] != target[a]:
            return {"ok": False, "what": "getter", "attr": a, "detail": f"{a} assigned {target[a]!r} but reports {rep[a]!r}"}
    if hasattr(X, "clear"):
        X.clear()
    torch.manual_seed(seed)
    Y = build(fam, specB)
    if fam == "connection":
        copy_params(X, Y)
    gx, gy = getters(fam, X), getters(fam, Y)
    if gx != gy:
        return {"ok": False, "what": "getter_vs_fresh", "detail": f"setter path reports {gx}, fresh component reports {gy}"}
    rx, ry = records(X), records(Y)
    # before the first observation lazily shaped storage may be None on both sides; compare after one step too
    ox = drive(fam, X, specB, T, seed + 2)
    oy = drive(fam, Y, specB, T, seed + 2)
    rx2, ry2 = records(X), records(Y)
    if rx2 != ry2:
        d = {k: (rx2.get(k), ry2.get(k)) for k in set(rx2) | set(ry2) if rx2.get(k) != ry2.get(k)}
        return {"ok": False, "what": "history_size", "detail": f"internal histories differ (setter path, fresh): {d}"}
    for t, (a, b) in enumerate(zip(ox, oy)):
        for i, (u, v) in enumerate(zip(a, b)):
            if u.shape != v.shape or u.dtype != v.dtype or maxdiff(u, v) > 0:
                return {"ok": False, "what": "output", "detail": f"step {t} observable {i} differs between setter path and fresh component"}
    return {"ok": True, "events": int(sum(float(o[0].double().abs().sum()) for o in ox) > 0)}


# ---------------------------------------------------------------------------------------------------------------
# model cases: the same setter sequences are evaluated by the Coq models (coq/C14/ConfigExec.v) with vm_compute
import c01_impl
from c13_impl import cons_of, isparam, flat2, mk as mk_t
from common import DT, DTR

KEEP = []  # RecordTensor / ShapedTensor only weak-reference their owner


def snap_rt_full(owner, name):
    """full state of a RecordTensor, in the layout of C13.ResizeExec.ser_rec"""
    rt = getattr(owner, name)
    cons = [c for c in cons_of(owner, name) if c[0] != 0]
    return [c01_impl.snapshot(rt), cons, rt.dt, rt.duration, int(rt.inclusive), int(rt.valid), int(rt.ignored),
            isparam(rt.value), sorted([int(k), int(v)] for k, v in rt.constraints.items())]


def snap_rt_shape(rt):
    """a RecordTensor without contents, in the layout of C14.ConfigExec.ser_rec_shape"""
    v = rt.value
    if v is None:
        kind = [0]
    elif v.numel() == 0 and v.ndim <= 1:
        kind = [1, DTR[v.dtype]]
    else:
        kind = [2, DTR[v.dtype], list(v.shape[1:]), int(v.shape[0])]
    return [rt.recordsz, rt.pointer, kind, sorted([int(k), int(v)] for k, v in rt.constraints.items()),
            rt.dt, rt.duration, int(rt.inclusive)]


def snap_st(owner, name):
    """a ShapedTensor, in the layout of C13.ResizeExec.ser_shaped"""
    st = getattr(owner, name)
    v = st.value
    d = [0] if v is None else [2, DTR[v.dtype], list(v.shape), flat2(v)]
    return [cons_of(owner, name), d, int(st.valid), int(st.ignored), int(st.dimensionality), isparam(v)]


def try_set(obj, a, v):
    try:
        setattr(obj, a, v)
        return 0
    except ValueError:
        return 2
    except RuntimeError:
        return 1


def rt_names(obj):
    return sorted(k for k, v in vars(obj).items() if isinstance(v, RecordTensor))


def st_names(obj):
    return sorted(k for k, v in vars(obj).items() if isinstance(v, ShapedTensor) and not isinstance(v, RecordTensor))


def snap_syn(X, full):
    return [X.dt, X.delay, X.batchsz, int(X.inplace),
            [snap_rt_full(X, n) if full else snap_rt_shape(getattr(X, n)) for n in rt_names(X)]]


def syn_step(X, cls):
    x = (torch.rand((X.batchsz, *X.shape)) < 0.5)
    extra = ((torch.rand((X.batchsz, *X.shape)) * 4).round() / 2,) if cls == "DeltaPlusCurrent" else ()
    X(x, *extra)


def mk_synapse(cls, shape, dt, delay, batch, inplace):
    kw = dict(factory.SYNAPSE_DEFAULTS[cls])
    return getattr(neural, cls)(tuple(shape), dt, **dict(kw, delay=delay, batch_size=batch, inplace=inplace))


def snap_red(X, spec):
    return [X.dt, X.duration, int(bool(spec.get("inclusive", False))), int(X.inplace),
            float(X.decay) if hasattr(X, "decay") else None, int(bool(X._initial)), snap_rt_shape(X.data_)]


# ---------------------------------------------------------------------------------------------------------------
# ownership chain: Serial layer -> connection -> synapse, and the layer's neuron.  Every attribute is assigned through
# every route that reaches it; after EACH assignment every getter of every object of the chain is compared with a
# freshly constructed chain of the configuration the user has asked for so far.
def chain_build(spec, cfg):
    """fresh chain for the tracked configuration cfg = {"c": {cls, dt, delay, batch, inplace}, "n": {dt, batch}}"""
    cs = copy.deepcopy(spec["conn"])
    cs["dt"], cs["batch"] = cfg["c"]["dt"], cfg["c"]["batch"]
    cs["synapse"] = {"cls": cfg["c"]["cls"], "kw": {"inplace": cfg["c"]["inplace"]}}
    cs["delay"] = None if spec["conn"].get("delay") is None else cfg["c"]["delay"]
    conn = factory.build_connection(cs)
    neu = factory.build_neuron({"cls": spec["neuron"], "shape": list(conn.outshape), "dt": cfg["n"]["dt"], "batch": cfg["n"]["batch"]})
    return neural.Serial(conn, neu)


def _shape(t):
    return None if t is None else list(t.shape)


def chain_getters(L):
    c, n = L.connection, L.neuron
    s = c.synapse
    out = {"layer.synapse is connection.synapse": L.synapse is s,
           "layer.cell.connection is layer.connection": L.cell.connection is c,
           "layer.cell.neuron is layer.neuron": L.cell.neuron is n,
           "connection.synapse_ is connection.synapse": c.synapse_ is s,
           "connection children": sorted(k for k, _ in c.named_children())}
    for g in ("dt", "batchsz", "inshape", "outshape", "batched_inshape", "batched_outshape", "biased", "delayedby"):
        v = getattr(c, g)
        out["connection." + g] = list(v) if isinstance(v, (tuple, torch.Size)) else v
    out["connection.selector.shape"] = _shape(c.selector)
    out["connection.syncurrent.shape"] = _shape(c.syncurrent)
    out["connection.synspike.shape"] = _shape(c.synspike)
    out["synapse.class"] = type(s).__name__
    for g in ("dt", "delay", "batchsz", "inplace", "shape", "batchedshape"):
        v = getattr(s, g)
        out["synapse." + g] = list(v) if isinstance(v, (tuple, torch.Size)) else v
    out["synapse.current.shape"] = _shape(s.current)
    out["synapse.spike.shape"] = _shape(s.spike)
    out["synapse.histories"] = {k: snap_rt_shape(getattr(s, k))[:1] + snap_rt_shape(getattr(s, k))[2:] for k in rt_names(s)}
    for g in ("dt", "batchsz", "shape", "batchedshape"):
        v = getattr(n, g)
        out["neuron." + g] = list(v) if isinstance(v, (tuple, torch.Size)) else v
    out["neuron.voltage.shape"] = _shape(n.voltage)
    out["neuron.refrac.shape"] = _shape(n.refrac)
    out["neuron.tensors"] = {k: [cons_of(n, k), _shape(getattr(n, k).value)] for k in st_names(n)}
    return out


def chain_target(L, route):
    return {"layer.connection": lambda: L.connection, "layer.cell.connection": lambda: L.cell.connection,
            "layer.connections[name]": lambda: L.get_connection("serial"),
            "layer.synapse": lambda: L.synapse, "layer.connection.synapse": lambda: L.connection.synapse,
            "layer.cell.connection.synapse": lambda: L.cell.connection.synapse,
            "layer.neuron": lambda: L.neuron, "layer.cell.neuron": lambda: L.cell.neuron,
            "layer.neurons[name]": lambda: L.get_neuron("serial")}[route]()


def run_chain_case(case):
    spec, seed = case["spec"], case["seed"]
    torch.manual_seed(seed)
    cfg = {"c": {"cls": spec["conn"]["synapse"]["cls"], "dt": spec["conn"]["dt"],
                 "delay": 0.0 if spec["conn"].get("delay") is None else spec["conn"]["delay"],
                 "batch": spec["conn"]["batch"], "inplace": False},
           "n": {"dt": spec["conn"]["dt"], "batch": spec["conn"]["batch"]}}
    X = chain_build(spec, cfg)
    KEEP.append(X)
    if X.connection.delayedby is not None:
        with torch.no_grad():
            X.connection.delay = ((torch.rand(X.connection.delay.shape) * cfg["c"]["delay"]) * 4).round() / 4
    g0 = torch.Generator().manual_seed(seed + 1)
    for _ in range(case.get("warm", 0)):
        X(rand_spikes(g0, (X.connection.batchsz, *X.connection.inshape), 0.4),
          neuron_kwargs=({"adapt": False} if spec["neuron"] in factory.ADAPTIVE else None))
    for k, (route, attr, v) in enumerate(case["ops"]):
        obj = chain_target(X, route)
        side = "c" if "connection" in route or "synapse" in route else "n"
        if attr == "synapse":
            ok = v["dt"] > 0 and v["delay"] >= 0 and v["batch"] > 0
            try:
                new = mk_synapse(v["cls"], list(obj.synapse.shape), v["dt"], v["delay"], v["batch"], v["inplace"])
                obj.synapse = new
                raised = None
            except (ValueError, RuntimeError) as e:
                raised = e
            if ok:
                cfg["c"] = {"cls": v["cls"], "dt": v["dt"], "delay": v["delay"], "batch": v["batch"], "inplace": v["inplace"]}
        else:
            ok = (v > 0) if attr in ("dt", "batchsz") else ((v >= 0) if attr == "delay" else True)
            try:
                setattr(obj, attr, v)
                raised = None
            except (ValueError, RuntimeError) as e:
                raised = e
            if ok:
                cfg[side][{"batchsz": "batch"}.get(attr, attr)] = v
        if ok and raised is not None:
            return {"ok": False, "what": "setter_raised", "attr": attr,
                    "detail": f"op {k}: {route}.{attr} = {v!r}: {type(raised).__name__}: {str(raised)[:200]}"}
        if not ok and raised is None:
            return {"ok": False, "what": "invalid_accepted", "attr": attr, "detail": f"op {k}: {route}.{attr} = {v!r} was accepted"}
        torch.manual_seed(seed)
        Y = chain_build(spec, cfg)
        gx, gy = chain_getters(X), chain_getters(Y)
        for key in gy:
            if gx.get(key) != gy[key]:
                return {"ok": False, "what": "chain_getter", "attr": attr,
                        "detail": f"after op {k} ({route}.{attr} = {v!r}; ops so far {case['ops'][:k + 1]}): {key} is {gx.get(key)!r}, "
                                  f"a freshly constructed chain of the same configuration {cfg} reports {gy[key]!r}"}
    # cleared, the chain computes like the fresh one (only possible when connection and neuron agree on the batch size)
    torch.manual_seed(seed)
    Y = chain_build(spec, cfg)
    KEEP.append(Y)
    X.clear()
    scale_weights(X.connection, 24.0)
    copy_params(X, Y)
    if cfg["c"]["batch"] != cfg["n"]["batch"]:
        return {"ok": True, "events": 0, "stepped": False}
    g1, g2 = torch.Generator().manual_seed(seed + 2), torch.Generator().manual_seed(seed + 2)
    nk = {"adapt": False} if spec["neuron"] in factory.ADAPTIVE else None
    ev = 0
    for t in range(case["T"]):
        xa = rand_spikes(g1, (cfg["c"]["batch"], *X.connection.inshape), 0.4)
        xb = rand_spikes(g2, (cfg["c"]["batch"], *Y.connection.inshape), 0.4)
        try:
            oa, ia = X(xa, neuron_kwargs=nk, capture_intermediate=True)
        except Exception as e:  # noqa
            return {"ok": False, "what": "step_raised", "attr": None,
                    "detail": f"step {t} on the setter-built chain raised {type(e).__name__}: {str(e)[:200]} (ops {case['ops']})"}
        ob, ib = Y(xb, neuron_kwargs=nk, capture_intermediate=True)
        for nm_, u, w in (("connection output", ia, ib), ("spikes", oa, ob), ("voltage", X.neuron.voltage, Y.neuron.voltage),
                          ("syncurrent", X.connection.syncurrent, Y.connection.syncurrent)):
            if u.shape != w.shape or maxdiff(u, w) > 0:
                return {"ok": False, "what": "chain_output", "attr": None,
                        "detail": f"step {t}: {nm_} of the setter-built chain {list(u.shape)} differs from the fresh chain {list(w.shape)} "
                                  f"(ops {case['ops']})"}
        ev += int(oa.sum() > 0)
    return {"ok": True, "events": ev, "stepped": True}


def run_model_case(case):
    """setter sequences whose effect is compared with the Coq models (C14/Config.v and the extended models)"""
    fam = case["family"]
    if fam == "synapse_model":
        X = factory.build_synapse(case["spec"])
        for a, v in case["ops"]:
            setattr(X, a, v)
        recs = [v.recordsz for k, v in sorted(vars(X).items()) if isinstance(v, RecordTensor)]
        shapes = [None if v.value is None else v.value.shape[1] for k, v in sorted(vars(X).items()) if isinstance(v, RecordTensor)]
        return {"ok": True, "obs": {"dt": X.dt, "delay": X.delay, "batch": X.batchsz, "recs": recs, "bdim": shapes}}
    if fam == "tred_model":
        X = mk_reducer(case["spec"])
        for a, v in case["ops"]:
            setattr(X, a, v)
        return {"ok": True, "obs": {"dt": X.dt, "decay": float(X.decay), "size": X.data_.recordsz, "dur": X.duration}}
    if fam == "record_model":
        owner = Module()
        KEEP.append(owner)
        val = None if case["value"] is None else mk_t(case["value"][1], case["value"][2], case["value"][3])
        RecordTensor.create(owner, "rec", case["dt"], case["dur"], val, constraints={int(k): int(v) for k, v in case["ucons"]},
                            strict=case["strict"], live=False, inclusive=case["incl"])
        rt = owner.rec
        init = snap_rt_full(owner, "rec")
        trace = []
        for op in case["ops"]:
            try:
                if op[0] == "push":
                    rt.push(mk_t(op[1], op[2], op[3]), inplace=False)
                else:
                    setattr(rt, {"dt": "dt", "dur": "duration", "incl": "inclusive"}[op[0]], op[1])
            except (ValueError, RuntimeError):
                pass
            trace.append(snap_rt_full(owner, "rec"))
        reported = [rt.dt, rt.duration, int(rt.inclusive)]
        # the value a fresh record of the same data type and observation shape is constructed from
        v = rt.value
        fval = None if v is None else (torch.empty(0, dtype=v.dtype) if (v.numel() == 0 and v.ndim <= 1)
                                       else torch.zeros(tuple(v.shape[1:]), dtype=v.dtype))
        rt.reset(0)
        cleared = snap_rt_full(owner, "rec")
        fresh_owner = Module()
        KEEP.append(fresh_owner)
        RecordTensor.create(fresh_owner, "rec", reported[0], reported[1], fval,
                            constraints={int(k): int(v) for k, v in case["ucons"]},
                            strict=case["strict"], live=False, inclusive=bool(reported[2]))
        fresh = snap_rt_full(fresh_owner, "rec")
        fresh_owner.rec.reset(0)
        return {"ok": True, "obs": {"init": init, "trace": trace, "reported": reported, "cleared": cleared,
                                    "fresh": fresh, "fresh_cleared": snap_rt_full(fresh_owner, "rec")}}
    if fam == "red_model":
        spec = case["spec"]
        X = mk_reducer(spec)
        init = snap_red(X, spec)
        trace = []
        for op in case["ops"]:
            try:
                if op[0] == "obs":
                    X(torch.zeros(op[1]))
                elif op[0] == "clear":
                    X.clear(keepshape=bool(op[1]))
                else:
                    setattr(X, {"dt": "dt", "dur": "duration", "inplace": "inplace"}[op[0]], op[1])
            except (ValueError, RuntimeError):
                pass
            trace.append(snap_red(X, spec))
        reported = [X.dt, X.duration, int(X.inplace)]
        X.clear()
        Y = mk_reducer(dict(spec, dt=reported[0], duration=reported[1], inplace=bool(reported[2])))
        return {"ok": True, "obs": {"init": init, "trace": trace, "reported": reported, "cleared": snap_red(X, spec),
                                    "fresh": snap_red(Y, spec)}}
    if fam == "scomp_model":
        s = case["spec"]
        X = mk_synapse(s["cls"], s["shape"], s["dt"], s["delay"], s["batch"], s["inplace"])
        init = snap_syn(X, True)
        trace = []
        for op in case["ops"]:
            if op[0] == "step":
                syn_step(X, s["cls"])
                continue
            try_set(X, op[0], op[1])
            trace.append(snap_syn(X, False))
        reported = [X.dt, X.delay, X.batchsz, int(X.inplace)]
        X.clear()
        Y = mk_synapse(s["cls"], s["shape"], reported[0], reported[1], reported[2], bool(reported[3]))
        Y.clear()
        return {"ok": True, "obs": {"init": init, "trace": trace, "reported": reported, "cleared": snap_syn(X, True),
                                    "fresh_cleared": snap_syn(Y, True)}}
    if fam == "conn_model":
        spec = case["spec"]
        X = factory.build_connection(spec)
        shp = list(X.synapse.shape)

        def snap_conn(full):
            return [X.dt, X.batchsz, X.delayedby, type(X.synapse).__name__, snap_syn(X.synapse, full),
                    int("synapses" in dict(X.named_children()))]
        init = snap_conn(True)
        trace = []
        for op in case["ops"]:
            if op[0] == "step":
                X(rand_spikes(torch.Generator().manual_seed(1), (X.batchsz, *X.inshape), 0.4))
                continue
            if op[0] == "syn":
                try_set(X.synapse, op[1], op[2])          # the other route: directly on the owned synapse
            elif op[0] == "synapse":
                try:
                    new = mk_synapse(op[1], shp, op[2], op[3], op[4], op[5])
                    X.synapse = new
                except (ValueError, RuntimeError):
                    pass
            else:
                try_set(X, op[0], op[1])
            trace.append(snap_conn(False))
        reported = [type(X.synapse).__name__, X.synapse.dt, X.synapse.delay, X.synapse.batchsz, int(X.synapse.inplace)]
        X.clear()
        Y = mk_synapse(reported[0], shp, reported[1], reported[2], reported[3], bool(reported[4]))
        Y.clear()
        return {"ok": True, "obs": {"shp": shp, "init": init, "trace": trace, "reported": reported, "cleared": snap_conn(True),
                                    "fresh_syn_cleared": snap_syn(Y, True)}}
    if fam == "neuron_model":
        s = case["spec"]
        X = factory.build_neuron(s)
        names = st_names(X)

        def snap_n():
            return [X.batchsz, [snap_st(X, n) for n in names]]
        init = snap_n()
        trace = []
        for op in case["ops"]:
            if op == "step":
                x = ((torch.rand((X.batchsz, *X.shape)) * 80.0 - 10.0) * 8).round() / 8
                X(x, **({"adapt": False} if s["cls"] in factory.ADAPTIVE else {}))
                continue
            try_set(X, "batchsz", op)
            trace.append(snap_n())
        b = X.batchsz
        X.clear()
        Y = factory.build_neuron(dict(s, batch=b))
        KEEP.append(Y)
        return {"ok": True, "obs": {"names": names, "init": init, "trace": trace, "cleared": snap_n(),
                                    "fresh": [Y.batchsz, [snap_st(Y, n) for n in names]]}}
    raise ValueError(fam)


def handler(payload):
    out = []
    for c in payload["cases"]:
        try:
            out.append(run_model_case(c) if c["family"].endswith("_model") else (run_chain_case(c) if c["family"] == "chain" else run_case(c)))
        except Exception as e:  # noqa
            import traceback
            out.append({"ok": False, "what": "exception", "detail": f"{type(e).__name__}: {str(e)[:300]}",
                        "trace": traceback.format_exc()[-1800:]})
    return out


if __name__ == "__main__":
    main(handler)
