"""C14: configuration by setters vs configuration by constructor, on the real code.

case = {"family": neuron|synapse|connection|reducer, "specA": {...}, "target": {attr: value, ...}, "order": [attr, ...],
        "T": steps, "seed": int}
X = build(specA); assign target[attr] in `order` (after every assignment: the frame - every other getter unchanged);
getters must report the target; X.clear(); Y = build(specA with target); same parameters; internal record sizes equal;
same inputs -> same outputs for T steps.
"""
import copy, math
import torch
from common import main
import factory
from c11_impl import copy_params, rand_spikes, maxdiff
from inferno import neural, observe
from inferno.core.infrastructure import RecordTensor, ShapedTensor

GETTERS = {
    "neuron": ["dt", "batchsz", "shape"],
    "synapse": ["dt", "delay", "batchsz", "inplace", "shape"],
    "connection": ["dt", "batchsz", "inshape", "outshape", "biased", "delayedby"],
    "reducer": ["dt", "duration", "inplace"],
    "record": ["dt", "duration", "inclusive"],
}


def mk_reducer(spec):
    cls, dt = spec["cls"], spec["dt"]
    kw = dict(duration=spec.get("duration", 0.0), inclusive=spec.get("inclusive", False), inplace=spec.get("inplace", False))
    if cls in ("NearestTraceReducer", "CumulativeTraceReducer"):
        return getattr(observe, cls)(dt, spec.get("tc", 20.0), 1.0, 1, **kw)
    if cls == "PassthroughReducer":
        return observe.PassthroughReducer(dt, **kw)
    if cls == "EventReducer":
        return observe.EventReducer(dt, lambda x: x != 0, **kw)
    if cls == "EMAReducer":
        return observe.EMAReducer(dt, 0.25, **kw)
    if cls == "CAReducer":
        return observe.CAReducer(dt, **kw)
    raise ValueError(cls)


class RecOwner:
    """a bare RecordTensor exercised through its own temporal setters"""

    def __init__(self, spec):
        from inferno.core.infrastructure import Module
        self.m = Module()
        val = None if spec.get("uninit") else torch.zeros(spec["shape"], dtype={"float": torch.float64, "bool": torch.bool, "int": torch.int64}[spec.get("dtype", "float")])
        RecordTensor.create(self.m, "rec", spec["dt"], spec["duration"], val, inclusive=spec.get("inclusive", False))
        self.spec = spec

    dt = property(lambda s: s.m.rec.dt, lambda s, v: setattr(s.m.rec, "dt", v))
    duration = property(lambda s: s.m.rec.duration, lambda s, v: setattr(s.m.rec, "duration", v))
    inclusive = property(lambda s: s.m.rec.inclusive, lambda s, v: setattr(s.m.rec, "inclusive", v))

    def named_modules(self):
        return self.m.named_modules()

    def clear(self):
        self.m.rec.reset(0)


def build(family, spec):
    if family == "record":
        return RecOwner(spec)
    if family == "neuron":
        return factory.build_neuron(spec)
    if family == "synapse":
        return factory.build_synapse(spec)
    if family == "connection":
        return factory.build_connection(spec)
    if family == "reducer":
        return mk_reducer(spec)
    raise ValueError(family)


def apply_target(family, spec, target):
    """the constructor-side configuration equal to spec + target"""
    s = copy.deepcopy(spec)
    for a, v in target.items():
        if family == "neuron":
            s[{"dt": "dt", "batchsz": "batch"}[a]] = v
        elif family == "synapse":
            if a == "dt":
                s["dt"] = v
            elif a == "batchsz":
                s["batch"] = v
            else:
                s.setdefault("kw", {})[a] = v
        elif family == "connection":
            if a == "dt":
                s["dt"] = v
            elif a == "batchsz":
                s["batch"] = v
            elif a == "synapse":
                s["synapse"] = v
        elif family in ("reducer", "record"):
            s[a] = v
    return s


def getters(family, obj):
    out = {}
    for g in GETTERS[family]:
        if hasattr(obj, g):
            v = getattr(obj, g)
            out[g] = list(v) if isinstance(v, (tuple, torch.Size)) else v
    if family == "connection":
        out["synapse.cls"] = type(obj.synapse).__name__
        out["synapse.dt"] = obj.synapse.dt
        out["synapse.delay"] = obj.synapse.delay
        out["synapse.batchsz"] = obj.synapse.batchsz
    return out


def records(obj):
    """sizes of every internal history (RecordTensor) and shape constraint, recursively over submodules"""
    out = {}
    for name, mod in obj.named_modules():
        for k, v in vars(mod).items():
            if isinstance(v, RecordTensor):
                out[f"{name}.{k}"] = [v.recordsz, v.dt, v.duration, v.inclusive,
                                      None if v.shape is None else list(v.shape),
                                      None if v.value is None else str(v.value.dtype)]
            elif isinstance(v, ShapedTensor):
                out[f"{name}.{k}"] = [None if v.value is None else list(v.value.shape),
                                      None if v.value is None else str(v.value.dtype)]
    return out


def set_attr(family, obj, a, v, spec):
    if family == "connection" and a == "synapse":
        kw = dict(factory.SYNAPSE_DEFAULTS[v["cls"]])
        kw.update(v.get("kw", {}))
        new = getattr(neural, v["cls"])(obj.synapse.shape, obj.dt, batch_size=obj.batchsz,
                                        **dict(kw, delay=obj.synapse.delay))
        obj.synapse = new
    else:
        setattr(obj, a, v)


def drive(family, obj, spec, T, seed):
    g = torch.Generator().manual_seed(seed)
    outs = []
    for t in range(T):
        if family == "neuron":
            x = ((torch.rand((obj.batchsz, *obj.shape), generator=g) * 80.0 - 10.0) * 8).round() / 8
            kw = {"adapt": False} if spec["cls"] in factory.ADAPTIVE else {}
            outs.append([obj(x, **kw).clone(), obj.voltage.clone(), obj.refrac.clone()])
        elif family == "synapse":
            x = rand_spikes(g, (obj.batchsz, *obj.shape), 0.4)
            extra = ((torch.rand((obj.batchsz, *obj.shape), generator=g) * 16).round() / 8,) if spec["cls"] == "DeltaPlusCurrent" else ()
            o = obj(x, *extra)
            sel = torch.rand((obj.batchsz, *obj.shape), generator=g) * obj.delay
            outs.append([o.clone(), obj.current.clone(), obj.spike.clone(), obj.current_at(sel).clone()])
        elif family == "connection":
            x = rand_spikes(g, (obj.batchsz, *obj.inshape), 0.4)
            outs.append([obj(x).clone()])
        elif family == "reducer":
            x = (torch.rand((2, 3), generator=g) < 0.4).double()
            obj(x)
            outs.append([obj.peek().clone()])
        elif family == "record":
            rec = obj.m.rec
            x = (torch.rand(spec["shape"], generator=g) < 0.5)
            x = x if spec.get("dtype") == "bool" else (x.long() * (t + 1) if spec.get("dtype") == "int" else x.double() * (t + 1))
            rec.push(x)
            outs.append([rec.readrange(rec.recordsz, 1).clone(), torch.tensor(rec.recordsz), torch.tensor(rec.pointer)])
    return outs


def run_case(case):
    fam, specA, target, order, T, seed = case["family"], case["specA"], case["target"], case["order"], case["T"], case["seed"]
    torch.manual_seed(seed)
    X = build(fam, specA)
    if case.get("warm"):
        drive(fam, X, specA, case["warm"], seed + 1)     # setters applied to a component that has already run
    before = getters(fam, X)
    for a in order:
        v = target[a]
        try:
            set_attr(fam, X, a, v, specA)
        except Exception as e:  # noqa
            return {"ok": False, "what": "setter_raised", "attr": a, "detail": f"{a}={v!r}: {type(e).__name__}: {str(e)[:300]}"}
        after = getters(fam, X)
        for g, old in before.items():
            touched = {a} | ({"delayedby"} if a == "delay" else set())
            if a == "synapse":
                touched |= {k for k in before if k.startswith("synapse.")}
            if a in ("dt", "batchsz", "delay"):
                touched |= {"synapse." + a}
            if g in touched:
                continue
            if after[g] != old:
                return {"ok": False, "what": "frame", "attr": a, "detail": f"assigning {a}={v!r} changed {g}: {old!r} -> {after[g]!r}"}
        before = after
    specB = apply_target(fam, specA, target)
    rep = getters(fam, X)
    for a in order:
        if a == "synapse":
            if rep["synapse.cls"] != target[a]["cls"]:
                return {"ok": False, "what": "getter", "attr": a, "detail": f"synapse replaced by {target[a]['cls']} but connection reports {rep['synapse.cls']}"}
        elif rep[a] != target[a]:
            return {"ok": False, "what": "getter", "attr": a, "detail": f"{a} assigned {target[a]!r} but reports {rep[a]!r}"}
    if hasattr(X, "clear"):
        X.clear()
    torch.manual_seed(seed)
    Y = build(fam, specB)
    if fam == "connection":
        copy_params(X, Y)
    gx, gy = getters(fam, X), getters(fam, Y)
    if gx != gy:
        return {"ok": False, "what": "getter_vs_fresh", "detail": f"setter path reports {gx}, fresh component reports {gy}"}
    rx, ry = records(X), records(Y)
    # before the first observation lazily shaped storage may be None on both sides; compare after one step too
    ox = drive(fam, X, specB, T, seed + 2)
    oy = drive(fam, Y, specB, T, seed + 2)
    rx2, ry2 = records(X), records(Y)
    if rx2 != ry2:
        d = {k: (rx2.get(k), ry2.get(k)) for k in set(rx2) | set(ry2) if rx2.get(k) != ry2.get(k)}
        return {"ok": False, "what": "history_size", "detail": f"internal histories differ (setter path, fresh): {d}"}
    for t, (a, b) in enumerate(zip(ox, oy)):
        for i, (u, v) in enumerate(zip(a, b)):
            if u.shape != v.shape or u.dtype != v.dtype or maxdiff(u, v) > 0:
                return {"ok": False, "what": "output", "detail": f"step {t} observable {i} differs between setter path and fresh component"}
    return {"ok": True, "events": int(sum(float(o[0].double().abs().sum()) for o in ox) > 0)}


def run_model_case(case):
    """setter sequences whose effect on the internal histories is compared with the Coq model (C14/Config.v)"""
    if case["family"] == "synapse_model":
        X = factory.build_synapse(case["spec"])
        for a, v in case["ops"]:
            setattr(X, a, v)
        recs = [v.recordsz for k, v in sorted(vars(X).items()) if isinstance(v, RecordTensor)]
        shapes = [None if v.value is None else v.value.shape[1] for k, v in sorted(vars(X).items()) if isinstance(v, RecordTensor)]
        return {"ok": True, "obs": {"dt": X.dt, "delay": X.delay, "batch": X.batchsz, "recs": recs, "bdim": shapes}}
    if case["family"] == "tred_model":
        X = mk_reducer(case["spec"])
        for a, v in case["ops"]:
            setattr(X, a, v)
        return {"ok": True, "obs": {"dt": X.dt, "decay": float(X.decay), "size": X.data_.recordsz, "dur": X.duration}}
    raise ValueError(case["family"])


def handler(payload):
    out = []
    for c in payload["cases"]:
        try:
            out.append(run_model_case(c) if c["family"].endswith("_model") else run_case(c))
        except Exception as e:  # noqa
            import traceback
            out.append({"ok": False, "what": "exception", "detail": f"{type(e).__name__}: {str(e)[:300]}",
                        "trace": traceback.format_exc()[-1800:]})
    return out


if __name__ == "__main__":
    main(handler)
