"""C09 implementation side: the REAL trainers on real Serial layers (real connection, real DeltaCurrent synapse, real
monitors, real Updater / Accumulator) with a scripted postsynaptic neuron (test double on the public InfernoNeuron base,
imported from c08_impl), so that every postsynaptic spike history can be produced.

case kinds
  "homeo": LinearHomeostasis on weight / bias / delay.
      {"kind": "homeo", "conn": "dense"|"direct"|"lateral"|"conv" (+ "n_in", "n_out" | "conv": {...}), "B", "dt", "kmax",
       "param": "weight"|"bias"|"delay", "plasticity": float, "target": float | [n_out floats], "target_at": "init"|
       "register"|"forward", "reduction": None|"sum"|"mean"|"amax", "post": [T][B][n_out] 0/1, "x0": float (initial value
       of every element of the trained parameter), "bound": spec|None}
  "stdp": STDP / StableSTDP / TripletSTDP / StableTripletSTDP / MSTDP / MSTDPET (case format of c08_impl) + "w0", "bound".
  "cell": the delay-adjusted / kernel trainers: delegated unchanged to c18_impl.run_cell.

bound spec: {"form": "half", "upper": {"fn": "multiplicative"|"sharp"|"scaled_multiplicative", "lim": x, "kw": {...}}|None,
             "lower": {...}|None}  |  {"form": "full", "fn": "multiplicative"|"sharp", "max": x|None, "min": y|None}

Observed per trainer call: the parts this call appended to the accumulator (Accumulator._pos / _neg tail; None when the
trainer handed None), the accumulated parts (Accumulator.pos / .neg), both broadcast to the parameter's shape; at the end
the parameter before and after connection.update()."""
import torch
from common import main, fhex, exc_code
from inferno import neural, functional
from inferno.learn.trainers.homeostasis import LinearHomeostasis
import c08_impl
import c18_impl

KEEP = []
RED = {"sum": torch.sum, "mean": torch.mean, "amax": torch.amax, None: None}


def set_bounds(acc, bound):
    if not bound:
        return
    if bound["form"] == "half":
        for side in ("upper", "lower"):
            s = bound.get(side)
            if s is None:
                continue
            fn = getattr(functional, f"bound_{side}_{s['fn']}")
            if side == "upper":
                acc.upperbound(fn, s["lim"], **s.get("kw", {}))
            else:
                acc.lowerbound(fn, s["lim"], **s.get("kw", {}))
    else:
        acc.fullbound(getattr(functional, "bound_" + bound["fn"]), bound.get("max"), bound.get("min"))


def flat_like(part, param):
    """a part broadcast to the parameter's shape, flattened row-major (None stays None)"""
    if part is None:
        return None
    return [fhex(v) for v in torch.broadcast_to(part.detach().to(torch.float64), param.shape).reshape(-1).tolist()]


def flat(t):
    return [fhex(v) for v in t.detach().to(torch.float64).reshape(-1).tolist()]


class Tap:
    """reads what one trainer call appended to an accumulator"""

    def __init__(self, acc):
        self.acc = acc
        self.np, self.nn = len(acc._pos), len(acc._neg)

    def new(self, param):
        acc = self.acc
        p = list(acc._pos)[self.np:]
        n = list(acc._neg)[self.nn:]
        self.np, self.nn = len(acc._pos), len(acc._neg)
        assert len(p) <= 1 and len(n) <= 1
        return (flat_like(p[0], param) if p else None), (flat_like(n[0], param) if n else None)


def build_conn(case, bias):
    dt, B, kmax = case["dt"], case["B"], case.get("kmax")
    delay = None if kmax is None else kmax * dt
    syn = neural.DeltaCurrent.partialconstructor(1.0)
    kind = case["conn"]
    if kind == "dense":
        return neural.LinearDense((case["n_in"],), (case["n_out"],), dt, synapse=syn, delay=delay, bias=bias, batch_size=B)
    if kind == "direct":
        return neural.LinearDirect((case["n_in"],), dt, synapse=syn, delay=delay, bias=bias, batch_size=B)
    if kind == "lateral":
        return neural.LinearLateral((case["n_in"],), dt, synapse=syn, delay=delay, bias=bias, batch_size=B)
    cv = case["conv"]
    return neural.Conv2D(cv["height"], cv["width"], cv["channels"], cv["filters"], dt, tuple(cv["kernel"]),
                         stride=tuple(cv.get("stride", [1, 1])), padding=tuple(cv.get("padding", [0, 0])),
                         dilation=tuple(cv.get("dilation", [1, 1])), synapse=syn, delay=delay, bias=bias, batch_size=B)


def run_homeo(case):
    B, dt, param = case["B"], case["dt"], case["param"]
    conn = build_conn(case, True)
    neuron = c08_impl.ScriptedNeuron(tuple(conn.outshape), dt, batch_size=B)
    layer = neural.Serial(conn, neuron)
    conn.updater = conn.defaultupdater()
    with torch.no_grad():
        setattr(conn, param, torch.full_like(getattr(conn, param), float(case["x0"])))
    tg = case["target"]
    if isinstance(tg, list):
        tg = torch.tensor(tg, dtype=torch.float64).reshape(1, *conn.outshape)
    at = case["target_at"]
    red = RED[case.get("reduction")]
    tr = LinearHomeostasis(case["plasticity"], tg if (at == "init" and not isinstance(tg, torch.Tensor)) else None,
                           param, batch_reduction=red)
    kw = {}
    if at == "register" or (at == "init" and isinstance(tg, torch.Tensor)):
        kw["target"] = tg
    tr.register_cell("c", layer.cell, **kw)
    KEEP.extend([layer, tr])
    layer.train()
    tr.train()
    acc = getattr(conn.updater, param)
    set_bounds(acc, case.get("bound"))
    tap = Tap(acc)
    neuron.script = [torch.tensor(p, dtype=torch.bool) for p in case["post"]]
    steps = []
    for t in range(len(case["post"])):
        layer(torch.zeros(B, *conn.inshape, dtype=torch.bool))
        if at == "forward":
            tr(tg)
        else:
            tr()
        pv = getattr(conn, param)
        newp, newn = tap.new(pv)
        steps.append({"rate": flat(tr.get_unit("c").monitors["spike_rate"].peek()),
                      "pos": newp, "neg": newn, "apos": flat_like(acc.pos, pv), "aneg": flat_like(acc.neg, pv)})
    before = getattr(conn, param).detach().clone()
    conn.update()
    after = getattr(conn, param).detach().clone()
    return {"ok": True, "steps": steps, "before": flat(before), "after": flat(after), "pshape": list(before.shape),
            "cleared": acc.pos is None and acc.neg is None}


def run_stdp(case):
    layer, conn, neuron, trainer = c08_impl.build(case)
    KEEP.extend([layer, trainer])
    with torch.no_grad():
        conn.weight = torch.full_like(conn.weight, float(case.get("w0", 0.5)))
    layer.train()
    trainer.train()
    acc = conn.updater.weight
    set_bounds(acc, case.get("bound"))
    tap = Tap(acc)
    T, B = len(case["pre"]), case["B"]
    neuron.script = [torch.tensor(p, dtype=torch.bool) for p in case["post"]]
    sig = case.get("signal")
    steps, synpre = [], []
    for t in range(T):
        x = torch.tensor(case["pre"][t], dtype=torch.bool).reshape(B, *conn.inshape)
        if case["conn"] == "conv":
            synpre.append(conn.like_synaptic(x).to(torch.int64).tolist())
        layer(x)
        if sig is None:
            trainer()
        else:
            s = sig[t]
            s = torch.tensor(s, dtype=torch.float64) if isinstance(s, list) else float(s)
            trainer(s, case.get("scale", 1.0))
        newp, newn = tap.new(conn.weight)
        steps.append({"pos": newp, "neg": newn, "apos": flat_like(acc.pos, conn.weight),
                      "aneg": flat_like(acc.neg, conn.weight)})
    before = conn.weight.detach().clone()
    conn.update()
    after = conn.weight.detach().clone()
    return {"ok": True, "steps": steps, "before": flat(before), "after": flat(after), "pshape": list(before.shape),
            "synpre": synpre, "cleared": acc.pos is None and acc.neg is None}


def handler(payload):
    out = []
    for c in payload["cases"]:
        try:
            if c["kind"] == "homeo":
                out.append(run_homeo(c))
            elif c["kind"] == "stdp":
                out.append(run_stdp(c))
            else:
                out.append({"ok": True, "cell": c18_impl.run_cell(c)})
        except Exception as e:  # noqa: BLE001
            import traceback
            out.append({"ok": False, "err": exc_code(e), "msg": f"{type(e).__name__}: {e}"[:400],
                        "trace": traceback.format_exc()[-1500:]})
    return out


if __name__ == "__main__":
    main(handler)
