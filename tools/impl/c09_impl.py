"""C09 implementation side: the REAL trainers on real Serial layers (real connection, real DeltaCurrent synapse, real
monitors, real Updater / Accumulator) with a scripted postsynaptic neuron (test double on the public InfernoNeuron base,
imported from c08_impl), so that every postsynaptic spike history can be produced.

case kinds
  "homeo": LinearHomeostasis on weight / bias / delay.
      {"kind": "homeo", "conn": "dense"|"direct"|"lateral"|"conv" (+ "n_in", "n_out" | "conv": {...}), "B", "dt", "kmax",
       "param": "weight"|"bias"|"delay", "plasticity": float, "target": float | [n_out floats], "target_at": "init"|
       "register"|"forward", "reduction": None|"sum"|"mean"|"amax", "post": [T][B][n_out] 0/1, "x0": float (initial value
       of every element of the trained parameter), "bound": spec|None}
  "stdp": STDP / StableSTDP / TripletSTDP / StableTripletSTDP / MSTDP / MSTDPET (case format of c08_impl) + "w0", "bound".
  "cell": the delay-adjusted / kernel trainers: delegated unchanged to c18_impl.run_cell.
  "group": {"family": "homeo"|"stdp", "defaults": constructor-level hyperparameters of ONE trainer object, "cells": [cell
      cases as above holding their EFFECTIVE hyperparameters + "override_keys": the hyperparameters handed to
      register_cell(name, cell, **kwargs)]}.  homeo cells: "target_reg" (value of the `target` override, may be None),
      "fwd_targets": [T] explicit forward(target) per step (None allowed; common to the group, taken from cells[0]);
      defaults: "target_ctor".  stdp cells share B, T, signal and scale.  With "layout": "biclique" the stdp cells are the
      four cells of ONE Biclique layer (cell["bic"] = [connection, neuron]; see run_stdp_biclique).

bound spec: {"form": "half", "upper": {"fn": "multiplicative"|"sharp"|"scaled_multiplicative", "lim": x, "kw": {...}}|None,
             "lower": {...}|None}  |  {"form": "full", "fn": "multiplicative"|"sharp", "max": x|None, "min": y|None}

Observed per trainer call: the parts this call appended to the accumulator (Accumulator._pos / _neg tail; None when the
trainer handed None), the accumulated parts (Accumulator.pos / .neg), both broadcast to the parameter's shape; at the end
the parameter before and after connection.update()."""
import torch
from common import main, fhex, exc_code
from inferno import neural, functional
from inferno.learn.trainers.homeostasis import LinearHomeostasis
import c08_impl
import c18_impl

KEEP = []
RED = {"sum": torch.sum, "mean": torch.mean, "amax": torch.amax, "amin": torch.amin, None: None}


def set_bounds(acc, bound):
    if not bound:
        return
    if bound["form"] == "half":
        for side in ("upper", "lower"):
            s = bound.get(side)
            if s is None:
                continue
            fn = getattr(functional, f"bound_{side}_{s['fn']}")
            if side == "upper":
                acc.upperbound(fn, s["lim"], **s.get("kw", {}))
            else:
                acc.lowerbound(fn, s["lim"], **s.get("kw", {}))
    else:
        acc.fullbound(getattr(functional, "bound_" + bound["fn"]), bound.get("max"), bound.get("min"))


def flat_like(part, param):
    """a part broadcast to the parameter's shape, flattened row-major (None stays None)"""
    if part is None:
        return None
    return [fhex(v) for v in torch.broadcast_to(part.detach().to(torch.float64), param.shape).reshape(-1).tolist()]


def flat(t):
    return [fhex(v) for v in t.detach().to(torch.float64).reshape(-1).tolist()]


class Tap:
    """reads what one trainer call appended to an accumulator"""

    def __init__(self, acc):
        self.acc = acc
        self.np, self.nn = len(acc._pos), len(acc._neg)

    def new(self, param):
        acc = self.acc
        p = list(acc._pos)[self.np:]
        n = list(acc._neg)[self.nn:]
        self.np, self.nn = len(acc._pos), len(acc._neg)
        assert len(p) <= 1 and len(n) <= 1
        return (flat_like(p[0], param) if p else None), (flat_like(n[0], param) if n else None)


def build_conn(case, bias):
    dt, B, kmax = case["dt"], case["B"], case.get("kmax")
    delay = None if kmax is None else kmax * dt
    syn = neural.DeltaCurrent.partialconstructor(1.0)
    kind = case["conn"]
    if kind == "dense":
        return neural.LinearDense((case["n_in"],), (case["n_out"],), dt, synapse=syn, delay=delay, bias=bias, batch_size=B)
    if kind == "direct":
        return neural.LinearDirect((case["n_in"],), dt, synapse=syn, delay=delay, bias=bias, batch_size=B)
    if kind == "lateral":
        return neural.LinearLateral((case["n_in"],), dt, synapse=syn, delay=delay, bias=bias, batch_size=B)
    cv = case["conv"]
    return neural.Conv2D(cv["height"], cv["width"], cv["channels"], cv["filters"], dt, tuple(cv["kernel"]),
                         stride=tuple(cv.get("stride", [1, 1])), padding=tuple(cv.get("padding", [0, 0])),
                         dilation=tuple(cv.get("dilation", [1, 1])), synapse=syn, delay=delay, bias=bias, batch_size=B)


TRIPLET = ("TripletSTDP", "StableTripletSTDP")
TRIPLET_KEYS = {"lr_post": "lr_post_pair", "lr_pre": "lr_pre_pair", "tc_post": "tc_post_fast", "tc_pre": "tc_pre_fast"}


def target_value(tg, conn):
    if isinstance(tg, list):
        return torch.tensor(tg, dtype=torch.float64).reshape(1, *conn.outshape)
    return tg


# ------------------------------------------------------------------ LinearHomeostasis
def homeo_override_kwargs(cell, conn):
    """register_cell(name, cell, **kwargs): the cell's effective hyperparameters restricted to the overridden keys"""
    kw = {}
    for k in cell.get("override_keys", []):
        if k == "plasticity":
            kw["plasticity"] = cell["plasticity"]
        elif k == "param":
            kw["param"] = cell["param"]
        elif k == "reduction":
            kw["batch_reduction"] = RED[cell["reduction"]]
        elif k == "target":
            kw["target"] = target_value(cell["target_reg"], conn)      # may be None (explicitly no default)
        else:
            raise ValueError(k)
    return kw


def run_homeo_group(defaults, cells):
    """ONE LinearHomeostasis object (constructor arguments `defaults`: plasticity, target_ctor, param, reduction) driving
    every cell; each cell is registered with its own keyword overrides.  All layers are stepped, then
    trainer(target) is called once per step with the step's explicit target (cells[0]["fwd_targets"][t], None allowed)."""
    tr = LinearHomeostasis(defaults["plasticity"], defaults.get("target_ctor"), defaults["param"],
                           batch_reduction=RED[defaults.get("reduction")])
    KEEP.append(tr)
    built = []
    for j, case in enumerate(cells):
        B, dt, param = case["B"], case["dt"], case["param"]
        conn = build_conn(case, True)
        neuron = c08_impl.ScriptedNeuron(tuple(conn.outshape), dt, batch_size=B)
        layer = neural.Serial(conn, neuron)
        conn.updater = conn.defaultupdater()
        with torch.no_grad():
            setattr(conn, param, torch.full_like(getattr(conn, param), float(case["x0"])))
        tr.register_cell(f"c{j}", layer.cell, **homeo_override_kwargs(case, conn))
        KEEP.append(layer)
        layer.train()
        acc = getattr(conn.updater, param)
        set_bounds(acc, case.get("bound"))
        neuron.script = [torch.tensor(p, dtype=torch.bool) for p in case["post"]]
        built.append((conn, neuron, layer, acc, Tap(acc)))
    tr.train()
    T = len(cells[0]["post"])
    outs = [{"ok": True, "steps": []} for _ in cells]
    fwd = cells[0].get("fwd_targets") or [None] * T
    for t in range(T):
        for case, (conn, neuron, layer, acc, tap) in zip(cells, built):
            layer(torch.zeros(case["B"], *conn.inshape, dtype=torch.bool))
        ft = fwd[t]
        if isinstance(ft, list):
            ft = torch.tensor(ft, dtype=torch.float64).reshape(1, *built[0][0].outshape)
        tr(ft)
        for j, (case, (conn, neuron, layer, acc, tap)) in enumerate(zip(cells, built)):
            pv = getattr(conn, case["param"])
            newp, newn = tap.new(pv)
            outs[j]["steps"].append({"rate": flat(tr.get_unit(f"c{j}").monitors["spike_rate"].peek()),
                                     "pos": newp, "neg": newn, "apos": flat_like(acc.pos, pv), "aneg": flat_like(acc.neg, pv)})
    for j, (case, (conn, neuron, layer, acc, tap)) in enumerate(zip(cells, built)):
        before = getattr(conn, case["param"]).detach().clone()
        conn.update()
        after = getattr(conn, case["param"]).detach().clone()
        outs[j].update({"before": flat(before), "after": flat(after), "pshape": list(before.shape),
                        "cleared": acc.pos is None and acc.neg is None})
    return outs


def run_homeo_biclique(defaults, cells):
    """ONE LinearHomeostasis object on ONE Biclique layer (2 dense connections x 2 scripted neuron groups, all four cells
    registered with per-cell overrides).  Cells sharing a neuron group observe the same neuron.spike (their spike_rate
    monitors are poolable); cells sharing a connection AND training the same parameter write into the same accumulator.
    cell["bic"] = [connection, neuron].  The record of a cell holds its own monitored rate and the state of ITS
    (connection, param) accumulator: the parts appended by the call summed over the cells writing into it, the accumulated
    parts, the parameter before / after connection.update()."""
    tr = LinearHomeostasis(defaults["plasticity"], defaults.get("target_ctor"), defaults["param"],
                           batch_reduction=RED[defaults.get("reduction")])
    KEEP.append(tr)
    ncon = 1 + max(c["bic"][0] for c in cells)
    nneu = 1 + max(c["bic"][1] for c in cells)
    B, dt = cells[0]["B"], cells[0]["dt"]
    cspec = [next(c for c in cells if c["bic"][0] == i) for i in range(ncon)]
    nspec = [next(c for c in cells if c["bic"][1] == j) for j in range(nneu)]
    conns = []
    for c in cspec:
        conn = build_conn(c, True)
        conn.updater = conn.defaultupdater()
        conns.append(conn)
    neurons = [c08_impl.ScriptedNeuron(tuple(conns[0].outshape), dt, batch_size=B) for _ in nspec]
    layer = neural.Biclique([(f"k{i}", conn) for i, conn in enumerate(conns)], [(f"n{j}", neu) for j, neu in enumerate(neurons)])
    KEEP.append(layer)
    accs = {}                                   # (connection, param) -> first cell writing into it
    for q, c in enumerate(cells):
        key = (c["bic"][0], c["param"])
        if key not in accs:
            accs[key] = c
            conn = conns[c["bic"][0]]
            with torch.no_grad():
                setattr(conn, c["param"], torch.full_like(getattr(conn, c["param"]), float(c["x0"])))
        cell = getattr(getattr(layer.cells, f"k{c['bic'][0]}"), f"n{c['bic'][1]}")
        tr.register_cell(f"c{q}", cell, **homeo_override_kwargs(c, conns[c["bic"][0]]))
    for (i, prm), c in accs.items():
        set_bounds(getattr(conns[i].updater, prm), c.get("bound"))
    layer.train()
    tr.train()
    for c, neu in zip(nspec, neurons):
        neu.script = [torch.tensor(p, dtype=torch.bool) for p in c["post"]]
    T = len(cells[0]["post"])
    fwd = cells[0].get("fwd_targets") or [None] * T
    recs = {k: {"steps": []} for k in accs}
    rates = [[] for _ in cells]
    for t in range(T):
        layer({f"k{i}": (torch.zeros(B, *conn.inshape, dtype=torch.bool),) for i, conn in enumerate(conns)})
        marks = {(i, prm): (len(getattr(conns[i].updater, prm)._pos), len(getattr(conns[i].updater, prm)._neg)) for (i, prm) in accs}
        tr(fwd[t])
        for q in range(len(cells)):
            rates[q].append(flat(tr.get_unit(f"c{q}").monitors["spike_rate"].peek()))
        for (i, prm) in accs:
            acc = getattr(conns[i].updater, prm)
            pv = getattr(conns[i], prm)
            sp, sn, kp, kn = new_sum(acc, marks[(i, prm)][0], marks[(i, prm)][1], pv)
            recs[(i, prm)]["steps"].append({"pos": sp, "neg": sn, "apos": flat_like(acc.pos, pv), "aneg": flat_like(acc.neg, pv)})
    before = {(i, prm): getattr(conns[i], prm).detach().clone() for (i, prm) in accs}
    for conn in conns:
        conn.update()
    for (i, prm) in accs:
        acc = getattr(conns[i].updater, prm)
        recs[(i, prm)].update({"before": flat(before[(i, prm)]), "after": flat(getattr(conns[i], prm).detach()),
                               "pshape": list(before[(i, prm)].shape), "cleared": acc.pos is None and acc.neg is None})
    out = []
    for q, c in enumerate(cells):
        r = recs[(c["bic"][0], c["param"])]
        out.append({"ok": True, "steps": [dict(st, rate=rates[q][t]) for t, st in enumerate(r["steps"])],
                    "before": r["before"], "after": r["after"], "pshape": r["pshape"], "cleared": r["cleared"]})
    return out


def run_homeo(case):
    """a single cell: the trainer is constructed with the cell's own hyperparameters; "target_at" says where a single
    target is given ("init" | "register" | "forward")"""
    tg, at = case["target"], case["target_at"]
    defaults = {"plasticity": case["plasticity"], "param": case["param"], "reduction": case.get("reduction"),
                "target_ctor": tg if (at == "init" and not isinstance(tg, list)) else None}
    cell = dict(case, override_keys=[])
    if at == "register" or (at == "init" and isinstance(tg, list)):
        cell["override_keys"] = ["target"]
        cell["target_reg"] = tg
    cell["fwd_targets"] = [tg if at == "forward" else None] * len(case["post"])
    return run_homeo_group(defaults, [cell])[0]


# ------------------------------------------------------------------ STDP family
def stdp_override_kwargs(cell):
    hp, tri = cell["hp"], cell["trainer"] in TRIPLET
    kw = {}
    for k in cell.get("override_keys", []):
        if k == "mode":
            kw["trace_mode"] = cell["mode"]
        elif k == "reduction":
            kw["batch_reduction"] = RED[cell["reduction"]]
        elif k == "delayed":
            kw["delayed"] = cell["delayed"]
        elif k == "tc_elig":
            kw["tc_eligibility"] = hp["tc_elig"]
        elif k in hp:
            kw[TRIPLET_KEYS.get(k, k) if tri else k] = hp[k]
        else:
            raise ValueError(k)
    return kw


def build_stdp_layer(case):
    dt, B, kmax = case["dt"], case["B"], case.get("kmax")
    conn = build_conn(case, False)
    with torch.no_grad():
        conn.weight = torch.full_like(conn.weight, float(case.get("w0", 0.5)))
        if kmax is not None:
            conn.delay = (torch.tensor(case["delays"], dtype=torch.float64) * dt).reshape(conn.delay.shape)
    neuron = c08_impl.ScriptedNeuron(tuple(conn.outshape), dt, batch_size=B)
    layer = neural.Serial(conn, neuron)
    conn.updater = conn.defaultupdater()
    KEEP.append(layer)
    return layer, conn, neuron


def reward(s, case):
    """the reward argument of a three-factor trainer call: per-sample tensor, python float or (case["signal_numpy"]) a
    numpy scalar"""
    if isinstance(s, list):
        return torch.tensor(s, dtype=torch.float64)
    if case.get("signal_numpy"):
        import numpy as np
        return np.float64(s)
    return float(s)


def run_stdp_group(defaults, cells):
    """ONE trainer object built from `defaults` (trainer, mode, hp, delayed, reduction) driving every cell, each registered
    with its own keyword overrides; all layers are stepped, then trainer(...) is called once per step (three-factor: with
    the step's signal and scale, common to the group)"""
    trainer = c08_impl.mk_trainer(defaults)
    KEEP.append(trainer)
    built = []
    for j, case in enumerate(cells):
        layer, conn, neuron = build_stdp_layer(case)
        trainer.register_cell(f"c{j}", layer.cell, **stdp_override_kwargs(case))
        layer.train()
        acc = conn.updater.weight
        set_bounds(acc, case.get("bound"))
        neuron.script = [torch.tensor(p, dtype=torch.bool) for p in case["post"]]
        built.append((layer, conn, neuron, acc, Tap(acc)))
    trainer.train()
    T = len(cells[0]["pre"])
    sig = cells[0].get("signal")
    outs = [{"ok": True, "steps": [], "synpre": []} for _ in cells]
    for t in range(T):
        for j, (case, (layer, conn, neuron, acc, tap)) in enumerate(zip(cells, built)):
            x = torch.tensor(case["pre"][t], dtype=torch.bool).reshape(case["B"], *conn.inshape)
            if case["conn"] == "conv":
                outs[j]["synpre"].append(conn.like_synaptic(x).to(torch.int64).tolist())
            layer(x)
        if sig is None:
            trainer()
        else:
            trainer(reward(sig[t], cells[0]), cells[0].get("scale", 1.0))
        for j, (case, (layer, conn, neuron, acc, tap)) in enumerate(zip(cells, built)):
            newp, newn = tap.new(conn.weight)
            outs[j]["steps"].append({"pos": newp, "neg": newn, "apos": flat_like(acc.pos, conn.weight),
                                     "aneg": flat_like(acc.neg, conn.weight)})
    for j, (case, (layer, conn, neuron, acc, tap)) in enumerate(zip(cells, built)):
        before = conn.weight.detach().clone()
        conn.update()
        after = conn.weight.detach().clone()
        outs[j].update({"before": flat(before), "after": flat(after), "pshape": list(before.shape),
                        "cleared": acc.pos is None and acc.neg is None})
    return outs


def run_stdp(case):
    return run_stdp_group(case, [dict(case, override_keys=[])])[0]


def new_sum(acc, n0p, n0n, param):
    """the parts appended to an accumulator since (n0p, n0n), summed (several cells may write into one accumulator)"""
    p = list(acc._pos)[n0p:]
    n = list(acc._neg)[n0n:]
    sp = flat_like(torch.stack([*p], 0).sum(0), param) if p else None
    sn = flat_like(torch.stack([*n], 0).sum(0), param) if n else None
    return sp, sn, len(p), len(n)


def run_stdp_biclique(defaults, cells):
    """ONE trainer object and ONE Biclique layer (2 connections x 2 neuron groups, all four cells registered, each with its
    own keyword overrides): cells sharing a neuron group observe the same neuron.spike, cells sharing a connection observe
    the same connection.synspike AND write into the same accumulator.  cell["bic"] = [connection index, neuron index];
    connection-level data (n_in, n_out, kmax, delays, w0, bound, pre) is read from the first cell on that connection,
    neuron-level data (post) from the first cell on that neuron.  The result of a cell is the record of ITS CONNECTION's
    accumulator (new parts of the call summed over the cells on the connection, accumulated parts, weight before / after)."""
    trainer = c08_impl.mk_trainer(defaults)
    KEEP.append(trainer)
    ncon = 1 + max(c["bic"][0] for c in cells)
    nneu = 1 + max(c["bic"][1] for c in cells)
    B, dt = cells[0]["B"], cells[0]["dt"]
    cspec = [next(c for c in cells if c["bic"][0] == i) for i in range(ncon)]
    nspec = [next(c for c in cells if c["bic"][1] == j) for j in range(nneu)]
    conns, neurons = [], []
    for c in cspec:
        conn = build_conn(c, False)
        with torch.no_grad():
            conn.weight = torch.full_like(conn.weight, float(c.get("w0", 0.5)))
            if c.get("kmax") is not None:
                conn.delay = (torch.tensor(c["delays"], dtype=torch.float64) * dt).reshape(conn.delay.shape)
        conn.updater = conn.defaultupdater()
        conns.append(conn)
    for c in nspec:
        neurons.append(c08_impl.ScriptedNeuron(tuple(conns[0].outshape), dt, batch_size=B))
    layer = neural.Biclique([(f"k{i}", conn) for i, conn in enumerate(conns)], [(f"n{j}", neu) for j, neu in enumerate(neurons)])
    KEEP.append(layer)
    for q, c in enumerate(cells):
        cell = getattr(getattr(layer.cells, f"k{c['bic'][0]}"), f"n{c['bic'][1]}")
        trainer.register_cell(f"c{q}", cell, **stdp_override_kwargs(c))
    layer.train()
    trainer.train()
    for i, (c, conn) in enumerate(zip(cspec, conns)):
        set_bounds(conn.updater.weight, c.get("bound"))
    for c, neu in zip(nspec, neurons):
        neu.script = [torch.tensor(p, dtype=torch.bool) for p in c["post"]]
    T = len(cells[0]["pre"])
    sig = cells[0].get("signal")
    recs = [{"ok": True, "steps": []} for _ in conns]
    for t in range(T):
        layer({f"k{i}": (torch.tensor(c["pre"][t], dtype=torch.bool).reshape(B, *conn.inshape),)
               for i, (c, conn) in enumerate(zip(cspec, conns))})
        marks = [(len(conn.updater.weight._pos), len(conn.updater.weight._neg)) for conn in conns]
        if sig is None:
            trainer()
        else:
            trainer(reward(sig[t], cells[0]), cells[0].get("scale", 1.0))
        for i, conn in enumerate(conns):
            acc = conn.updater.weight
            sp, sn, kp, kn = new_sum(acc, marks[i][0], marks[i][1], conn.weight)
            recs[i]["steps"].append({"pos": sp, "neg": sn, "npos": kp, "nneg": kn, "apos": flat_like(acc.pos, conn.weight),
                                     "aneg": flat_like(acc.neg, conn.weight)})
    for i, conn in enumerate(conns):
        acc = conn.updater.weight
        before = conn.weight.detach().clone()
        conn.update()
        after = conn.weight.detach().clone()
        recs[i].update({"before": flat(before), "after": flat(after), "pshape": list(before.shape),
                        "cleared": acc.pos is None and acc.neg is None})
    return [recs[c["bic"][0]] for c in cells]


# ------------------------------------------------------------------ kernel trainers with custom half kernels
def two_sided_kernel(diff, *, a_pos, a_neg, c, tc, **kwargs):
    """user-supplied half kernel K(t_delta) = c + (a_pos if t_delta >= 0 else a_neg) * exp(-|t_delta| / tc): non-zero on both
    sides of 0 and / or constant, so that kernel_post and kernel_pre overlap (NaN in, NaN out)"""
    return c + torch.where(diff >= 0, a_pos, a_neg) * torch.exp(-diff.abs() / tc)


def kkw(v):
    return {"a_pos": v[0], "a_neg": v[1], "c": v[2], "tc": v[3]}


def run_kernel_group(defaults, cells):
    """ONE KernelSTDP / DelayAdjustedKernelSTDP / DelayAdjustedKernelSTDPD object built with two_sided_kernel callables and the
    constructor-level kernel keyword arguments / batch reduction `defaults`, driving several cells (real Serial layers built
    by c18_impl.build_cell), each registered with its own overrides (cell["override_keys"] among "post", "pre", "red" of
    its effective hyperparameters cell["trainer"]).  Per step and cell: the two event monitors, the delay, the parts the call
    appended, the accumulated parts; at the end the trained parameter before / after connection.update() with the
    configured bound."""
    from inferno import learn
    cls = defaults["cls"]
    kw = {"delayed": False} if cls == "KernelSTDP" else {}
    tr = getattr(learn, cls)(two_sided_kernel, two_sided_kernel, kkw(defaults["kpost"]), kkw(defaults["kpre"]),
                             batch_reduction=RED[defaults["red"]], **kw)
    KEEP.append(tr)
    param = "delay" if cls.endswith("STDPD") else "weight"
    built = []
    for j, case in enumerate(cells):
        cs, conn, neu, layer = c18_impl.build_cell(case)
        with torch.no_grad():
            conn.weight = torch.full_like(conn.weight, float(case.get("w0", 0.5)))
            if case.get("delay0") is not None and conn.delay is not None:
                conn.delay = torch.tensor(case["delay0"], dtype=torch.float64).reshape(conn.delay.shape)
        t = case["trainer"]
        okw = {}
        for k in case.get("override_keys", []):
            if k == "post":
                okw["kernel_post_kwargs"] = kkw(t["kpost"])
            elif k == "pre":
                okw["kernel_pre_kwargs"] = kkw(t["kpre"])
            elif k == "red":
                okw["batch_reduction"] = RED[t["red"]]
            else:
                raise ValueError(k)
        tr.register_cell(f"c{j}", layer.cell, **okw)
        layer.train()
        acc = getattr(conn.updater, param)
        set_bounds(acc, case.get("bound"))
        built.append((conn, neu, layer, acc, Tap(acc)))
    tr.train()
    T = len(cells[0]["steps"])
    outs = [{"ok": True, "steps": []} for _ in cells]
    for k in range(T):
        for j, (case, (conn, neu, layer, acc, tap)) in enumerate(zip(cells, built)):
            st, B = case["steps"][k], case["B"]
            x = torch.tensor(st["pre"], dtype=torch.float64).reshape(B, *conn.inshape)
            neu.script = [torch.tensor(st["post"], dtype=torch.float64).reshape(B, *conn.outshape)]
            layer(x)
        tr()
        for j, (case, (conn, neu, layer, acc, tap)) in enumerate(zip(cells, built)):
            mon = tr.get_unit(f"c{j}").monitors
            pv = getattr(conn, param)
            newp, newn = tap.new(pv)
            outs[j]["steps"].append({"pre": flat(mon["spike_pre"].peek()), "post": flat(mon["spike_post"].peek()),
                                     "delay": None if conn.delay is None else flat(conn.delay),
                                     "pos": newp, "neg": newn, "apos": flat_like(acc.pos, pv), "aneg": flat_like(acc.neg, pv)})
    for j, (case, (conn, neu, layer, acc, tap)) in enumerate(zip(cells, built)):
        before = getattr(conn, param).detach().clone()
        conn.update()
        after = getattr(conn, param).detach().clone()
        outs[j].update({"before": flat(before), "after": flat(after), "cleared": acc.pos is None and acc.neg is None})
    return outs


def err_record(e):
    import traceback
    return {"ok": False, "err": exc_code(e), "msg": f"{type(e).__name__}: {e}"[:400], "trace": traceback.format_exc()[-1500:]}


def handler(payload):
    out = []
    for c in payload["cases"]:
        try:
            if c["kind"] == "group":
                if c["family"] == "kernel":
                    out.append(run_kernel_group(c["defaults"], c["cells"]))
                    continue
                bic = c.get("layout") == "biclique"
                fn = ((run_homeo_biclique if bic else run_homeo_group) if c["family"] == "homeo"
                      else (run_stdp_biclique if bic else run_stdp_group))
                out.append(fn(c["defaults"], c["cells"]))
            elif c["kind"] == "homeo":
                out.append(run_homeo(c))
            elif c["kind"] == "stdp":
                out.append(run_stdp(c))
            else:
                out.append({"ok": True, "cell": c18_impl.run_cell(c)})
        except Exception as e:  # noqa: BLE001
            r = err_record(e)
            out.append([dict(r) for _ in c["cells"]] if c["kind"] == "group" else r)
    return out


if __name__ == "__main__":
    main(handler)
