"""C08: runs the real STDP-family trainers on real Serial layers (real connection + real DeltaCurrent synapse) whose
postsynaptic neuron is a harness-defined ScriptedNeuron(InfernoNeuron): its output spikes are dictated by the case, so
that every pre/post spike history can be produced.  After every step the trainer is called and the accumulated update
parts (conn.updater.weight.pos / .neg) are recorded; at the end the update is applied and the weight change recorded.

case = {"trainer": "STDP"|"StableSTDP"|"TripletSTDP"|"StableTripletSTDP"|"MSTDP"|"MSTDPET", "mode": "cumulative"|"nearest",
        "hp": {...trainer hyperparameters...}, "dt": float, "conn": "dense"|"direct"|"lateral"|"conv" (+ "conv": {height, width, channels,
        filters, kernel, stride, padding, dilation}; pre/post flattened row-major), "n_in": int, "n_out": int,
        "B": int, "kmax": int|None (max delay in steps; None = connection without delays), "delays": [[k...]...] (steps,
        weight-shaped; fractional values = delays between two steps), "delayed": bool, "reduction": "sum"|"mean"|"amax"|None, "pre": [T][B][n_in] 0/1,
        "post": [T][B][n_out] 0/1, "signal": None | [T] floats | [T][B] floats, "scale": float,
        "signal_forms": None | [T] of None|"t0_f64"|"t0_f32"|"t0_i64" (a scalar reward passed as a 0-d tensor of that dtype),
        "clear_each": bool (apply + clear the update after every step instead of accumulating)}
"""
import math
import torch
from common import main, fhex, exc_code
from inferno import neural, learn
from inferno.neural.base import InfernoNeuron
from inferno.learn.trainers.two_factor_stdp import StableSTDP, StableTripletSTDP

KEEP = []


class ScriptedNeuron(InfernoNeuron):
    """A neuron whose spikes are dictated: forward() ignores its input currents and emits the next scripted output."""

    def __init__(self, shape, step_time, batch_size=1):
        InfernoNeuron.__init__(self, shape, batch_size)
        self.step_time = float(step_time)
        self.register_buffer("spike_", torch.zeros(self.batchedshape, dtype=torch.bool))
        self.script = []
        self.seen = []

    @property
    def dt(self):
        return self.step_time

    @dt.setter
    def dt(self, value):
        self.step_time = float(value)

    @property
    def voltage(self):
        return torch.zeros(self.batchedshape)

    @voltage.setter
    def voltage(self, value):
        pass

    @property
    def refrac(self):
        return torch.zeros(self.batchedshape)

    @refrac.setter
    def refrac(self, value):
        pass

    @property
    def spike(self):
        return self.spike_

    def clear(self, **kwargs):
        self.spike_ = torch.zeros(self.batchedshape, dtype=torch.bool)

    def forward(self, inputs, **kwargs):
        self.seen.append(inputs.detach().clone())
        self.spike_ = self.script.pop(0).reshape(self.batchedshape).clone()
        return self.spike_


RED = {"sum": torch.sum, "mean": torch.mean, "amax": torch.amax, "amin": torch.amin, None: None}


def mk_trainer(case):
    hp, name, mode = case["hp"], case["trainer"], case["mode"]
    red = RED[case.get("reduction")]
    tol = float(case.get("tol", 0.0))
    if name in ("STDP", "StableSTDP"):
        cls = learn.STDP if name == "STDP" else StableSTDP
        return cls(hp["lr_post"], hp["lr_pre"], hp["tc_post"], hp["tc_pre"], delayed=case["delayed"], trace_mode=mode,
                   batch_reduction=red, interp_tolerance=tol)
    if name in ("TripletSTDP", "StableTripletSTDP"):
        cls = learn.TripletSTDP if name == "TripletSTDP" else StableTripletSTDP
        return cls(hp["lr_post"], hp["lr_post_triplet"], hp["lr_pre"], hp["lr_pre_triplet"], hp["tc_post"],
                   hp["tc_post_slow"], hp["tc_pre"], hp["tc_pre_slow"], delayed=case["delayed"], trace_mode=mode,
                   batch_reduction=red, inplace=bool(case.get("inplace", False)), interp_tolerance=tol)
    if name == "MSTDP":
        return learn.MSTDP(hp["lr_post"], hp["lr_pre"], hp["tc_post"], hp["tc_pre"], delayed=case["delayed"],
                           trace_mode=mode, batch_reduction=red, interp_tolerance=tol)
    if name == "MSTDPET":
        return learn.MSTDPET(hp["lr_post"], hp["lr_pre"], hp["tc_post"], hp["tc_pre"], hp["tc_elig"], trace_mode=mode,
                             batch_reduction=red, interp_tolerance=tol)
    raise ValueError(name)


def build_layer(case):
    dt, B, kmax = case["dt"], case["B"], case.get("kmax")
    delay = None if kmax is None else kmax * dt
    syn = neural.DeltaCurrent.partialconstructor(1.0)
    if case["conn"] == "dense":
        conn = neural.LinearDense((case["n_in"],), (case["n_out"],), dt, synapse=syn, delay=delay, batch_size=B)
    elif case["conn"] == "direct":
        conn = neural.LinearDirect((case["n_in"],), dt, synapse=syn, delay=delay, batch_size=B)
    elif case["conn"] == "lateral":
        conn = neural.LinearLateral((case["n_in"],), dt, synapse=syn, delay=delay, batch_size=B)
    elif case["conn"] == "conv":
        cv = case["conv"]
        conn = neural.Conv2D(cv["height"], cv["width"], cv["channels"], cv["filters"], dt, tuple(cv["kernel"]),
                             stride=tuple(cv.get("stride", [1, 1])), padding=tuple(cv.get("padding", [0, 0])),
                             dilation=tuple(cv.get("dilation", [1, 1])), synapse=syn, delay=delay, batch_size=B)
    else:
        raise ValueError(case["conn"])
    with torch.no_grad():
        conn.weight = torch.full_like(conn.weight, 0.5)
        if delay is not None:
            conn.delay = (torch.tensor(case["delays"], dtype=torch.float64) * dt).reshape(conn.delay.shape)
    neuron = ScriptedNeuron(tuple(conn.outshape), dt, batch_size=B)
    layer = neural.Serial(conn, neuron)
    conn.updater = conn.defaultupdater()
    KEEP.append(layer)
    return layer, conn, neuron


def build(case):
    layer, conn, neuron = build_layer(case)
    trainer = mk_trainer(case)
    trainer.register_cell("c", layer.cell)
    KEEP.append(trainer)
    return layer, conn, neuron, trainer


# register_cell keyword names of the hyperparameters (harness name -> keyword), per trainer family
KW_PAIR = {"lr_post": "lr_post", "lr_pre": "lr_pre", "tc_post": "tc_post", "tc_pre": "tc_pre"}
KW_TRIPLET = {"lr_post": "lr_post_pair", "lr_pre": "lr_pre_pair", "lr_post_triplet": "lr_post_triplet",
              "lr_pre_triplet": "lr_pre_triplet", "tc_post": "tc_post_fast", "tc_pre": "tc_pre_fast",
              "tc_post_slow": "tc_post_slow", "tc_pre_slow": "tc_pre_slow"}


def override_kwargs(trainer_name, ov):
    """per-cell overrides {"hp": {...}, "mode", "delayed", "reduction", "tol", "inplace"} -> register_cell keywords"""
    names = KW_TRIPLET if trainer_name in ("TripletSTDP", "StableTripletSTDP") else dict(KW_PAIR)
    if trainer_name == "MSTDPET":
        names = dict(KW_PAIR, tc_elig="tc_eligibility")
    kw = {}
    for k, v in ov.get("hp", {}).items():
        if k in names:
            kw[names[k]] = v
    if "mode" in ov:
        kw["trace_mode"] = ov["mode"]
    if "delayed" in ov and trainer_name != "MSTDPET":
        kw["delayed"] = ov["delayed"]
    if "reduction" in ov:
        kw["batch_reduction"] = RED[ov["reduction"]]
    if "tol" in ov:
        kw["interp_tolerance"] = ov["tol"]
    if "inplace" in ov and trainer_name in ("TripletSTDP", "StableTripletSTDP"):
        kw["inplace"] = ov["inplace"]
    return kw


def run_group(g):
    """ONE trainer object (constructor hyperparameters g["defaults"]) driving several cells, each on its own layer and
    registered with its own keyword overrides (g["cells"][j]["override"], possibly empty); per step every layer runs,
    then the trainer is called once.  Returns one single-case-shaped result per cell."""
    trainer = mk_trainer(dict(g["defaults"], trainer=g["trainer"]))
    KEEP.append(trainer)
    built = []
    for j, cc in enumerate(g["cells"]):
        layer, conn, neuron = build_layer(cc)
        trainer.register_cell(f"cell{j}", layer.cell, **override_kwargs(g["trainer"], cc.get("override", {})))
        layer.train()
        neuron.script = [torch.tensor(p, dtype=torch.bool) for p in cc["post"]]
        built.append((cc, layer, conn, neuron, conn.weight.detach().clone(), [], []))
    trainer.train()
    T = len(g["cells"][0]["pre"])
    sig = g.get("signal")
    for t in range(T):
        for (cc, layer, conn, neuron, w0, steps, synpre) in built:
            x = torch.tensor(cc["pre"][t], dtype=torch.bool).reshape(cc["B"], *conn.inshape)
            if cc["conn"] == "conv":
                synpre.append(conn.like_synaptic(x).to(torch.int64).tolist())
            layer(x)
        call_trainer(trainer, None if sig is None else sig[t], g.get("scale", 1.0), form_at(g, t))
        for (cc, layer, conn, neuron, w0, steps, synpre) in built:
            acc = conn.updater.weight
            steps.append({"pos": flat(acc.pos), "neg": flat(acc.neg)})
    out = []
    for (cc, layer, conn, neuron, w0, steps, synpre) in built:
        wb = conn.weight.detach().clone()
        conn.update()
        out.append({"ok": True, "steps": steps, "dw": flat(conn.weight.detach() - wb), "wshape": list(conn.weight.shape),
                    "w_total": flat(conn.weight.detach() - w0), "synpre": synpre})
    return {"ok": True, "cells": out}


def flat(t):
    return None if t is None else [fhex(v) for v in t.detach().to(torch.float64).reshape(-1).tolist()]


def run(case):
    layer, conn, neuron, trainer = build(case)
    layer.train()
    trainer.train()
    T, B = len(case["pre"]), case["B"]
    w0 = conn.weight.detach().clone()
    neuron.script = [torch.tensor(p, dtype=torch.bool) for p in case["post"]]
    steps, synpre = [], []
    sig = case.get("signal")
    for t in range(T):
        x = torch.tensor(case["pre"][t], dtype=torch.bool).reshape(B, *conn.inshape)
        if case["conn"] == "conv":
            # the presynaptic trains as the synapse receives them (unfolded input): B x N x L
            synpre.append(conn.like_synaptic(x).to(torch.int64).tolist())
        out = layer(x)
        assert torch.equal(out.reshape(B, -1), torch.tensor(case["post"][t], dtype=torch.bool).reshape(B, -1))
        call_trainer(trainer, None if sig is None else sig[t], case.get("scale", 1.0), form_at(case, t))
        acc = conn.updater.weight
        pos, neg = acc.pos, acc.neg
        rec = {"pos": flat(pos), "neg": flat(neg)}
        if case.get("clear_each"):
            wb = conn.weight.detach().clone()
            conn.update()
            rec["dw"] = flat(conn.weight.detach() - wb)
        steps.append(rec)
    wb = conn.weight.detach().clone()
    conn.update()
    return {"ok": True, "steps": steps, "dw": flat(conn.weight.detach() - wb), "wshape": list(conn.weight.shape),
            "w_total": flat(conn.weight.detach() - w0), "synpre": synpre}


FORM_DTYPE = {"t0_f64": torch.float64, "t0_f32": torch.float32, "t0_i64": torch.int64}


def call_trainer(trainer, sig_t, scale, form=None):
    """one trainer call.  The reward of the step is passed as the case says: a python float (default), a 0-d tensor of
    the given dtype (form "t0_f64" / "t0_f32" / "t0_i64": documented to behave like the same python float) or, for a
    list, a 1-d per-sample tensor"""
    if sig_t is None:
        trainer()
    elif isinstance(sig_t, list):
        trainer(torch.tensor(sig_t, dtype=torch.float64), scale)
    elif form in FORM_DTYPE:
        trainer(torch.tensor(sig_t, dtype=FORM_DTYPE[form]), scale)
    else:
        trainer(float(sig_t), scale)


def form_at(case, t):
    f = case.get("signal_forms")
    return None if f is None else f[t]


def set_delays(conn, delays, dt, how):
    """re-assign the learned delays between two steps: through the public setter, or through the Updater (the path
    delay learning takes: an update part new - old is accumulated and applied)"""
    new = (torch.tensor(delays, dtype=torch.float64) * dt).reshape(conn.delay.shape)
    if how == "setter":
        with torch.no_grad():
            conn.delay = new
    else:
        diff = new - conn.delay.detach()
        conn.updater.delay = (diff.clamp_min(0.0), (-diff).clamp_min(0.0))
        conn.update()


def run_scenario(case):
    """a single cell trained over a history with operations BETWEEN steps (case["events"], each {"at": t, "op": ...}
    executed before step t).  The update is applied (and the accumulator cleared) after EVERY trainer call, so that no
    un-applied parts are pending when state is saved / cleared.
      restore   : state_dict of layer and trainer are saved; a TWIN (same construction) that has run >= 1 step on other
                  data ("junk_pre"/"junk_post") loads them and continues the history in place of the original
      clear     : trainer.clear(); layer.clear(); continue
      delay_set / delay_upd : the delays (steps, weight-shaped "delays") are re-assigned by the setter / by the Updater"""
    import copy
    layer, conn, neuron, trainer = build(case)
    layer.train()
    trainer.train()
    T, B = len(case["pre"]), case["B"]
    w_init = conn.weight.detach().clone()
    neuron.script = [torch.tensor(p, dtype=torch.bool) for p in case["post"]]
    events = {}
    for ev in case.get("events", []):
        events.setdefault(ev["at"], []).append(ev)
    sig, scale = case.get("signal"), case.get("scale", 1.0)
    steps = []
    for t in range(T):
        for ev in events.get(t, []):
            if ev["op"] == "restore":
                saved_layer = copy.deepcopy(layer.state_dict())
                saved_trainer = copy.deepcopy(trainer.state_dict())
                layer2, conn2, neuron2, trainer2 = build(case)
                layer2.train()
                trainer2.train()
                neuron2.script = [torch.tensor(p, dtype=torch.bool) for p in ev["junk_post"]]
                for jp in ev["junk_pre"]:
                    layer2(torch.tensor(jp, dtype=torch.bool).reshape(B, *conn2.inshape))
                    call_trainer(trainer2, None if sig is None else ([0.5] * B if isinstance(sig[0], list) else 0.5), scale)
                    conn2.update()
                layer2.load_state_dict(saved_layer)
                trainer2.load_state_dict(saved_trainer)
                layer, conn, neuron, trainer = layer2, conn2, neuron2, trainer2
                neuron.script = [torch.tensor(p, dtype=torch.bool) for p in case["post"][t:]]
            elif ev["op"] == "clear":
                trainer.clear()
                layer.clear()
            elif ev["op"] in ("delay_set", "delay_upd"):
                set_delays(conn, ev["delays"], case["dt"], "setter" if ev["op"] == "delay_set" else "updater")
            else:
                raise ValueError(ev["op"])
        x = torch.tensor(case["pre"][t], dtype=torch.bool).reshape(B, *conn.inshape)
        layer(x)
        call_trainer(trainer, None if sig is None else sig[t], scale, form_at(case, t))
        acc = conn.updater.weight
        rec = {"pos": flat(acc.pos), "neg": flat(acc.neg)}
        wb = conn.weight.detach().clone()
        conn.update()
        rec["dw"] = flat(conn.weight.detach() - wb)
        rec["cleared"] = acc.pos is None and acc.neg is None
        steps.append(rec)
    return {"ok": True, "steps": steps, "dw": flat(torch.zeros_like(conn.weight)), "wshape": list(conn.weight.shape),
            "w_total": flat(conn.weight.detach() - w_init), "synpre": []}


def run_biclique(g):
    """ONE trainer object and ONE Biclique layer (2 dense connections x 2 neuron groups), all four cells registered, each
    with its own keyword overrides (g["cells"][q] = {"bic": [connection, neuron], "override": {...}}).  Cells sharing a
    neuron group observe the same neuron.spike (their monitors are pooled when their tags agree); cells sharing a
    connection observe the same synapse and write into the SAME accumulator.  One result per connection."""
    dt, B = g["dt"], g["B"]
    trainer = mk_trainer(dict(g["defaults"], trainer=g["trainer"]))
    KEEP.append(trainer)
    conns, neurons = [], []
    for cs in g["conns"]:
        delay = None if cs.get("kmax") is None else cs["kmax"] * dt
        conn = neural.LinearDense((cs["n_in"],), (g["n_out"],), dt, synapse=neural.DeltaCurrent.partialconstructor(1.0),
                                  delay=delay, batch_size=B)
        with torch.no_grad():
            conn.weight = torch.full_like(conn.weight, 0.5)
            if delay is not None:
                conn.delay = (torch.tensor(cs["delays"], dtype=torch.float64) * dt).reshape(conn.delay.shape)
        conn.updater = conn.defaultupdater()
        conns.append(conn)
    for post in g["posts"]:
        neu = ScriptedNeuron((g["n_out"],), dt, batch_size=B)
        neu.script = [torch.tensor(p, dtype=torch.bool) for p in post]
        neurons.append(neu)
    layer = neural.Biclique([(f"k{i}", c) for i, c in enumerate(conns)], [(f"n{j}", n) for j, n in enumerate(neurons)])
    KEEP.append(layer)
    for q, cc in enumerate(g["cells"]):
        cell = getattr(getattr(layer.cells, f"k{cc['bic'][0]}"), f"n{cc['bic'][1]}")
        trainer.register_cell(f"c{q}", cell, **override_kwargs(g["trainer"], cc.get("override", {})))
    layer.train()
    trainer.train()
    w0 = [c.weight.detach().clone() for c in conns]
    T = len(g["conns"][0]["pre"])
    sig, scale = g.get("signal"), g.get("scale", 1.0)
    recs = [[] for _ in conns]
    for t in range(T):
        layer({f"k{i}": (torch.tensor(cs["pre"][t], dtype=torch.bool).reshape(B, cs["n_in"]),)
               for i, cs in enumerate(g["conns"])})
        call_trainer(trainer, None if sig is None else sig[t], scale, form_at(g, t))
        for i, conn in enumerate(conns):
            acc = conn.updater.weight
            recs[i].append({"pos": flat(acc.pos), "neg": flat(acc.neg)})
    out = []
    for i, conn in enumerate(conns):
        wb = conn.weight.detach().clone()
        conn.update()
        out.append({"ok": True, "steps": recs[i], "dw": flat(conn.weight.detach() - wb), "wshape": list(conn.weight.shape),
                    "w_total": flat(conn.weight.detach() - w0[i]), "synpre": []})
    return {"ok": True, "cells": out}


def dispatch(c):
    if c.get("kind") == "group":
        return run_group(c)
    if c.get("kind") == "biclique":
        return run_biclique(c)
    if c.get("events") is not None:
        return run_scenario(c)
    return run(c)


def handler(payload):
    out = []
    for c in payload["cases"]:
        try:
            out.append(dispatch(c))
        except Exception as e:  # noqa
            import traceback
            out.append({"ok": False, "err": exc_code(e), "msg": f"{type(e).__name__}: {e}",
                        "trace": traceback.format_exc()[-1500:]})
    return out


if __name__ == "__main__":
    main(handler)
