"""C19 implementation side: runs the REAL spike encoders of /repo on seeded cases.

For every case the encoder gets a freshly seeded torch.Generator; the random draws it consumed are
obtained by REPLAYING the same sampler calls on a second, identically seeded generator (nothing in
inferno or torch is patched).  Output per case: status / exception class, the spike tensor (time-major,
elements flattened row-major), shape and dtype observations, the replayed draws, and whether a second run
from the same generator state reproduced the result.  Online encoders are consumed BOTH ways: slice by slice
(each slice copied out when it is yielded) and gathered with list(...) then stacked without cloning; the
gathered slices are probed for shared storage (data_ptr, in-place mutation).

mode "bern": replays torch.bernoulli on probabilities computed by the Coq model (ties the model's
probability computation to the implementation's sampler input).
"""
import math
import torch
from common import main, exc_code
from inferno.neural import functional as nf
from inferno.neural import HomogeneousPoissonEncoder, HomogeneousPoissonApproxEncoder, PoissonIntervalEncoder

KEEP = []


def gen(seed):
    return torch.Generator().manual_seed(int(seed))


DTYPE = [torch.float64]     # dtype of the input tensors of the case being run ("dtype": "f32" -> float32)


def tens(flat, shape):
    return torch.tensor(flat, dtype=torch.float64).reshape(shape).to(DTYPE[0])


def rows(t, n):
    """tensor with leading time dimension -> list of rows of n python values"""
    return t.reshape(t.shape[0], n).tolist() if t.shape[0] > 0 else []


def boolrows(t, n):
    return [[int(bool(v)) for v in r] for r in rows(t, n)]


GENS = {}        # id(generator object) -> the seed it was created with (generators made during the current run)
GEN_OBJS = []


def newgen(seed):
    g = gen(seed)
    GENS[id(g)] = int(seed)
    GEN_OBJS.append(g)
    return g


def gid(g):
    """which generator an encoder reports: None (global RNG), the seed of a generator made in this run, or 'unknown'"""
    if g is None:
        return None
    return GENS.get(id(g), "unknown")


def getters(enc, k):
    return [enc.steps, enc.dt, enc.frequency, enc.compensated if k == "hpe" else None,
            enc.refrac if k == "hpe" else None, enc.duration, gid(enc.generator)]


def apply_assignments(enc, case, trace):
    """property assignments after construction; after each one: exception class (or None) and every getter"""
    k = case["kind"]
    for attr, val in case.get("assign", []):
        err, extra = None, None
        try:
            if attr == "generator":
                g2 = None if val is None else newgen(val)
                enc.generator = g2
                extra = enc.generator is g2
            else:
                setattr(enc, attr, val)
        except Exception as e:  # noqa
            err = exc_code(e)
            extra = f"{type(e).__name__}: {e}"[:160]
        trace.append([err, getters(enc, k), extra])


def optional(case, g, names):
    """keyword arguments of a constructor / functional encoder; those listed in case["omit"] are left out, so the
    DOCUMENTED defaults (hard-coded in the harness: refrac=None, compensate=True, generator=None) apply"""
    if "gen0" in case:
        GENS[id(g)] = int(case["seed"])
        g = None if case["gen0"] is None else newgen(case["gen0"])
    full = {"refrac": case.get("refrac"), "compensate": case.get("comp"), "generator": g}
    return {k: v for k, v in full.items() if k in names and k not in case.get("omit", [])}


def build(case, g):
    if "ctor" in case:
        case = dict(case, **case["ctor"])
    k = case["kind"]
    if k == "hpe":
        return HomogeneousPoissonEncoder(case["steps"], case["dt"], case["freq"],
                                         **optional(case, g, ("refrac", "compensate", "generator")))
    if k == "hpa":
        return HomogeneousPoissonApproxEncoder(case["steps"], case["dt"], case["freq"], **optional(case, g, ("generator",)))
    if k == "pie":
        return PoissonIntervalEncoder(case["steps"], case["dt"], case["freq"], **optional(case, g, ("generator",)))
    raise AssertionError(k)


def before_encoding(case, second_run):
    """generator semantics: with generator None the output is a function of the GLOBAL RNG state (seeded here), with a
    private generator it is a function of that generator only.  In the second run everything that must NOT matter
    is perturbed: the private generators that were assigned earlier (global case), the global RNG (private case)."""
    if "gen0" not in case:
        return
    if case["gen_final"] is None:
        if second_run:
            for g in GEN_OBJS:
                torch.rand(7, generator=g)
        torch.manual_seed(case["gseed"])
    else:
        torch.manual_seed(case["gseed"] + (1 if second_run else 0))


def call(case, g, out=None, second_run=False):
    """returns the encoder's return value (tensor or iterator); may raise (constructor errors included)"""
    k = case["kind"]
    shape = case["shape"]
    GENS.clear()
    GEN_OBJS.clear()
    if k in ("hpe", "hpa", "pie"):
        enc = build(case, g)
        KEEP.append(enc)
        if "assign" in case:
            trace = []
            if out is not None:
                out["getters0"] = getters(enc, k)
                out["setter_trace"] = trace
            apply_assignments(enc, case, trace)
            if out is not None:
                out["stage"] = "forward"
        before_encoding(case, second_run)
        if out is not None:
            out["global_state0"] = torch.get_rng_state().clone()
        return enc(tens(case["x"], shape), online=case["online"])
    if k == "f_inhomog":
        return nf.inhomogeneous_poisson_bernoulli_approx(tens(case["x"], [case["steps"]] + shape), case["dt"], generator=g)
    inp = tens(case["x"], shape)
    if k == "f_exp":
        f = nf.homogeneous_poisson_exp_interval_online if case["online"] else nf.homogeneous_poisson_exp_interval
        return f(inp, case["steps"], case["dt"], **optional(case, g, ("refrac", "compensate", "generator")))
    if k == "f_pint":
        f = nf.poisson_interval_online if case["online"] else nf.poisson_interval
        return f(inp, case["steps"], case["dt"], generator=g)
    if k == "f_bern":
        f = nf.homogenous_poisson_bernoulli_approx_online if case["online"] else nf.homogenous_poisson_bernoulli_approx
        return f(inp, case["steps"], case["dt"], generator=g)
    raise AssertionError(k)


class Replayer:
    """performs, on a second generator, the sampler calls the encoder is documented (by its source) to make"""

    def __init__(self, case):
        self.case = case
        seed = case["seed"]
        for attr, val in case.get("assign", []):
            if attr == "generator":
                seed = val          # the draws come from the generator assigned last
        if "gen0" in case:
            # generator None: the global RNG after torch.manual_seed(gseed) - the same mt19937 stream as a private
            # generator seeded with gseed
            seed = case["gseed"] if case["gen_final"] is None else case["gen_final"]
        self.g = gen(seed)
        k = case["kind"]
        self.family = {"hpe": "exp", "f_exp": "exp", "pie": "pint", "f_pint": "pint"}.get(k, "bern")
        shape = case["shape"]
        x = tens(case["x"], shape) if k != "f_inhomog" else None
        if k in ("hpe", "pie"):
            x = case["freq"] * x
        self.inp = x
        if self.family == "pint":
            mask = x > 0
            rates = (1 / x) * (1000.0 / case["dt"])
            rates[~mask] = 0
            self.rates = rates

    def initial(self):
        c = self.case
        shape = c["shape"]
        n = int(math.prod(shape))
        if self.family == "exp":
            if c["online"]:
                return {"draws0": torch.empty(shape).exponential_(1.0, generator=self.g).reshape(-1).tolist()}
            refrac = c["dt"] if c["refrac"] is None else c["refrac"]
            r = refrac / c["dt"]
            nb = int(int(c["steps"]) // max(r, 1))
            d = torch.empty(nb, *shape).exponential_(1.0, generator=self.g)
            return {"draws": rows(d, n), "nbins": nb}
        if self.family == "pint":
            if c["online"]:
                return {"draws0": torch.poisson(self.rates, generator=self.g).reshape(-1).tolist()}
            d = torch.poisson(self.rates.expand(int(c["steps"]) + 2, *shape), generator=self.g)
            return {"draws": rows(d, n)}
        return {}

    def step(self, spikes):
        """draws consumed after a yielded slice (online encoders)"""
        if self.family == "exp":
            k = int(spikes.sum())
            return torch.empty(k).exponential_(1.0, generator=self.g).tolist()
        if self.family == "pint":
            return torch.poisson(self.rates[spikes], generator=self.g).tolist()
        return []


class StubLayer:
    """ADVERSARIAL SCHEDULES: inside this harness process only, every sampling primitive an encoder may draw from
    is replaced by a stub that hands out values from a schedule chosen by the case generator (cyclic streams
    "exp" for exponential_, "pois" for poisson, "unif" for bernoulli / rand / rand_like / uniform_ / bernoulli_;
    bernoulli(p) is [u < p], the documented meaning).  Every call is logged, the log is what the Coq model is fed.
    Fail closed: the encoder gets a real seeded generator; if its state (or the global RNG's) has changed after
    the call, the encoder drew from a primitive this layer does not cover."""

    def __init__(self, sched):
        self.sched = sched
        self.pos = {k: 0 for k in sched}
        self.log = []

    def take(self, stream, n):
        src = self.sched.get(stream) or [0.5]
        p = self.pos.get(stream, 0)
        vals = [src[(p + i) % len(src)] for i in range(n)]
        self.pos[stream] = p + n
        return vals

    def _t(self, vals, shape, dtype):
        return torch.tensor(vals, dtype=torch.float64).reshape(shape).to(dtype if dtype is not None else DTYPE[0])

    def __enter__(self):
        L = self
        self.saved = {n: getattr(torch, n) for n in ("poisson", "bernoulli", "rand", "rand_like")}

        def exponential_(self, lambd=1.0, *, generator=None):
            vals = L.take("exp", self.numel())
            self.copy_(L._t(vals, self.shape, self.dtype) / lambd)
            L.log.append({"prim": "exponential_", "shape": list(self.shape), "vals": vals})
            return self

        def uniform_(self, a=0.0, b=1.0, *, generator=None):
            vals = L.take("unif", self.numel())
            self.copy_(a + (b - a) * L._t(vals, self.shape, self.dtype))
            L.log.append({"prim": "uniform_", "shape": list(self.shape), "vals": vals})
            return self

        def bernoulli_(self, p=0.5, *, generator=None):
            vals = L.take("unif", self.numel())
            self.copy_((L._t(vals, self.shape, torch.float64) < p).to(self.dtype))
            L.log.append({"prim": "bernoulli_", "shape": list(self.shape), "vals": vals})
            return self

        def poisson(input, generator=None):
            vals = L.take("pois", input.numel())
            out = L._t(vals, input.shape, input.dtype)
            out = torch.where(input == 0, torch.zeros_like(out), out)      # the sampler returns 0 at rate 0
            L.log.append({"prim": "poisson", "shape": list(input.shape), "vals": out.reshape(-1).tolist()})
            return out

        def bernoulli(input, *args, generator=None, **kw):
            if args or kw.get("p") is not None:
                raise RuntimeError("stub layer: torch.bernoulli(input, p) is not covered")
            vals = L.take("unif", input.numel())
            L.log.append({"prim": "bernoulli", "shape": list(input.shape), "vals": vals})
            return (L._t(vals, input.shape, torch.float64) < input.to(torch.float64)).to(input.dtype)

        def rand(*size, generator=None, dtype=None, device=None, **kw):
            if len(size) == 1 and isinstance(size[0], (tuple, list, torch.Size)):
                size = tuple(size[0])
            n = int(math.prod(size))
            vals = L.take("unif", n)
            L.log.append({"prim": "rand", "shape": list(size), "vals": vals})
            return L._t(vals, size, dtype or torch.get_default_dtype())

        def rand_like(input, **kw):
            vals = L.take("unif", input.numel())
            L.log.append({"prim": "rand_like", "shape": list(input.shape), "vals": vals})
            return L._t(vals, input.shape, kw.get("dtype") or input.dtype)

        torch.Tensor.exponential_ = exponential_
        torch.Tensor.uniform_ = uniform_
        torch.Tensor.bernoulli_ = bernoulli_
        torch.poisson, torch.bernoulli, torch.rand, torch.rand_like = poisson, bernoulli, rand, rand_like
        return self

    def __exit__(self, *a):
        for n in ("exponential_", "uniform_", "bernoulli_"):
            delattr(torch.Tensor, n)          # the inherited C implementations are visible again
        for n, f in self.saved.items():
            setattr(torch, n, f)


class NoStub:
    log = None

    def __enter__(self):
        return self

    def __exit__(self, *a):
        pass


def draws_from_log(case, log, n):
    """arrange the logged draws the way the Coq model takes them"""
    fam = {"hpe": "exp", "f_exp": "exp", "pie": "pint", "f_pint": "pint"}.get(case["kind"], "bern")
    if fam == "bern":
        flat = [v for e in log for v in e["vals"]]
        return {"unif_rows": [flat[i:i + n] for i in range(0, len(flat), n)], "prims": sorted({e["prim"] for e in log})}
    out = {"prims": sorted({e["prim"] for e in log})}
    if not log:
        return out
    first = log[0]["vals"]
    if case["online"]:
        out["draws0"] = first
        out["draws_steps_all"] = [e["vals"] for e in log[1:]]
    else:
        out["draws"] = [first[i:i + n] for i in range(0, len(first), n)]
        out["extra_calls"] = len(log) - 1
    return out


def alias_probe(slices):
    """do distinct yielded slices share memory?  (i) equal data pointers, (ii) mutation probe: flipping one
    slice in place must leave every other slice unchanged"""
    ptrs = [s.data_ptr() for s in slices if s.numel() > 0]
    shared_ptr = len(set(ptrs)) != len(ptrs)
    snap = [s.clone() for s in slices]
    leak = False
    for i, s in enumerate(slices):
        if s.numel() == 0:
            continue
        s.logical_not_()
        for j, o in enumerate(slices):
            if j != i and not torch.equal(o, snap[j]):
                leak = True
        s.copy_(snap[i])
    return {"shared_data_ptr": shared_ptr, "mutation_leaks": leak}


def run_once(case, want_draws, gather=False):
    """online encoders are consumed in one of two ways: slice by slice, copying each slice out as soon as it is
    yielded (gather=False; also replays the draws), or gathered with list(...) and only then stacked, without
    cloning (gather=True; also probes the gathered slices for shared storage)"""
    n = int(math.prod(case["shape"]))
    out = {"status": "ok", "exc": None, "msg": None, "out": [], "nslices": 0, "shape_ok": True, "dtype_ok": True,
           "stage": None}
    rep = None
    DTYPE[0] = torch.float32 if case.get("dtype") == "f32" else torch.float64
    stub = StubLayer(case["stub"]) if case.get("stub") else NoStub()
    if want_draws and not case.get("stub"):
        try:
            rep = Replayer(case)
            out.update(rep.initial())
        except Exception as e:  # replay impossible (malformed configuration): the encoder will raise as well
            rep = None
            out["replay_error"] = f"{type(e).__name__}: {e}"[:200]
    g = gen(case["seed"])
    g_state, glob_state = g.get_state().clone(), torch.get_rng_state().clone()
    try:
        with stub:
            out["stage"] = "call"
            res = call(case, g, out, second_run=gather)
            if torch.is_tensor(res):
                out["shape_ok"] = list(res.shape) == [int(case["steps"])] + list(case["shape"])
                out["dtype_ok"] = res.dtype == torch.bool
                out["out_shape"] = list(res.shape)
                out["out"] = boolrows(res, n) if res.ndim >= 1 and res.numel() == res.shape[0] * n else []
                out["nslices"] = int(res.shape[0]) if res.ndim >= 1 else 0
            elif gather:
                out["stage"] = "iterate"
                slices = list(res)
                out["nslices"] = len(slices)
                out["shape_ok"] = all(list(s.shape) == list(case["shape"]) for s in slices)
                out["dtype_ok"] = all(s.dtype == torch.bool for s in slices)
                if slices and out["shape_ok"]:
                    out["out"] = boolrows(torch.stack(slices), n)
                    out["alias"] = alias_probe(slices)
            else:
                out["stage"] = "iterate"
                sl = []
                stepdraws = []
                out["draws_steps"] = stepdraws
                for s in res:
                    out["shape_ok"] = out["shape_ok"] and list(s.shape) == list(case["shape"])
                    out["dtype_ok"] = out["dtype_ok"] and s.dtype == torch.bool
                    sl.append([int(bool(v)) for v in s.reshape(-1).tolist()])
                    out["out"] = sl
                    out["nslices"] = len(sl)
                    if rep is not None:
                        stepdraws.append(rep.step(s))
    except Exception as e:  # noqa
        out["status"] = "raised"
        out["exc"] = exc_code(e)
        out["msg"] = f"{type(e).__name__}: {e}"[:240]
    st0 = out.pop("global_state0", None)
    if st0 is not None:
        out["global_rng_consumed"] = not torch.equal(torch.get_rng_state(), st0)
    if stub.log is not None:
        out.update(draws_from_log(case, stub.log, n))
        if "draws_steps_all" in out:
            out["draws_steps"] = out.pop("draws_steps_all")[:max(out["nslices"], 0)]
        # fail closed: a sampling primitive outside the stub layer would have advanced a real generator
        out["rng_consumed"] = (not torch.equal(g.get_state(), g_state)
                               or not torch.equal(torch.get_rng_state(), glob_state))
    return out


def run_case(case):
    a = run_once(case, True)
    b = run_once(case, False, gather=True)
    a["repro"] = (a["status"] == b["status"] and a["out"] == b["out"] and a["exc"] == b["exc"])
    # second consumption mode of the online encoders (same generator seed): gather, then stack
    a["gather"] = {"status": b["status"], "exc": b["exc"], "msg": b["msg"], "out": b["out"], "nslices": b["nslices"],
                   "shape_ok": b["shape_ok"], "dtype_ok": b["dtype_ok"], "alias": b.get("alias")}
    return a


def bern_replay(c):
    """torch.bernoulli on the MODEL's probabilities with the case's seed, same call pattern as the encoder"""
    g = gen(c["seed"])
    shape = c["shape"]
    n = int(math.prod(shape))
    if c["kind"] == "f_inhomog":
        p = tens(c["probs"], [c["steps"]] + shape)
        return boolrows(torch.bernoulli(p, generator=g).bool(), n)
    p = tens(c["probs"], shape)
    if c["online"]:
        return [[int(bool(v)) for v in torch.bernoulli(p, generator=g).bool().reshape(-1).tolist()]
                for _ in range(c["steps"])]
    import einops as ein
    return boolrows(torch.bernoulli(ein.repeat(p, "... -> t ...", t=int(c["steps"])), generator=g).bool(), n)


def probes():
    """side observations about the encoder classes that are outside the C19 statement (reported in the
    evidence, never as failures): setter paths and constructor validation"""
    out = {}

    def attempt(name, f):
        try:
            f()
            out[name] = "ok"
        except Exception as e:  # noqa
            out[name] = f"{type(e).__name__}: {e}"[:160]

    def approx_freq():
        e = HomogeneousPoissonApproxEncoder(5, 1.0, 100.0)
        e.frequency = 50.0

    def refrac_none():
        e = HomogeneousPoissonEncoder(5, 1.0, 100.0, refrac=2.0)
        e.refrac = None

    def ctor_out_of_domain():
        HomogeneousPoissonEncoder(4, 1.0, 2000.0, refrac=2.0, compensate=True)

    def setter_out_of_domain():
        e = HomogeneousPoissonEncoder(4, 1.0, 100.0, refrac=2.0, compensate=True)
        e.frequency = 2000.0

    attempt("HomogeneousPoissonApproxEncoder.frequency = 50.0", approx_freq)
    attempt("HomogeneousPoissonEncoder.refrac = None", refrac_none)
    attempt("HomogeneousPoissonEncoder(frequency=2000, refrac=2, compensate=True) [constructor]", ctor_out_of_domain)
    attempt("HomogeneousPoissonEncoder.frequency = 2000 with refrac=2, compensate=True [setter]", setter_out_of_domain)
    return out


def handler(payload):
    if payload.get("mode") == "bern":
        return [bern_replay(c) for c in payload["cases"]]
    res = [run_case(c) for c in payload["cases"]]
    if payload.get("probes"):
        res.append({"probes": probes()})
    return res


if __name__ == "__main__":
    main(handler)
