"""Runs RecordTensor.select / RecordTensor.insert sequences on the real implementation (float64);
canonical traces out.  For every successful tensor-time select the same times are also selected one by
one through the scalar-time branch (aux), so the harness can check the two branches against each other."""
import torch
from common import main, exc_code, fhex
from inferno.core.infrastructure import Module, RecordTensor
from inferno.functional import interpolation as I, extrapolation as E

KEEP = []  # RecordTensor only weak-references its owner
SDT = {"f64": torch.float64, "f32": torch.float32, "i64": torch.int64, "bool": torch.bool}   # storage / observation / time types


def probe_older(prev_data, next_data, sample_at, step_time):
    """harness probe (not a shipped kernel): makes 'interpolated, and from which older sample' observable"""
    return prev_data + 100.0


def probe_newer(prev_data, next_data, sample_at, step_time):
    return next_data + 300.0


def interp_of(ic, par):
    if ic == 0:
        return I.interp_previous, None
    if ic == 1:
        return I.interp_next, None
    if ic == 2:
        return I.interp_nearest, None
    if ic == 3:
        return I.interp_linear, None
    if ic == 4:
        return I.interp_expdecay, {"time_constant": par}
    if ic == 5:
        return I.interp_expratedecay, {"rate_constant": par}
    return (probe_older if ic == 6 else probe_newer), None


def extrap_of(ec, par):
    if ec == 0:
        return E.extrap_previous, None
    if ec == 1:
        return E.extrap_next, None
    if ec == 2:
        return E.extrap_neighbors, None
    if ec == 3:
        return E.extrap_nearest, None
    if ec in (4, 5):
        fn = E.extrap_linear_forward if ec == 4 else E.extrap_linear_backward
        return fn, ({"adjust": (lambda x: x * par)} if par != 0 else None)
    if ec == 6:
        return E.extrap_expdecay, {"time_constant": par}
    return E.extrap_expratedecay, {"rate_constant": par}


def flat(t):
    return [fhex(float(v)) for v in t.reshape(-1).tolist()]


def snapshot(rt):
    v = rt.value
    if v is None:
        return [rt.recordsz, rt.pointer, 0]
    if v.numel() == 0 and v.ndim <= 1:
        return [rt.recordsz, rt.pointer, 1]
    return [rt.recordsz, rt.pointer, 2, list(v.shape[1:]), [flat(v[i]) for i in range(v.shape[0])]]


def make(n, dt, shape=None, persist=False):
    """a record of n slots with step time dt; persist=True: zero-initialised storage, data and temporal
    configuration (dt, duration, inclusive) travel with the state dictionary / the extra state"""
    owner = Module()
    KEEP.append(owner)
    # duration chosen in the middle of a step so that ceil(duration / dt) + 1 == N whatever the rounding
    duration = dt * (n - 1.5) if n >= 2 else 0.0
    if persist:
        RecordTensor.create(owner, "rec", dt, duration, torch.zeros(shape, dtype=torch.float64), inclusive=True,
                            persist_data=True, persist_temporal=True)
    else:
        RecordTensor.create(owner, "rec", dt, duration, None, inclusive=True)
    rt = owner.rec
    assert rt.recordsz == n, (rt.recordsz, n)
    assert rt.dt == dt
    return owner


def build(case):
    return make(case["N"], case["dt"]).rec


def restore(dst, src, via):
    """change the temporal configuration of dst's record to that of src's without going through the
    record's setters: checkpoint restore (data, pointer, dt, duration) or the extra state alone"""
    if via == "lsd":
        dst.load_state_dict(src.state_dict())
    else:
        dst.set_extra_state(dict(src.get_extra_state()))


RDT = {v: k for k, v in SDT.items()}


def keep(kwargs, omit):
    """leave the omitted optional keywords out of the call altogether (the library's defaults apply)"""
    return {k: v for k, v in kwargs.items() if k not in omit}


def apply(rt, op, shape, sdt=torch.float64, tdt=torch.float64, omit=(), odt=None):
    """sdt: data type of the observations pushed (the first push into None storage creates storage of that
    type); odt: data type of the observation of this insert (default: the storage type); tdt: data type of the
    time tensors (the times of a float32 case are float32 values already, so the cast is exact); scalar times
    are python floats; omit: names of optional arguments NOT passed in this call"""
    k = op[0]
    aux = None
    odt = sdt if odt is None else odt
    if k == "fill":
        for row in op[1]:
            rt.push(torch.tensor(row, dtype=torch.float64).reshape(shape).to(sdt), inplace=True)
        return [1], aux
    if k == "push":
        rt.push(torch.tensor(op[1], dtype=torch.float64).reshape(shape).to(sdt), inplace=True)
        return [1], aux
    if k == "incr":
        return [2, rt.incr(op[1])], aux
    if k == "selS":
        _, tol, off, t, ic, par = op
        fn, kw = interp_of(ic, par)
        ka = keep({"interp": fn, "tolerance": tol, "offset": off, "interp_kwargs": kw}, omit)
        r = rt.select(t, **ka)
        return [3, list(r.shape), flat(r)], aux
    if k == "selT":
        _, tol, off, tshape, times, ic, par = op
        fn, kw = interp_of(ic, par)
        tt = torch.tensor(times, dtype=torch.float64).reshape(tshape).to(tdt)
        assert tt.double().reshape(-1).tolist() == [float(x) for x in times]
        ka = keep({"interp": fn, "tolerance": tol, "offset": off, "interp_kwargs": kw}, omit)
        r = rt.select(tt, **ka)
        # the same times through the scalar branch, element by element
        nel = 1
        for d in shape:
            nel *= d
        per = len(times) // max(nel, 1)
        aux = []
        for e in range(nel):
            row = []
            for j in range(per):
                rs = rt.select(float(times[e * per + j]), **ka)
                row.append(fhex(float(rs.reshape(-1)[e].item())))
            aux.append(row)
        if len(tshape) == len(shape):
            return [3, list(r.shape), flat(r)], aux
        d = r.shape[-1]
        return [4, list(r.shape[:-1]), [[fhex(float(x)) for x in row] for row in r.reshape(-1, d).tolist()]], aux
    if k == "insS":
        _, sh, els, tol, off, t, ec, par, inplace = op
        fn, kw = extrap_of(ec, par)
        ka = keep({"extrap": fn, "tolerance": tol, "offset": off, "inplace": inplace, "extrap_kwargs": kw}, omit)
        rt.insert(torch.tensor(els, dtype=torch.float64).reshape(sh).to(odt), t, **ka)
        return [1], aux
    if k == "insT":
        _, sh, els, tol, off, tsh, times, ec, par, inplace = op
        fn, kw = extrap_of(ec, par)
        ka = keep({"extrap": fn, "tolerance": tol, "offset": off, "inplace": inplace, "extrap_kwargs": kw}, omit)
        rt.insert(torch.tensor(els, dtype=torch.float64).reshape(sh).to(odt),
                  torch.tensor(times, dtype=torch.float64).reshape(tsh).to(tdt), **ka)
        return [1], aux
    raise AssertionError(k)


def step(rt, op, case, i):
    """one trace entry: [output or error, snapshot, aux, storage data type (None while there is no storage)]"""
    aux = None
    try:
        od = case.get("odt", {}).get(str(i))
        o, aux = apply(rt, op, case["shape"], SDT[case.get("dtype", "f64")], SDT[case.get("tdtype", "f64")],
                       tuple(case.get("omit", {}).get(str(i), ())), None if od is None else SDT[od])
        out = [0, o]
    except Exception as e:  # noqa
        c = exc_code(e)
        out = [1, c] if c != 9 else [1, 9, f"{type(e).__name__}: {e}"[:200]]
    v = rt.value
    return [out, snapshot(rt), aux, None if v is None else RDT.get(v.dtype, str(v.dtype))]


def run_case(case):
    r = case.get("restore")
    if r is None:
        rt = build(case)
        return [step(rt, op, case, i) for i, op in enumerate(case["ops"])]
    # the record under test is built with ANOTHER step time (same number of slots) and receives the
    # case's step time from a second record; operations before the restore run on that second record
    n, shape = case["N"], case["shape"]
    src = make(n, case["dt"], shape, persist=True)
    dst = make(n, r["dt0"], shape, persist=True)
    tr = []
    for i, op in enumerate(case["ops"]):
        if i == r["at"]:
            restore(dst, src, r["via"])
        rt = (dst if i >= r["at"] else src).rec
        tr.append(step(rt, op, case, i) + [fhex(rt.dt), rt.recordsz])
    return tr


def handler(payload):
    return [run_case(c) for c in payload["cases"]]


if __name__ == "__main__":
    main(handler)
