"""C11: a batch of B samples vs B independent batch-size-1 copies, compared at every step, on the real code."""
import copy, math, random
import torch
from common import main
import factory
from inferno import neural, learn, functional

CLOSE_REL, CLOSE_ABS = 1e-9, 1e-12


def maxdiff(a, b):
    a, b = a.to(torch.float64), b.to(torch.float64)
    if a.shape != b.shape:
        return math.inf
    if a.numel() == 0:
        return 0.0
    d = (a - b).abs()
    tol = CLOSE_ABS + CLOSE_REL * torch.maximum(a.abs(), b.abs())
    bad = (d > tol) & ~(torch.isnan(a) & torch.isnan(b))
    return float(d[bad].max()) if bad.any() else 0.0


def copy_params(big, small):
    """identical parameters: weights/biases/delays copied from the batched module (batch-dependent state excluded)"""
    sb = dict(big.named_parameters())
    for n, p in small.named_parameters():
        if n in sb and p.shape == sb[n].shape:
            with torch.no_grad():
                p.copy_(sb[n])


def scale_weights(mod, k):
    """dyadic weights large enough for the neurons to fire"""
    with torch.no_grad():
        for n, p in mod.named_parameters():
            if n.endswith("weight") or n.endswith("weight_"):
                p.copy_(((p * k) * 4).round() / 4)


def rand_spikes(g, shape, p):
    return torch.rand(shape, generator=g) < p


def resize_path(case):
    """[] for the constructor-sized objects; otherwise the batch sizes the batched object goes through before it is
    set to B with the ``batchsz`` setter (first one given to the constructor)"""
    rz = case.get("resize")
    return list(rz["path"]) if rz else []


def set_batch(mods, size, clear, clear_first):
    """batch size through the documented setters; ``clear``: the modules that do not return to their initial state
    by themselves in the setter (synapses, connections) are cleared explicitly, before or after the resize"""
    for m in mods:
        if clear and clear_first:
            m.clear()
        m.batchsz = size
        if clear and not clear_first:
            m.clear()


def run_neuron(case):
    spec, B, T = case["spec"], case["B"], case["T"]
    g = torch.Generator().manual_seed(case["seed"])
    path = resize_path(case)
    big = factory.build_neuron(dict(spec, batch=path[0] if path else B))
    if path:
        kw0 = {"adapt": False} if spec["cls"] in factory.ADAPTIVE else {}
        for k, b0 in enumerate(path):
            if k:
                big.batchsz = b0
            for _ in range(case["resize"]["warm"]):
                xw = (torch.rand((b0, *spec["shape"]), generator=g) * case.get("scale", 80.0) - 10.0)
                big((xw * 8).round() / 8, **kw0)
        big.batchsz = B        # the neuron setter itself returns the group to its initial state (no explicit clear)
        if tuple(big.voltage.shape) != (B, *spec["shape"]):
            return {"ok": False, "detail": f"voltage shape {tuple(big.voltage.shape)} after batchsz={B}", "what": "shape"}
    small = [factory.build_neuron(dict(spec, batch=1)) for _ in range(B)]
    adaptive = spec["cls"] in factory.ADAPTIVE
    kw = {"adapt": False} if adaptive else {}
    worst, where, nsp = 0.0, None, 0
    # exact coincidences (case["exact"]): per-sample phases of EXACTLY zero input lasting several steps while other samples
    # are driven (phases out of step between the samples), optionally the same input for all neurons of a sample (they
    # fire together and sit at the reset voltage together), optionally per-sample state assignments through the setters
    # (voltage exactly at rest / reset / threshold, refractory time left) - identical in the batch and in the copies
    ex = case.get("exact")
    if ex:
        import random as _r
        rnd = _r.Random(case["seed"] + 2)
        on = []
        for b in range(B):
            row, state = [], rnd.random() < 0.6
            while len(row) < T:
                row += [state] * rnd.randint(1, 5)
                state = not state
            on.append(row[:T])
        on = torch.tensor(on, dtype=torch.float64)
        nd = big.voltage.dim() - 1
    for t in range(T):
        x = (torch.rand((B, *spec["shape"]), generator=g) * case.get("scale", 80.0) - 10.0)
        x = (x * 8).round() / 8
        if ex:
            if ex.get("uniform"):
                x = x.reshape(B, -1)[:, :1].reshape((B,) + (1,) * nd).expand_as(x).clone()
            x = x * on[:, t].reshape((B,) + (1,) * nd)
            if ex.get("setstate") and rnd.random() < 0.2:
                pick = torch.tensor([rnd.random() < 0.5 for _ in range(B)])
                if pick.any():
                    vals = ex["levels"]
                    v, r = big.voltage.clone(), big.refrac.clone()
                    v[pick] = rnd.choice(vals)
                    r[pick] = rnd.choice([0.0, spec["dt"], 2 * spec["dt"], 2.5 * spec["dt"]])
                    big.voltage, big.refrac = v, r
                    for b in range(B):
                        small[b].voltage, small[b].refrac = v[b:b + 1].clone(), r[b:b + 1].clone()
        sb = big(x, **kw)
        nsp += int(sb.sum())
        for b in range(B):
            ss = small[b](x[b:b + 1], **kw)
            if not torch.equal(sb[b:b + 1], ss):
                # tolerate only exact-threshold rounding ties
                return {"ok": False, "detail": f"step {t} sample {b}: spikes differ", "step": t, "what": "spike"}
            for nm in ("voltage", "refrac"):
                d = maxdiff(getattr(big, nm)[b:b + 1], getattr(small[b], nm))
                if d > worst:
                    worst, where = d, f"step {t} sample {b} {nm}"
            if not torch.equal(big.spike[b:b + 1], small[b].spike):
                return {"ok": False, "detail": f"step {t} sample {b}: spike attribute differs", "step": t, "what": "spikeattr"}
    return {"ok": worst == 0.0, "detail": where, "maxdiff": worst, "events": nsp}


def run_synapse(case):
    spec, B, T = case["spec"], case["B"], case["T"]
    g = torch.Generator().manual_seed(case["seed"])
    path = resize_path(case)
    big = factory.build_synapse(dict(spec, batch=path[0] if path else B))
    small = [factory.build_synapse(dict(spec, batch=1)) for _ in range(B)]
    worst, where, nsp = 0.0, None, 0
    dmax = spec.get("kw", {}).get("delay", 0.0)
    if path:
        rz = case["resize"]
        for k, b0 in enumerate(path):
            if k:
                big.batchsz = b0
            for _ in range(rz["warm"]):
                xw = rand_spikes(g, (b0, *spec["shape"]), 0.5)
                ew = ((torch.rand((b0, *spec["shape"]), generator=g) * 16).round() / 8,) \
                    if spec["cls"] == "DeltaPlusCurrent" else ()
                big(xw, *ew)
                if dmax > 0:       # delayed reads at the old batch size (anything cached there must not survive)
                    big.current_at(torch.rand((b0, *spec["shape"], 2), generator=g) * dmax)
                    big.spike_at(torch.rand((b0, *spec["shape"], 2), generator=g) * dmax)
        set_batch([big], B, True, rz.get("clear_first", False))
    for t in range(T):
        x = rand_spikes(g, (B, *spec["shape"]), 0.35)
        nsp += int(x.sum())
        extra = ()
        if spec["cls"] == "DeltaPlusCurrent":
            extra = (((torch.rand((B, *spec["shape"]), generator=g) * 16).round() / 8),)
        ob = big(x, *extra)
        # (selectors with a trailing D axis on an undelayed synapse are a C04 matter, not a batch matter)
        sel = (torch.rand((B, *spec["shape"], 2) if dmax > 0 else (B, *spec["shape"]), generator=g) * dmax)
        if case.get("ongrid"):
            sel = (sel / spec["dt"]).round() * spec["dt"]
        for b in range(B):
            os_ = small[b](x[b:b + 1], *(e[b:b + 1] for e in extra))
            for nm, (u, v) in {"out": (ob[b:b + 1], os_), "current": (big.current[b:b + 1], small[b].current),
                               "spike": (big.spike[b:b + 1], small[b].spike),
                               "current_at": (big.current_at(sel)[b:b + 1], small[b].current_at(sel[b:b + 1])),
                               "spike_at": (big.spike_at(sel)[b:b + 1], small[b].spike_at(sel[b:b + 1]))}.items():
                d = maxdiff(u, v)
                if d > worst:
                    worst, where = d, f"step {t} sample {b} {nm}"
    return {"ok": worst == 0.0, "detail": where, "maxdiff": worst, "events": nsp}


# ---------------------------------------------------------------- per-sample delay selectors (third stream)
def _sel_value(rnd, cls, dt, delay, span, tol, kmax):
    """one selector (time before present, ms) of the given class; ``kmax``: largest grid step used"""
    nst = int(round(span / dt))
    k = rnd.randint(0, min(nst, kmax))
    eps = tol if tol > 0 else 1e-7
    sg = rnd.choice([-1.0, 1.0])
    if cls == "grid":
        return k * dt
    if cls == "near_in":          # within the tolerance of a stored step (on the step itself when the tolerance is 0)
        return k * dt + (sg * tol * rnd.uniform(0.05, 0.9))
    if cls == "near_out":         # off a stored step by more than the tolerance, by less than tolerance * (largest time)
        return k * dt + sg * eps * rnd.uniform(1.1, 1.5 + max(1.0, span))
    if cls == "unif":
        return rnd.uniform(0.0, delay)
    if cls == "gap":              # beyond the configured delay, inside the record (off-grid maximum delays)
        return rnd.uniform(delay, span) if span > delay else delay
    if cls == "delay":
        return delay + rnd.choice([0.0, 0.0, sg * tol * 0.5, sg * eps * 3.0])
    if cls == "span":
        return span + rnd.choice([0.0, 0.0, sg * tol * 0.5, sg * eps * 3.0])
    if cls == "beyond":
        return span + rnd.uniform(0.05, 3.0) * dt
    if cls == "neg":
        return -rnd.choice([rnd.uniform(1e-3, 2.0) * dt, tol * 0.5, eps * 3.0])
    raise AssertionError(cls)


INSIDE = ["grid", "grid", "near_in", "near_out", "near_out", "unif", "gap", "gap", "delay", "span"]
OUTSIDE = ["beyond", "beyond", "neg"]
PROFILES = ["in", "in", "low", "low", "any", "out"]


def make_selectors(rnd, B, shape, D, dt, delay, span, tol):
    """(B, *shape[, D]) selectors, PER SAMPLE: every sample draws its own profile - 'in': nothing outside the record
    (but beyond an off-grid maximum delay, on/near stored steps, ...), 'low': only small times on / near stored steps,
    'out': some selectors outside the record, 'any': everything.  The profiles of the samples of one query differ, so that
    anything computed over the whole selector tensor (extrema, any()) differs between the batch and the single samples."""
    nst = int(round(span / dt))
    n = 1
    for s_ in shape:
        n *= s_
    n *= max(D, 1)
    rows, profs = [], []
    for b in range(B):
        prof = rnd.choice(PROFILES)
        profs.append(prof)
        if prof == "low":
            kmax = max(1, nst // 3)
            row = [_sel_value(rnd, rnd.choice(["grid", "near_in", "near_out", "near_out"]), dt, delay, span, tol, kmax)
                   for _ in range(n)]
            row = [min(max(v, 0.0), delay) for v in row]
        elif prof == "in":
            row = [min(max(_sel_value(rnd, rnd.choice(INSIDE), dt, delay, span, tol, nst), 0.0), span) for _ in range(n)]
        elif prof == "out":
            row = [_sel_value(rnd, rnd.choice(INSIDE + OUTSIDE * 3), dt, delay, span, tol, nst) for _ in range(n)]
            row[rnd.randrange(n)] = _sel_value(rnd, rnd.choice(OUTSIDE), dt, delay, span, tol, nst)
        else:
            row = [_sel_value(rnd, rnd.choice(INSIDE + OUTSIDE), dt, delay, span, tol, nst) for _ in range(n)]
        rows.append(row)
    sel = torch.tensor(rows, dtype=torch.float64).reshape((B, *shape, D) if D else (B, *shape))
    return sel, profs


AT_METHODS = ("current_at", "spike_at", "pos_current_at", "neg_current_at")


def query_per_sample(rnd, big, small, B, D, tol, nq, tag):
    """relational oracle for delayed reads with per-sample selectors: sample b of the batched query == the batch-1 query of
    sample b, for every *_at method the synapse has; returns (worst difference, where, number of compared reads)"""
    dt, delay = float(big.dt), float(big.delay)
    span = dt * (big.spike_.recordsz - 1)
    worst, where, nq_done = 0.0, None, 0
    for q in range(nq):
        sel, profs = make_selectors(rnd, B, tuple(big.shape), D, dt, delay, span, tol)
        for nm in AT_METHODS:
            if not hasattr(big, nm):
                continue
            rb = getattr(big, nm)(sel)
            if tuple(rb.shape) != tuple(sel.shape):
                return math.inf, f"{tag} {nm}: result shape {tuple(rb.shape)} for selector shape {tuple(sel.shape)}", nq_done
            for b in range(B):
                rs = getattr(small[b], nm)(sel[b:b + 1])
                d = maxdiff(rb[b:b + 1], rs)
                nq_done += 1
                if d > worst:
                    j = int((rb[b:b + 1].to(torch.float64) - rs.to(torch.float64)).abs().reshape(-1).argmax())
                    worst = d
                    where = (f"{tag} query {q} sample {b} {nm}: selector {sel[b].reshape(-1)[j].item()!r} gives "
                             f"{rb[b].reshape(-1)[j].item()!r} in the batch, {rs.reshape(-1)[j].item()!r} alone "
                             f"(profiles {profs}, delay {delay}, span {span}, tolerance {tol}, "
                             f"selectors of the sample {[round(v, 6) for v in sel[b].reshape(-1).tolist()]})")
    return worst, where, nq_done


def run_synapse_sel(case):
    """delayed reads of a batched synapse with PER-SAMPLE selectors vs the batch-1 copies (all four classes; off-grid
    maximum delays, selectors inside (delay, span], beyond the span, negative, near stored steps within / outside a non-zero
    interpolation tolerance, with and without overbound values)"""
    import random as _r
    spec, B, T = case["spec"], case["B"], case["T"]
    g = torch.Generator().manual_seed(case["seed"])
    rnd = _r.Random(case["seed"] + 1)
    big = factory.build_synapse(dict(spec, batch=B))
    small = [factory.build_synapse(dict(spec, batch=1)) for _ in range(B)]
    tol = float(spec.get("kw", {}).get("interp_tol", 0.0))
    worst, where, nsp, nread = 0.0, None, 0, 0
    for t in range(T):
        x = rand_spikes(g, (B, *spec["shape"]), case.get("p", 0.5))
        nsp += int(x.sum())
        extra = ()
        if spec["cls"] == "DeltaPlusCurrent":
            extra = (((torch.rand((B, *spec["shape"]), generator=g) * 16).round() / 8),)
        big(x, *extra)
        for b in range(B):
            small[b](x[b:b + 1], *(e[b:b + 1] for e in extra))
        d, w, k = query_per_sample(rnd, big, small, B, case["D"], tol, case.get("queries", 2), f"step {t}")
        nread += k
        if d > worst:
            worst, where = d, w
    return {"ok": worst == 0.0, "detail": where, "maxdiff": worst, "events": nsp, "reads": nread}


# ---------------------------------------------------------------- adaptation coupling = the documented reduction
def midrange(x, dim):
    """a custom batch reduction (none of the torch built-ins); identity on a batch of one like all the others"""
    return 0.5 * (x.amax(dim) + x.amin(dim))


NEURON_REDUCTIONS = {"none": None, "mean": torch.mean, "sum": torch.sum, "amax": torch.amax, "amin": torch.amin,
                     "custom": midrange}


def build_neuron_red(spec, batch, red):
    kw = dict(factory.NEURON_DEFAULTS[spec["cls"]])
    kw.update({k: factory._tup(v) for k, v in spec.get("kw", {}).items()})
    kw["batch_size"] = batch
    if red != "default":
        kw["batch_reduction"] = NEURON_REDUCTIONS[red]
    return getattr(neural, spec["cls"])(tuple(spec["shape"]), spec["dt"], **kw)


def _adaptation(n):
    return n.threshold_adaptation if hasattr(n, "threshold_adaptation") else n.current_adaptation


def _set_adaptation(n, v):
    if hasattr(n, "threshold_adaptation"):
        n.threshold_adaptation = v
    else:
        n.current_adaptation = v


def run_neuron_adapt(case):
    """adaptation updates RUNNING (training mode / adapt=True): the only cross-sample coupling is the documented batch
    reduction - every step, from the shared adaptation: spikes / voltages / refracs of sample b == those of the batch-1
    instance, and the batched adaptation == batch_reduction applied to the B batch-1 instances' adaptations"""
    spec, B, T, red = case["spec"], case["B"], case["T"], case["reduction"]
    g = torch.Generator().manual_seed(case["seed"])
    big = build_neuron_red(spec, B, red)
    small = [build_neuron_red(spec, 1, red) for _ in range(B)]
    redf = NEURON_REDUCTIONS.get(red) or torch.mean
    if case.get("via") == "train":
        kw = {}
        for n in [big] + small:
            n.train()
    else:
        kw = {"adapt": True}
        for n in [big] + small:
            n.eval()
    worst, where, nsp, moved = 0.0, None, 0, 0.0
    for t in range(T):
        start = _adaptation(big).clone()
        for s_ in small:
            _set_adaptation(s_, start.clone())
        x = (torch.rand((B, *spec["shape"]), generator=g) * case.get("scale", 80.0) - 10.0)
        x = (x * 8).round() / 8
        sb = big(x, **kw)
        nsp += int(sb.sum())
        for b in range(B):
            ss = small[b](x[b:b + 1], **kw)
            if not torch.equal(sb[b:b + 1], ss):
                return {"ok": False, "detail": f"step {t} sample {b}: spikes differ", "step": t, "what": "spike"}
            for nm in ("voltage", "refrac"):
                d = maxdiff(getattr(big, nm)[b:b + 1], getattr(small[b], nm))
                if d > worst:
                    worst, where = d, f"step {t} sample {b} {nm}"
        got = _adaptation(big)
        want = redf(torch.stack([_adaptation(s_) for s_ in small], 0), 0)
        moved = max(moved, float((got - start).abs().max()))
        d = maxdiff(got, want)
        if d > worst:
            j = int((got - want).abs().reshape(-1).argmax())
            worst = d
            where = (f"step {t}: batched adaptation {got.reshape(-1)[j].item()!r} is not the '{red}' reduction of the "
                     f"per-sample adaptations {want.reshape(-1)[j].item()!r} "
                     f"({[_adaptation(s_).reshape(-1)[j].item() for s_ in small]})")
    return {"ok": worst == 0.0, "detail": where, "maxdiff": worst, "events": nsp if moved > 0 else 0}


def in_shape(conn):
    return tuple(conn.inshape)


def run_connection(case):
    spec, B, T = case["spec"], case["B"], case["T"]
    g = torch.Generator().manual_seed(case["seed"])
    torch.manual_seed(case["seed"])
    path = resize_path(case)
    big = factory.build_connection(dict(spec, batch=path[0] if path else B))
    small = [factory.build_connection(dict(spec, batch=1)) for _ in range(B)]
    if spec.get("delay") is not None:
        with torch.no_grad():
            d = torch.rand(big.delay.shape, generator=g) * spec["delay"]
            if case.get("ongrid"):
                d = (d / spec["dt"]).round() * spec["dt"]
            big.delay = d
    for s in small:
        copy_params(big, s)
    worst, where, nsp = 0.0, None, 0
    import random as _r
    selrnd = _r.Random(case["seed"] + 1)
    if path:
        rz = case["resize"]
        for k, b0 in enumerate(path):
            if k:
                big.batchsz = b0
            for _ in range(rz["warm"]):
                big(rand_spikes(g, (b0, *in_shape(big)), 0.5))
                _ = big.syncurrent, big.synspike
        set_batch([big], B, True, rz.get("clear_first", False))
    for t in range(T):
        x = rand_spikes(g, (B, *in_shape(big)), 0.35)
        nsp += int(x.sum())
        ob = big(x)
        for b in range(B):
            os_ = small[b](x[b:b + 1])
            views = {"out": (ob[b:b + 1], os_), "syncurrent": (big.syncurrent[b:b + 1], small[b].syncurrent),
                     "synspike": (big.synspike[b:b + 1], small[b].synspike)}
            for nm, (u, v) in views.items():
                d = maxdiff(u, v)
                if d > worst:
                    worst, where = d, f"step {t} sample {b} {nm}"
        if case.get("sel"):      # per-sample delayed reads on the connection's synapse (the connection's own are batch-shared)
            d, w, _ = query_per_sample(selrnd, big.synapse, [s.synapse for s in small], B, case["sel"]["D"],
                                       float(spec["synapse"].get("kw", {}).get("interp_tol", 0.0)),
                                       case["sel"].get("queries", 1), f"step {t}")
            if d > worst:
                worst, where = d, w
    return {"ok": worst == 0.0, "detail": where, "maxdiff": worst, "events": nsp}


def layer_io(layer, spec, x):
    if spec["cls"] == "Serial":
        return {"out": layer(x)}
    if spec["cls"] == "Biclique":
        res = layer({n: (x,) for n, _ in spec["connections"]})
        return dict(res)
    if spec["cls"] == "RecurrentSerial":
        r = layer(x)
        return {"out": r} if not isinstance(r, (tuple, list)) else {f"o{i}": v for i, v in enumerate(r)}


def with_batch(spec, B):
    s = copy.deepcopy(spec)

    def rec(o):
        if isinstance(o, dict):
            if "cls" in o and ("shape" in o or "in" in o or "height" in o):
                o["batch"] = B
            for v in o.values():
                rec(v)
        elif isinstance(o, list):
            for v in o:
                rec(v)
    rec(s)
    return s


def run_layer(case):
    spec, B, T = case["spec"], case["B"], case["T"]
    g = torch.Generator().manual_seed(case["seed"])
    torch.manual_seed(case["seed"])
    path = resize_path(case)
    big = factory.build_layer(with_batch(spec, path[0] if path else B))
    small = [factory.build_layer(with_batch(spec, 1)) for _ in range(B)]
    scale_weights(big, case.get("wscale", 300.0))
    for s in small:
        copy_params(big, s)
    for lay in [big] + small:
        lay.eval()          # freezes the (documented, batch-reduced) adaptation updates
    ishape = tuple(case["in"])
    worst, where, nsp = 0.0, None, 0
    if path:
        # a layer has no batch size of its own: it is changed through the setters of its components
        rz = case["resize"]
        conns = [m for m in big.modules() if isinstance(m, neural.Connection)]
        neus = [m for m in big.modules() if isinstance(m, neural.Neuron)]
        for k, b0 in enumerate(path):
            if k:
                set_batch(conns + neus, b0, False, False)
                big.clear(submodules=False)
            for _ in range(rz["warm"]):
                layer_io(big, spec, rand_spikes(g, (b0, *ishape), 0.5))
        set_batch(conns, B, True, rz.get("clear_first", False))
        set_batch(neus, B, False, False)     # neuron setters clear by themselves
        big.clear(submodules=False)          # state of the layer itself (the fed-back spikes of RecurrentSerial)
    for t in range(T):
        x = rand_spikes(g, (B, *ishape), 0.5)
        ob = layer_io(big, spec, x)
        for b in range(B):
            os_ = layer_io(small[b], spec, x[b:b + 1])
            for k in ob:
                nsp += int(ob[k][b:b + 1].sum())
                if ob[k].dtype == torch.bool and not torch.equal(ob[k][b:b + 1], os_[k]):
                    return {"ok": False, "detail": f"step {t} sample {b} output {k}: spikes differ", "what": "spike"}
                d = maxdiff(ob[k][b:b + 1], os_[k])
                if d > worst:
                    worst, where = d, f"step {t} sample {b} {k}"
            # every buffer of the layer with a leading batch dimension
            sb = dict(big.named_buffers())
            for n, v in small[b].named_buffers():
                u = sb.get(n)
                if u is None or v is None or u.dim() == 0:
                    continue
                if u.shape[1:] == v.shape[1:] and u.shape[0] == B and v.shape[0] == 1:
                    d = maxdiff(u[b:b + 1], v)
                elif u.dim() >= 2 and u.shape[0] == v.shape[0] and u.shape[1] == B and v.shape[1] == 1:
                    d = maxdiff(u[:, b:b + 1], v)      # records: time-major, batch second
                else:
                    continue
                if d > worst:
                    worst, where = d, f"step {t} sample {b} buffer {n}"
    return {"ok": worst == 0.0, "detail": where, "maxdiff": worst, "events": nsp}


def _kp(diff, learning_rate, time_constant, **kw):
    return learning_rate * torch.sin(diff / time_constant)


def _kn(diff, learning_rate, time_constant, **kw):
    return learning_rate * torch.cos(diff / time_constant)


# name -> (class, hyperparameters (constructor order), further keyword hyperparameters, needs a reward signal)
TRAINER_HP = {
    "STDP": ("STDP", dict(lr_post=1.0, lr_pre=-0.5, tc_post=20.0, tc_pre=15.0), {"trace_mode": "cumulative"}, False),
    "STDP-nearest": ("STDP", dict(lr_post=1.0, lr_pre=-0.5, tc_post=20.0, tc_pre=15.0), {"trace_mode": "nearest"}, False),
    "STDP-antihebbian": ("STDP", dict(lr_post=-1.0, lr_pre=0.5, tc_post=20.0, tc_pre=15.0), {"trace_mode": "cumulative"}, False),
    "STDP-ltp": ("STDP", dict(lr_post=1.0, lr_pre=0.5, tc_post=20.0, tc_pre=15.0), {"trace_mode": "cumulative"}, False),
    "STDP-ltd": ("STDP", dict(lr_post=-1.0, lr_pre=-0.5, tc_post=20.0, tc_pre=15.0), {"trace_mode": "cumulative"}, False),
    "TripletSTDP": ("TripletSTDP", dict(lr_post_pair=1.0, lr_post_triplet=0.5, lr_pre_pair=-0.5, lr_pre_triplet=-0.25,
                                        tc_post_fast=20.0, tc_post_slow=40.0, tc_pre_fast=15.0, tc_pre_slow=30.0),
                    {"trace_mode": "cumulative"}, False),
    "MSTDP": ("MSTDP", dict(lr_post=1.0, lr_pre=-0.5, tc_post=20.0, tc_pre=15.0), {"trace_mode": "cumulative"}, True),
    "MSTDPET": ("MSTDPET", dict(lr_post=1.0, lr_pre=-0.5, tc_post=20.0, tc_pre=15.0, tc_eligibility=25.0),
                {"trace_mode": "cumulative"}, True),
    "KernelSTDP": ("KernelSTDP", dict(kernel_post=functional.exp_stdp_post_kernel, kernel_pre=functional.exp_stdp_pre_kernel,
                                      kernel_post_kwargs={"learning_rate": 1.0, "time_constant": 20.0},
                                      kernel_pre_kwargs={"learning_rate": -0.5, "time_constant": 15.0}), {}, False),
    # kernels that take both signs (the stock exponential kernels never do), so that a split into
    # potentiating / depressing parts made after a batch reduction differs from the per-sample split
    "KernelSTDP-mixed": ("KernelSTDP", dict(kernel_post=_kp, kernel_pre=_kn,
                                            kernel_post_kwargs={"learning_rate": 1.0, "time_constant": 1.5},
                                            kernel_pre_kwargs={"learning_rate": -0.5, "time_constant": 1.0}), {}, False),
    "DelayAdjustedSTDP": ("DelayAdjustedSTDP", dict(lr_pos=1.0, lr_neg=-0.5, tc_pos=20.0, tc_neg=15.0), {}, False),
    "DelayAdjustedSTDPD": ("DelayAdjustedSTDPD", dict(lr_neg=-0.5, lr_pos=1.0, tc_neg=15.0, tc_pos=20.0), {}, False),
    "DelayAdjustedMSTDP": ("DelayAdjustedMSTDP", dict(lr_pos=1.0, lr_neg=-0.5, tc_pos=20.0, tc_neg=15.0), {}, True),
    "DelayAdjustedMSTDPD": ("DelayAdjustedMSTDPD", dict(lr_neg=-0.5, lr_pos=1.0, tc_neg=15.0, tc_pos=20.0), {}, True),
}


def _vary(v, klr, ktc, key=None):
    """hyperparameters of the same kind with other values (learning rates scaled by klr, time constants by ktc)"""
    if isinstance(v, dict):
        return {k: _vary(x, klr, ktc, k) for k, x in v.items()}
    if isinstance(v, float):
        if key.startswith("lr") or key == "learning_rate":
            return v * klr
        if key.startswith("tc") or key == "time_constant":
            return v * ktc
    if key == "trace_mode":
        return v if klr > 0 else {"nearest": "cumulative", "cumulative": "nearest"}[v]
    return v


def cell_hp(name, j):
    """true hyperparameters of the j-th cell trained by a trainer of kind ``name``"""
    _, hp, extra, _ = TRAINER_HP[name]
    return _vary(dict(hp, **extra), 1.0 + 0.5 * j, 1.0 + 0.25 * j)


def mk_trainer(name, red, decoy=None):
    """decoy=None: trainer whose constructor-level hyperparameters are the true ones of cell 0 (reduction ``red``);
    otherwise a trainer whose constructor-level defaults are all *different* from what any cell uses (learning rates of
    the opposite sign, other time constants / trace mode, reduction ``decoy`` (None = the library default, mean)):
    every cell must then be registered with the true values as per-cell overrides"""
    cls, hp, extra, needs = TRAINER_HP[name]
    if decoy is None:
        return getattr(learn, cls)(**cell_hp(name, 0), batch_reduction=red), ("signal" if needs else None)
    kw = _vary(dict(hp, **extra), -1.5, 1.75)
    return getattr(learn, cls)(**kw, batch_reduction=decoy["reduction"]), ("signal" if needs else None)


REDUCTIONS = {"none": None, "mean": torch.mean, "amax": torch.amax, "amin": torch.amin, "sum": torch.sum}


def run_trainer(case):
    """batched training step with sum reduction == sum of per-sample steps (accumulated parts compared).

    case["hp"]: "trainer" (default; sum and the other hyperparameters given to the trainer constructor), "cell"
    (given only as register_cell overrides, trainer-level defaults differ), "mixed" (cell 0 uses the trainer-level
    values, the other cells override).  case["cells"]: number of cells driven by ONE trainer object.
    case["shared"]: the batched cells and all their batch-1 copies are driven by one and the same trainer object."""
    spec, B, T = case["spec"], case["B"], case["T"]
    g = torch.Generator().manual_seed(case["seed"])
    nc, mode, name = case.get("cells", 1), case.get("hp", "trainer"), case["trainer"]
    bigs, smalls = [], []
    for j in range(nc):
        torch.manual_seed(case["seed"] + j)
        big = factory.build_layer(with_batch(spec, B))
        small = [factory.build_layer(with_batch(spec, 1)) for _ in range(B)]
        scale_weights(big, case.get("wscale", 300.0))
        if spec["connection"].get("delay") is not None:
            with torch.no_grad():
                big.connection.delay = ((torch.rand(big.connection.delay.shape, generator=g) * spec["connection"]["delay"])
                                        / spec["connection"]["dt"]).round() * spec["connection"]["dt"]
        for s in small:
            copy_params(big, s)
        bigs.append(big)
        smalls.append(small)
    param = "delay" if name.endswith("D") and name.startswith("DelayAdjusted") else "weight"
    needs = TRAINER_HP[name][3]
    shared = bool(case.get("shared")) and not needs

    def make():
        if mode == "cell":
            return mk_trainer(name, None, {"reduction": REDUCTIONS[case.get("default_reduction", "none")]})[0]
        return mk_trainer(name, torch.sum)[0]

    def register(tr, nm, lay, j):
        lay.connection.updater = lay.connection.defaultupdater()
        if mode == "cell" or (mode == "mixed" and j > 0):
            tr.register_cell(nm, lay.cell, **cell_hp(name, j), batch_reduction=torch.sum)
        else:
            tr.register_cell(nm, lay.cell)

    tb = make()
    ts = [tb if shared else make() for _ in range(B)]
    for j in range(nc):
        register(tb, f"c{j}", bigs[j], j)
        for b in range(B):
            register(ts[b], f"c{j}s{b}" if shared else f"c{j}", smalls[j][b], j)
    ishape = tuple(case["in"])
    worst, where, nz = 0.0, None, 0
    for t in range(T):
        xs = [rand_spikes(g, (B, *ishape), 0.5) for _ in range(nc)]
        sig = ((torch.rand(B, generator=g) * 4 - 2) * 4).round() / 4 if needs else None
        for j in range(nc):
            bigs[j](xs[j])
        if not shared:
            tb(sig) if needs else tb()
        for b in range(B):
            for j in range(nc):
                smalls[j][b](xs[j][b:b + 1])
            if not shared:
                ts[b](sig[b:b + 1]) if needs else ts[b]()
        if shared:
            tb()
        for j in range(nc):
            acc = getattr(bigs[j].connection.updater, param)
            pos_b, neg_b = acc.pos, acc.neg
            pos_s, neg_s = 0.0, 0.0
            for b in range(B):
                a = getattr(smalls[j][b].connection.updater, param)
                pos_s = pos_s + (a.pos if a.pos is not None else 0.0)
                neg_s = neg_s + (a.neg if a.neg is not None else 0.0)
            for nm, u, v in (("pos", pos_b, pos_s), ("neg", neg_b, neg_s)):
                if u is None and not torch.is_tensor(v):
                    continue
                if u is None or not torch.is_tensor(v):
                    return {"ok": False, "detail": f"step {t} cell {j}: {nm} part present on one side only", "what": "presence"}
                nz += int((u != 0).sum())
                d = maxdiff(u, v)
                if d > worst:
                    worst, where = d, f"step {t} cell {j} {nm}"
            for lay in [bigs[j]] + smalls[j]:
                lay.connection.updater.clear()
    return {"ok": worst == 0.0, "detail": where, "maxdiff": worst, "events": nz}


RUN = {"neuron": run_neuron, "synapse": run_synapse, "connection": run_connection, "layer": run_layer,
       "trainer": run_trainer, "synapse_sel": run_synapse_sel, "neuron_adapt": run_neuron_adapt}


def handler(payload):
    out = []
    for c in payload["cases"]:
        try:
            out.append(RUN[c["kind"]](c))
        except Exception as e:  # noqa
            import traceback
            out.append({"ok": False, "detail": f"harness/implementation raised {type(e).__name__}: {e}",
                        "what": "exception", "trace": traceback.format_exc()[-1500:]})
    return out


if __name__ == "__main__":
    main(handler)
