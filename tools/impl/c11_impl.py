"""C11: a batch of B samples vs B independent batch-size-1 copies, compared at every step, on the real code."""
import copy, math, random
import torch
from common import main
import factory
from inferno import neural, learn, functional

CLOSE_REL, CLOSE_ABS = 1e-9, 1e-12


def maxdiff(a, b):
    a, b = a.to(torch.float64), b.to(torch.float64)
    if a.shape != b.shape:
        return math.inf
    if a.numel() == 0:
        return 0.0
    d = (a - b).abs()
    tol = CLOSE_ABS + CLOSE_REL * torch.maximum(a.abs(), b.abs())
    bad = (d > tol) & ~(torch.isnan(a) & torch.isnan(b))
    return float(d[bad].max()) if bad.any() else 0.0


def copy_params(big, small):
    """identical parameters: weights/biases/delays copied from the batched module (batch-dependent state excluded)"""
    sb = dict(big.named_parameters())
    for n, p in small.named_parameters():
        if n in sb and p.shape == sb[n].shape:
            with torch.no_grad():
                p.copy_(sb[n])


def scale_weights(mod, k):
    """dyadic weights large enough for the neurons to fire"""
    with torch.no_grad():
        for n, p in mod.named_parameters():
            if n.endswith("weight") or n.endswith("weight_"):
                p.copy_(((p * k) * 4).round() / 4)


def rand_spikes(g, shape, p):
    return torch.rand(shape, generator=g) < p


def run_neuron(case):
    spec, B, T = case["spec"], case["B"], case["T"]
    g = torch.Generator().manual_seed(case["seed"])
    big = factory.build_neuron(dict(spec, batch=B))
    small = [factory.build_neuron(dict(spec, batch=1)) for _ in range(B)]
    adaptive = spec["cls"] in factory.ADAPTIVE
    kw = {"adapt": False} if adaptive else {}
    worst, where, nsp = 0.0, None, 0
    for t in range(T):
        x = (torch.rand((B, *spec["shape"]), generator=g) * case.get("scale", 80.0) - 10.0)
        x = (x * 8).round() / 8
        sb = big(x, **kw)
        nsp += int(sb.sum())
        for b in range(B):
            ss = small[b](x[b:b + 1], **kw)
            if not torch.equal(sb[b:b + 1], ss):
                # tolerate only exact-threshold rounding ties
                return {"ok": False, "detail": f"step {t} sample {b}: spikes differ", "step": t, "what": "spike"}
            for nm in ("voltage", "refrac"):
                d = maxdiff(getattr(big, nm)[b:b + 1], getattr(small[b], nm))
                if d > worst:
                    worst, where = d, f"step {t} sample {b} {nm}"
            if not torch.equal(big.spike[b:b + 1], small[b].spike):
                return {"ok": False, "detail": f"step {t} sample {b}: spike attribute differs", "step": t, "what": "spikeattr"}
    return {"ok": worst == 0.0, "detail": where, "maxdiff": worst, "events": nsp}


def run_synapse(case):
    spec, B, T = case["spec"], case["B"], case["T"]
    g = torch.Generator().manual_seed(case["seed"])
    big = factory.build_synapse(dict(spec, batch=B))
    small = [factory.build_synapse(dict(spec, batch=1)) for _ in range(B)]
    worst, where, nsp = 0.0, None, 0
    dmax = spec.get("kw", {}).get("delay", 0.0)
    for t in range(T):
        x = rand_spikes(g, (B, *spec["shape"]), 0.35)
        nsp += int(x.sum())
        extra = ()
        if spec["cls"] == "DeltaPlusCurrent":
            extra = (((torch.rand((B, *spec["shape"]), generator=g) * 16).round() / 8),)
        ob = big(x, *extra)
        # (selectors with a trailing D axis on an undelayed synapse are a C04 matter, not a batch matter)
        sel = (torch.rand((B, *spec["shape"], 2) if dmax > 0 else (B, *spec["shape"]), generator=g) * dmax)
        if case.get("ongrid"):
            sel = (sel / spec["dt"]).round() * spec["dt"]
        for b in range(B):
            os_ = small[b](x[b:b + 1], *(e[b:b + 1] for e in extra))
            for nm, (u, v) in {"out": (ob[b:b + 1], os_), "current": (big.current[b:b + 1], small[b].current),
                               "spike": (big.spike[b:b + 1], small[b].spike),
                               "current_at": (big.current_at(sel)[b:b + 1], small[b].current_at(sel[b:b + 1])),
                               "spike_at": (big.spike_at(sel)[b:b + 1], small[b].spike_at(sel[b:b + 1]))}.items():
                d = maxdiff(u, v)
                if d > worst:
                    worst, where = d, f"step {t} sample {b} {nm}"
    return {"ok": worst == 0.0, "detail": where, "maxdiff": worst, "events": nsp}


def in_shape(conn):
    return tuple(conn.inshape)


def run_connection(case):
    spec, B, T = case["spec"], case["B"], case["T"]
    g = torch.Generator().manual_seed(case["seed"])
    torch.manual_seed(case["seed"])
    big = factory.build_connection(dict(spec, batch=B))
    small = [factory.build_connection(dict(spec, batch=1)) for _ in range(B)]
    if spec.get("delay") is not None:
        with torch.no_grad():
            d = torch.rand(big.delay.shape, generator=g) * spec["delay"]
            if case.get("ongrid"):
                d = (d / spec["dt"]).round() * spec["dt"]
            big.delay = d
    for s in small:
        copy_params(big, s)
    worst, where, nsp = 0.0, None, 0
    for t in range(T):
        x = rand_spikes(g, (B, *in_shape(big)), 0.35)
        nsp += int(x.sum())
        ob = big(x)
        for b in range(B):
            os_ = small[b](x[b:b + 1])
            views = {"out": (ob[b:b + 1], os_), "syncurrent": (big.syncurrent[b:b + 1], small[b].syncurrent),
                     "synspike": (big.synspike[b:b + 1], small[b].synspike)}
            for nm, (u, v) in views.items():
                d = maxdiff(u, v)
                if d > worst:
                    worst, where = d, f"step {t} sample {b} {nm}"
    return {"ok": worst == 0.0, "detail": where, "maxdiff": worst, "events": nsp}


def layer_io(layer, spec, x):
    if spec["cls"] == "Serial":
        return {"out": layer(x)}
    if spec["cls"] == "Biclique":
        res = layer({n: (x,) for n, _ in spec["connections"]})
        return dict(res)
    if spec["cls"] == "RecurrentSerial":
        r = layer(x)
        return {"out": r} if not isinstance(r, (tuple, list)) else {f"o{i}": v for i, v in enumerate(r)}


def with_batch(spec, B):
    s = copy.deepcopy(spec)

    def rec(o):
        if isinstance(o, dict):
            if "cls" in o and ("shape" in o or "in" in o or "height" in o):
                o["batch"] = B
            for v in o.values():
                rec(v)
        elif isinstance(o, list):
            for v in o:
                rec(v)
    rec(s)
    return s


def run_layer(case):
    spec, B, T = case["spec"], case["B"], case["T"]
    g = torch.Generator().manual_seed(case["seed"])
    torch.manual_seed(case["seed"])
    big = factory.build_layer(with_batch(spec, B))
    small = [factory.build_layer(with_batch(spec, 1)) for _ in range(B)]
    scale_weights(big, case.get("wscale", 300.0))
    for s in small:
        copy_params(big, s)
    for lay in [big] + small:
        lay.eval()          # freezes the (documented, batch-reduced) adaptation updates
    ishape = tuple(case["in"])
    worst, where, nsp = 0.0, None, 0
    for t in range(T):
        x = rand_spikes(g, (B, *ishape), 0.5)
        ob = layer_io(big, spec, x)
        for b in range(B):
            os_ = layer_io(small[b], spec, x[b:b + 1])
            for k in ob:
                nsp += int(ob[k][b:b + 1].sum())
                if ob[k].dtype == torch.bool and not torch.equal(ob[k][b:b + 1], os_[k]):
                    return {"ok": False, "detail": f"step {t} sample {b} output {k}: spikes differ", "what": "spike"}
                d = maxdiff(ob[k][b:b + 1], os_[k])
                if d > worst:
                    worst, where = d, f"step {t} sample {b} {k}"
            # every buffer of the layer with a leading batch dimension
            sb = dict(big.named_buffers())
            for n, v in small[b].named_buffers():
                u = sb.get(n)
                if u is None or v is None or u.dim() == 0:
                    continue
                if u.shape[1:] == v.shape[1:] and u.shape[0] == B and v.shape[0] == 1:
                    d = maxdiff(u[b:b + 1], v)
                elif u.dim() >= 2 and u.shape[0] == v.shape[0] and u.shape[1] == B and v.shape[1] == 1:
                    d = maxdiff(u[:, b:b + 1], v)      # records: time-major, batch second
                else:
                    continue
                if d > worst:
                    worst, where = d, f"step {t} sample {b} buffer {n}"
    return {"ok": worst == 0.0, "detail": where, "maxdiff": worst, "events": nsp}


def mk_trainer(name, red):
    k = dict(batch_reduction=red)
    if name == "STDP":
        return learn.STDP(1.0, -0.5, 20.0, 15.0, **k), None
    if name == "STDP-nearest":
        return learn.STDP(1.0, -0.5, 20.0, 15.0, trace_mode="nearest", **k), None
    if name == "TripletSTDP":
        return learn.TripletSTDP(1.0, 0.5, -0.5, -0.25, 20.0, 40.0, 15.0, 30.0, **k), None
    if name == "MSTDP":
        return learn.MSTDP(1.0, -0.5, 20.0, 15.0, **k), "signal"
    if name == "MSTDPET":
        return learn.MSTDPET(1.0, -0.5, 20.0, 15.0, 25.0, **k), "signal"
    if name == "KernelSTDP":
        return learn.KernelSTDP(functional.exp_stdp_post_kernel, functional.exp_stdp_pre_kernel,
                                {"learning_rate": 1.0, "time_constant": 20.0},
                                {"learning_rate": -0.5, "time_constant": 15.0}, **k), None
    if name == "KernelSTDP-mixed":
        # kernels that take both signs (the stock exponential kernels never do), so that a split into
        # potentiating / depressing parts made after a batch reduction differs from the per-sample split
        kp = lambda diff, learning_rate, time_constant, **kw: learning_rate * torch.sin(diff / time_constant)
        kn = lambda diff, learning_rate, time_constant, **kw: learning_rate * torch.cos(diff / time_constant)
        return learn.KernelSTDP(kp, kn, {"learning_rate": 1.0, "time_constant": 1.5},
                                {"learning_rate": -0.5, "time_constant": 1.0}, **k), None
    if name == "DelayAdjustedSTDP":
        return learn.DelayAdjustedSTDP(1.0, -0.5, 20.0, 15.0, **k), None
    if name == "DelayAdjustedSTDPD":
        return learn.DelayAdjustedSTDPD(-0.5, 1.0, 15.0, 20.0, **k), None
    if name == "DelayAdjustedMSTDP":
        return learn.DelayAdjustedMSTDP(1.0, -0.5, 20.0, 15.0, **k), "signal"
    raise ValueError(name)


def run_trainer(case):
    """batched training step with sum reduction == sum of per-sample steps (accumulated parts compared)"""
    spec, B, T = case["spec"], case["B"], case["T"]
    g = torch.Generator().manual_seed(case["seed"])
    torch.manual_seed(case["seed"])
    big = factory.build_layer(with_batch(spec, B))
    small = [factory.build_layer(with_batch(spec, 1)) for _ in range(B)]
    scale_weights(big, case.get("wscale", 300.0))
    if spec["connection"].get("delay") is not None:
        with torch.no_grad():
            big.connection.delay = ((torch.rand(big.connection.delay.shape, generator=g) * spec["connection"]["delay"])
                                    / spec["connection"]["dt"]).round() * spec["connection"]["dt"]
    for s in small:
        copy_params(big, s)
    param = "delay" if case["trainer"].endswith("D") and case["trainer"].startswith("DelayAdjusted") else "weight"
    tb, needs = mk_trainer(case["trainer"], torch.sum)
    ts = [mk_trainer(case["trainer"], torch.sum)[0] for _ in range(B)]
    for lay, tr in [(big, tb)] + list(zip(small, ts)):
        lay.connection.updater = lay.connection.defaultupdater()
        tr.register_cell("c", lay.cell)
    ishape = tuple(case["in"])
    worst, where, nz = 0.0, None, 0
    for t in range(T):
        x = rand_spikes(g, (B, *ishape), 0.5)
        sig = ((torch.rand(B, generator=g) * 4 - 2) * 4).round() / 4 if needs else None
        big(x)
        tb(sig) if needs else tb()
        acc = getattr(big.connection.updater, param)
        pos_b, neg_b = acc.pos, acc.neg
        pos_s, neg_s = 0.0, 0.0
        for b in range(B):
            small[b](x[b:b + 1])
            ts[b](sig[b:b + 1]) if needs else ts[b]()
            a = getattr(small[b].connection.updater, param)
            pos_s = pos_s + (a.pos if a.pos is not None else 0.0)
            neg_s = neg_s + (a.neg if a.neg is not None else 0.0)
        for nm, u, v in (("pos", pos_b, pos_s), ("neg", neg_b, neg_s)):
            if u is None and not torch.is_tensor(v):
                continue
            if u is None or not torch.is_tensor(v):
                return {"ok": False, "detail": f"step {t}: {nm} part present on one side only", "what": "presence"}
            nz += int((u != 0).sum())
            d = maxdiff(u, v)
            if d > worst:
                worst, where = d, f"step {t} {nm}"
        for lay in [big] + small:
            lay.connection.updater.clear()
    return {"ok": worst == 0.0, "detail": where, "maxdiff": worst, "events": nz}


RUN = {"neuron": run_neuron, "synapse": run_synapse, "connection": run_connection, "layer": run_layer,
       "trainer": run_trainer}


def handler(payload):
    out = []
    for c in payload["cases"]:
        try:
            out.append(RUN[c["kind"]](c))
        except Exception as e:  # noqa
            import traceback
            out.append({"ok": False, "detail": f"harness/implementation raised {type(e).__name__}: {e}",
                        "what": "exception", "trace": traceback.format_exc()[-1500:]})
    return out


if __name__ == "__main__":
    main(handler)
