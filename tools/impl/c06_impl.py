"""C06 implementation side.

For every case two things are run on the REAL inferno classes:
 (1) the connection under test (LinearDense / LinearDirect / LinearLateral / Conv2D with a delay parameter, any of
     the four synapse classes): every operation's observable (forward output, syncurrent, synspike, selector);
 (2) for the direct oracle: a bank of UNDELAYED copies U_0 .. U_kmax of the same connection class (delay=None, no
     bias, same synapse class and hyper-parameters).  At step t, U_k is fed the input of step t-k (zeros before the
     start / the last clear), with the weights masked to the synapses whose delay is k steps.  Reported per step and k:
     U_k's output, its synapse current / spike (/ pos, neg components).  Nothing of the delayed code path (selector,
     current_at, RecordTensor.select, the einsum branch) is executed for (2).
"""
import math
import torch
from common import main, fhex, exc_code
from inferno import neural

KEEP = []  # RecordTensor only weak-references its owner
CLS = ["DeltaCurrent", "DeltaPlusCurrent", "SingleExponentialCurrent", "DoubleExponentialCurrent"]


OMIT_KW = {"mode": ("interp_mode", "spike_interp_mode"), "tol": ("interp_tol",), "cur_ob": ("current_overbound",),
           "spk_ob": ("spike_overbound",), "inplace": ("inplace",)}


def syn_ctor(sy, inplace=None, omit=()):
    """omit: optional arguments of partialconstructor that are NOT passed (the library's defaults apply; the harness
    expects the documented ones)"""
    k = sy["cls"]
    mode = ["previous", "nearest"][sy["mode"]]
    kw = dict(spike_charge=sy["Q"], interp_tol=sy["tol"], current_overbound=sy["cur_ob"],
              spike_overbound=sy["spk_ob"], inplace=sy["inplace"] if inplace is None else inplace)
    if k in (0, 1):
        kw["interp_mode"] = mode
    else:
        kw["spike_interp_mode"] = mode
    if k == 2:
        kw["time_constant"] = sy["tau"]
    if k == 3:
        kw["tc_decay"] = sy["tau"]
        kw["tc_rise"] = sy["tr"]
    for o in omit:
        for name in OMIT_KW.get(o, ()):
            kw.pop(name, None)
    return getattr(neural, CLS[k]).partialconstructor(**kw)


def tens(data, shape):
    return torch.tensor(data, dtype=torch.float64).reshape(shape)


def build(case, delayed=True, bias=None, cur=None):
    """the connection under test (delayed=True) or an undelayed, unbiased copy of it; cur overrides dt / delay / B"""
    if cur:
        case = dict(case, **cur)
    kind = case["conn"]
    delay = case["delay"] if delayed else None
    hasb = (case["b"] is not None) if bias is None else bias
    omit = tuple(case.get("omit", ())) if delayed else ()       # only the connection under test (and its twins) omits
    common = dict(synapse=syn_ctor(case["syn"], omit=omit), bias=hasb, delay=delay, batch_size=case["B"])
    for o in omit:
        if o in ("bias", "delay", "batch_size"):
            common.pop(o)
    dt = case["dt"]
    if kind == "dense":
        c = neural.LinearDense(tuple(case["in"]), tuple(case["out"]), dt, **common)
    elif kind == "direct":
        c = neural.LinearDirect(tuple(case["shape"]), dt, **common)
    elif kind == "lateral":
        c = neural.LinearLateral(tuple(case["shape"]), dt, **common)
    elif kind == "conv":
        g = case["geom"]
        c = neural.Conv2D(g["H"], g["W"], g["C"], g["F"], dt, tuple(g["kernel"]), stride=tuple(g["stride"]),
                          padding=tuple(g["padding"]), dilation=tuple(g["dilation"]), **common)
    else:
        raise ValueError(kind)
    KEEP.append(c)
    with torch.no_grad():
        c.weight = tens(case["W"], c.weight.shape)
        if hasb:
            c.bias = tens(case["b"], c.bias.shape)
        if delayed and delay is not None:
            c.delay = tens(case["d"], c.delay.shape)
    return c


def enc_f(t):
    t = t.detach().clone()
    if not torch.is_floating_point(t):
        return [9, str(t.dtype), list(t.shape)]
    return [1, list(t.shape), [fhex(v) for v in t.to(torch.float64).reshape(-1).tolist()]]


def enc_b(t):
    t = t.detach().clone()
    if t.dtype != torch.bool:
        return [9, str(t.dtype), list(t.shape)]
    return [2, list(t.shape), [int(v) for v in t.reshape(-1).tolist()]]


def flt(t):
    return [float(v) for v in t.detach().to(torch.float64).reshape(-1).tolist()]


def tensor_in(case, shape, vals):
    if case.get("float_in"):
        return torch.tensor(vals, dtype=torch.float64).reshape(shape)
    return torch.tensor([bool(v) for v in vals], dtype=torch.bool).reshape(shape)


def built_synapse(syn):
    """what the synapse the connection built through the partial constructor ended up with (construction-path oracle):
    every constructor argument as stored by the instance (the mixins keep them in name-mangled attributes)"""
    out = {"tolerances": [], "cur_ob": [], "spk_ob": [], "spike_interp": [], "current_interp": [], "current_interp_kwargs": []}
    for k, v in vars(syn).items():
        if k.endswith("__tolerance"):
            out["tolerances"].append(float(v))
        elif k.endswith("__current_overbound") or k == "_CurrentMixin__overbound":
            out["cur_ob"].append(None if v is None else float(v))
        elif k.endswith("__spike_overbound") or k == "_SpikeMixin__overbound":
            out["spk_ob"].append(None if v is None else bool(v))
        elif k == "_SpikeMixin__interp" or k == "_DerivedSpikeMixin__interp":
            out["spike_interp"].append(getattr(v, "__name__", str(v)))
        elif k.endswith("__interp"):
            out["current_interp"].append(getattr(v, "__name__", str(v)))
        elif k.endswith("__interp_kwargs") and not k.startswith("_SpikeMixin"):
            out["current_interp_kwargs"].append({a: float(b) for a, b in dict(v).items()})
    for a in ("spike_charge", "time_constant", "tc_decay", "tc_rise"):
        out[a] = float(getattr(syn, a)) if hasattr(syn, a) else None
    out.update({"dt": float(syn.dt), "delay": float(syn.delay), "B": int(syn.batchsz), "shape": [int(v) for v in syn.shape],
                "inplace": bool(syn.inplace), "cls": type(syn).__name__})
    return out


def restore_into_twin(c, case, cur, op):
    """checkpoint the connection, load it into a twin of the same configuration (fresh, or already run on other data),
    return the twin: the run continues on it"""
    import copy
    sd = copy.deepcopy(c.state_dict())
    twin = build(case, cur=cur)
    if twin.batchsz != cur["B"]:          # batch_size omitted at construction, changed by the setter since
        twin.batchsz = cur["B"]
    if op[1] == "used":
        g = torch.Generator().manual_seed(int(op[3]))
        with torch.no_grad():
            if twin.delay is not None:
                twin.delay = torch.rand(twin.delay.shape, generator=g, dtype=torch.float64) * float(cur["delay"] or 0.0)
            twin.weight = torch.rand(twin.weight.shape, generator=g, dtype=torch.float64)
        for _ in range(int(op[2])):
            x = torch.rand(tuple(twin.batched_inshape), generator=g, dtype=torch.float64) < 0.6
            twin(x if not case.get("float_in") else x.to(torch.float64))
    twin.load_state_dict(sd)
    return twin


def apply(c, case, op):
    k = op[0]
    if k == "step":
        x = tensor_in(case, op[1], op[2])
        inj = [torch.tensor(i, dtype=torch.float64).reshape(op[1]) for i in op[3]]
        return enc_f(c(x, *inj))
    if k == "syncur":
        return enc_f(c.syncurrent)
    if k == "synspk":
        return enc_b(c.synspike)
    if k == "selector":
        return enc_f(c.selector)
    if k == "setdelay":
        with torch.no_grad():
            if c.delay is not None:
                c.delay = tens(op[1], c.delay.shape)
            else:
                c.delay = tens(op[1], c.weight.shape)
        return [0]
    if k == "clear":
        c.clear()
        return [0]
    raise AssertionError(k)


def reconfigure(c, case, cur, op):
    """dt / maximum-delay / batch-size setters (the first two clear the synapse and are followed by a delay assignment)"""
    k = op[0]
    if k == "setdt":
        c.dt = op[1]
        cur["dt"] = op[1]
    elif k == "setmaxdelay":
        c.synapse.delay = op[1]
        cur["delay"] = op[1]
    elif k == "setbatch":
        c.batchsz = op[1]
        cur["B"] = op[1]
        return [0]
    with torch.no_grad():
        if c.delay is not None:
            c.delay = tens(op[2], c.delay.shape)
    return [5, c.synapse.spike_.recordsz]


def run_conn(case):
    c = build(case)
    cur = {"dt": case["dt"], "delay": case["delay"], "B": case["B"]}
    rsz0 = c.synapse.spike_.recordsz
    built0 = built_synapse(c.synapse)
    tr = []
    for op in case["ops"]:
        try:
            if op[0] == "restore":
                c = restore_into_twin(c, case, cur, op)
                tr.append([0])
            elif op[0] in ("setdt", "setmaxdelay", "setbatch"):
                tr.append(reconfigure(c, case, cur, op))
            else:
                tr.append(apply(c, case, op))
        except Exception as e:  # noqa
            code = exc_code(e)
            tr.append([3, code] if code != 9 else [3, 9, f"{type(e).__name__}: {e}"[:200]])
    info = {"recordsz": rsz0, "recordsz_final": c.synapse.spike_.recordsz, "delayedby": c.delayedby, "has_delay": c.delay is not None,
            "w": flt(c.weight), "b": None if c.bias is None else flt(c.bias),
            "d": None if c.delay is None else flt(c.delay),
            "outshape": [int(v) for v in c.batched_outshape], "synshape": [int(v) for v in c.synapse.batchedshape],
            "built": built0}
    return tr, info


def run_bank(case):
    """undelayed copies; see the module docstring.  Returns per well-formed step a dict k -> observations."""
    kmax = case["kmax"]
    bank = [build(case, delayed=False, bias=False) for _ in range(kmax + 1)]
    W = torch.tensor(case["W"], dtype=torch.float64)
    kmask = torch.tensor(case["kmask"], dtype=torch.int64)
    hist = []     # inputs since the last clear: (x, [inj])
    out = []
    cls = case["syn"]["cls"]
    good_shape = None
    for op in case["ops"]:
        k = op[0]
        if k == "clear":
            for u in bank:
                u.clear()
            hist = []
            out.append(None)
            continue
        if k == "setdelay":
            kmask = torch.tensor(op[2], dtype=torch.int64)
            out.append(None)
            continue
        if k in ("setdt", "setmaxdelay"):
            # both setters clear the synapse; the undelayed copies follow the step time, and start a new history
            for u in bank:
                if k == "setdt":
                    u.dt = op[1]
                u.clear()
            hist = []
            kmask = torch.tensor(op[3], dtype=torch.int64)
            out.append(None)
            continue
        if k == "setbatch":
            nb = int(op[1])
            for u in bank:
                u.batchsz = nb

            def rebatch(t):
                ob = t.shape[0]
                if nb <= ob:
                    return t[ob - nb:]
                return torch.cat((torch.zeros((nb - ob,) + tuple(t.shape[1:]), dtype=t.dtype), t), 0)
            hist = [(rebatch(x), [rebatch(i) for i in inj]) for x, inj in hist]
            out.append(None)
            continue
        if k != "step":
            out.append(None)
            continue
        if list(op[1]) != list(bank[0].batched_inshape):
            out.append(None)      # malformed input: raises in the connection under test, nothing is recorded
            continue
        x = tensor_in(case, op[1], op[2])
        inj = [torch.tensor(i, dtype=torch.float64).reshape(op[1]) for i in op[3]]
        hist.append((x, inj))
        rec = {}
        for kk, u in enumerate(bank):
            j = len(hist) - 1 - kk
            if j >= 0:
                xin, injin = hist[j]
            else:
                xin, injin = torch.zeros_like(x), []
            with torch.no_grad():
                u.weight = (W * (kmask == kk).to(torch.float64)).reshape(u.weight.shape)
            y = u(xin, *injin)
            r = {"out": flt(y), "cur": flt(u.synapse.current), "spk": [int(v) for v in u.synapse.spike.reshape(-1).tolist()]}
            if cls == 3:
                r["pos"] = flt(u.synapse.pos_current)
                r["neg"] = flt(u.synapse.neg_current)
            rec[str(kk)] = r
        out.append(rec)
    return out


def handler(payload):
    res = []
    for c in payload["cases"]:
        try:
            tr, info = run_conn(c)
        except Exception as e:  # constructor failure etc.
            res.append({"crash": f"{type(e).__name__}: {e}"[:300]})
            continue
        try:
            bank = run_bank(c)
        except Exception as e:  # noqa
            bank = {"crash": f"{type(e).__name__}: {e}"[:300]}
        res.append({"trace": tr, "info": info, "bank": bank})
    return res


if __name__ == "__main__":
    main(handler)
