"""C16, implementation side: runs hook operation sequences (register / deregister / mode switches / module
calls / manual calls / deletion + gc.collect()) and Clamping / Normalization hooks on the REAL classes
(inferno.Hook, ContextualHook, StateHook, inferno.neural.Clamping / Normalization); canonical traces out."""
import gc, warnings, weakref
import torch
import torch.nn as nn
from common import main, exc_code, fhex
from inferno import Module, Hook, ContextualHook, StateHook
from inferno.neural import Clamping, Normalization

warnings.simplefilter("ignore")
LOG = []           # events of the operation being executed


class ProbeModule(Module):
    def __init__(self, idx):
        Module.__init__(self)
        self.idx = idx

    def forward(self, fail=False):
        LOG.append([-1, self.idx])
        if fail:
            raise ValueError("probe forward failed")
        return None


class Probe:
    """passive pre/post callable for Hook; holds no reference to the hook"""

    def __init__(self, idx, tag):
        self.idx, self.tag = idx, tag

    def __call__(self, module, *args, **kwargs):
        LOG.append([self.idx, self.tag])


class CtxProbe(ContextualHook):
    def __init__(self, idx, pre, post, **kw):
        self.idx = idx
        ContextualHook.__init__(self, prehook="on_pre" if pre else None, posthook="on_post" if post else None, **kw)

    def on_pre(self, module, *args, **kwargs):
        LOG.append([self.idx, 0])

    def on_post(self, module, *args, **kwargs):
        LOG.append([self.idx, 1])


class StateProbe(StateHook):
    def __init__(self, idx, module, **kw):
        StateHook.__init__(self, module, **kw)
        self.idx = idx

    def hook(self, module):
        LOG.append([self.idx, 2])


def err_of(e):
    c = exc_code(e)
    return [c] if c != 9 else [9, f"{type(e).__name__}: {e}"[:200]]


class World:
    def __init__(self, nmods):
        self.mods = [ProbeModule(i) for i in range(nmods)]
        self.hooks = []       # strong references; None once deleted
        self.refs = []        # weak references, to observe that deletion really destroyed the object
        self.extra = []       # per hook: was it destroyed by reference counting alone (no cycle)?

    def index_of(self, obj):
        for i, h in enumerate(self.hooks):
            if h is not None and h is obj:
                return i
        return -1

    def owner(self, fn):
        cands = []
        if hasattr(fn, "__self__"):
            cands.append(fn.__self__)
        for c in (getattr(fn, "__closure__", None) or ()):
            try:
                v = c.cell_contents
            except ValueError:
                continue
            if isinstance(v, weakref.ref):
                v = v()
            cands.append(v)
        for o in cands:
            if isinstance(o, Hook):
                return self.index_of(o)
        return -1

    def snapshot(self):
        ms = []
        for m in self.mods:
            pre = [self.owner(f) for f in m._forward_pre_hooks.values()]
            post = [self.owner(f) for f in m._forward_hooks.values()]
            alw = [self.owner(f) for i, f in m._forward_hooks.items() if i in m._forward_hooks_always_called]
            ms.append([int(m.training), pre, post, alw])
        hs = []
        for h, r in zip(self.hooks, self.refs):
            if r() is None:
                hs.append([0])
            else:
                o = r()
                hs.append([1, int(bool(o.registered)), int(bool(o.trainexec)), int(bool(o.evalexec))])
                del o
        return [ms, hs]

    def apply(self, op):
        k = op[0]
        if k == "new":
            _, kind, pre, post, pp, qp, alw, pbad, qbad, mod, te, ee = op
            idx = len(self.hooks)
            if kind == 2:
                target = self.mods[mod] if mod < len(self.mods) else 5
                obj = StateProbe(idx, target, train_update=bool(te), eval_update=bool(ee), as_prehook=bool(pre),
                                 prepend=bool(pp), always_call=bool(alw))
            else:
                pk = {"prepend": bool(pp)}
                qk = {"prepend": bool(qp), "always_call": bool(alw)}
                if pbad:
                    pk["bogus"] = 1
                if qbad:
                    qk["bogus"] = 1
                if kind == 0:
                    obj = Hook(Probe(idx, 0) if pre else None, Probe(idx, 1) if post else None, prehook_kwargs=pk,
                               posthook_kwargs=qk, train_update=bool(te), eval_update=bool(ee))
                else:
                    obj = CtxProbe(idx, pre, post, prehook_kwargs=pk, posthook_kwargs=qk, train_update=bool(te),
                                   eval_update=bool(ee))
            self.hooks.append(obj)
            self.refs.append(weakref.ref(obj))
            self.extra.append(None)
            return
        if k == "reg":
            h = self.hooks[op[1]]
            if isinstance(h, StateHook):
                h.register()
            else:
                h.register(self.mods[op[2]] if op[2] < len(self.mods) else 5)
            return
        if k == "dereg":
            self.hooks[op[1]].deregister()
            return
        if k == "train":
            self.mods[op[1]].train(bool(op[2]))
            return
        if k == "exec":
            if op[2]:
                self.hooks[op[1]].trainexec = bool(op[3])
            else:
                self.hooks[op[1]].evalexec = bool(op[3])
            return
        if k == "call":
            self.mods[op[1]](bool(op[2]))
            return
        if k == "manual":
            self.hooks[op[1]](bool(op[2]), bool(op[3]))
            return
        if k == "del":
            r = self.refs[op[1]]
            self.hooks[op[1]] = None
            self.extra[op[1]] = int(r() is None)      # destroyed without the cycle collector?
            gc.collect()
            return
        raise AssertionError(k)


def run_sm(case):
    w = World(case["nmods"])
    tr = []
    for op in case["ops"]:
        LOG.clear()
        try:
            w.apply(op)
            e = []
        except Exception as ex:  # noqa
            e = err_of(ex)
        tr.append([[list(x) for x in LOG], e, w.snapshot()])
    return {"trace": tr, "refcount_only": w.extra}


# ------------------------------------------------------------------ numeric hooks
class Holder(Module):
    def __init__(self):
        Module.__init__(self)


class NumModule(Module):
    def __init__(self, attr, data, storage):
        Module.__init__(self)
        self.attr = attr
        holder = self
        if "." in attr:
            self.inner = Holder()
            holder = self.inner
        name = attr.split(".")[-1]
        if storage == "buffer":
            holder.register_buffer(name, data)
        else:
            setattr(holder, name, data)

    def get(self):
        o = self
        for p in self.attr.split("."):
            o = getattr(o, p)
        return o

    def forward(self):
        o = self
        parts = self.attr.split(".")
        for p in parts[:-1]:
            o = getattr(o, p)
        setattr(o, parts[-1], getattr(o, parts[-1]) * 2)


RAN = []


class CountClamping(Clamping):
    def hook(self, module):
        RAN.append(1)
        return Clamping.hook(self, module)


class CountNormalization(Normalization):
    def hook(self, module):
        RAN.append(1)
        return Normalization.hook(self, module)


def parse_order(o):
    if o == "inf":
        return float("inf")
    if o == "-inf":
        return float("-inf")
    return o


def run_num(case):
    data = torch.tensor(case["data"], dtype=torch.float64).reshape(case["shape"])
    mod = NumModule(case["attr"], data, case["storage"])
    RAN.clear()
    kw = dict(train_update=bool(case["te"]), eval_update=bool(case["ee"]), as_prehook=bool(case["as_pre"]))
    try:
        if case["kind"] == "clamp":
            hk = CountClamping(mod, case["attr"], case["lo"], case["hi"], **kw)
        else:
            dim = case["dim"]
            if isinstance(dim, list):
                dim = tuple(dim)
            hk = CountNormalization(mod, case["attr"], parse_order(case["order"]), case["scale"], dim, case["eps"], **kw)
    except Exception as ex:  # noqa
        return {"err": err_of(ex), "out": None, "ran": None}
    RAN.clear()
    ran = RAN
    if case["reg"]:
        hk.register()
    mod.train(bool(case["training"]))
    try:
        mod()
    except Exception as ex:  # noqa
        return {"err": [8] + err_of(ex), "out": None, "ran": len(ran)}
    out = mod.get()
    return {"err": [], "out": [fhex(v) for v in out.reshape(-1).tolist()], "shape": list(out.shape), "ran": len(ran)}


# ------------------------------------------------------------------ numeric hooks over operation sequences
NDT = {0: torch.bool, 1: torch.int16, 2: torch.int32, 3: torch.int64, 4: torch.float32, 5: torch.float64}
NDTR = {v: k for k, v in NDT.items()}


class PlainObj:
    """an intermediate object on the attribute path that is not an nn.Module"""


class SeqRoot(Module):
    def forward(self):
        return None


class TorchHolder(nn.Module):
    """a plain torch module (not an inferno Module)"""

    def forward(self):
        return None


def _param_class(base, name):
    """inferno-style parameter target (cf. WeightMixin): parameter `<name>_`, property `<name>` whose setter
    assigns `.data`"""
    def getter(self):
        return getattr(self, name + "_")

    def setter(self, value):
        getattr(self, name + "_").data = value
    return type("ParamHolder_" + name, (base,), {name: property(getter, setter)})


def mk_tensor(dt, shape, vals):
    return torch.tensor(vals, dtype=torch.float64).reshape(shape).to(NDT[dt])


def build_owner(kind, root, storage, name, tensor, owner="inferno"):
    """the object holding the final attribute"""
    if storage == "param_direct" and owner != "inferno":
        # a bare nn.Parameter attribute of a plain torch module / the weight of an nn.Linear
        if owner == "linear" and not root and tensor.ndim == 2 and name == "weight":
            o = nn.Linear(tensor.shape[1], tensor.shape[0], bias=False, dtype=tensor.dtype)
            o.weight = nn.Parameter(tensor, False)
        else:
            o = TorchHolder()
            o.register_parameter(name, nn.Parameter(tensor, False))
        return o
    if storage in ("param", "param_direct") or storage == "buffer" or kind == "module" or root:
        base = SeqRoot if root else Holder
        if storage == "param":
            o = _param_class(base, name)()
            o.register_parameter(name + "_", nn.Parameter(tensor, False))
        else:
            o = base()
            if storage == "buffer":
                o.register_buffer(name, tensor)
            elif storage == "param_direct":
                o.register_parameter(name, nn.Parameter(tensor, False))
            else:
                setattr(o, name, tensor)
        return o
    o = PlainObj()
    setattr(o, name, tensor)
    return o


def build_tree(case, comps, tensor, root):
    """object for path components `comps` (last = tensor attribute)"""
    if len(comps) == 1:
        return build_owner(case["inter"], root, case["storage"], comps[0], tensor, case.get("owner", "inferno"))
    child = build_tree(case, comps[1:], tensor, False)
    o = SeqRoot() if root else (Holder() if case["inter"] == "module" else PlainObj())
    setattr(o, comps[0], child)
    return o


def enc_val(t):
    t = t.detach()
    return [NDTR.get(t.dtype, 9), list(t.shape), [fhex(v) for v in t.reshape(-1).to(torch.float64).tolist()]]


def bound(b):
    if b is None:
        return None
    return int(b["v"]) if b["int"] else float(b["v"])


def run_nseq(case):
    path = case["path"]
    attr = ".".join(path)
    root = build_tree(case, path, mk_tensor(case["dtype"], case["shape"], case["data"]), True)
    kw = dict(train_update=bool(case["te"]), eval_update=bool(case["ee"]), as_prehook=bool(case["as_pre"]))
    RAN.clear()
    if case["hook"] == "clamp":
        hk = CountClamping(root, attr, bound(case["lo"]), bound(case["hi"]), **kw)
    else:
        dim = case["dim"]
        hk = CountNormalization(root, attr, parse_order(case["order"]), case["scale"],
                                tuple(dim) if isinstance(dim, list) else dim, case["eps"], **kw)

    def walk(n):
        o = root
        for p in path[:n]:
            o = getattr(o, p)
        return o

    def observe(err):
        try:
            val = enc_val(walk(len(path)))
        except Exception as ex:  # noqa
            val = ["unreadable", f"{type(ex).__name__}: {ex}"[:100]]
        return {"err": err, "ran": len(RAN), "val": val,
                "flags": [int(bool(hk.registered)), int(bool(hk.trainexec)), int(bool(hk.evalexec)), int(root.training)]}

    tr = [observe([])]
    for op in case["ops"]:
        k = op[0]
        err = []
        try:
            if k == "call":
                root()
            elif k == "manual":
                hk(bool(op[1]), bool(op[2]))
            elif k == "train":
                root.train(bool(op[1]))
            elif k == "reg":
                hk.register()
            elif k == "dereg":
                hk.deregister()
            elif k == "exec":
                if op[1]:
                    hk.trainexec = bool(op[2])
                else:
                    hk.evalexec = bool(op[2])
            elif k == "setdata":
                t = mk_tensor(op[1], case["shape"], op[2])
                if case["storage"] == "param_direct":
                    t = nn.Parameter(t, False)
                setattr(walk(len(path) - 1), path[-1], t)
            elif k == "replace":
                lvl = op[1]            # replace the object at path[lvl] (an intermediate component)
                sub = build_tree(case, path[lvl + 1:], mk_tensor(op[2], case["shape"], op[3]), False)
                setattr(walk(lvl), path[lvl], sub)
            elif k == "setparam":
                name, v = op[1], op[2]
                if name in ("lo", "hi"):
                    setattr(hk, "clampmin" if name == "lo" else "clampmax", bound(v))
                elif name == "order":
                    hk.order = parse_order(v)
                elif name == "dim":
                    hk.dim = tuple(v) if isinstance(v, list) else v
                elif name == "scale":
                    hk.scale = v
                elif name == "eps":
                    hk.eps = v
                else:
                    raise AssertionError(name)
            else:
                raise AssertionError(k)
        except AssertionError:
            raise
        except Exception as ex:  # noqa
            err = err_of(ex)
        tr.append(observe(err))
    return {"trace": tr}


def handler(payload):
    res = []
    for c in payload["cases"]:
        if c["kind"] == "sm":
            res.append(run_sm(c))
        elif c["kind"] == "nseq":
            res.append(run_nseq(c))
        else:
            res.append(run_num(c))
    return res


if __name__ == "__main__":
    main(handler)
