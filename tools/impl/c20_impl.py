"""C20: runs the REAL numerical helpers of inferno (interp/extrap, isi, Victor-Purpura, stats) on cases
given as JSON; exact floats out (common.fhex).  Also evaluates the densities on dense grids for the
quadrature oracle (kind "quad_*": numeric test, not a proof)."""
import math
import torch
from common import main, fhex, exc_code
import inferno
from inferno.functional import interpolation as I, extrapolation as E
from inferno.core.math import isi, victor_purpura_pair_dist
from inferno.stats import Normal, LogNormal, Poisson

EXTRAP = {0: E.extrap_previous, 1: E.extrap_next, 2: E.extrap_nearest, 3: E.extrap_neighbors,
          4: E.extrap_neighbors, 5: E.extrap_neighbors, 6: E.extrap_neighbors, 7: E.extrap_linear_forward,
          8: E.extrap_linear_backward, 9: E.extrap_expdecay, 10: E.extrap_expratedecay}
INTERP = {0: I.interp_previous, 3: I.interp_previous, 1: I.interp_next, 4: I.interp_next,
          2: I.interp_nearest, 5: I.interp_nearest, 6: I.interp_linear, 7: I.interp_linear,
          8: I.interp_linear, 9: I.interp_expdecay, 10: I.interp_expratedecay}


def T(x):
    return torch.tensor([float(x)], dtype=torch.float64)


def f1(t):
    return fhex(float(t.reshape(-1)[0]))


def do_ie(c):
    k = c["k"]
    kw = {}
    if k in (7, 8):
        kw["adjust"] = (lambda x: x * 0.5) if c["adj"] else None
    if k == 9:
        kw["time_constant"] = float(c["c"])
    if k == 10:
        kw["rate_constant"] = float(c["c"])
    s, t, p, n = T(c["s"]), T(c["t"]), T(c["p"]), T(c["n"])
    dt = float(c["dt"])
    ep, en = EXTRAP[k](s, t, p, n, dt, **kw)
    ikw = {a: b for a, b in kw.items() if a != "adjust"}
    back = INTERP[k](ep, en, t, dt, **ikw)
    direct = INTERP[k](p, n, t, dt, **ikw)
    return [f1(ep), f1(en), f1(back), f1(direct)]


def do_isi(c):
    x = torch.tensor(c["data"], dtype=torch.bool).reshape(c["shape"])
    if c.get("default_layout"):
        # the documented default: time first (the argument is NOT passed)
        assert c["time_first"]
        r = isi(x, c["dt"])
    else:
        r = isi(x, c["dt"], time_first=c["time_first"])
    # flatten the population axes: (C-1, M) when time first, (M, C-1) when time last
    m = int(c["m"])
    lead = r.shape[0] if c["time_first"] else (r.shape[-1] if r.ndim else 0)
    if r.ndim == 0 or lead * m != r.numel() or (m and list(r.shape[1:] if c["time_first"] else r.shape[:-1]) != list(c["pop"])):
        return {"shape": list(r.shape), "dtype": str(r.dtype), "rows2d": None, "rows": None}
    if c["time_first"]:
        r2 = r.reshape(r.shape[0], m)
    else:
        r2 = r.reshape(m, r.shape[-1])
    rows = [[None if v != v else fhex(v) for v in row] for row in r2.tolist()]
    return {"shape": list(r.shape), "dtype": str(r.dtype), "rows2d": [r2.shape[0], r2.shape[1]], "rows": rows}


def cost_of(c):
    return math.inf if c == "inf" else float(c)


def do_vp(c):
    t0 = torch.tensor(c["t0"], dtype=torch.float64)
    t1 = torch.tensor(c["t1"], dtype=torch.float64)
    q = cost_of(c["cost"])
    cost = q if c["scalar"] else torch.tensor([q], dtype=torch.float64)
    r = victor_purpura_pair_dist(t0, t1, cost)
    return {"shape": list(r.shape), "d": fhex(float(r.reshape(-1)[0].double()))}


def do_normal(c):
    x, l, s = T(c["x"]), T(c["loc"]), T(c["scale"])
    return [f1(Normal.pdf(x, l, s)), f1(Normal.logpdf(x, l, s)), f1(Normal.cdf(x, l, s)),
            f1(Normal.logcdf(x, l, s)), f1(Normal.mean(l)), f1(Normal.variance(s))]


def do_normal_mv(c):
    l, s = Normal.params_mv(T(c["m"]), T(c["v"]))
    return [f1(l), f1(s), f1(Normal.mean(l)), f1(Normal.variance(s))]


def do_lognormal(c):
    x, l, s = T(c["x"]), T(c["loc"]), T(c["scale"])
    return [f1(LogNormal.pdf(x, l, s)), f1(LogNormal.logpdf(x, l, s)), f1(LogNormal.cdf(x, l, s)),
            f1(LogNormal.logcdf(x, l, s)), f1(LogNormal.mean(l, s)), f1(LogNormal.variance(l, s))]


def do_lognormal_mv(c):
    l, s = LogNormal.params_mv(T(c["m"]), T(c["v"]))
    return [f1(l), f1(s), f1(LogNormal.mean(l, s)), f1(LogNormal.variance(l, s))]


def do_poisson(c):
    k, sup, r = T(c["k"]), T(c["support"]), T(c["rate"])
    pm, lp = f1(Poisson.pmf(k, r)), f1(Poisson.logpmf(k, r))
    # (twice: the model reports the explicit-infinity reading and the IEEE reading of the same formula)
    return [pm, lp, pm, lp, f1(Poisson.cdf(sup, r)),
            f1(Poisson.logcdf(sup, r)), f1(Poisson.mean(r)), f1(Poisson.variance(r))]


# ------------------------------------------------------------------ quadrature (numeric test)
def simpson(y, h):
    n = y.numel()
    assert n % 2 == 1
    return float(h / 3 * (y[0] + y[-1] + 4 * y[1:-1:2].sum() + 2 * y[2:-1:2].sum()))


def do_quad_cont(c):
    """integrals of the density of Normal / LogNormal computed by composite Simpson on the implementation's
    own pdf; LogNormal is integrated in u = log x (dx = e^u du)."""
    D = Normal if c["dist"] == "normal" else LogNormal
    loc, scale = float(c["loc"]), float(c["scale"])
    l, s = T(loc), T(scale)
    npts = 40001
    lo, hi = loc - 12 * scale, loc + 12 * scale
    u = torch.linspace(lo, hi, npts, dtype=torch.float64)
    h = (hi - lo) / (npts - 1)
    if D is Normal:
        x = u
        w = torch.ones_like(u)
        mean = float(Normal.mean(l)); var = float(Normal.variance(s))
    else:
        x = torch.exp(u)
        w = x
        mean = float(LogNormal.mean(l, s)); var = float(LogNormal.variance(l, s))
    pdf = D.pdf(x, l, s)
    elp = torch.exp(D.logpdf(x, l, s))
    cdf = D.cdf(x, l, s)
    lcdf = D.logcdf(x, l, s)
    total = simpson(pdf * w, h)
    m1 = simpson(x * pdf * w, h)
    m2 = simpson((x - mean) ** 2 * pdf * w, h)
    # partial integrals from the left end to a few interior points (index multiple of 2 for Simpson)
    parts = []
    for frac in (0.3, 0.45, 0.5, 0.55, 0.7):
        j = int(frac * (npts - 1)) // 2 * 2
        parts.append({"x": float(x[j]), "integral": simpson((pdf * w)[: j + 1], h),
                      "cdf_diff": float(cdf[j] - cdf[0])})
    j0, j1 = int(0.3 * (npts - 1)), int(0.7 * (npts - 1))
    return {"total": total, "mean_quad": m1, "var_quad": m2, "mean": mean, "var": var, "parts": parts,
            "max_exp_logpdf_err": float(((elp - pdf).abs() / pdf.clamp_min(1e-300))[j0:j1].max()),
            "max_logcdf_err": float((lcdf - torch.log(cdf))[j0:j1].abs().max()),
            "cdf_lo": float(cdf[0]), "cdf_hi": float(cdf[-1]),
            "cdf_monotone": bool((cdf[1:] >= cdf[:-1]).all())}


def do_quad_poisson(c):
    rate = float(c["rate"])
    K = int(rate + 20 * math.sqrt(rate) + 60)
    k = torch.arange(0, K + 1, dtype=torch.float64)
    r = T(rate)
    pmf = Poisson.pmf(k, r)
    elp = torch.exp(Poisson.logpmf(k, r))
    cdf = Poisson.cdf(k, r)
    lcdf = Poisson.logcdf(k, r)
    cs = torch.cumsum(pmf, 0)
    mean = float(Poisson.mean(r)); var = float(Poisson.variance(r))
    v = Poisson.validate(rate=r, support=k)
    return {"valid": bool(torch.as_tensor(v["rate"]).all()) and bool(torch.as_tensor(v["support"]).all()),
            "total": float(pmf.sum()), "mean_sum": float((k * pmf).sum()),
            "var_sum": float(((k - mean) ** 2 * pmf).sum()), "mean": mean, "var": var,
            "max_cdf_err": float((cs - cdf).abs().max()),
            "max_exp_logpmf_err": float((elp - pmf).abs().max()),
            "max_logcdf_err": float((lcdf - torch.log(cdf)).abs().max()),
            "cdf_half": float(Poisson.cdf(T(2.5), r)), "cdf_two": float(Poisson.cdf(T(2.0), r)), "K": K}


# ------------------------------------------------------------------ dtype robustness / float32 accuracy (numeric tests)
SD = {"int64": torch.int64, "int32": torch.int32, "bool": torch.bool, "float32": torch.float32, "float64": torch.float64}


def mkparam(v, kind):
    if kind == "pyfloat":
        return float(v)
    if kind == "pyint":
        assert float(v) == int(v)
        return int(v)
    if kind == "t64_0d":
        return torch.tensor(float(v), dtype=torch.float64)
    if kind == "t64":
        return torch.tensor([float(v)], dtype=torch.float64)
    if kind == "t32":
        return torch.tensor([float(v)], dtype=torch.float32)
    if kind == "np64":
        import numpy as np
        return np.float64(v)
    raise AssertionError(kind)


def dist_functions(dist, sup, ps):
    """every support-taking classmethod of the distribution, as {name: tensor}"""
    D = {"poisson": Poisson, "normal": Normal, "lognormal": LogNormal}[dist]
    if dist == "poisson":
        names = ["pmf", "logpmf", "cdf", "logcdf"]
    else:
        names = ["pdf", "logpdf", "cdf", "logcdf"]
    return {nm: getattr(D, nm)(sup, *ps) for nm in names}


def tolist64(t):
    return [float(v) for v in torch.as_tensor(t).reshape(-1).double().tolist()]


def do_dtype(c):
    """the same evaluation with (a) a support tensor of the requested dtype and parameters of the requested python /
    tensor kind and (b) everything as float64 tensors (reference); both lists out"""
    vals = c["support"]
    sup = torch.tensor(vals, dtype=torch.float64).to(SD[c["sdtype"]])
    ps = [mkparam(v, c["pkind"]) for v in c["params"]]
    test = dist_functions(c["dist"], sup, ps)
    ref = dist_functions(c["dist"], torch.tensor(vals, dtype=torch.float64),
                         [torch.tensor([float(v)], dtype=torch.float64) for v in c["params"]])
    return {"test": {k: tolist64(v) for k, v in test.items()}, "ref": {k: tolist64(v) for k, v in ref.items()},
            "dtypes": {k: str(v.dtype) for k, v in test.items()}}


def do_f32(c):
    """python-float arguments only (the functions convert them to float32 tensors): every classmethod"""
    dist = c["dist"]
    D = {"poisson": Poisson, "normal": Normal, "lognormal": LogNormal}[dist]
    ps = [float(v) for v in c["params"]]
    out = {}
    if c.get("support") is not None:
        for x in c["support"]:
            for nm, v in dist_functions(dist, float(x), ps).items():
                out.setdefault(nm, []).append(float(v))
    if dist == "poisson":
        out["mean"], out["variance"] = float(D.mean(ps[0])), float(D.variance(ps[0]))
    elif dist == "normal":
        out["mean"], out["variance"] = float(D.mean(ps[0])), float(D.variance(ps[1]))
    else:
        out["mean"], out["variance"] = float(D.mean(*ps)), float(D.variance(*ps))
    if c.get("mv") is not None:
        l, s = D.params_mv(float(c["mv"][0]), float(c["mv"][1]))
        if dist == "normal":
            out["mv"] = [float(l), float(s), float(D.mean(l)), float(D.variance(s))]
        else:
            out["mv"] = [float(l), float(s), float(D.mean(l, s)), float(D.variance(l, s))]
    return out


def mkcost(v, kind):
    import numpy as np
    if kind == "pyint":
        return int(v)
    if kind == "pyfloat":
        return float(v)
    if kind == "np64":
        return np.float64(v)
    if kind == "npint":
        return np.int64(v)
    dt = {"i64": torch.int64, "f32": torch.float32, "f64": torch.float64}[kind[-3:]]
    return torch.tensor(v, dtype=dt) if kind.startswith("t0d") else torch.tensor([v], dtype=dt)


def do_vpk(c):
    """Victor-Purpura on mixed argument kinds, and the all-float64 evaluation of the same pairs"""
    td = SD[c["tdtype"]]
    tr = {k: torch.tensor(c[k], dtype=torch.float64) for k in ("a", "b", "c")}
    out = {}
    for r, x, y in (("ab", "a", "b"), ("ba", "b", "a"), ("aa", "a", "a"), ("ac", "a", "c"), ("bc", "b", "c")):
        d = victor_purpura_pair_dist(tr[x].to(td), tr[y].to(td), mkcost(c["cost"], c["ckind"]))
        ref = victor_purpura_pair_dist(tr[x], tr[y], torch.tensor([float(c["cost"])], dtype=torch.float64))
        out[r] = {"d": float(d.reshape(-1)[0]), "dtype": str(d.dtype), "shape": list(d.shape), "ref": float(ref.reshape(-1)[0])}
    return out


def do_isik(c):
    base = torch.tensor(c["data"], dtype=torch.int64).reshape(c["shape"])
    x = base.to({"bool": torch.bool, "int64": torch.int64, "int8": torch.int8, "float32": torch.float32,
                 "float64": torch.float64}[c["rdtype"]])
    dt = c["dt"]
    st = {"pyint": lambda: int(dt), "pyfloat": lambda: float(dt), "t0d_f32": lambda: torch.tensor(dt, dtype=torch.float32),
          "t0d_f64": lambda: torch.tensor(dt, dtype=torch.float64)}[c["skind"]]()
    r = isi(x, st, time_first=c["time_first"])
    ref = isi(base.bool(), float(dt), time_first=c["time_first"])
    f = lambda t: [None if v != v else float(v) for v in t.reshape(-1).double().tolist()]
    return {"test": f(r), "ref": f(ref), "shape": list(r.shape), "ref_shape": list(ref.shape), "dtype": str(r.dtype)}


def do_iek(c):
    k = c["k"]
    dd, sd = SD[c["ddtype"]], SD[c["sdtype"]]
    num = (lambda v: int(v)) if c["nkind"] == "pyint" else (lambda v: float(v))

    def run(conv_d, conv_s, num_):
        kw = {}
        if k in (7, 8):
            kw["adjust"] = None
        if k == 9:
            kw["time_constant"] = num_(c["c"])
        if k == 10:
            kw["rate_constant"] = num_(c["c"])
        s_, p, n = (conv_d(torch.tensor([float(c[q])], dtype=torch.float64)) for q in ("s", "p", "n"))
        t = conv_s(torch.tensor([float(c["t"])], dtype=torch.float64))
        dt = num_(c["dt"])
        ep, en = EXTRAP[k](s_, t, p, n, dt, **kw)
        ikw = {a: b for a, b in kw.items() if a != "adjust"}
        back = INTERP[k](ep, en, t, dt, **ikw)
        direct = INTERP[k](p, n, t, dt, **ikw)
        return [ep, en, back, direct]
    test = run(lambda x: x.to(dd), lambda x: x.to(sd), num)
    ref = run(lambda x: x, lambda x: x, float)
    return {"test": [float(v.reshape(-1)[0]) for v in test], "ref": [float(v.reshape(-1)[0]) for v in ref],
            "dtypes": [str(v.dtype) for v in test]}


KINDS = {"vpk": do_vpk, "isik": do_isik, "iek": do_iek, "dtype": do_dtype, "f32": do_f32, "ie": do_ie, "isi": do_isi, "vp": do_vp, "normal": do_normal, "normal_mv": do_normal_mv,
         "lognormal": do_lognormal, "lognormal_mv": do_lognormal_mv, "poisson": do_poisson,
         "quad_cont": do_quad_cont, "quad_poisson": do_quad_poisson}


def handler(payload):
    out = []
    for c in payload["cases"]:
        try:
            out.append({"ok": KINDS[c["kind"]](c)})
        except RecursionError as e:
            out.append({"err": 7, "msg": "RecursionError"})
        except Exception as e:  # noqa
            out.append({"err": exc_code(e), "msg": f"{type(e).__name__}: {e}"[:200]})
    return out


if __name__ == "__main__":
    main(handler)
