"""Runs fold-reducer operation sequences (and the bare trace kernels) on the real implementation;
canonical traces out.  Floats are exported exactly (common.fhex)."""
import torch
from common import main, exc_code, fhex
import inferno
from inferno.observe.reducers.trace import (
    NearestTraceReducer, CumulativeTraceReducer, ScaledNearestTraceReducer, ScaledCumulativeTraceReducer,
    ConditionalNearestTraceReducer, ConditionalCumulativeTraceReducer)
from inferno.observe.reducers.general import EventReducer, PassthroughReducer
from inferno.observe.reducers.stats import EMAReducer, CAReducer

KEEP = []  # RecordTensor only weak-references its owner


def crit_fn(c):
    op, v = c
    if op == "gt":
        return lambda x: x > v
    if op == "ge":
        return lambda x: x >= v
    if op == "ne":
        return lambda x: x != v
    if op == "lt":
        return lambda x: x < v
    raise AssertionError(op)


def build(case):
    k, p = case["kind"], case["params"]
    kw = dict(duration=case["duration"], inclusive=case["inclusive"], inplace=case["inplace"])
    dt = case["dt"]
    if k == "nearest":
        r = NearestTraceReducer(dt, p["tau"], p["amp"], p["target"], p["tol"], **kw)
    elif k == "cumulative":
        r = CumulativeTraceReducer(dt, p["tau"], p["amp"], p["target"], p["tol"], **kw)
    elif k == "snearest":
        r = ScaledNearestTraceReducer(dt, p["tau"], p["amp"], p["scale"], crit_fn(p["crit"]), **kw)
    elif k == "scumulative":
        r = ScaledCumulativeTraceReducer(dt, p["tau"], p["amp"], p["scale"], crit_fn(p["crit"]), **kw)
    elif k == "cnearest":
        r = ConditionalNearestTraceReducer(dt, p["tau"], p["amp"], p["scale"], **kw)
    elif k == "ccumulative":
        r = ConditionalCumulativeTraceReducer(dt, p["tau"], p["amp"], p["scale"], **kw)
    elif k == "event":
        r = EventReducer(dt, crit_fn(p["crit"]), p["initial"], **kw)
    elif k == "pass":
        r = PassthroughReducer(dt, **kw)
    elif k == "ema":
        r = EMAReducer(dt, p["alpha"], **kw)
    elif k == "ca":
        r = CAReducer(dt, **kw)
    else:
        raise AssertionError(k)
    KEEP.append(r)
    return r


def flat(t):
    return [fhex(v) for v in t.detach().reshape(-1).to(torch.float64).tolist()]


def snapshot(r, case):
    rt = r.data_
    v = rt.value
    head = [rt.recordsz, rt.pointer, 1 if r._initial else 0]
    if v is None:
        st = [0]
    elif v.numel() == 0 and v.ndim <= 1:
        st = [1]
    else:
        st = [2, list(v.shape[1:]), [flat(v[i]) for i in range(v.shape[0])]]
    extra = [fhex(r.dt), fhex(rt.dt)]
    extra.append(fhex(r.decay) if hasattr(r, "decay") else None)
    extra.append(int(r._count) if case["kind"] == "ca" else None)
    extra.append(1 if r.inplace else 0)
    extra.append(str(v.dtype) if v is not None else None)
    return head + [st] + extra


def mk_obs(op):
    _, shape, els, isbool = op[:4]
    t = torch.tensor(els, dtype=torch.float64).reshape(shape)
    return t.to(torch.bool) if isbool else t


def apply(r, case, op):
    k = op[0]
    if k == "fwd":
        obs = mk_obs(op)
        if case["kind"] in ("cnearest", "ccumulative"):
            cond = torch.tensor(op[4], dtype=torch.bool).reshape(op[1])
            out = r(obs, cond)
        else:
            out = r(obs)
        assert out is None
        return [1]
    if k == "peek":
        o = r.peek()
        return [0] if o is None else [3, list(o.shape), flat(o)]
    if k == "latest":
        o = r.latest
        return [0] if o is None else [3, list(o.shape), flat(o)]
    if k == "dump":
        o = r.dump()
        return [0] if o is None else [4, list(o.shape[1:]), [flat(o[i]) for i in range(o.shape[0])]]
    if k == "view_s":
        o = r.view(op[1], op[2]) if op[2] is not None else r.view(op[1])
        return [0] if o is None else [3, list(o.shape), flat(o)]
    if k == "view_t":
        # op[1]: per element a list of D times; op[2]: obs shape; op[3]: squeeze (D == 1 and no trailing dim)
        times, shape, squeeze, tol = op[1], op[2], op[3], op[4]
        D = len(times[0]) if times else 1
        t = torch.tensor(times, dtype=torch.float64).reshape(list(shape) + [D])
        if squeeze:
            t = t.squeeze(-1)
        o = r.view(t, tol) if tol is not None else r.view(t)
        if o is None:
            return [0]
        assert list(o.shape) == list(t.shape), (o.shape, t.shape)
        return [5, [flat(row) for row in o.reshape(-1, D)]]
    if k == "clear":
        r.clear(keepshape=op[1])
        return [1]
    if k == "set_dt":
        r.dt = op[1]
        return [1]
    if k == "set_inplace":
        r.inplace = op[1]
        return [1]
    raise AssertionError(k)


def run_case(case):
    r = build(case)
    tr = [[[0, [1]], snapshot(r, case)]]
    for op in case["ops"]:
        try:
            out = [0, apply(r, case, op)]
        except Exception as e:  # noqa
            c = exc_code(e)
            out = [1, c] if c != 9 else [1, 9, f"{type(e).__name__}: {e}"[:200]]
        tr.append([out, snapshot(r, case)])
    return tr


# ---- bare kernels (inferno.trace_* and exponential_smoothing): one call on scalars
def run_kernel(kc):
    name = kc["fn"]
    t = lambda x: torch.tensor(x, dtype=torch.float64)  # noqa
    obs = t(kc["obs"])
    tr = None if kc["trace"] is None else t(kc["trace"])
    if name in ("trace_nearest", "trace_cumulative"):
        f = getattr(inferno, name)
        o = f(obs, tr, decay=kc["decay"], amplitude=kc["amp"], target=kc["target"], tolerance=kc["tol"])
    elif name in ("trace_nearest_scaled", "trace_cumulative_scaled"):
        f = getattr(inferno, name)
        o = f(obs, tr, decay=kc["decay"], amplitude=kc["amp"], scale=kc["scale"], matchfn=crit_fn(kc["crit"]))
    elif name == "trace_cumulative_value":
        o = inferno.trace_cumulative_value(obs, tr, decay=kc["decay"], scale=kc["scale"])
    elif name == "exponential_smoothing":
        o = inferno.exponential_smoothing(obs, tr, alpha=kc["alpha"])
    else:
        raise AssertionError(name)
    return fhex(float(o))


def handler(payload):
    out = {"cases": [run_case(c) for c in payload.get("cases", [])],
           "kernels": [run_kernel(k) for k in payload.get("kernels", [])]}
    return out


if __name__ == "__main__":
    main(handler)
