"""Builds real inferno components from small JSON specs (shared by several implementation-side harnesses).

spec examples
  neuron:     {"cls": "LIF", "shape": [3], "dt": 1.0, "batch": 2, "kw": {...overrides...}}
  synapse:    {"cls": "DeltaCurrent", "kw": {"spike_charge": 1.0, "delay": 2.0, ...}}     (shape/dt/batch come from the connection)
  connection: {"cls": "LinearDense", "in": [3], "out": [2], "dt": 1.0, "batch": 2, "bias": true, "delay": 2.0|null,
               "synapse": {...}, "weight": [[...]], "biasv": [...], "delayv": [[...]]}
  layer:      {"cls": "Serial"|"Biclique"|"RecurrentSerial", ...}
"""
import torch
from inferno import neural

NEURON_DEFAULTS = {
    "LIF": dict(rest_v=-60.0, reset_v=-65.0, thresh_v=-50.0, refrac_t=2.0, time_constant=20.0, resistance=1.0),
    "GLIF1": dict(rest_v=-60.0, reset_v=-65.0, thresh_v=-50.0, refrac_t=2.0, time_constant=20.0, resistance=1.0),
    "ALIF": dict(rest_v=-60.0, reset_v=-65.0, thresh_eq_v=-50.0, refrac_t=2.0, tc_membrane=20.0,
                 tc_adaptation=(30.0, 50.0), spike_increment=(1.0, 0.5), resistance=1.0),
    "GLIF2": dict(rest_v=-60.0, reset_v_add=-2.0, reset_v_mul=0.5, thresh_eq_v=-50.0, refrac_t=2.0, tc_membrane=20.0,
                  rc_adaptation=(0.03, 0.02), spike_increment=(1.0, 0.5), resistance=1.0),
    "QIF": dict(rest_v=-60.0, crit_v=-50.0, affinity=0.04, reset_v=-65.0, thresh_v=-30.0, refrac_t=2.0,
                time_constant=20.0, resistance=1.0),
    "Izhikevich": dict(rest_v=-60.0, crit_v=-50.0, affinity=0.04, reset_v=-65.0, thresh_v=-30.0, refrac_t=2.0,
                       tc_membrane=20.0, tc_adaptation=(30.0,), voltage_coupling=(0.2,), spike_increment=(1.0,),
                       resistance=1.0),
    "EIF": dict(rest_v=-60.0, rheobase_v=-50.0, sharpness=2.0, reset_v=-65.0, thresh_v=-30.0, refrac_t=2.0,
                time_constant=20.0, resistance=1.0),
    "AdEx": dict(rest_v=-60.0, rheobase_v=-50.0, sharpness=2.0, reset_v=-65.0, thresh_v=-30.0, refrac_t=2.0,
                 tc_membrane=20.0, tc_adaptation=(30.0,), voltage_coupling=(0.2,), spike_increment=(1.0,),
                 resistance=1.0),
}
ADAPTIVE = ("ALIF", "GLIF2", "Izhikevich", "AdEx")

SYNAPSE_DEFAULTS = {
    "DeltaCurrent": dict(spike_charge=1.0),
    "DeltaPlusCurrent": dict(spike_charge=1.0),
    "SingleExponentialCurrent": dict(spike_charge=1.0, time_constant=5.0),
    "DoubleExponentialCurrent": dict(spike_charge=1.0, tc_decay=8.0, tc_rise=2.0),
}


def _tup(v):
    return tuple(v) if isinstance(v, list) else v


def build_neuron(spec):
    kw = dict(NEURON_DEFAULTS[spec["cls"]])
    kw.update({k: _tup(v) for k, v in spec.get("kw", {}).items()})
    kw["batch_size"] = spec.get("batch", 1)
    if spec["cls"] in ADAPTIVE and spec.get("batch_reduction"):
        kw["batch_reduction"] = {"mean": torch.mean, "sum": torch.sum, "amax": torch.amax}[spec["batch_reduction"]]
    return getattr(neural, spec["cls"])(tuple(spec["shape"]), spec["dt"], **kw)


def synapse_ctor(spec):
    kw = dict(SYNAPSE_DEFAULTS[spec["cls"]])
    kw.update(spec.get("kw", {}))
    return getattr(neural, spec["cls"]).partialconstructor(**kw)


def build_synapse(spec):
    kw = dict(SYNAPSE_DEFAULTS[spec["cls"]])
    kw.update(spec.get("kw", {}))
    kw["batch_size"] = spec.get("batch", 1)
    return getattr(neural, spec["cls"])(tuple(spec["shape"]), spec["dt"], **kw)


def build_connection(spec):
    cls = spec["cls"]
    common = dict(synapse=synapse_ctor(spec["synapse"]), bias=spec.get("bias", False), delay=spec.get("delay"),
                  batch_size=spec.get("batch", 1))
    if cls == "LinearDense":
        c = neural.LinearDense(tuple(spec["in"]), tuple(spec["out"]), spec["dt"], **common)
    elif cls in ("LinearDirect", "LinearLateral"):
        c = getattr(neural, cls)(tuple(spec["in"]), spec["dt"], **common)
    elif cls == "Conv2D":
        c = neural.Conv2D(spec["height"], spec["width"], spec["channels"], spec["filters"], spec["dt"],
                          _tup(spec["kernel"]), stride=_tup(spec.get("stride", 1)), padding=_tup(spec.get("padding", 0)),
                          dilation=_tup(spec.get("dilation", 1)), **common)
    else:
        raise ValueError(cls)
    with torch.no_grad():
        if "weight" in spec:
            c.weight = torch.tensor(spec["weight"], dtype=torch.float64).reshape(c.weight.shape)
        if "biasv" in spec and spec.get("bias"):
            c.bias = torch.tensor(spec["biasv"], dtype=torch.float64).reshape(c.bias.shape)
        if "delayv" in spec and spec.get("delay") is not None:
            c.delay = torch.tensor(spec["delayv"], dtype=torch.float64).reshape(c.delay.shape)
    return c


def build_layer(spec):
    cls = spec["cls"]
    if cls == "Serial":
        return neural.Serial(build_connection(spec["connection"]), build_neuron(spec["neuron"]))
    if cls == "Biclique":
        conns = [(n, build_connection(s)) for n, s in spec["connections"]]
        neus = [(n, build_neuron(s)) for n, s in spec["neurons"]]
        return neural.Biclique(conns, neus, combine=spec.get("combine", "sum"))
    if cls == "RecurrentSerial":
        return neural.RecurrentSerial(build_connection(spec["feedfwd"]), build_connection(spec["lateral"]),
                                      build_connection(spec["feedback"]), build_neuron(spec["ff_neuron"]),
                                      build_neuron(spec["fb_neuron"]))
    raise ValueError(cls)


def tolist(t):
    return t.detach().to(torch.float64).reshape(-1).tolist()
