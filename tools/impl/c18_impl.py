"""C18 implementation side: real layers (Serial of a real connection and a scripted neuron), the real delay-adjusted /
kernel STDP trainers, real monitors and Updater.  Per step it reports the two event monitors' tensors, the delay the
trainer saw, the accumulated (pos, neg) parts and - on request - the parameter change made by connection.update()."""
import numpy as np
import torch
from common import main, fhex, exc_code
import factory
from inferno import neural, learn, functional
from inferno.neural.base import InfernoNeuron

KEEP = []


class ScriptedNeuron(InfernoNeuron):
    """test double on the public base class: the spikes of every step are dictated (so the postsynaptic train is
    arbitrary); everything else is inert"""

    def __init__(self, shape, step_time, batch_size=1):
        InfernoNeuron.__init__(self, shape, batch_size)
        self._dt = float(step_time)
        self.register_buffer("spike_", torch.zeros(self.batchedshape, dtype=torch.bool))
        self.script = []

    @property
    def dt(self):
        return self._dt

    @dt.setter
    def dt(self, v):
        self._dt = float(v)

    @property
    def voltage(self):
        return torch.zeros(self.batchedshape)

    @voltage.setter
    def voltage(self, v):
        pass

    @property
    def refrac(self):
        return torch.zeros(self.batchedshape)

    @refrac.setter
    def refrac(self, v):
        pass

    @property
    def spike(self):
        return self.spike_

    def clear(self, **kw):
        self.spike_ = torch.zeros(self.batchedshape, dtype=torch.bool)

    def forward(self, inputs, **kw):
        self.spike_ = self.script.pop(0).bool().view(self.batchedshape)
        return self.spike_


RED = {"sum": torch.sum, "mean": torch.mean, "amax": torch.amax, "amin": torch.amin}


DEDICATED = ("DelayAdjustedSTDP", "DelayAdjustedSTDPD", "DelayAdjustedMSTDP", "DelayAdjustedMSTDPD")
KERNEL = ("KernelSTDP", "DelayAdjustedKernelSTDP", "DelayAdjustedKernelSTDPD")
DELAYPARAM = ("DelayAdjustedSTDPD", "DelayAdjustedMSTDPD", "DelayAdjustedKernelSTDPD")


def zero_kernel(diff, **kwargs):
    """a trainer-level default half kernel that a cell overrides: if the trainer ever used it the parts would be zero"""
    return torch.zeros_like(diff)


def wrap(v, tag, shape=None):
    """a hyperparameter value in one of the TYPES the trainers accept (they cast with float(), or hand kernel keyword
    arguments through unchanged, tensors as buffers)"""
    if isinstance(v, list):                       # one value per parameter element: tensor shaped like the parameter
        return torch.tensor(v, dtype=torch.float64).reshape(*shape, 1)   # plus the receptive axis
    if tag in (None, "float"):
        return float(v)
    if tag == "int":
        return int(v)
    if tag == "np64":
        return np.float64(v)
    if tag == "np32":
        return np.float32(v)
    if tag == "npi":
        return np.int64(int(v))
    if tag == "t0":
        return torch.tensor(float(v), dtype=torch.float64)
    if tag == "t0f32":
        return torch.tensor(float(v), dtype=torch.float32)
    if tag == "t0i":
        return torch.tensor(int(v))
    if tag == "t1":
        return torch.tensor([float(v)], dtype=torch.float64)
    raise ValueError(tag)


def hp(t, k, shape=None):
    return wrap(t[k], (t.get("types") or {}).get(k), shape)


def mk_trainer(t, shape=None):
    """the trainer object, built from its constructor-level (default) hyperparameters"""
    red = RED[t["red"]]
    cls = t["cls"]
    if cls in ("DelayAdjustedSTDP", "DelayAdjustedMSTDP"):
        return getattr(learn, cls)(hp(t, "lr_pos"), hp(t, "lr_neg"), hp(t, "tc_pos"), hp(t, "tc_neg"), batch_reduction=red)
    if cls in ("DelayAdjustedSTDPD", "DelayAdjustedMSTDPD"):
        return getattr(learn, cls)(hp(t, "lr_neg"), hp(t, "lr_pos"), hp(t, "tc_neg"), hp(t, "tc_pos"), batch_reduction=red)
    if cls in KERNEL:
        kw = {"delayed": bool(t.get("delayed", False))} if cls == "KernelSTDP" else {}
        kpost = zero_kernel if t.get("zero_kernels") else functional.exp_stdp_post_kernel
        kpre = zero_kernel if t.get("zero_kernels") else functional.exp_stdp_pre_kernel
        post = {"learning_rate": hp(t, "lr_post", shape), "time_constant": hp(t, "tc_post", shape)}
        pre = {"learning_rate": hp(t, "lr_pre", shape), "time_constant": hp(t, "tc_pre", shape)}
        ORIGINALS.clear()      # the caller's own objects, as handed to the constructor
        ORIGINALS.update({"lr_post": post["learning_rate"], "tc_post": post["time_constant"],
                          "lr_pre": pre["learning_rate"], "tc_pre": pre["time_constant"]})
        return getattr(learn, cls)(kpost, kpre, post, pre, batch_reduction=red, **kw)
    raise ValueError(cls)


ORIGINALS = {}


def inplace_op(tensor, op):
    """an in-place change of a tensor-valued hyperparameter: mul_, fill_ or copy_"""
    with torch.no_grad():
        if op["op"] == "mul_":
            tensor.mul_(op["arg"])
        elif op["op"] == "fill_":
            tensor.fill_(op["arg"])
        elif op["op"] == "copy_":
            tensor.copy_(torch.full_like(tensor, op["arg"]))
        else:
            raise ValueError(op["op"])


def override_kwargs(t, keys, extra, shape):
    """register_cell(name, cell, **kwargs): the cell's own (effective) hyperparameters t, restricted to the overridden keys"""
    kw = {}
    for k in keys:
        if k in ("lr_pos", "lr_neg", "tc_pos", "tc_neg"):
            kw[k] = hp(t, k)
        elif k == "red":
            kw["batch_reduction"] = RED[t["red"]]
        elif k == "post":
            kw["kernel_post_kwargs"] = {"learning_rate": hp(t, "lr_post", shape), "time_constant": hp(t, "tc_post", shape)}
        elif k == "pre":
            kw["kernel_pre_kwargs"] = {"learning_rate": hp(t, "lr_pre", shape), "time_constant": hp(t, "tc_pre", shape)}
        elif k == "kernels":
            kw["kernel_post"] = functional.exp_stdp_post_kernel
            kw["kernel_pre"] = functional.exp_stdp_pre_kernel
        elif k == "delayed":
            kw["delayed"] = False
        else:
            raise ValueError(k)
    kw.update(extra or {})
    return kw


def apply_reassign(state, ra, types, shape, ops=None):
    """re-assign attributes of the per-cell state module (the object register_cell returns as unit.state) after
    registration, as a user re-configuring a cell mid-run does; the forward passes read the state live"""
    types = types or {}
    for k, v in ra.items():
        if k in ("lr_pos", "lr_neg", "tc_pos", "tc_neg"):
            setattr(state, k, int(v) if types.get(k) == "int" else float(v))
        elif k == "red":
            state.batchreduce = RED[v]
        elif k == "tolerance":
            state.tolerance = float(v)
        elif k == "inplace":
            state.inplace = bool(v)
        elif k in ("kernel_post", "kernel_pre"):
            fn = {"kernel_post": functional.exp_stdp_post_kernel, "kernel_pre": functional.exp_stdp_pre_kernel}[k]
            setattr(state, k, zero_kernel if v == "zero" else fn)
        elif k in ("lr_post", "tc_post", "lr_pre", "tc_pre"):
            side = "post" if k.endswith("post") else "pre"
            name = "learning_rate" if k.startswith("lr") else "time_constant"
            mod = getattr(state, f"kernel_{side}_tensor_kwargs")
            if ops and k in ops:                           # the cell's OWN buffer is changed in place
                inplace_op(getattr(mod, name), ops[k])
            elif name in dict(mod.named_buffers()):        # tensor-valued: stored as a buffer of the state
                setattr(mod, name, wrap(v, "t0", shape))
            else:                                          # plain value: entry of the keyword dictionary
                getattr(state, f"kernel_{side}_kwargs")[name] = wrap(v, types.get(k), shape)
        else:
            raise ValueError(k)


def flat(t):
    return [fhex(v) for v in t.detach().to(torch.float64).reshape(-1).tolist()]


def build_cell(case):
    cs = dict(case["conn"])
    cs["synapse"] = {"cls": "DeltaCurrent"}
    cs["batch"] = case["B"]
    conn = factory.build_connection(cs)
    neu = ScriptedNeuron(conn.outshape, cs["dt"], batch_size=case["B"])
    layer = neural.Serial(conn, neu)
    KEEP.append(layer)
    conn.updater = conn.defaultupdater()
    return cs, conn, neu, layer


def run_cells(defaults, cells):
    """ONE trainer object (constructor-level hyperparameters `defaults`) driving every cell of the group; each cell is
    registered with its own keyword overrides (cell["override_keys"] of its effective hyperparameters cell["trainer"]).
    All cells are stepped, then trainer(...) is called once, as a user would.  -> per cell, the list of step records"""
    cls = defaults["cls"]
    built = [build_cell(case) for case in cells]
    # per-element (tensor) constructor-level hyperparameters only make sense for the shape of a single cell
    tr = mk_trainer(defaults, tuple(built[0][1].weight.shape))
    KEEP.append(tr)
    for j, (case, (cs, conn, neu, layer)) in enumerate(zip(cells, built)):
        kw = override_kwargs(case["trainer"], case.get("override_keys", []), case.get("override_extra"),
                             tuple(conn.weight.shape))
        tr.register_cell(f"c{j}", layer.cell, **kw)
    param = "delay" if cls in DELAYPARAM else "weight"
    threefactor = cls in ("DelayAdjustedMSTDP", "DelayAdjustedMSTDPD")
    out = [[] for _ in cells]
    T = len(cells[0]["steps"])
    for k in range(T):
        recs = [{} for _ in cells]
        try:
            for j, (case, (cs, conn, neu, layer)) in enumerate(zip(cells, built)):
                st = case["steps"][k]
                B = case["B"]
                if st.get("reassign"):
                    apply_reassign(tr.get_unit(f"c{j}").state, st["reassign"], st.get("reassign_types"),
                                   tuple(conn.weight.shape), st.get("reassign_ops"))
                for key, op in (st.get("original_ops") or {}).items():
                    # the caller keeps using (and changing) the tensor object given to the constructor: no registered
                    # cell may notice (its copy was cloned at registration)
                    inplace_op(ORIGINALS[key], op)
                if st.get("delay") is not None and conn.delay is not None:
                    with torch.no_grad():
                        conn.delay = torch.tensor(st["delay"], dtype=torch.float64).reshape(conn.delay.shape)
                x = torch.tensor(st["pre"], dtype=torch.float64).reshape(B, *conn.inshape)
                neu.script = [torch.tensor(st["post"], dtype=torch.float64).reshape(B, *conn.outshape)]
                layer(x)
                mon = tr.get_unit(f"c{j}").monitors
                recs[j]["pre"] = flat(mon["spike_pre"].peek())
                recs[j]["pre_shape"] = list(mon["spike_pre"].peek().shape)
                recs[j]["post"] = flat(mon["spike_post"].peek())
                recs[j]["delay"] = None if conn.delay is None else flat(conn.delay)
            st0 = cells[0]["steps"][k]
            if threefactor:
                sg = st0["signal"]
                if isinstance(sg, list):
                    sg = torch.tensor(sg, dtype=torch.float64)
                else:
                    sg = wrap(sg, st0.get("signal_type"))
                tr(sg, wrap(st0.get("scale", 1.0), st0.get("scale_type")))
            else:
                tr()
            for j, (case, (cs, conn, neu, layer)) in enumerate(zip(cells, built)):
                st = case["steps"][k]
                acc = getattr(conn.updater, param)
                pos, neg = acc.pos, acc.neg
                recs[j]["pos"] = None if pos is None else flat(pos)
                recs[j]["neg"] = None if neg is None else flat(neg)
                if st.get("update"):
                    with torch.no_grad():
                        before = getattr(conn, param).detach().clone()
                        conn.update()
                        after = getattr(conn, param).detach().clone()
                        recs[j]["before"] = flat(before)
                        recs[j]["after"] = flat(after)
                        if param == "delay":
                            conn.delay = conn.delay.clamp(0.0, float(cs["delay"]))
                else:
                    conn.updater.clear()
        except Exception as e:  # noqa: BLE001
            err = {"error": exc_code(e), "msg": f"{type(e).__name__}: {e}"[:300]}
            for o in out:
                o.append(dict(err))
            break
        for o, r in zip(out, recs):
            o.append(r)
    return out


def run_cell(case):
    """a single cell whose trainer is constructed with exactly the cell's hyperparameters (no overrides)"""
    return run_cells(case["trainer"], [case])[0]


def run_kernel(case):
    d = torch.tensor([case["diff"]], dtype=torch.float64)
    return {"post": fhex(functional.exp_stdp_post_kernel(d, case["lr"], case["tc"])[0]),
            "pre": fhex(functional.exp_stdp_pre_kernel(d, case["lr"], case["tc"])[0])}


def handler(payload):
    res = []
    for c in payload["cases"]:
        if c["kind"] == "kernel":
            res.append(run_kernel(c))
        elif c["kind"] == "group":
            res.append(run_cells(c["defaults"], c["cells"]))
        else:
            res.append(run_cell(c))
    return res


if __name__ == "__main__":
    main(handler)
