"""C18 implementation side: real layers (Serial of a real connection and a scripted neuron), the real delay-adjusted /
kernel STDP trainers, real monitors and Updater.  Per step it reports the two event monitors' tensors, the delay the
trainer saw, the accumulated (pos, neg) parts and - on request - the parameter change made by connection.update()."""
import torch
from common import main, fhex, exc_code
import factory
from inferno import neural, learn, functional
from inferno.neural.base import InfernoNeuron

KEEP = []


class ScriptedNeuron(InfernoNeuron):
    """test double on the public base class: the spikes of every step are dictated (so the postsynaptic train is
    arbitrary); everything else is inert"""

    def __init__(self, shape, step_time, batch_size=1):
        InfernoNeuron.__init__(self, shape, batch_size)
        self._dt = float(step_time)
        self.register_buffer("spike_", torch.zeros(self.batchedshape, dtype=torch.bool))
        self.script = []

    @property
    def dt(self):
        return self._dt

    @dt.setter
    def dt(self, v):
        self._dt = float(v)

    @property
    def voltage(self):
        return torch.zeros(self.batchedshape)

    @voltage.setter
    def voltage(self, v):
        pass

    @property
    def refrac(self):
        return torch.zeros(self.batchedshape)

    @refrac.setter
    def refrac(self, v):
        pass

    @property
    def spike(self):
        return self.spike_

    def clear(self, **kw):
        self.spike_ = torch.zeros(self.batchedshape, dtype=torch.bool)

    def forward(self, inputs, **kw):
        self.spike_ = self.script.pop(0).bool().view(self.batchedshape)
        return self.spike_


RED = {"sum": torch.sum, "mean": torch.mean, "amax": torch.amax}


def mk_trainer(t):
    red = RED[t["red"]]
    cls = t["cls"]
    if cls in ("DelayAdjustedSTDP", "DelayAdjustedMSTDP"):
        return getattr(learn, cls)(t["lr_pos"], t["lr_neg"], t["tc_pos"], t["tc_neg"], batch_reduction=red)
    if cls in ("DelayAdjustedSTDPD", "DelayAdjustedMSTDPD"):
        return getattr(learn, cls)(t["lr_neg"], t["lr_pos"], t["tc_neg"], t["tc_pos"], batch_reduction=red)
    if cls in ("KernelSTDP", "DelayAdjustedKernelSTDP", "DelayAdjustedKernelSTDPD"):
        kw = {"delayed": False} if cls == "KernelSTDP" else {}
        return getattr(learn, cls)(functional.exp_stdp_post_kernel, functional.exp_stdp_pre_kernel,
                                   {"learning_rate": t["lr_post"], "time_constant": t["tc_post"]},
                                   {"learning_rate": t["lr_pre"], "time_constant": t["tc_pre"]},
                                   batch_reduction=red, **kw)
    raise ValueError(cls)


def flat(t):
    return [fhex(v) for v in t.detach().to(torch.float64).reshape(-1).tolist()]


def run_cell(case):
    cs = dict(case["conn"])
    cs["synapse"] = {"cls": "DeltaCurrent"}
    cs["batch"] = case["B"]
    conn = factory.build_connection(cs)
    neu = ScriptedNeuron(conn.outshape, cs["dt"], batch_size=case["B"])
    layer = neural.Serial(conn, neu)
    KEEP.append(layer)
    conn.updater = conn.defaultupdater()
    tr = mk_trainer(case["trainer"])
    KEEP.append(tr)
    tr.register_cell("c", layer.cell)
    param = "delay" if case["trainer"]["cls"] in ("DelayAdjustedSTDPD", "DelayAdjustedMSTDPD",
                                                 "DelayAdjustedKernelSTDPD") else "weight"
    threefactor = case["trainer"]["cls"] in ("DelayAdjustedMSTDP", "DelayAdjustedMSTDPD")
    B = case["B"]
    out = []
    for st in case["steps"]:
        rec = {}
        try:
            if st.get("delay") is not None and conn.delay is not None:
                with torch.no_grad():
                    conn.delay = torch.tensor(st["delay"], dtype=torch.float64).reshape(conn.delay.shape)
            x = torch.tensor(st["pre"], dtype=torch.float64).reshape(B, *conn.inshape)
            neu.script = [torch.tensor(st["post"], dtype=torch.float64).reshape(B, *conn.outshape)]
            layer(x)
            mon = tr.get_unit("c").monitors
            rec["pre"] = flat(mon["spike_pre"].peek())
            rec["pre_shape"] = list(mon["spike_pre"].peek().shape)
            rec["post"] = flat(mon["spike_post"].peek())
            rec["delay"] = None if conn.delay is None else flat(conn.delay)
            if threefactor:
                sg = st["signal"]
                if isinstance(sg, list):
                    sg = torch.tensor(sg, dtype=torch.float64)
                tr(sg, st.get("scale", 1.0))
            else:
                tr()
            acc = getattr(conn.updater, param)
            pos, neg = acc.pos, acc.neg
            rec["pos"] = None if pos is None else flat(pos)
            rec["neg"] = None if neg is None else flat(neg)
            if st.get("update"):
                with torch.no_grad():
                    before = getattr(conn, param).detach().clone()
                    conn.update()
                    after = getattr(conn, param).detach().clone()
                    rec["before"] = flat(before)
                    rec["after"] = flat(after)
                    if param == "delay":
                        conn.delay = conn.delay.clamp(0.0, float(cs["delay"]))
            else:
                conn.updater.clear()
        except Exception as e:  # noqa: BLE001
            rec = {"error": exc_code(e), "msg": f"{type(e).__name__}: {e}"[:300]}
            out.append(rec)
            break
        out.append(rec)
    return out


def run_kernel(case):
    d = torch.tensor([case["diff"]], dtype=torch.float64)
    return {"post": fhex(functional.exp_stdp_post_kernel(d, case["lr"], case["tc"])[0]),
            "pre": fhex(functional.exp_stdp_pre_kernel(d, case["lr"], case["tc"])[0])}


def handler(payload):
    res = []
    for c in payload["cases"]:
        if c["kind"] == "kernel":
            res.append(run_kernel(c))
        else:
            res.append(run_cell(c))
    return res


if __name__ == "__main__":
    main(handler)
