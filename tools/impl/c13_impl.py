"""C13: runs ShapedTensor / RecordTensor resizing sequences on the real implementation; canonical traces out.

shaped case : {"kind": "shaped", strict, live, param, cons: [[dim, size]..], init: DATA, ops: [...]}
   DATA = ["none"] | ["uninit"] | ["t", dtype, shape, flat(2x)]
   ops  = ["recon", dim, size|None] | ["setv", DATA]
record case : {"kind": "record", strict, live, param, ucons, dt, dur, incl, value: None | ["t", d, shape, flat], ops}
   ops  = ["ring", <C01 op>] | ["dt", x] | ["dur", x] | ["incl", b] | ["recon", dim, size|None]
          | ["setv", ["none"] | ["empty", d] | ["full", d, shape, rows]] | ["deinit"]
"""
import torch
import torch.nn as nn
from common import main, DT, DTR, exc_code, fhex
from inferno.core.infrastructure import Module, RecordTensor, ShapedTensor
import c01_impl

KEEP = []  # attributes only weak-reference their owner
# c01_impl.apply takes the caller-side aliasing policy as a third argument in newer versions (none is used here)
_WHO = c01_impl.Caller({}) if hasattr(c01_impl, "Caller") else None


def flat2(t):
    return [int(round(2 * float(v))) for v in t.detach().reshape(-1).tolist()]


def mk(d, shape, els):
    return (torch.tensor(els, dtype=torch.float64) / 2).reshape(shape).to(DT[d])


def mkdata(x, param):
    if x[0] == "none":
        return None
    if x[0] == "uninit":
        return nn.UninitializedParameter() if param else nn.UninitializedBuffer()
    t = mk(x[1], x[2], x[3])
    if param:
        return nn.Parameter(t, requires_grad=bool(t.is_floating_point()))
    return t


def err(e):
    c = exc_code(e)
    return c if c != 9 else [9, f"{type(e).__name__}: {e}"[:200]]


def cons_of(owner, name):
    return sorted([int(k), int(v)] for k, v in getattr(owner, f"_{name}_constraints").items())


def isparam(v):
    return 1 if isinstance(v, nn.Parameter) else 0


# ------------------------------------------------------------------ ShapedTensor
def snap_shaped(owner):
    st = owner.x
    v = st.value
    if v is None:
        d = [0]
    elif isinstance(v, (nn.UninitializedBuffer, nn.UninitializedParameter)):
        d = [1]
    else:
        d = [2, DTR[v.dtype], list(v.shape), flat2(v)]
    return [cons_of(owner, "x"), d, 1 if st.valid else 0, 1 if st.ignored else 0, int(st.dimensionality), isparam(v)]


def run_shaped(case):
    owner = Module()
    KEEP.append(owner)
    try:
        ShapedTensor.create(owner, "x", mkdata(case["init"], case["param"]),
                            constraints={int(d): int(s) for d, s in case["cons"]},
                            strict=case["strict"], live=case["live"])
    except Exception as e:  # noqa
        return [[err(e)]]
    tr = [[0, snap_shaped(owner)]]
    for op in case["ops"]:
        try:
            if op[0] == "recon":
                owner.x.reconstrain(op[1], op[2])
            elif op[0] == "setv":
                owner.x.value = mkdata(op[1], False)
            else:
                raise AssertionError(op)
            e = 0
        except Exception as ex:  # noqa
            e = err(ex)
        try:
            tr.append([e, snap_shaped(owner)])
        except Exception as ex:  # noqa  (the attribute can no longer be observed: reported by the oracle)
            tr.append([e, {"snaperr": f"{type(ex).__name__}: {ex}"[:200]}])
            break
    return tr


# ------------------------------------------------------------------ RecordTensor
def snap_rec(owner):
    rt = owner.rec
    cons = [c for c in cons_of(owner, "rec") if c[0] != 0]
    return [c01_impl.snapshot(rt), cons, fhex(rt.dt), fhex(rt.duration), 1 if rt.inclusive else 0,
            1 if rt.valid else 0, 1 if rt.ignored else 0, isparam(rt.value),
            sorted([int(k), int(v)] for k, v in rt.constraints.items())]


def mkstorage(x):
    if x[0] == "none":
        return None
    if x[0] == "empty":
        return torch.empty(0, dtype=DT[x[1]])
    d, sh, rows = x[1], x[2], x[3]
    return (torch.tensor(rows, dtype=torch.float64) / 2).reshape([len(rows)] + list(sh)).to(DT[d])


def run_record(case):
    owner = Module()
    KEEP.append(owner)
    v = case["value"]
    value = None if v is None else mkdata(v, case["param"])
    try:
        RecordTensor.create(owner, "rec", case["dt"], case["dur"], value,
                            constraints={int(d): int(s) for d, s in case["ucons"]},
                            strict=case["strict"], live=case["live"], inclusive=case["incl"])
    except Exception as e:  # noqa
        return [[err(e)]]
    rt = owner.rec
    tr = [[0, snap_rec(owner)]]
    for op in case["ops"]:
        out = None
        try:
            k = op[0]
            if k == "ring":
                out = c01_impl.apply(rt, op[1], _WHO) if _WHO is not None else c01_impl.apply(rt, op[1])
            elif k == "dt":
                rt.dt = op[1]
            elif k == "dur":
                rt.duration = op[1]
            elif k == "incl":
                rt.inclusive = op[1]
            elif k == "recon":
                rt.reconstrain(op[1], op[2])
            elif k == "setv":
                rt.value = mkstorage(op[1])
            elif k == "deinit":
                rt.deinitialize(False)
            else:
                raise AssertionError(op)
            e = 0
        except Exception as ex:  # noqa
            e = err(ex)
        try:
            tr.append([e, out, snap_rec(owner)])
        except Exception as ex:  # noqa  (the record can no longer be observed: reported by the oracle)
            tr.append([e, out, {"snaperr": f"{type(ex).__name__}: {ex}"[:200]}])
            break
    return tr


def handler(payload):
    out = []
    for c in payload["cases"]:
        out.append(run_shaped(c) if c["kind"] == "shaped" else run_record(c))
    return out


if __name__ == "__main__":
    main(handler)
