"""C15: runs trainer / monitor lifecycle operation sequences on the REAL inferno objects and reports, after
every operation, the exception class and every observable the model predicts.

Only public API is driven (register_cell, del_cell, add_monitor, del_monitor, train/eval, layer call, trainer
call, clear, del + gc.collect).  Observation points:
  * Monitor.registered, Monitor.peek() is None, CellTrainer.named_monitors / monitors / named_cells,
    cell.monitors, len(layer._forward_hooks) (torch's hook table: only its size is read);
  * a torch forward hook on every monitor's reducer logs each reducer call (= one recorded observation) with the
    stamp of the layer call in progress; for a MultiStateMonitor over `<cell>.monitors` the same hook looks the
    names up in cell.monitors exactly as the monitor just did and logs which monitor each name is bound to and
    how recent that monitor's data is.
The harness keeps only weak references to monitors and trainers (so reference counting is the library's own).
"""
import gc, weakref
import torch
from common import main, exc_code
from inferno import neural, learn, observe
from inferno.functional import exp_stdp_post_kernel, exp_stdp_pre_kernel

IDENT = {0: "connection", 1: "connection_", 2: "neuron", 3: "neuron_", 4: "updater", 5: "synapse", 6: "precurrent",
         7: "prespike", 8: "postvoltage", 9: "postspike", 10: "syncurrent", 11: "synspike", 12: "voltage",
         13: "spike", 14: "monitors"}
MNAME = {1: "trace_post", 2: "spike_post", 3: "trace_pre", 4: "spike_pre", 5: "elig_post", 6: "elig_pre",
         7: "trace_post_fast", 8: "trace_post_slow", 9: "trace_pre_fast", 10: "trace_pre_slow", 11: "spike_rate"}
MCODE = {v: k for k, v in MNAME.items()}
TAGKEY = {8: "k", 9: "j"}


def mname(k):
    return MNAME.get(k, f"user{k}")


def mcode(s):
    return MCODE[s] if s in MCODE else int(s[4:])


def ident(i):
    return IDENT[i] if i in IDENT else f"zz{i}"


class ProbeReducer(observe.Reducer):
    """counts what it is given; accepts anything (also None)"""

    def __init__(self):
        observe.Reducer.__init__(self)
        self.count = 0
        self.last = None

    def clear(self, **kwargs):
        self.count = 0
        self.last = None

    def view(self, *a, **k):
        return self.peek()

    def dump(self, *a, **k):
        return self.peek()

    def peek(self, *a, **k):
        # data shaped like the observation (so that a trainer's reducer reading it by name can consume it)
        if self.count == 0:
            return None
        return self.last if self.last is not None else torch.tensor(float(self.count))

    def push(self, inputs, **k):
        self.forward(inputs)

    def forward(self, *inputs, **k):
        self.count += 1
        if inputs and isinstance(inputs[0], torch.Tensor):
            self.last = inputs[0].detach().to(torch.float64)


class HandLayer(neural.Layer):
    """a user-defined layer (connections, neurons and cells added through the public Layer API; connection names differ
    from neuron names); wiring = sum of all connection outputs into every neuron group, like Biclique's default"""

    def wiring(self, inputs, **kwargs):
        tot = torch.stack(list(inputs.values()), 0).sum(0)
        return {k: tot for k in self.neurons_}


def mk_world(world, hand=None):
    layers, cellmap = [], {}
    for li, (conns, nneur) in enumerate(world):
        cs = []
        for ci, (dtc, delayed) in enumerate(conns):
            c = neural.LinearDense((2,), (2,), float(dtc), synapse=neural.DeltaCurrent.partialconstructor(1.0),
                                   delay=(2.0 * float(dtc) if delayed else None))
            c.updater = c.defaultupdater()
            cs.append((f"c{ci}", c))
        ns = [(f"n{ni}", neural.LIF((2,), float(conns[0][0]), rest_v=-60.0, reset_v=-65.0, thresh_v=-50.0,
                                    refrac_t=0.0, time_constant=20.0)) for ni in range(nneur)]
        if hand and hand[li]:
            lay = HandLayer()
            for nm, c in cs:
                lay.add_connection(nm, c)
            for nm, n in ns:
                lay.add_neuron(nm, n)
            for nm, _ in cs:
                for nn_, _ in ns:
                    lay.add_cell(nm, nn_)
        else:
            lay = neural.Biclique(cs, ns)
        layers.append(lay)
        for ci in range(len(conns)):
            for ni in range(nneur):
                cellmap[id(lay.cells_[f"c{ci}"][f"n{ni}"])] = (li, ci, ni)
    return layers, cellmap


def mk_trainer(ty):
    k = ty[0]
    if k == "STDP":
        return learn.STDP(1.0, -1.0, 20.0, 20.0, delayed=bool(ty[1]))
    if k == "MSTDP":
        return learn.MSTDP(1.0, -1.0, 20.0, 20.0, delayed=bool(ty[1]))
    if k == "MSTDPET":
        return learn.MSTDPET(1.0, -1.0, 20.0, 20.0, 30.0)
    if k == "Triplet":
        return learn.TripletSTDP(1.0, 1.0, -1.0, -1.0, 10.0, 20.0, 10.0, 20.0, delayed=bool(ty[1]))
    if k == "Homeostasis":
        return learn.LinearHomeostasis(0.1, 0.5, "weight")
    if k == "DASTDP":
        return learn.DelayAdjustedSTDP(1.0, -1.0, 20.0, 20.0)
    if k == "DAMSTDP":
        return learn.DelayAdjustedMSTDP(1.0, -1.0, 20.0, 20.0)
    if k == "Kernel":
        return learn.KernelSTDP(exp_stdp_post_kernel, exp_stdp_pre_kernel,
                                {"learning_rate": 1.0, "time_constant": 20.0},
                                {"learning_rate": -1.0, "time_constant": 20.0}, delayed=bool(ty[1]))
    raise AssertionError(k)


def reg_kwargs(ty, hp):
    """per-cell overrides; hp = d0 + 10 d1 + 100 d2 + 1000 d3: tc_post += d0, tc_pre += d1, |lr_post| += d2, |lr_pre| += d3
    (only the overridden hyperparameters are passed)"""
    k = ty[0]
    d = [(hp // m) % 2 for m in (1, 10, 100, 1000)]
    kw = {}
    if k in ("STDP", "MSTDP", "MSTDPET"):
        if d[0]:
            kw["tc_post"] = 21.0
        if d[1]:
            kw["tc_pre"] = 21.0
        if d[2]:
            kw["lr_post"] = 2.0
        if d[3]:
            kw["lr_pre"] = -2.0
    elif k == "Triplet":
        if d[0]:
            kw.update(tc_post_fast=11.0, tc_post_slow=21.0)
        if d[1]:
            kw.update(tc_pre_fast=11.0, tc_pre_slow=21.0)
    return kw


# which hyperparameters of the cell's state a trainer-built trace monitor must carry (documented roles: the
# postsynaptic trace weighs the update made on presynaptic spikes and vice versa)
TRACE_CFG = {"trace_post": ("lr_pre", "tc_post"), "trace_pre": ("lr_post", "tc_pre")}


def config_errors(trs, types):
    bad = []
    for t, tr in enumerate(trs):
        if tr is None or types[t][0] not in ("STDP", "MSTDP", "MSTDPET"):
            continue
        for cn, (_c, st) in tr.named_cells:
            for mn, m in tr.named_monitors_of(cn):
                if mn not in TRACE_CFG or not hasattr(m.reducer, "amplitude"):
                    continue
                lr, tc = TRACE_CFG[mn]
                want = (abs(float(getattr(st, lr))), float(getattr(st, tc)))
                got = (abs(float(m.reducer.amplitude)), float(m.reducer.time_constant))
                if want != got:
                    bad.append([t, int(cn[4:]), mn, list(got), list(want)])
            m = None
    return bad


def call_trainer(ty, tr):
    k = ty[0]
    if k in ("MSTDP", "MSTDPET", "DAMSTDP"):
        tr(1.0)
    else:
        tr()


class Run:
    def __init__(self, case):
        self.case = case
        self.layers, self.cellmap = mk_world(case["world"], case.get("hand"))
        self.trainers = [mk_trainer(ty) for ty in case["trainers"]]
        self.steps = [0] * len(self.layers)
        self.cur = None                      # (layer index, stamp) of the layer call in progress
        self.known = {}                      # id(monitor) -> (weakref, number)
        self.nums = []                       # number -> weakref
        self.logs = []                       # number -> list of [stamp, reads]

    # ---- monitor bookkeeping (weak)
    def number_of(self, m):
        e = self.known.get(id(m))
        if e is not None and e[0]() is m:
            return e[1]
        return None

    def adopt(self, m):
        n = self.number_of(m)
        if n is not None:
            return n
        n = len(self.nums)
        wr = weakref.ref(m)
        self.known[id(m)] = (wr, n)
        self.nums.append(wr)
        self.logs.append([])
        run = weakref.ref(self)

        def hook(module, args, output, wr=wr, n=n):
            r = run()
            mon = wr()
            if r is None or mon is None:
                return
            reads = []
            oa = getattr(mon, "_MultiStateMonitor__observed_attrs", None)
            if oa is not None:
                for path in oa:
                    parts = path.split(".")
                    if "monitors" in parts:
                        i = parts.index("monitors")
                        lay = r.layers[r.cur[0]]
                        cell = lay
                        for p in parts[:i]:
                            cell = getattr(cell, p)
                        tgt = cell.monitors[parts[i + 1]]
                        tn = r.number_of(tgt)
                        lg = r.logs[tn] if tn is not None else []
                        reads.append([tn if tn is not None else -1, [lg[-1][0]] if lg else []])
            r.logs[n].append([r.cur[1], reads])
        m.reducer_.register_forward_hook(hook)
        return n

    def scan(self):
        for tr in self.trainers:
            if tr is None:
                continue
            for m in [m for _, m in tr.named_monitors]:
                self.adopt(m)
            m = None

    # ---- operations
    def spec_ctor(self, sp):
        red = ProbeReducer()
        if sp["reads"] is not None:
            names, _strict = sp["reads"]
            return observe.MultiStateMonitor.partialconstructor(
                reducer=red, subattrs=tuple(f"{mname(n)}.latest" for n in names), as_prehook=False,
                train_update=True, eval_update=False, prepend=bool(sp["prepend"]))
        return observe.StateMonitor.partialconstructor(
            reducer=red, as_prehook=False, train_update=True, eval_update=False, prepend=bool(sp["prepend"]))

    def apply(self, op):
        k = op[0]
        if k == "reg":
            _, t, cn, cell, hp = op
            lay = self.layers[cell[0]]
            c = lay.cells_[f"c{cell[1]}"][f"n{cell[2]}"]
            self.trainers[t].register_cell(f"cell{cn}", c, **reg_kwargs(self.case["trainers"][t], hp))
        elif k == "delcell":
            self.trainers[op[1]].del_cell(f"cell{op[2]}")
        elif k == "addmon":
            _, t, cn, sp = op
            tags = {TAGKEY[a]: b for a, b in sp["tags"]}
            self.trainers[t].add_monitor(f"cell{cn}", mname(sp["name"]), ".".join(ident(i) for i in sp["attr"]),
                                         self.spec_ctor(sp), bool(sp["unique"]), **tags)
        elif k == "delmon":
            self.trainers[op[1]].del_monitor(f"cell{op[2]}", mname(op[3]))
        elif k == "tmode":
            self.trainers[op[1]].train(bool(op[2]))
        elif k == "lmode":
            self.layers[op[1]].train(bool(op[2]))
        elif k == "lstep":
            li = op[1]
            self.steps[li] += 1
            self.cur = (li, self.steps[li])
            lay = self.layers[li]
            x = torch.ones(1, 2).bool()
            try:
                lay({f"c{ci}": (x,) for ci in range(len(self.case["world"][li][0]))})
            finally:
                self.cur = None
        elif k == "tstep":
            call_trainer(self.case["trainers"][op[1]], self.trainers[op[1]])
        elif k == "clear":
            self.trainers[op[1]].clear()
        elif k == "getcell":
            # obtain an existing cell again through one of the layer's public routes: must be the very same object
            _, li, ci, ni, route = op
            lay = self.layers[li]
            if route == 0 and isinstance(lay, HandLayer):
                c = lay.add_cell(f"c{ci}", f"n{ni}")
            elif route == 1:
                c = lay.get_cell(f"c{ci}", f"n{ni}")
            else:
                c = getattr(getattr(lay.cells, f"c{ci}"), f"n{ni}")
            same = self.cellmap.get(id(c)) == (li, ci, ni)
            c = None
            gc.collect()
            if not same:
                raise RuntimeError("the layer handed out a different Cell object for an existing cell")
        elif k == "drop":
            self.trainers[op[1]] = None
        else:
            raise AssertionError(k)

    def acc_total(self, li, ci):
        upd = self.layers[li].connections_[f"c{ci}"].updater
        tot = 0
        for acc in upd.updates_.values():
            tot += len(acc._pos) + len(acc._neg)
        return tot

    def snapshot(self):
        lays = [[int(l.training), self.steps[i], len(l._forward_hooks)] for i, l in enumerate(self.layers)]
        trs = []
        for tr in self.trainers:
            if tr is None:
                trs.append([])
                continue
            cells = [[int(n[4:]), list(self.cellmap.get(id(c), (-1, -1, -1)))] for n, (c, _st) in tr.named_cells]
            named = [[int(cn[4:]), mcode(mn), self.number_of(m)] for (cn, mn), m in tr.named_monitors]
            mons = [self.number_of(m) for m in tr.monitors]
            trs.append([int(tr.training), cells, named, mons])
        ms = []
        for n, wr in enumerate(self.nums):
            m = wr()
            if m is None:
                continue
            ms.append([n, int(m.registered), int(m.peek() is None), [list(x) for x in self.logs[n]]])
            del m
        cm = []
        for li, (conns, nneur) in enumerate(self.case["world"]):
            for ci in range(len(conns)):
                for ni in range(nneur):
                    cell = self.layers[li].cells_[f"c{ci}"][f"n{ni}"]
                    ent = []
                    for nm in list(cell.monitors):
                        try:
                            ent.append([mcode(nm), self.number_of(cell.monitors[nm])])
                        except KeyError:
                            pass
                    cm.append(ent)
        acc = [self.acc_total(li, ci) for li, (conns, _) in enumerate(self.case["world"]) for ci in range(len(conns))]
        return [lays, trs, ms, cm, acc]

    def run(self):
        out = []
        for op in self.case["ops"]:
            t = op[1] if op[0] not in ("lmode", "lstep", "getcell") else None
            try:
                if t is not None and (t >= len(self.trainers) or self.trainers[t] is None):
                    raise NotImplementedError("trainer dropped")
                self.apply(op)
                code, msg = 0, ""
            except Exception as e:  # noqa
                code, msg = exc_code(e), f"{type(e).__name__}: {e}"[:160]
                del e
            if op[0] == "drop" or code != 0:
                gc.collect()     # everything else dies by reference counting (a lingering monitor would show up
                                 # as a live, unlisted monitor in the snapshot and fail the comparison)
            self.scan()
            out.append([code, self.snapshot(), msg, config_errors(self.trainers, self.case["trainers"])])
        return out


def handler(payload):
    res = []
    gc.collect()
    gc.freeze()          # the interpreter's and torch's own objects need not be re-traversed by every collection
    for case in payload["cases"]:
        r = Run(case)
        res.append(r.run())
        del r
        gc.collect()
    return res


if __name__ == "__main__":
    main(handler)
