#!/bin/bash
# usage: tools/mutcheck.sh <patch.diff> <PID> [<PID>...]   -- run checks against a patched scratch copy of /repo,
# using a scratch copy of /verif (so that the shared coq/Gen and .vo files are never touched). Prints the check output.
set -u
PATCH=$(readlink -f "$1"); shift
D=$(mktemp -d /tmp/mutrun.XXXXXX)
git -C /repo worktree add --detach "$D/repo" HEAD >/dev/null 2>&1 || { echo "worktree failed"; exit 2; }
rsync -a --exclude .git --exclude build --exclude replays /verif/ "$D/verif/"
( cd "$D/repo" && git apply "$PATCH" ) || { echo "patch does not apply"; git -C /repo worktree remove --force "$D/repo"; rm -rf "$D"; exit 2; }
rc=0
for P in "$@"; do
  ( set -o pipefail; cd "$D/verif" && INFERNO_REPO="$D/repo" timeout 1800 /venv/bin/python tools/check.py "$P" --tier ${TIER:-quick} 2>&1 | tail -${TAIL:-6} )
  r=$?
  echo "== $P exit=$r"
done
git -C /repo worktree remove --force "$D/repo" >/dev/null 2>&1
rm -rf "$D"
