#!/usr/bin/env python3
"""Regenerate /verif/MANIFEST.json from the property modules in tools/props (developer tool)."""
import importlib, json, os, sys
HERE = os.path.dirname(os.path.abspath(__file__))
sys.path.insert(0, HERE)
sys.path.insert(0, os.path.join(HERE, "props"))
VERIF = os.path.abspath(os.path.join(HERE, ".."))
props = [json.loads(l) for l in open(os.path.join(VERIF, "properties.jsonl"))]
checks, na = [], []
NA_REASONS = json.load(open(os.path.join(VERIF, "tools", "not_applicable.json"))) if os.path.exists(
    os.path.join(VERIF, "tools", "not_applicable.json")) else {}
for p in props:
    pid = p["id"]
    path = os.path.join(HERE, "props", pid.lower() + ".py")
    READY = json.load(open(os.path.join(VERIF, "tools", "ready.json")))
    if not os.path.exists(path) or pid not in READY:
        na.append({"property_id": pid, "reason": NA_REASONS.get(pid, "no check built yet (model and obligations not written); not claimed")})
        continue
    mod = importlib.import_module(pid.lower())
    if getattr(mod, "DISABLED", False):
        na.append({"property_id": pid, "reason": mod.DISABLED})
        continue
    checks.append({
        "property_id": pid,
        "quick_cmd": f"/venv/bin/python tools/check.py {pid} --tier quick",
        "thorough_cmd": f"/venv/bin/python tools/check.py {pid} --tier thorough",
        "evidence_file": f"/verif/evidence/{pid}.json",
        "replay_cmd_template": "/venv/bin/python tools/check.py --replay {path}",
        "engine": "coq-proof+correspondence",
        "level_claimed": {"category": getattr(mod, "LEVEL", "proof"), "text": mod.LEVEL_TEXT,
                          "design_ref": getattr(mod, "DESIGN_REF", f"DESIGN.md section 7, {pid}")},
        "level_note": mod.LEVEL_NOTE,
        "technique": mod.TECHNIQUE,
    })
man = {
    "version": 1,
    "setup_cmd": "/venv/bin/python tools/check.py --setup",
    "hooks": {"guard": "INFERNO_VERIF", "enable": "no source hooks are needed: every observation point is public API (the variable is set by the harness but nothing in /repo reads it)",
              "baseline_off_cmd": "cd /repo && /venv/bin/python -m pytest -ra -q -p no:cacheprovider --timeout=900 --continue-on-collection-errors",
              "source_commits": [], "add_only": True},
    "engines": [{"name": "coq-proof+correspondence", "path": "/verif/tools/check.py",
                 "serves_properties": [c["property_id"] for c in checks],
                 "kind_free_text": "Coq 8.16.1 theorems over a model of the code (kernels re-translated from /repo on every run by tools/translate.py; hand-written state machines tied by a vm_compute-vs-implementation correspondence check), plus direct oracles used as failing-input search"}],
    "checks": checks,
    "not_applicable": na,
    "notes": "See DESIGN.md. known_findings.json lists unrepaired genuine defects (KNOWN-FINDING lines) and the repaired ones (fixed: entries, which suppress nothing).",
}
json.dump(man, open(os.path.join(VERIF, "MANIFEST.json"), "w"), indent=1)
print(f"{len(checks)} checks, {len(na)} not claimed")
